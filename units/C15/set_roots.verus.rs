//@ assume: Chain's collaborators are abstract: lock guards are plain values (T6: `self.header_pmmr.write()` => self.header_pmmr_write(), `self.txhashset.write()` => self.txhashset_write()); the read-only extension pair is a ghost state: which header it stands on and which blocks were applied on top; Batch::get_previous_header reads the stored parent (C18/chain_store_tables); Chain::rewind_and_apply_fork leaves BOTH extensions on the header given (C03/rewind_and_apply_fork); the header extension's root, the extension's roots() and sizes() are uninterpreted functions of that state (C15/roots decides roots()); Extension::apply_block (C02/apply_block) adds the block to the state; TxHashSetRoots::output_root(header) (C15/roots) is an uninterpreted function of the roots, the header's version and the header's OUTPUT MMR SIZE; txhashset::extending_readonly returns what its closure returns (closure lifted and verified, T7)
//@ assume: T6: the two simultaneous field borrows `let extension = &mut ext.extension; let header_extension = &mut ext.header_extension;` are dropped and their uses re-addressed (`header_extension.root()` => `ext.header_extension.root()`, `extension.apply_block(b, header_extension, batch)` => `ext.apply_block_pair(b, batch)`, `extension.roots()` / `.sizes()` => `ext.extension.roots()` / `.sizes()`); Block / BlockHeader carry the fields this function touches
//@ assume: decided here (C15 / C04, the PRODUCER side of 'the header commits to the state after the block'): Chain::set_txhashset_roots computes everything on a read-only extension rewound to the block's OWN PARENT with exactly THIS block applied, and sets prev_root = the header MMR root BEFORE the block, output_mmr_size / kernel_mmr_size = the first / THIRD of the sizes triple (not the range-proof size), range_proof_root / kernel_root from the roots, and output_root = roots.output_root(header) evaluated AFTER the output MMR size has been set (it depends on it); nothing else of the block changes
//@ assumed_items: 10
//@ fns: Chain::set_txhashset_roots (+ closure)
#[derive(Clone, Copy, PartialEq, Eq, Structural)]
pub struct Hash { pub v: u64 }
#[derive(Clone, Copy, PartialEq, Eq, Structural)]
pub struct BlockHeader { pub id: u64, pub version: u16, pub prev_root: Hash, pub output_root: Hash, pub range_proof_root: Hash, pub kernel_root: Hash, pub output_mmr_size: u64, pub kernel_mmr_size: u64 }
#[derive(Clone, Copy, PartialEq, Eq, Structural)]
pub struct Block { pub header: BlockHeader, pub body: u64 }
pub enum Error { Store, Other }
#[derive(Clone, Copy, PartialEq, Eq, Structural)]
pub struct TxHashSetRoots { pub id: u64, pub rproof_root: Hash, pub kernel_root: Hash }
pub uninterp spec fn sp_output_root(roots: TxHashSetRoots, version: u16, output_mmr_size: u64) -> Hash;
impl TxHashSetRoots {
    #[verifier::external_body]
    pub fn output_root(&self, header: &BlockHeader) -> (r: Hash) ensures r == sp_output_root(*self, header.version, header.output_mmr_size) { unimplemented!() }
}
/// the stored parent of a header (by identity)
pub uninterp spec fn sp_prev(id: u64) -> BlockHeader;
/// the state of a read-only extension pair: standing on header `on` with block bodies `applied` on top
pub struct St { pub on: Option<u64>, pub applied: Seq<(u64, u64)> }
pub uninterp spec fn sp_header_root(on: Option<u64>) -> Hash;
pub uninterp spec fn sp_roots(s: St) -> TxHashSetRoots;
pub uninterp spec fn sp_sizes(s: St) -> (u64, u64, u64);
pub struct Batch { pub _p: u8 }
impl Batch {
    #[verifier::external_body]
    pub fn get_previous_header(&self, h: &BlockHeader) -> (r: Result<BlockHeader, Error>) ensures r matches Ok(p) ==> p == sp_prev(h.id) { unimplemented!() }
}
pub struct HeaderExtension { pub on: Ghost<Option<u64>> }
impl HeaderExtension {
    #[verifier::external_body]
    pub fn root(&self) -> (r: Result<Hash, Error>) ensures r matches Ok(h) ==> h == sp_header_root(self.on@) { unimplemented!() }
}
pub struct Extension { pub st: Ghost<St> }
impl Extension {
    #[verifier::external_body]
    pub fn roots(&self) -> (r: Result<TxHashSetRoots, Error>) ensures r matches Ok(x) ==> x == sp_roots(self.st@) { unimplemented!() }
    #[verifier::external_body]
    pub fn sizes(&self) -> (r: (u64, u64, u64)) ensures r == sp_sizes(self.st@) { unimplemented!() }
}
pub struct ExtensionPair { pub header_extension: HeaderExtension, pub extension: Extension }
impl ExtensionPair {
    /// extension.apply_block(b, header_extension, batch): the block (identity of its header as handed in, and its body) joins the state; the header extension is only read
    #[verifier::external_body]
    pub fn apply_block_pair(&mut self, b: &Block, batch: &mut Batch) -> (r: Result<(), Error>)
        ensures r.is_ok() ==> final(self).extension.st@ == (St { on: old(self).extension.st@.on, applied: old(self).extension.st@.applied.push((b.header.id, b.body)) }),
            final(self).header_extension == old(self).header_extension { unimplemented!() }
}
pub struct HeaderPmmr { pub _p: u8 }
pub struct TxHashSet { pub _p: u8 }
pub struct RootsClosure<'a> { pub chain: &'a Chain, pub b: &'a Block }
/// what the closure must answer for block b
pub open spec fn sp_answer(b: Block) -> (Hash, TxHashSetRoots, (u64, u64, u64)) {
    let on = Some(sp_prev(b.header.id).id);
    let s = St { on: on, applied: seq![(b.header.id, b.body)] };
    (sp_header_root(on), sp_roots(s), sp_sizes(s))
}
pub mod txhashset {
    use super::*;
    #[verifier::external_body]
    pub fn extending_readonly<'a>(h: &mut HeaderPmmr, t: &mut TxHashSet, f: RootsClosure<'a>) -> (r: Result<(Hash, TxHashSetRoots, (u64, u64, u64)), Error>)
        ensures r matches Ok(x) ==> x == sp_answer(*f.b) { unimplemented!() }
}
pub struct Chain { pub _p: u8 }
impl Chain {
    #[verifier::external_body]
    pub fn header_pmmr_write(&self) -> (r: HeaderPmmr) { unimplemented!() }
    #[verifier::external_body]
    pub fn txhashset_write(&self) -> (r: TxHashSet) { unimplemented!() }
    #[verifier::external_body]
    fn rewind_and_apply_fork(&self, header: &BlockHeader, ext: &mut ExtensionPair, batch: &mut Batch) -> (r: Result<BlockHeader, Error>)
        ensures r is Ok ==> final(ext).extension.st@ == (St { on: Some(header.id), applied: Seq::empty() }) && final(ext).header_extension.on@ == Some(header.id) { unimplemented!() }
//@ extract chain/src/chain.rs :: impl Chain::set_txhashset_roots
//@   closure 1 lifted_as `fn roots_inner(&self, ext: &mut ExtensionPair, batch: &mut Batch, b: &Block) -> Result<(Hash, TxHashSetRoots, (u64, u64, u64)), Error>`
//@   rewrite `\t\t\t\tlet extension = &mut ext.extension;\n\t\t\t\tlet header_extension = &mut ext.header_extension;\n` => ``
//@   rewrite `header_extension.root()?` => `ext.header_extension.root()?`
//@   rewrite `extension.apply_block(b, header_extension, batch)?;` => `ext.apply_block_pair(b, batch)?;`
//@   rewrite `Ok((prev_root, extension.roots()?, extension.sizes()))` => `Ok((prev_root, ext.extension.roots()?, ext.extension.sizes()))`
//@   ensures:
//@+    r matches Ok(x) ==> x == sp_answer(*b),
//@ end
//@ extract chain/src/chain.rs :: impl Chain::set_txhashset_roots
//@   closure 1 replaced_by `RootsClosure { chain: self, b: &*b }`
//@   rewrite `self.header_pmmr.write()` => `self.header_pmmr_write()`
//@   rewrite `self.txhashset.write()` => `self.txhashset_write()`
//@   ensures:
//@+    r is Ok ==> ({ let a = sp_answer(*old(b)); let h0 = old(b).header; let h = final(b).header;
//@+        &&& h.prev_root == a.0 && h.output_mmr_size == a.2.0 && h.kernel_mmr_size == a.2.2
//@+        &&& h.range_proof_root == a.1.rproof_root && h.kernel_root == a.1.kernel_root
//@+        &&& h.output_root == sp_output_root(a.1, h0.version, a.2.0)
//@+        &&& h.id == h0.id && h.version == h0.version && final(b).body == old(b).body }),
//@ end
}
//@ canary set_txhashset_roots: r is Err
