//@ assume: the output PMMR handle / ReadonlyPMMR / BitmapAccumulator are abstract: leaf_idx_iter(0) yields the unspent leaf indices (sp_unspent), n_unpruned_leaves() is the NUMBER OF UNSPENT leaves (the leaf set's size -- a different uninterpreted function from pmmr::n_leaves(size), the number of leaves ever pushed); BitmapAccumulator::init(indices, nbits) is recorded in a ghost field (what it builds from them is C15/chunks + apply_from, outside)
//@ assume: T5: generic handle types collapsed; T6: `ReadonlyPMMR::at(&pmmr_h.backend, pmmr_h.size)` => readonly_at(pmmr_h)
//@ assume: decided here (C15, 'the same after a restart'): the accumulator TxHashSet::open builds at start-up (TxHashSet::bitmap_accumulator) is initialised from the unspent leaf indices of the output MMR and sized by the TOTAL number of leaves of that MMR, n_leaves(size) -- not by the number of unspent ones, which would drop every unspent index beyond that count
//@ assumed_items: 6
//@ fns: TxHashSet::bitmap_accumulator
pub enum Error { Other }
pub struct Backend { pub _p: u8 }
pub struct PMMRHandle { pub backend: Backend, pub size: u64 }
pub uninterp spec fn sp_n_leaves(size: u64) -> u64;
pub uninterp spec fn sp_unspent(h: PMMRHandle) -> Seq<u64>;
pub uninterp spec fn sp_n_unspent(h: PMMRHandle) -> u64;
pub mod pmmr { use super::*;
    #[verifier::external_body]
    pub fn n_leaves(size: u64) -> (r: u64) ensures r == sp_n_leaves(size) { unimplemented!() } }
pub struct LeafIdxIter { pub items: Ghost<Seq<u64>> }
pub struct ReadonlyPMMR { pub h: Ghost<PMMRHandle> }
impl ReadonlyPMMR {
    #[verifier::external_body]
    pub fn leaf_idx_iter(&self, from_idx: u64) -> (r: LeafIdxIter) ensures from_idx == 0 ==> r.items@ == sp_unspent(self.h@) { unimplemented!() }
    #[verifier::external_body]
    pub fn n_unpruned_leaves(&self) -> (r: u64) ensures r == sp_n_unspent(self.h@) { unimplemented!() }
}
#[verifier::external_body]
fn readonly_at(pmmr_h: &PMMRHandle) -> (r: ReadonlyPMMR) ensures r.h@ == *pmmr_h { unimplemented!() }
pub struct BitmapAccumulator { pub built_from: Ghost<Option<(Seq<u64>, u64)>> }
impl BitmapAccumulator {
    #[verifier::external_body]
    pub fn new() -> (r: BitmapAccumulator) ensures r.built_from@.is_none() { unimplemented!() }
    #[verifier::external_body]
    pub fn init(&mut self, idx: &mut LeafIdxIter, size: u64) -> (r: Result<(), Error>)
        ensures r.is_ok() ==> final(self).built_from@ == Some((old(idx).items@, size)) { unimplemented!() }
}
pub struct TxHashSet { pub _p: u8 }
impl TxHashSet {
//@ extract chain/src/txhashset/txhashset.rs :: impl TxHashSet::bitmap_accumulator
//@   sigrewrite `pmmr_h: &PMMRHandle<OutputIdentifier>,` => `pmmr_h: &PMMRHandle,`
//@   rewrite `let pmmr = ReadonlyPMMR::at(&pmmr_h.backend, pmmr_h.size);` => `let pmmr = readonly_at(pmmr_h);`
//@   ensures:
//@+    r matches Ok(acc) ==> acc.built_from@ == Some((sp_unspent(*pmmr_h), sp_n_leaves(pmmr_h.size))),
//@ end
}
//@ canary bitmap_accumulator: r.is_err()
