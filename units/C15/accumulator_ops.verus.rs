//@ assume: the accumulator's backend (VecBackend<BitmapChunk>) is seen as the ghost sequence of its LEAVES (1024-bit chunks); PMMR::at(&mut backend, size).push(chunk) appends one leaf, .rewind(pos, ..) keeps the leaves of the MMR of size round_up_to_leaf_pos(pos) (PMMR::push / rewind are under contract in C07/pmmr_push, C07/pmmr_rewind); pmmr::insertion_to_pmmr_index(k) is the size of the MMR with k leaves and pmmr::n_leaves its inverse on such sizes (C07/pmmr_arith); backend.size() is the MMR size of the current leaves. BitmapChunk::new() is the all-zero chunk. apply_from (the peekable-iterator loop that cuts the index stream into chunks) is ABSTRACT here: assumed to append, to an accumulator holding exactly chunk_idx(from_idx) leaves, the chunks of the bitmap `idx` from that chunk on (sp_chunks_from) -- its own loop is not decided.
//@ assume: T6: `.map_err(Error::Other)?` / `.map_err(Error::Other)` => `?` / identity against callees that already return the final error; `&Bitmap::new()` => `&bitmap_new()`; `for _ in current_chunk_idx..chunk_idx {` => `for i in current_chunk_idx..chunk_idx {`; `invalidated_idx.into_iter().next()` => `first_of(invalidated_idx)`; T5: the generic index iterators are an abstract `IdxList` value
//@ assume: decided here (C15, the incremental update path of the bitmap commitment): BitmapAccumulator::rewind_prior(from_idx) keeps EXACTLY the chunks before the chunk of from_idx (all of them if there are fewer) -- for every accumulator length, not only short ones; pad_left(from_idx) then fills with all-zero chunks up to exactly that chunk index; append_chunk appends exactly the chunk given; apply(invalidated, idx, size) with a first invalidated index f rewinds to the chunk of f, pads, and rebuilds from there: the result is old.take(min(len, c)) ++ zero padding up to c ++ the chunks of idx from chunk c on, c = chunk_idx(f); with no invalidated index nothing changes; init(idx, size) on an EMPTY accumulator is the from-scratch value sp_chunks_from(idx, 0, size).
//@ assumed_items: 12
//@ fns: BitmapAccumulator::rewind_prior, BitmapAccumulator::pad_left, BitmapAccumulator::append_chunk, BitmapAccumulator::apply, BitmapAccumulator::init, BitmapAccumulator::chunk_idx
pub enum Error { Other, Store }
#[derive(Clone, Copy)]
pub struct BitmapChunk { pub bits: Ghost<Set<int>> }
impl BitmapChunk {
    pub fn new() -> (r: BitmapChunk) ensures r.bits@ == Set::<int>::empty() { BitmapChunk { bits: Ghost(Set::empty()) } }
}
#[verifier::external_body]
pub struct Bitmap { _p: u8 }
#[verifier::external_body]
pub fn bitmap_new() -> (r: Bitmap) { unimplemented!() }
#[verifier::external_body]
pub struct IdxList { _p: u8 }
pub uninterp spec fn sp_first(l: IdxList) -> Option<u64>;
#[verifier::external_body]
pub fn first_of(l: IdxList) -> (r: Option<u64>) ensures r == sp_first(l) { unimplemented!() }
/// size of the MMR with k leaves / number of leaves of an MMR of that size (uninterpreted here; C07/pmmr_arith)
pub uninterp spec fn sp_size_of(k: nat) -> u64;
pub uninterp spec fn sp_leaves_of(size: u64) -> nat;
#[verifier::external_body]
pub proof fn axiom_size_leaves(k: nat) ensures sp_leaves_of(sp_size_of(k)) == k { }
pub mod pmmr {
    use super::*;
    #[verifier::external_body]
    pub fn insertion_to_pmmr_index(k: u64) -> (r: u64) ensures r == sp_size_of(k as nat) { unimplemented!() }
    #[verifier::external_body]
    pub fn n_leaves(size: u64) -> (r: u64) ensures r as nat == sp_leaves_of(size) { unimplemented!() }
}
pub struct VecBackend { pub leaves: Ghost<Seq<BitmapChunk>> }
impl VecBackend {
    #[verifier::external_body]
    pub fn size(&self) -> (r: u64) ensures r == sp_size_of(self.leaves@.len()), self.leaves@.len() <= u64::MAX { unimplemented!() }
}
pub struct PMMR<'a> { pub backend: &'a mut VecBackend, pub size: u64 }
pub open spec fn min_nat(a: nat, b: nat) -> nat { if a <= b { a } else { b } }
impl<'a> PMMR<'a> {
    #[verifier::external_body]
    pub fn at(backend: &'a mut VecBackend, size: u64) -> (r: PMMR<'a>) ensures r.backend == backend, r.size == size { unimplemented!() }
    /// PMMR::push over a VecBackend: one more leaf (plus the parents the definition asks for: C07/pmmr_push)
    #[verifier::external_body]
    pub fn push(self, c: &BitmapChunk) -> (r: Result<u64, Error>)
        ensures r.is_ok() ==> final(self.backend).leaves@ == old(self.backend).leaves@.push(*c), r.is_err() ==> final(self.backend).leaves@ == old(self.backend).leaves@ { unimplemented!() }
    /// PMMR::rewind: keeps the leaves of the MMR of the (leaf-rounded) size `pos`; a position beyond the end keeps everything (stand-in takes the PMMR by value: the real `&mut self` call ends the borrow right after)
    #[verifier::external_body]
    pub fn rewind(self, pos: u64, rm: &Bitmap) -> (r: Result<(), Error>)
        ensures r.is_ok() ==> final(self.backend).leaves@ == old(self.backend).leaves@.take(min_nat(old(self.backend).leaves@.len(), sp_leaves_of(pos)) as int),
            r.is_err() ==> final(self.backend).leaves@ == old(self.backend).leaves@ { unimplemented!() }
}
pub const NBITS_SPEC: u64 = 1024;
/// the chunks of the bitmap `idx` (restricted to < size) from chunk c on: what a from-scratch build puts at positions c, c+1, ...
pub uninterp spec fn sp_chunks_from(idx: IdxList, c: nat, size: u64) -> Seq<BitmapChunk>;
pub open spec fn sp_zeros(n: nat) -> Seq<BitmapChunk> { Seq::new(n, |i: int| BitmapChunk { bits: Ghost(Set::<int>::empty()) }) }
pub struct BitmapAccumulator { pub backend: VecBackend }
impl BitmapAccumulator {
    pub const NBITS: u64 = 1024;
//@ extract chain/src/txhashset/bitmap_accumulator.rs :: impl BitmapAccumulator::chunk_idx
//@   ensures:
//@+    r == idx / 1024,
//@ end
    /// abstract: see the first assumption
    #[verifier::external_body]
    fn apply_from(&mut self, idx: IdxList, from_idx: u64, size: u64) -> (r: Result<(), Error>)
        ensures r.is_ok() && old(self).backend.leaves@.len() == (from_idx / 1024) as nat ==> final(self).backend.leaves@ == old(self).backend.leaves@ + sp_chunks_from(idx, (from_idx / 1024) as nat, size) { unimplemented!() }
//@ extract chain/src/txhashset/bitmap_accumulator.rs :: impl BitmapAccumulator::append_chunk
//@   rewrite `\n\t\t\t.map_err(Error::Other)` => `` x?
//@   ensures:
//@+    r.is_ok() ==> final(self).backend.leaves@ == old(self).backend.leaves@.push(chunk),
//@+    r.is_err() ==> final(self).backend.leaves@ == old(self).backend.leaves@,
//@ end
//@ extract chain/src/txhashset/bitmap_accumulator.rs :: impl BitmapAccumulator::rewind_prior
//@   rewrite `pmmr.rewind(rewind_pos, &Bitmap::new())\n\t\t\t.map_err(Error::Other)?;` => `pmmr.rewind(rewind_pos, &bitmap_new())?;` x?
//@   at_start:
//@+    proof { axiom_size_leaves((from_idx / 1024) as nat); }
//@   ensures:
//@+    // exactly the chunks BEFORE the chunk of from_idx survive, whatever the accumulator's length
//@+    r.is_ok() ==> final(self).backend.leaves@ == old(self).backend.leaves@.take(min_nat(old(self).backend.leaves@.len(), (from_idx / 1024) as nat) as int),
//@ end
//@ extract chain/src/txhashset/bitmap_accumulator.rs :: impl BitmapAccumulator::pad_left
//@   rewrite `for _ in ` => `for i in iter: ` x?
//@   at_start:
//@+    proof { axiom_size_leaves(self.backend.leaves@.len()); }
//@   ensures:
//@+    r.is_ok() ==> final(self).backend.leaves@ =~= old(self).backend.leaves@ + sp_zeros(if old(self).backend.leaves@.len() < (from_idx / 1024) as nat { ((from_idx / 1024) as nat - old(self).backend.leaves@.len()) as nat } else { 0 }),
//@   loop 1?:
//@+    invariant
//@+        current_chunk_idx as nat == old(self).backend.leaves@.len(), chunk_idx == from_idx / 1024,
//@+        iter.snapshot.start == current_chunk_idx, iter.snapshot.end == chunk_idx,
//@+        self.backend.leaves@ =~= old(self).backend.leaves@ + sp_zeros(iter.index@ as nat),
//@ end
//@ extract chain/src/txhashset/bitmap_accumulator.rs :: impl BitmapAccumulator::apply
//@   sigrewrite `pub fn apply<T, U>(&mut self, invalidated_idx: T, idx: U, size: u64) -> Result<(), Error>` => `pub fn apply(&mut self, invalidated_idx: IdxList, idx: IdxList, size: u64) -> Result<(), Error>`
//@   sigrewrite `\tT: IntoIterator<Item = u64>,\n\t\tU: IntoIterator<Item = u64>,\n` => ``
//@   rewrite `invalidated_idx.into_iter().next()` => `first_of(invalidated_idx)` x?
//@   ensures:
//@+    (r.is_ok() && sp_first(invalidated_idx) is None) ==> final(self).backend.leaves@ == old(self).backend.leaves@,
//@+    (r.is_ok() && sp_first(invalidated_idx) is Some) ==> ({
//@+        let c = (sp_first(invalidated_idx)->Some_0 / 1024) as nat; let kept = old(self).backend.leaves@.take(min_nat(old(self).backend.leaves@.len(), c) as int);
//@+        final(self).backend.leaves@ == kept + sp_zeros((c - kept.len()) as nat) + sp_chunks_from(idx, c, size) }),
//@ end
//@ extract chain/src/txhashset/bitmap_accumulator.rs :: impl BitmapAccumulator::init
//@   sigrewrite `pub fn init<T: IntoIterator<Item = u64>>(&mut self, idx: T, size: u64) -> Result<(), Error>` => `pub fn init(&mut self, idx: IdxList, size: u64) -> Result<(), Error>`
//@   ensures:
//@+    (r.is_ok() && old(self).backend.leaves@.len() == 0) ==> final(self).backend.leaves@ == sp_chunks_from(idx, 0, size),
//@ end
}
//@ canary rewind_prior: r.is_err()
