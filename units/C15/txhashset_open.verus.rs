//@ assume: PMMRHandle::new(dir, prunable, version, header) opens a backend: abstract, the handle remembers which sub-directory, whether prunable, which protocol version and whether a header snapshot was asked for (C08/C09 units decide what the store layer reads); directory paths are an abstract tag (T6: `Path::new(&root_dir).join(TXHASHSET_SUBDIR).join(X)` => sub_dir(&root_dir, X) -- three occurrences, multi-line); TxHashSet::bitmap_accumulator (C15/accumulator_startup decides it) answers the accumulator of the handle it is GIVEN; reading the first kernel (`ReadonlyPMMR::at(&handle.backend, 1).get_data(0)`, T6 => first_kernel(&handle)) and TxKernel::verify are abstract; `vec![ProtocolVersion(2), ProtocolVersion(1)]` + `for version in versions {` => the same two values in an index loop; the error string => msg(); T3: log macros removed
//@ assume: decided here (C15 'the committed bitmap is independent of the path taken' / C09 reopen): TxHashSet::open builds the bitmap accumulator FROM THE OUTPUT MMR it has just opened (not from the range-proof MMR, not from a stale copy), opens the output and range-proof MMRs prunable with the SAME optional header snapshot and the kernel MMR non-prunable without one, tries kernel protocol version 2 BEFORE version 1 and keeps the first handle that is empty or whose first kernel reads and verifies, fails if neither does, and hands the store it was given through unchanged
//@ assumed_items: 5
//@ fns: TxHashSet::open
global size_of usize == 8;
#[derive(Clone, Copy, PartialEq, Eq, Structural)]
pub struct ProtocolVersion(pub u32);
#[derive(Clone, Copy, PartialEq, Eq, Structural)]
pub struct BlockHeader { pub id: u64 }
pub struct Msg { pub _p: u8 }
pub fn msg() -> Msg { Msg { _p: 0 } }
pub enum Error { TxHashSetErr(Msg), Other }
#[derive(Clone, Copy, PartialEq, Eq, Structural)]
pub enum SubDir { Output, RangeProof, Kernel }
pub const OUTPUT_SUBDIR: SubDir = SubDir::Output;
pub const RANGE_PROOF_SUBDIR: SubDir = SubDir::RangeProof;
pub const KERNEL_SUBDIR: SubDir = SubDir::Kernel;
pub struct DirPath { pub sub: SubDir }
#[verifier::external_body]
pub fn sub_dir(root: &String, s: SubDir) -> (r: DirPath) ensures r.sub == s { unimplemented!() }
#[derive(Clone, Copy, PartialEq, Eq, Structural)]
pub struct TxKernel { pub id: u64 }
pub uninterp spec fn sp_kernel_ok(k: TxKernel) -> bool;
impl TxKernel {
    #[verifier::external_body]
    pub fn verify(&self) -> (r: Result<(), Error>) ensures r is Ok == sp_kernel_ok(*self) { unimplemented!() }
}
pub struct PMMRHandle { pub sub: SubDir, pub prunable: bool, pub version: ProtocolVersion, pub snapshot: Option<BlockHeader>, pub size: u64 }
/// size and first kernel of the kernel MMR as read with a given protocol version
pub uninterp spec fn sp_ksize(v: ProtocolVersion) -> u64;
pub uninterp spec fn sp_first_kernel(v: ProtocolVersion) -> Option<TxKernel>;
impl PMMRHandle {
    #[verifier::external_body]
    pub fn new(dir: DirPath, prunable: bool, version: ProtocolVersion, header: Option<&BlockHeader>) -> (r: Result<PMMRHandle, Error>)
        ensures r matches Ok(h) ==> h.sub == dir.sub && h.prunable == prunable && h.version == version && h.snapshot == (match header { Some(x) => Some(*x), None => None::<BlockHeader> }) && (dir.sub == SubDir::Kernel ==> h.size == sp_ksize(version)) { unimplemented!() }
}
#[verifier::external_body]
pub fn first_kernel(h: &PMMRHandle) -> (r: Option<TxKernel>) ensures r == sp_first_kernel(h.version) { unimplemented!() }
pub struct BitmapAccumulator { pub of: Ghost<PMMRHandle> }
pub struct ChainStoreArc { pub id: u64 }
pub struct TxHashSet { pub output_pmmr_h: PMMRHandle, pub rproof_pmmr_h: PMMRHandle, pub kernel_pmmr_h: PMMRHandle, pub bitmap_accumulator: BitmapAccumulator, pub commit_index: ChainStoreArc }
/// the kernel MMR opens with version v
pub open spec fn sp_kv_ok(v: ProtocolVersion) -> bool { sp_ksize(v) == 0 || (sp_first_kernel(v) matches Some(k) && sp_kernel_ok(k)) }
impl TxHashSet {
    #[verifier::external_body]
    fn bitmap_accumulator(pmmr_h: &PMMRHandle) -> (r: Result<BitmapAccumulator, Error>) ensures r matches Ok(a) ==> a.of@ == *pmmr_h { unimplemented!() }
//@ extract chain/src/txhashset/txhashset.rs :: impl TxHashSet::open
//@   strip_logs
//@   sigrewrite `commit_index: Arc<ChainStore>,` => `commit_index: ChainStoreArc,`
//@   rewrite `Path::new(&root_dir)\n\t\t\t\t.join(TXHASHSET_SUBDIR)\n\t\t\t\t.join(OUTPUT_SUBDIR)` => `sub_dir(&root_dir, OUTPUT_SUBDIR)`
//@   rewrite `Path::new(&root_dir)\n\t\t\t\t.join(TXHASHSET_SUBDIR)\n\t\t\t\t.join(RANGE_PROOF_SUBDIR)` => `sub_dir(&root_dir, RANGE_PROOF_SUBDIR)`
//@   rewrite `Path::new(&root_dir)\n\t\t\t\t\t.join(TXHASHSET_SUBDIR)\n\t\t\t\t\t.join(KERNEL_SUBDIR)` => `sub_dir(&root_dir, KERNEL_SUBDIR)`
//@   rewrite `let mut maybe_kernel_handle: Option<PMMRHandle<TxKernel>> = None;` => `let mut maybe_kernel_handle: Option<PMMRHandle> = None;`
//@   rewrite `let versions = vec![` => `let versions = [`
//@   rewrite `];\n\t\tfor version in versions {` => `]; let mut vi: usize = 0; while vi < 2 { let version = versions[vi]; vi += 1;`
//@   rewrite `ReadonlyPMMR::at(&handle.backend, 1).get_data(0)` => `first_kernel(&handle)`
//@   rewrite `"failed to open kernel PMMR".to_string()` => `msg()`
//@   ensures:
//@+    r matches Ok(t) ==> ({
//@+        &&& t.output_pmmr_h.sub == SubDir::Output && t.output_pmmr_h.prunable && t.rproof_pmmr_h.sub == SubDir::RangeProof && t.rproof_pmmr_h.prunable
//@+        &&& t.output_pmmr_h.snapshot == (match header { Some(x) => Some(*x), None => None::<BlockHeader> }) && t.rproof_pmmr_h.snapshot == t.output_pmmr_h.snapshot
//@+        &&& t.kernel_pmmr_h.sub == SubDir::Kernel && !t.kernel_pmmr_h.prunable && t.kernel_pmmr_h.snapshot is None
//@+        &&& t.bitmap_accumulator.of@ == t.output_pmmr_h
//@+        &&& t.commit_index.id == commit_index.id
//@+        &&& sp_kv_ok(t.kernel_pmmr_h.version) && (t.kernel_pmmr_h.version == ProtocolVersion(2) || (t.kernel_pmmr_h.version == ProtocolVersion(1) && !sp_kv_ok(ProtocolVersion(2)))) }),
//@   loop 1:
//@+    invariant_except_break
//@+        maybe_kernel_handle is None,
//@+    invariant
//@+        vi <= 2, versions@ == seq![ProtocolVersion(2), ProtocolVersion(1)],
//@+        forall|i: int| 0 <= i < vi ==> maybe_kernel_handle is None ==> !sp_kv_ok(#[trigger] versions@[i]),
//@+    ensures
//@+        maybe_kernel_handle matches Some(h) ==> h.sub == SubDir::Kernel && !h.prunable && h.snapshot is None && sp_kv_ok(h.version) && (h.version == ProtocolVersion(2) || (h.version == ProtocolVersion(1) && !sp_kv_ok(ProtocolVersion(2)))),
//@+    decreases 2 - vi,
//@ end
}
//@ canary open: r is Err
