//@ assume: T5/T6 rewrites: `fn next_nonce(&self)` => free-standing over `nonces: &mut VecDeque<u64>` (the `self.nonces.write()` RwLock acquisition is dropped: the lock guard derefs to exactly this VecDeque; locking itself is not verified); `thread_rng().gen()` => abstract `fresh_u64()`; VecDeque push_back / pop_front / len use vstd's specifications
//@ assume: decided here: the nonce ring really is a most-recent-first-dropped ring -- after next_nonce the returned nonce is IN the ring (so a connection to ourselves carrying it will be recognised by `nonces.contains`), the ring holds only old entries and the new nonce (stated over membership, not order, so a ring kept in the other direction also satisfies it), loses at most one entry and only when it is full, and the ring never reaches NONCES_CAP entries (bounded memory)
//@ assumed_items: 1
//@ fns: Handshake::next_nonce
use std::collections::VecDeque;
//@ extract p2p/src/handshake.rs :: const NONCES_CAP
//@ end
#[verifier::external_body]
fn fresh_u64() -> (r: u64) { unimplemented!() }

/// membership facts of a ring step, for either direction of the ring (proof hint only: the contract below does not mention order)
proof fn lemma_ring(o: Seq<u64>, f: Seq<u64>, n: u64)
    ensures (f == o.push(n) || f == o.push(n).skip(1) || f == seq![n] + o || f == (seq![n] + o).drop_last()) && f.len() >= 1 ==> {
            &&& f.contains(n)
            &&& forall|x: u64| f.contains(x) ==> o.contains(x) || x == n
            &&& (f == o.push(n) || f == seq![n] + o) ==> forall|x: u64| o.contains(x) ==> f.contains(x) }
{
    if !((f == o.push(n) || f == o.push(n).skip(1) || f == seq![n] + o || f == (seq![n] + o).drop_last()) && f.len() >= 1) { return; }
    let p = o.push(n); let q = seq![n] + o;
    assert(p[p.len() - 1] == n); assert(q[0] == n);
    if f == p { assert(f[f.len() - 1] == n); }
    else if f == p.skip(1) { assert(f[f.len() - 1] == p[p.len() - 1]); }
    else if f == q { assert(f[0] == n); }
    else { assert(f[0] == q[0]); }
    assert forall|x: u64| f.contains(x) implies o.contains(x) || x == n by {
        let k = choose|k: int| 0 <= k < f.len() && f[k] == x;
        if f == p { if k < o.len() { assert(o[k] == x); } }
        else if f == p.skip(1) { assert(p[k + 1] == x); if k + 1 < o.len() { assert(o[k + 1] == x); } }
        else if f == q { if k > 0 { assert(o[k - 1] == x); } }
        else { assert(q[k] == x); if k > 0 { assert(o[k - 1] == x); } }
    }
    if f == p || f == q {
        assert forall|x: u64| o.contains(x) implies f.contains(x) by {
            let k = choose|k: int| 0 <= k < o.len() && o[k] == x;
            if f == p { assert(f[k] == x); } else { assert(f[k + 1] == x); }
        }
    }
}

//@ extract p2p/src/handshake.rs :: impl Handshake::next_nonce
//@   sigrewrite `fn next_nonce(&self)` => `fn next_nonce(nonces: &mut VecDeque<u64>)`
//@   rewrite `let nonce = thread_rng().gen();` => `let nonce = fresh_u64();`
//@   rewrite `\t\tlet mut nonces = self.nonces.write();\n` => ``
//@   before `\t\tnonce\n`:
//@+    proof { lemma_ring(old(nonces)@, nonces@, nonce); }
//@   requires:
//@+    old(nonces)@.len() < NONCES_CAP,
//@   ensures:
//@+    final(nonces)@.contains(r),
//@+    final(nonces)@.len() < NONCES_CAP,
//@+    final(nonces)@.len() >= old(nonces)@.len() || final(nonces)@.len() == NONCES_CAP - 2,
//@+    forall|x: u64| final(nonces)@.contains(x) ==> old(nonces)@.contains(x) || x == r,
//@+    old(nonces)@.len() + 1 < NONCES_CAP ==> forall|x: u64| old(nonces)@.contains(x) ==> final(nonces)@.contains(x),
//@ end
//@ canary next_nonce: final(nonces)@.len() == 1
