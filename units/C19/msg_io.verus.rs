//@ assume: the socket / file are ABSTRACT BYTE STREAMS: an InStream is the sequence of bytes still to come, read_exact(buf) either fails or fills the WHOLE buffer with the next bytes and consumes exactly them; an OutStream is what has been written, write_all(bytes) either fails or appends exactly them; an attachment File yields its content chunk by chunk (read: Ok(0) at the end, Ok(n) with n <= the buffer otherwise; that the chunks are finite is NOT assumed: termination of the copy loop is not decided); ser::deserialize / ser::ser_vec are uninterpreted (their contracts: C10 / C11 units); the send-rate delay (tracker clock, thread::sleep) is abstract; Tracker counters are ghost
//@ assume: T6: `vec![0u8; n]` => zeroed(n); `ser::deserialize(&mut &head[..], version, DeserializationMode::default())?` => deser_header(&head, version)? / deser_body; `buf.extend(&msg.body[..])` => extend_bytes; `&buf[..]` / `&buf[..n]` => slice helpers; `Err(From::from(e))` => Err(Error::Io); `.map_err(From::from)` dropped against an abstract callee returning the final error type; T5: generic `<T: Readable>` => one abstract body type; `R: Read` stays generic over a `Read` trait carrying read_exact's contract (std::io::BufReader is OFFERED as an implementor that reads ahead); `W: Write` => the abstract output stream
//@ assume: decided here (C19 'any sequence of protocol messages written by one peer is read by the other as the identical sequence', at the level of ONE message): write_message puts on the wire EXACTLY the encoded header, then the body, then the attachment's bytes in order, and counts header + body bytes once; Msg::new announces EXACTLY the body's length in the header; read_header consumes exactly the 11 header bytes; read_body consumes exactly the announced msg_len bytes and decodes THEM; read_discard consumes exactly msg_len bytes; read_message returns a body only for a known header of the EXPECTED type, having consumed header + exactly the announced body; an unknown type is skipped by consuming exactly its announced length (no desynchronisation) and answered BadMessage
//@ assumed_items: 19
//@ fns: msg::read_header, msg::read_body, msg::read_discard, msg::read_message, msg::write_message, Msg::new, MsgHeader::new
global size_of usize == 8;
pub enum Error { BadMessage, Io, Ser }
#[derive(Clone, Copy, PartialEq, Eq)]
pub struct ProtocolVersion { pub v: u32 }
#[derive(Clone, Copy, PartialEq, Eq, Structural)]
pub struct Type { pub t: u8 }
#[derive(Clone, Copy)]
pub struct MsgHeader { pub magic: [u8; 2], pub msg_type: Type, pub msg_len: u64 }
pub enum MsgHeaderWrapper { Known(MsgHeader), Unknown(u64, u8) }
#[verifier::external_body]
pub struct Body { _p: u8 }
pub uninterp spec fn sp_deser_header(bytes: Seq<u8>, v: ProtocolVersion) -> Result<MsgHeaderWrapper, Error>;
pub uninterp spec fn sp_deser_body(bytes: Seq<u8>, v: ProtocolVersion) -> Result<Body, Error>;
pub uninterp spec fn sp_ser_header(h: MsgHeader, v: ProtocolVersion) -> Result<Seq<u8>, Error>;
pub uninterp spec fn sp_ser_body(b: &Body, v: ProtocolVersion) -> Result<Seq<u8>, Error>;
pub uninterp spec fn sp_magic() -> [u8; 2];
#[verifier::external_body]
pub fn magic() -> (r: [u8; 2]) ensures r == sp_magic() { unimplemented!() }
#[verifier::external_body]
pub fn deser_header(bytes: &Vec<u8>, v: ProtocolVersion) -> (r: Result<MsgHeaderWrapper, Error>) ensures r == sp_deser_header(bytes@, v), r matches Err(e) ==> e is Ser { unimplemented!() }
#[verifier::external_body]
pub fn deser_body(bytes: &Vec<u8>, v: ProtocolVersion) -> (r: Result<Body, Error>) ensures r == sp_deser_body(bytes@, v), r matches Err(e) ==> e is Ser { unimplemented!() }
pub mod ser { use super::*;
    #[verifier::external_body]
    pub fn ser_vec_header(h: &MsgHeader, v: ProtocolVersion) -> (r: Result<Vec<u8>, Error>) ensures (r matches Ok(b) ==> sp_ser_header(*h, v) == Ok::<Seq<u8>, Error>(b@)), (r is Err ==> sp_ser_header(*h, v) is Err) { unimplemented!() }
    #[verifier::external_body]
    pub fn ser_vec_body(m: &Body, v: ProtocolVersion) -> (r: Result<Vec<u8>, Error>) ensures (r matches Ok(b) ==> sp_ser_body(m, v) == Ok::<Seq<u8>, Error>(b@)), (r is Err ==> sp_ser_body(m, v) is Err) { unimplemented!() }
}
/// offered (not used by the pinned text of the functions under contract here): the per-type body limit (C19/msg_header)
#[verifier::external_body]
pub fn max_msg_size(msg_type: Type) -> (r: u64) ensures r <= 0x1000_0000 { unimplemented!() }
#[verifier::external_body]
pub fn zeroed(n: usize) -> (r: Vec<u8>) ensures r@.len() == n { unimplemented!() }
#[verifier::external_body]
pub fn extend_bytes(v: &mut Vec<u8>, more: &Vec<u8>) ensures final(v)@ == old(v)@ + more@ { unimplemented!() }
pub open spec fn unknown_len(r: Result<MsgHeaderWrapper, Error>) -> Option<u64> { match r { Ok(MsgHeaderWrapper::Unknown(n, _)) => Some(n), _ => None } }
/// std::io::Read, as far as this file uses it
pub trait Read {
    spec fn rest(&self) -> Seq<u8>;
    fn read_exact(&mut self, buf: &mut Vec<u8>) -> (r: Result<(), Error>)
        ensures final(buf)@.len() == old(buf)@.len(), (r matches Err(e) ==> e is Io), r is Ok ==> old(self).rest().len() >= old(buf)@.len() && final(buf)@ == old(self).rest().take(old(buf)@.len() as int) && final(self).rest() == old(self).rest().skip(old(buf)@.len() as int);
}
pub struct InStream { pub bytes: Ghost<Seq<u8>> }
impl Read for InStream {
    open spec fn rest(&self) -> Seq<u8> { self.bytes@ }
    #[verifier::external_body]
    fn read_exact(&mut self, buf: &mut Vec<u8>) -> (r: Result<(), Error>) { unimplemented!() }
}
/// std::io::BufReader (OFFERED: the pinned text reads the stream directly): reads AHEAD -- what it hands out is the stream's bytes in order, but
/// it may have taken more from the underlying stream than it has handed out (up to its capacity), and what it holds is lost when it is dropped
pub struct BufReader<'a, R: Read> { pub inner: &'a mut R, pub held: Ghost<Seq<u8>> }
impl<'a, R: Read> BufReader<'a, R> {
    #[verifier::external_body]
    pub fn with_capacity(cap: usize, inner: &'a mut R) -> (r: BufReader<'a, R>) ensures r.held@.len() == 0, r.inner.rest() == old(inner).rest() { unimplemented!() }
}
impl<'a, R: Read> Read for BufReader<'a, R> {
    open spec fn rest(&self) -> Seq<u8> { self.held@ + self.inner.rest() }
    #[verifier::external_body]
    fn read_exact(&mut self, buf: &mut Vec<u8>) -> (r: Result<(), Error>) { unimplemented!() }
}
pub struct OutStream { pub out: Ghost<Seq<u8>> }
impl OutStream {
    #[verifier::external_body]
    pub fn write_all(&mut self, bytes: &Vec<u8>) -> (r: Result<(), Error>) ensures r is Ok ==> final(self).out@ == old(self).out@ + bytes@ { unimplemented!() }
    #[verifier::external_body]
    pub fn write_all_prefix(&mut self, bytes: &[u8; 8000], n: usize) -> (r: Result<(), Error>) requires n <= 8000 ensures r is Ok ==> final(self).out@ == old(self).out@ + bytes@.subrange(0, n as int) { unimplemented!() }
}
/// an attachment being streamed: its whole content and the read offset (ASSUMED, std::io::Read on a file with a non-empty buffer: Ok(0) only at the end)
pub struct File { pub content: Ghost<Seq<u8>>, pub pos: Ghost<int> }
impl File {
    #[verifier::external_body]
    pub fn try_clone(&self) -> (r: Result<File, Error>) ensures r matches Ok(f) ==> f.content@ == self.content@ && f.pos@ == self.pos@ { unimplemented!() }
    #[verifier::external_body]
    pub fn read(&mut self, buf: &mut [u8; 8000]) -> (r: Result<usize, Error>)
        requires 0 <= old(self).pos@ <= old(self).content@.len()
        ensures final(self).content@ == old(self).content@,
            r matches Ok(n) ==> n <= 8000 && final(self).pos@ == old(self).pos@ + n && final(self).pos@ <= final(self).content@.len()
                && final(buf)@.subrange(0, n as int) == old(self).content@.subrange(old(self).pos@, old(self).pos@ + n) && (n == 0 ==> old(self).pos@ == old(self).content@.len()),
            r is Err ==> final(self).pos@ == old(self).pos@ { unimplemented!() }
}
pub struct Tracker { pub sent: Ghost<int>, pub quiet: Ghost<int>, pub msgs: Ghost<int> }
impl Tracker {
    #[verifier::external_body]
    pub fn pace(&self) { unimplemented!() }
    #[verifier::external_body]
    pub fn inc_sent(&mut self, n: u64) ensures final(self).sent@ == old(self).sent@ + n, final(self).msgs@ == old(self).msgs@ + 1, final(self).quiet@ == old(self).quiet@ { unimplemented!() }
    #[verifier::external_body]
    pub fn inc_quiet_sent(&mut self, n: u64) ensures final(self).quiet@ == old(self).quiet@ + n, final(self).msgs@ == old(self).msgs@, final(self).sent@ == old(self).sent@ { unimplemented!() }
}
pub struct Msg { pub header: MsgHeader, pub body: Vec<u8>, pub attachment: Option<File>, pub version: ProtocolVersion }
impl MsgHeader {
    pub const LEN: usize = 2 + 1 + 8;
//@ extract p2p/src/msg.rs :: impl MsgHeader::new
//@   ensures:
//@+    r.magic == sp_magic(), r.msg_type == msg_type, r.msg_len == len,
//@ end
}
impl Msg {
//@ extract p2p/src/msg.rs :: impl Msg::new
//@   sigrewrite `pub fn new<T: Writeable>(` => `pub fn new(`
//@   sigrewrite `msg: T,` => `msg: Body,`
//@   rewrite `ser::ser_vec(&msg, version)?` => `ser::ser_vec_body(&msg, version)?`
//@   ensures:
//@+    r matches Ok(m) ==> sp_ser_body(&msg, version) == Ok::<Seq<u8>, Error>(m.body@) && m.header.msg_len == m.body@.len() && m.header.msg_type == msg_type && m.attachment is None && m.version == version,
//@ end
}
//@ extract p2p/src/msg.rs :: fn read_header
//@   rewrite `vec![0u8; MsgHeader::LEN]` => `zeroed(MsgHeader::LEN)`
//@   rewrite `ser::deserialize(&mut &head[..], version, DeserializationMode::default())?` => `deser_header(&head, version)?`
//@   ensures:
//@+    r matches Ok(h) ==> old(stream).rest().len() >= 11 && sp_deser_header(old(stream).rest().take(11), version) == Ok::<MsgHeaderWrapper, Error>(h)
//@+        && final(stream).rest() == old(stream).rest().skip(11),
//@+    r matches Err(e) ==> !(e is BadMessage),
//@ end
//@ extract p2p/src/msg.rs :: fn read_body
//@   sigrewrite `pub fn read_body<T: Readable, R: Read>(` => `pub fn read_body<R: Read>(`
//@   sigrewrite `) -> Result<T, Error>` => `) -> Result<Body, Error>`
//@   rewrite `vec![0u8; h.msg_len as usize]` => `zeroed(h.msg_len as usize)`
//@   rewrite `ser::deserialize(&mut &body[..], version, DeserializationMode::default()).map_err(From::from)` => `deser_body(&body, version)`
//@   ensures:
//@+    r matches Ok(b) ==> old(stream).rest().len() >= h.msg_len && sp_deser_body(old(stream).rest().take(h.msg_len as int), version) == Ok::<Body, Error>(b)
//@+        && final(stream).rest() == old(stream).rest().skip(h.msg_len as int),
//@ end
//@ extract p2p/src/msg.rs :: fn read_discard
//@   rewrite `vec![0u8; msg_len as usize]` => `zeroed(msg_len as usize)`
//@   ensures:
//@+    r is Ok ==> old(stream).rest().len() >= msg_len && final(stream).rest() == old(stream).rest().skip(msg_len as int),
//@+    r matches Err(e) ==> e is Io,
//@ end
//@ extract p2p/src/msg.rs :: fn read_message
//@   sigrewrite `pub fn read_message<T: Readable, R: Read>(` => `pub fn read_message<R: Read>(`
//@   sigrewrite `) -> Result<T, Error>` => `) -> Result<Body, Error>`
//@   ensures:
//@+    r matches Ok(b) ==> old(stream).rest().len() >= 11 && (sp_deser_header(old(stream).rest().take(11), version) matches Ok(MsgHeaderWrapper::Known(h))
//@+        && h.msg_type == msg_type && old(stream).rest().skip(11).len() >= h.msg_len
//@+        && sp_deser_body(old(stream).rest().skip(11).take(h.msg_len as int), version) == Ok::<Body, Error>(b)
//@+        && final(stream).rest() == old(stream).rest().skip(11).skip(h.msg_len as int)),
//@+    (r matches Err(Error::BadMessage) && old(stream).rest().len() >= 11 && unknown_len(sp_deser_header(old(stream).rest().take(11), version)) is Some) ==>
//@+        old(stream).rest().skip(11).len() >= unknown_len(sp_deser_header(old(stream).rest().take(11), version))->0
//@+        && final(stream).rest() == old(stream).rest().skip(11).skip(unknown_len(sp_deser_header(old(stream).rest().take(11), version))->0 as int),
//@ end
//@ extract p2p/src/msg.rs :: fn write_message
//@   sigrewrite `pub fn write_message<W: Write>(` => `pub fn write_message(`
//@   sigrewrite `stream: &mut W,` => `stream: &mut OutStream,`
//@   sigrewrite `tracker: Arc<Tracker>,` => `tracker: &mut Tracker,`
//@   rewrite `if let Some(elapsed) = tracker.sent_bytes.read().elapsed_since_last_msg() {\n\t\tlet min_interval: u64 = 150;\n\t\tlet sleep_ms = min_interval.saturating_sub(elapsed);\n\t\tif sleep_ms > 0 {\n\t\t\tthread::sleep(Duration::from_millis(sleep_ms))\n\t\t}\n\t}` => `tracker.pace();` x?
//@   rewrite `ser::ser_vec(&msg.header, msg.version)?` => `ser::ser_vec_header(&msg.header, msg.version)?`
//@   rewrite `buf.extend(&msg.body[..]);` => `extend_bytes(&mut buf, &msg.body);`
//@   rewrite `stream.write_all(&buf[..])?;` => `stream.write_all(&buf)?;`
//@   rewrite `let mut buf = [0u8; 8000];` => `let mut buf: [u8; 8000] = [0u8; 8000];`
//@   rewrite `file.read(&mut buf[..])` => `file.read(&mut buf)`
//@   rewrite `stream.write_all(&buf[..n])?;` => `stream.write_all_prefix(&buf, n)?; proof { assert(file.content@.subrange(file0, file.pos@ - n) + file.content@.subrange(file.pos@ - n, file.pos@) =~= file.content@.subrange(file0, file.pos@)); }`
//@   rewrite `Err(e) => return Err(From::from(e)),` => `Err(e) => return Err(Error::Io),`
//@   attr: #[verifier::exec_allows_no_decreases_clause]
//@   requires:
//@+    msg.attachment matches Some(f) ==> 0 <= f.pos@ <= f.content@.len(),
//@   ensures:
//@+    r is Ok ==> sp_ser_header(msg.header, msg.version) is Ok,
//@+    r is Ok && msg.attachment is None ==> final(stream).out@ =~= old(stream).out@ + sp_ser_header(msg.header, msg.version)->Ok_0 + msg.body@,
//@+    r is Ok ==> (msg.attachment matches Some(f) ==> final(stream).out@ =~= old(stream).out@ + sp_ser_header(msg.header, msg.version)->Ok_0 + msg.body@ + f.content@.subrange(f.pos@, f.content@.len() as int)),
//@+    r is Ok ==> final(tracker).sent@ == old(tracker).sent@ + sp_ser_header(msg.header, msg.version)->Ok_0.len() + msg.body@.len() && final(tracker).msgs@ == old(tracker).msgs@ + 1,
//@   loop 1:
//@+    invariant_except_break
//@+        true,
//@+    invariant
//@+        0 <= file0 <= file.pos@ <= file.content@.len(),
//@+        stream.out@ =~= base + file.content@.subrange(file0, file.pos@),
//@+        tracker.sent@ == sent1 && tracker.msgs@ == msgs1,
//@+        sp_ser_header(msg.header, msg.version) is Ok && base =~= old(stream).out@ + sp_ser_header(msg.header, msg.version)->Ok_0 + msg.body@,
//@+        sent1 == old(tracker).sent@ + sp_ser_header(msg.header, msg.version)->Ok_0.len() + msg.body@.len() && msgs1 == old(tracker).msgs@ + 1,
//@+        msg.attachment matches Some(f) && f.content@ == file.content@ && f.pos@ == file0,
//@+    ensures
//@+        file.pos@ == file.content@.len(),
//@   after `let mut file = file.try_clone()?;`:
//@+    let ghost file0 = file.pos@; let ghost base = stream.out@; let ghost sent1 = tracker.sent@; let ghost msgs1 = tracker.msgs@;
//@ end
//@ canary read_message: r is Err
//@ canary write_message: r is Err
