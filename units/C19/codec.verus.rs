//@ assume: TcpStream, BytesMut/Bytes (a byte queue: len, reserve, put_u8, truncate, split_to, advance, freeze), BufReader, MsgHeaderWrapper::read (decided on the real code by Kani in C19/msg_header), decode_message, UntrustedBlockHeader decoding, Instant and AttachmentMeta are abstract; Codec keeps its real fields; State is the real enum (extracted)
//@ assume: T6 rewrites: `self.stream.read_exact(&mut self.buffer[pre_len..])` => helper read_exact_into(stream, buffer, pre_len, ghost idle) (fills buffer[pre_len..] or fails; REQUIRES the socket's read timeout to be the one for the current state: header timeout only between frames); set_stream_timeout is the real function (`&self` => `&mut self`: the socket's timeout is ghost state of the stream); `for _ in 0..to_read { self.buffer.put_u8(0); }` kept (range loop with invariant); `h.msg_type == Type::Headers` => helper is_headers; `reader.body()?` with the inferred type UntrustedBlockHeader => reader.body_untrusted_header()?; `header.into()` => helper; `e.into()` => helper io error conversion; `now.elapsed().as_secs()` / `Instant::now()` => helpers; `self.bytes_read += to_read` => helper add (overflow of the per-call byte counter NOT decided: it is bounded by one message's length); `std::cmp::min` => local min; log macros removed
//@ assume: termination of the read loop is not proved (it blocks on the socket): exec_allows_no_decreases_clause
//@ assume: decided here: Codec::read_inner (the frame state machine) (a) never underflows or indexes out of range in its length arithmetic, (b) leaves the Headers batching state only consistently: a Headers batch is returned with remaining == 0 only when the frame's announced bytes are exactly used up, a frame whose item count is exhausted while bytes remain (or whose bytes are exhausted while items remain, or whose count is 0 although body bytes follow) is refused with BadMessage and the state reset, while the EMPTY message (count 0, no body) is delivered as an empty list; a returned batch holds at most 32 headers; after a non-final batch the state still expects exactly `remaining` items; (c) an unknown message type is skipped by exactly its announced length and the state reset
//@ assume: 64-bit target
//@ assumed_items: 35
//@ fns: Codec::expect_attachment, State::is_none, Codec::read_inner, Codec::next_len
use std::sync::Arc;
use std::mem;
global size_of usize == 8;
#[derive(Clone, Copy)]
pub struct ProtocolVersion(pub u32);
#[derive(Clone, Copy, PartialEq, Eq)]
pub enum Type { Headers, Other }
#[verifier::external_body]
fn is_headers(t: Type) -> (r: bool) ensures r == (t is Headers) { unimplemented!() }
pub struct MsgHeader { pub magic: [u8; 2], pub msg_type: Type, pub msg_len: u64 }
impl MsgHeader { pub const LEN: usize = 11; }
pub enum MsgHeaderWrapper { Known(MsgHeader), Unknown(u64, u8) }
pub enum Error { BadMessage, Io, Ser }
/// the socket's read timeout: ghost flag `body_timeout` (true = BODY_IO_TIMEOUT, false = HEADER_IO_TIMEOUT)
pub struct TcpStream { pub body_timeout: Ghost<bool> }
#[derive(Clone, Copy)]
pub struct Dur { pub body: bool }
pub const HEADER_IO_TIMEOUT: Dur = Dur { body: false };
pub const BODY_IO_TIMEOUT: Dur = Dur { body: true };
impl TcpStream {
    #[verifier::external_body]
    pub fn set_read_timeout(&mut self, t: Option<Dur>) -> (r: Result<(), Error>) ensures r.is_ok() ==> (t matches Some(d) && final(self).body_timeout@ == d.body), r.is_err() ==> final(self).body_timeout == old(self).body_timeout { unimplemented!() }
}
#[verifier::external_body]
pub struct IoError { _p: u8 }
#[verifier::external_body]
fn io_err(e: IoError) -> (r: Error) { unimplemented!() }
#[verifier::external_body]
pub struct Instant { _p: u8 }
#[verifier::external_body]
fn elapsed_secs(i: &Instant) -> (r: u64) { unimplemented!() }
#[verifier::external_body]
fn instant_now() -> (r: Instant) { unimplemented!() }
pub struct AttachmentMeta { pub size: usize }
pub struct AttachmentUpdate { pub read: usize, pub left: usize, pub meta: Arc<AttachmentMeta> }
#[verifier::external_body]
pub struct BlockHeader { _p: u8 }
#[verifier::external_body]
pub struct UntrustedBlockHeader { _p: u8 }
#[verifier::external_body]
fn header_from(h: UntrustedBlockHeader) -> (r: BlockHeader) { unimplemented!() }
pub struct HeadersData { pub headers: Vec<BlockHeader>, pub remaining: u64 }
pub enum Message { Unknown(u8), Headers(HeadersData), Attachment(AttachmentUpdate, Option<Bytes>), Other }
#[verifier::external_body]
pub struct Bytes { _p: u8 }
impl Bytes { pub uninterp spec fn blen(&self) -> nat;
    /// bytes::Buf getters PANIC when fewer bytes remain than they read (bytes-0.5 buf_impl.rs: `assert!(self.remaining() >= N)`): preconditions
    #[verifier::external_body]
    pub fn get_u8(&mut self) -> (r: u8) requires old(self).blen() >= 1 ensures final(self).blen() == old(self).blen() - 1 { unimplemented!() }
    #[verifier::external_body]
    pub fn get_u16(&mut self) -> (r: u16) requires old(self).blen() >= 2 ensures final(self).blen() == old(self).blen() - 2 { unimplemented!() }
    #[verifier::external_body]
    pub fn get_u32(&mut self) -> (r: u32) requires old(self).blen() >= 4 ensures final(self).blen() == old(self).blen() - 4 { unimplemented!() }
    #[verifier::external_body]
    pub fn get_u64(&mut self) -> (r: u64) requires old(self).blen() >= 8 ensures final(self).blen() == old(self).blen() - 8 { unimplemented!() }
    #[verifier::external_body]
    pub fn len(&self) -> (r: usize) ensures r == self.blen() { unimplemented!() }
}
#[verifier::external_body]
pub struct BytesMut { _p: u8 }
impl BytesMut {
    pub uninterp spec fn blen(&self) -> nat;
    #[verifier::external_body]
    pub fn len(&self) -> (r: usize) ensures r == self.blen() { unimplemented!() }
    #[verifier::external_body]
    pub fn reserve(&mut self, n: usize) ensures final(self).blen() == old(self).blen() { unimplemented!() }
    #[verifier::external_body]
    pub fn put_u8(&mut self, b: u8) ensures final(self).blen() == old(self).blen() + 1 { unimplemented!() }
    #[verifier::external_body]
    pub fn truncate(&mut self, n: usize) ensures final(self).blen() == (if (n as nat) < old(self).blen() { n as nat } else { old(self).blen() }) { unimplemented!() }
    /// split_to panics when n exceeds the length: a precondition
    #[verifier::external_body]
    pub fn split_to(&mut self, n: usize) -> (r: BytesMut) requires n <= old(self).blen() ensures final(self).blen() == old(self).blen() - n, r.blen() == n { unimplemented!() }
    /// advance panics when n exceeds the length: a precondition
    #[verifier::external_body]
    pub fn advance(&mut self, n: usize) requires n <= old(self).blen() ensures final(self).blen() == old(self).blen() - n { unimplemented!() }
    #[verifier::external_body]
    pub fn freeze(self) -> (r: Bytes) ensures r.blen() == self.blen() { unimplemented!() }
}
#[verifier::external_body]
fn read_exact_into(stream: &mut TcpStream, buffer: &mut BytesMut, from: usize, idle: Ghost<bool>) -> (r: Result<(), IoError>)
    requires from <= old(buffer).blen(),
        // the read runs under the timeout that belongs to what is being read: the short header timeout only between frames, the body timeout inside a frame
        old(stream).body_timeout@ == !idle@, ensures final(buffer).blen() == old(buffer).blen(), final(stream).body_timeout == old(stream).body_timeout { unimplemented!() }
#[verifier::external_body]
fn add_bytes_read(a: usize, b: usize) -> (r: usize) { unimplemented!() }
fn min(a: usize, b: usize) -> (r: usize) ensures r == (if a <= b { a } else { b }) { if a <= b { a } else { b } }
#[verifier::external_body]
pub fn header_size_bytes(edge_bits: u8) -> (r: usize) ensures r >= 1 { unimplemented!() }
pub trait Buf { spec fn avail(&self) -> nat; }
impl Buf for Bytes { open spec fn avail(&self) -> nat { self.blen() } }
impl Buf for BytesMut { open spec fn avail(&self) -> nat { self.blen() } }
pub struct BufReader<'a, B: Buf> { pub inner: &'a mut B, pub version: ProtocolVersion, pub read: Ghost<nat> }
impl<'a, B: Buf> BufReader<'a, B> {
    #[verifier::external_body]
    pub fn new(buf: &'a mut B, version: ProtocolVersion) -> (r: BufReader<'a, B>) ensures r.read@ == 0, r.inner.avail() == old(buf).avail() { unimplemented!() }
    #[verifier::external_body]
    pub fn read_u16(&mut self) -> (r: Result<u16, Error>)
        ensures r.is_ok() ==> old(self).inner.avail() >= 2 && final(self).inner.avail() == old(self).inner.avail() - 2 && final(self).read@ == old(self).read@ + 2 { unimplemented!() }
    #[verifier::external_body]
    pub fn body_untrusted_header(&mut self) -> (r: Result<UntrustedBlockHeader, Error>)
        ensures r.is_ok() ==> final(self).read@ > old(self).read@ && final(self).inner.avail() + (final(self).read@ - old(self).read@) == old(self).inner.avail() { unimplemented!() }
    #[verifier::external_body]
    pub fn bytes_read(&self) -> (r: u64) ensures r == self.read@ { unimplemented!() }
}
impl MsgHeaderWrapper {
    #[verifier::external_body]
    pub fn read<B: Buf>(reader: &mut BufReader<B>) -> (r: Result<MsgHeaderWrapper, Error>) { unimplemented!() }
}
#[verifier::external_body]
fn decode_message(header: &MsgHeader, body: &mut Bytes, version: ProtocolVersion) -> (r: Result<Message, Error>)
    ensures r matches Ok(m) ==> !(m is Headers) && !(m is Attachment) && !(m is Unknown) { unimplemented!() }

pub assume_specification<T> [core::mem::replace] (dest: &mut T, src: T) -> (r: T)
    ensures r == *old(dest), *final(dest) == src;
pub assume_specification<T: Default> [core::mem::take] (dest: &mut T) -> (r: T)
    ensures r == *old(dest);
pub const HEADER_BATCH_SIZE: usize = 32;
use MsgHeaderWrapper::*;
use State::*;
//@ extract p2p/src/codec.rs :: enum State
//@   rewrite `enum State {` => `pub enum State {`
//@ end
pub fn runtime_assert(b: bool) requires b { }
impl State {
//@ extract p2p/src/codec.rs :: impl State::is_none
//@   ensures:
//@+    r == (*self is None),
//@ end
}
pub struct Codec { pub version: ProtocolVersion, pub stream: TcpStream, pub buffer: BytesMut, pub state: State, pub bytes_read: usize }
impl Codec {
//@ extract p2p/src/codec.rs :: impl Codec::set_stream_timeout
//@   sigrewrite `fn set_stream_timeout(&self)` => `fn set_stream_timeout(&mut self)`
//@   ensures:
//@+    final(self).state == old(self).state, final(self).buffer == old(self).buffer, final(self).bytes_read == old(self).bytes_read, final(self).version == old(self).version,
//@+    r.is_ok() ==> final(self).stream.body_timeout@ == !(old(self).state is None),
//@ end

//@ extract p2p/src/codec.rs :: impl Codec::next_len
//@   rewrite `if h.msg_type == Type::Headers =>` => `if is_headers(h.msg_type) =>`
//@   ensures:
//@+    self.state is None ==> r == 11,
//@+    self.state matches Header(Known(h)) ==> (if h.msg_type is Headers { r == (if h.msg_len as usize <= 2 { h.msg_len as usize } else { 2 }) } else { r == h.msg_len as usize }),
//@+    self.state matches Header(Unknown(len, _)) ==> r == len as usize,
//@+    self.state matches BlockHeaders { bytes_left, .. } ==> r <= bytes_left && (bytes_left > 0 ==> r >= 1),
//@+    self.state matches Attachment(left, _, _) ==> r <= left && r <= 48_000 && (left > 0 ==> r >= 1),
//@ end

//@ extract p2p/src/codec.rs :: impl Codec::expect_attachment
//@   rewrite `assert!(self.state.is_none());` => `runtime_assert(self.state.is_none());`
//@   rewrite `Instant::now()` => `instant_now()`
//@   requires:
//@+    // the assert is an OBLIGATION on the caller: an attachment may be announced only BETWEEN messages
//@+    old(self).state is None,
//@   ensures:
//@+    final(self).state matches Attachment(l, m, _) && l == meta.size && m == meta, final(self).bytes_read == old(self).bytes_read,
//@ end
//@ extract p2p/src/codec.rs :: impl Codec::read_inner
//@   attr: #[verifier::exec_allows_no_decreases_clause]
//@   strip_logs
//@   rewrite `if let Err(e) = self.stream.read_exact(&mut self.buffer[pre_len..]) {` => `if let Err(e) = read_exact_into(&mut self.stream, &mut self.buffer, pre_len, Ghost(self.state is None)) {`
//@   rewrite `return Err(e.into());` => `return Err(io_err(e));`
//@   rewrite `self.bytes_read += to_read;` => `self.bytes_read = add_bytes_read(self.bytes_read, to_read);`
//@   rewrite `for _ in 0..to_read {` => `for k in 0..to_read {`
//@   rewrite `if header.msg_type == Type::Headers {` => `if is_headers(header.msg_type) {`
//@   rewrite `let header: UntrustedBlockHeader = reader.body()?;` => `let header: UntrustedBlockHeader = reader.body_untrusted_header()?;`
//@   rewrite `headers.push(header.into());` => `headers.push(header_from(header));`
//@   rewrite `if now.elapsed().as_secs() > 10 {` => `if elapsed_secs(now) > 10 {`
//@   rewrite `*now = Instant::now();` => `*now = instant_now();`
//@   at_start:
//@+    let ghost mut last_bl: int = -1;
//@+    let ghost mut last_il: int = -1;
//@   after `*items_left -= 1;`:
//@+    proof { last_bl = *bytes_left as int; last_il = *items_left as int; }
//@   after? `if *bytes_left == 0 || *items_left == 0 {`:
//@+    proof { assert(!(*bytes_left == 0 && *items_left == 0)); } // BadMessage here only for an INCONSISTENT frame: an EMPTY header list (count 0, no bytes) is a legal message and must be delivered
//@   rewrite `headers: vec![],` => `headers: Vec::new(),` x?
//@   after? `let bytes_left = header.msg_len as usize - 2;`:
//@+    proof { last_bl = bytes_left as int; last_il = items_left as int; }
//@   after `mem::swap(headers, &mut h);`:
//@+    proof { assert(remaining as int == last_il); assert(1 <= h@.len() <= 32); assert(remaining > 0 ==> h@.len() == 32); }
//@   before* `return Ok(Message::Headers(HeadersData {`:
//@+    proof { assert(last_il == 0 ==> last_bl == 0); } // a Headers message is complete (no items left) only when the frame's announced bytes are used up
//@   before `return Ok(Message::Attachment(update, Some(raw)));`:
//@+    proof { assert(update.read == next_len); assert((update.left == 0) == (self.state is None)); assert(update.left > 0 ==> (self.state matches Attachment(l, _, _) && l == update.left)); }
//@   loop 1:
//@+    invariant
//@+        self.state is Attachment ==> self.state == old(self).state,
//@+        self.state matches BlockHeaders { bytes_left, items_left, headers } ==> headers@.len() < 32 && (items_left == 0 ==> headers@.len() == 0) && !(bytes_left == 0 && items_left == 0 && headers@.len() == 0),
//@   loop 2:
//@+    invariant
//@+        self.buffer.blen() == pre_len + k, pre_len + to_read == next_len || to_read == 0,
//@   requires:
//@+    old(self).state matches BlockHeaders { bytes_left, items_left, headers } ==> headers@.len() < 32 && (items_left == 0 ==> headers@.len() == 0) && !(bytes_left == 0 && items_left == 0 && headers@.len() == 0),
//@   ensures:
//@+    final(self).state matches BlockHeaders { bytes_left, items_left, headers } ==> headers@.len() < 32 && (items_left == 0 ==> headers@.len() == 0) && !(bytes_left == 0 && items_left == 0 && headers@.len() == 0),
//@+    r matches Ok(Message::Headers(hd)) ==> hd.headers@.len() <= 32 && (hd.headers@.len() == 0 ==> hd.remaining == 0) && (hd.remaining == 0 ==> final(self).state is None)
//@+        && (hd.remaining > 0 ==> hd.headers@.len() == 32 && (final(self).state matches BlockHeaders { items_left, .. } && items_left == hd.remaining)),
//@+    r matches Ok(Message::Unknown(_)) ==> final(self).state is None,
//@+    // an ordinary decoded message leaves the codec BETWEEN messages: what expect_attachment (asserting state None) relies on
//@+    r matches Ok(Message::Other) ==> final(self).state is None,
//@+    r matches Ok(Message::Attachment(u, _)) ==> (old(self).state matches Attachment(l0, _, _) && u.read + u.left == l0 && (l0 > 0 ==> u.read >= 1) && u.read <= 48_000)
//@+        && ((u.left == 0) == (final(self).state is None)) && (u.left > 0 ==> (final(self).state matches Attachment(l, _, _) && l == u.left)),
//@ end
}
//@ canary next_len: r == 0
