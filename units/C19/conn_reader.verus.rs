//@ assume: the peer_read thread's body (closure 1 of conn::poll) is lifted to a function (T7: captured variables become parameters); the socket, the Codec (C19/codec decides Codec::read_inner), the message handler, the tracker counters, the attachment file and the send channel are abstract (ASSUMED of Codec::read: an attachment chunk always carries its bytes, as read_inner builds it); `try_break!` is expanded mechanically per its macro_rules definition in the same file (T6 expand_macro), with `Err(Error::Connection(ref e)) if e.kind() == io::ErrorKind::X` => `Err(Error::Connection(e)) if kind_is_X(&e)` (the io error is an opaque value with a kind); thread::sleep abstract; T3: log macros removed; the peer-address string for logging dropped
//@ assume: Codec::expect_attachment carries the precondition PROVED NECESSARY on the real code in C19/codec (its `assert!(self.state.is_none())` never fires only if the codec is between messages); Codec::read answers `idle` after an ordinary message (C19/codec: read_inner); ASSUMED of the handler: only an ordinary message starts an attachment. With these the reader loop's call of expect_attachment is an OBLIGATION here: it is reached only right after an ordinary message was read and nothing else was done to the codec
//@ assume: decided here (C19 'a frame with the wrong magic, an announced length above the limit or inconsistent counts is REFUSED' -- at the connection level a refusal means the connection ends, nothing after the refused header is parsed as a frame): the reader loop goes round again after a result of Codec::read ONLY IF that result was a message, a timeout / would-block of the socket, or one of the four errors that say nothing about the byte stream (Store, Chain, Internal, NoDandelionRelay); after ANY OTHER error -- bad magic, over-limit length, BadMessage, a serialisation error -- it leaves the loop and shuts the connection down; an unknown message type is skipped without being handed to the handler; every other decoded message is handed to the handler exactly once
//@ assumed_items: 11
//@ fns: conn::poll (closure 1: the peer_read loop), try_break! (expanded)
global size_of usize == 8;
#[derive(Clone, Copy, PartialEq, Eq)]
pub struct IoErr { pub kind: u8 }
pub mod io { pub enum ErrorKind { TimedOut, WouldBlock, Other } }
pub fn kind_is_timed_out(e: &IoErr) -> (r: bool) ensures r == (e.kind == 1) { e.kind == 1 }
pub fn kind_is_would_block(e: &IoErr) -> (r: bool) ensures r == (e.kind == 2) { e.kind == 2 }
pub enum Error { Serialization(u8), Connection(IoErr), BadMessage, UnexpectedMessage, MsgLen, Banned, ConnectionClose, Timeout, Store(u8), Chain(u8), PeerWithSelf, NoDandelionRelay, GenesisMismatch, Send(u8), PeerNotFound, PeerNotBanned, PeerException, Internal }
/// errors after which the byte stream is still in step: the socket merely had nothing yet, or the failure was ours
pub open spec fn sp_harmless(e: Error) -> bool {
    match e { Error::Connection(io) => io.kind == 1 || io.kind == 2, Error::Store(_) => true, Error::Chain(_) => true, Error::Internal => true, Error::NoDandelionRelay => true, _ => false }
}
#[derive(Clone, Copy, PartialEq, Eq)]
pub struct AttachmentUpdate { pub left: usize }
#[derive(Clone, Copy, PartialEq, Eq)]
pub struct HeadersData { pub remaining: u64 }
#[derive(Clone, Copy, PartialEq, Eq)]
pub struct Bytes { pub v: u64 }
impl Bytes { pub fn unwrap_ref(&self) -> (r: Bytes) ensures r == *self { *self } }
pub enum Message { Unknown(u8), Attachment(AttachmentUpdate, Option<Bytes>), Headers(HeadersData), Other(u64) }
#[derive(Clone, Copy, PartialEq, Eq)]
pub struct Msg { pub v: u64 }
pub struct AttachmentMeta { pub v: u64 }
pub struct File { pub _p: u8 }
impl File {
    #[verifier::external_body]
    pub fn write_all(&mut self, b: &Bytes) -> (r: Result<(), IoErr>) { unimplemented!() }
    #[verifier::external_body]
    pub fn sync_all(&mut self) -> (r: Result<(), IoErr>) { unimplemented!() }
}
pub enum Consumed { Response(Msg), Attachment(AttachmentMeta, File), None, Disconnect }
pub struct Tracker { pub _p: u8 }
impl Tracker {
    #[verifier::external_body]
    pub fn inc_received(&self, n: u64) { unimplemented!() }
    #[verifier::external_body]
    pub fn inc_quiet_received(&self, n: u64) { unimplemented!() }
}
pub struct Stopped { pub _p: u8 }
impl Stopped { #[verifier::external_body] pub fn load_relaxed(&self) -> (r: bool) { unimplemented!() } }
/// ghost: results of read() seen so far, messages handed to the handler so far
pub struct Codec { pub reads: Ghost<Seq<Result<u64, Error>>>, pub shut: Ghost<bool>, pub idle: Ghost<bool> }
pub open spec fn msg_id(m: Message) -> u64 { match m { Message::Unknown(t) => t as u64, Message::Attachment(u, _) => u.left as u64, Message::Headers(d) => d.remaining, Message::Other(v) => v } }
impl Codec {
    #[verifier::external_body]
    pub fn read(&mut self) -> (r: (Result<Message, Error>, u64))
        ensures final(self).shut == old(self).shut, (r.0 matches Ok(Message::Attachment(_, b)) ==> b is Some),
            // C19/codec (read_inner): an ordinary decoded message leaves the codec between messages
            (r.0 matches Ok(Message::Other(_)) ==> final(self).idle@),
            final(self).reads@ == old(self).reads@.push(match r.0 { Ok(m) => Ok::<u64, Error>(msg_id(m)), Err(e) => Err::<u64, Error>(e) }) { unimplemented!() }
    #[verifier::external_body]
    pub fn expect_attachment(&mut self, meta: AttachmentMeta) requires old(self).idle@ ensures final(self).reads == old(self).reads, final(self).shut == old(self).shut { unimplemented!() }
    #[verifier::external_body]
    pub fn shutdown_both(&mut self) ensures final(self).reads == old(self).reads, final(self).shut@ { unimplemented!() }
}
pub struct Handler { pub consumed: Ghost<Seq<u64>> }
impl Handler {
    #[verifier::external_body]
    pub fn consume(&mut self, m: Message) -> (r: Result<Consumed, Error>) ensures final(self).consumed@ == old(self).consumed@.push(msg_id(m)),
        // ASSUMED of the message handler: only an ordinary message (the txhashset archive announcement) starts an attachment
        (r matches Ok(Consumed::Attachment(_, _)) ==> m is Other) { unimplemented!() }
}
pub struct ConnHandle { pub _p: u8 }
impl ConnHandle { #[verifier::external_body] pub fn send(&self, m: Msg) -> (r: Result<(), Error>) { unimplemented!() } }
#[verifier::external_body]
pub fn sleep_10ms() { unimplemented!() }
/// the loop may go round again only after a harmless read result
pub open spec fn may_continue(reads: Seq<Result<u64, Error>>) -> bool { reads.len() > 0 ==> (reads.last() matches Err(e) ==> sp_harmless(e)) }
//@ extract p2p/src/conn.rs :: fn poll
//@   closure 1 lifted_as `fn reader_loop(reader_stopped: &Stopped, codec: &mut Codec, reader_tracker: &Tracker, handler: &mut Handler, conn_handle: &ConnHandle)`
//@   strip_logs
//@   expand_macro try_break
//@   attr: #[verifier::exec_allows_no_decreases_clause]
//@   rewrite `\t\t\tlet peer_addr = reader\n\t\t\t\t.peer_addr()\n\t\t\t\t.map(|a| a.to_string())\n\t\t\t\t.unwrap_or_else(|_| "?".to_owned());\n\t\t\tlet mut codec = Codec::new(version, reader);\n` => ``
//@   rewrite `reader_stopped.load(Ordering::Relaxed)` => `reader_stopped.load_relaxed()`
//@   rewrite `Err(Error::Connection(ref e)) if e.kind() == io::ErrorKind::TimedOut => None,` => `Err(Error::Connection(e)) if kind_is_timed_out(&e) => None,`
//@   rewrite `Err(Error::Connection(ref e)) if e.kind() == io::ErrorKind::WouldBlock => {` => `Err(Error::Connection(e)) if kind_is_would_block(&e) => {`
//@   rewrite `thread::sleep(Duration::from_millis(10));` => `sleep_10ms();`
//@   rewrite `Err(ref e) => {` => `Err(e) => {`
//@   rewrite `let bytes = bytes.unwrap();` => `let bytes = bytes.unwrap();`
//@   rewrite `let _ = codec.stream().shutdown(Shutdown::Both);` => `codec.shutdown_both();`
//@   requires:
//@+    old(codec).reads@.len() == 0,
//@   ensures:
//@+    final(codec).shut@,
//@+    // every read result except possibly the last was a message or a harmless error: nothing is read after a refusal
//@+    forall|i: int| 0 <= i < final(codec).reads@.len() - 1 ==> ((#[trigger] final(codec).reads@[i]) matches Err(e) ==> sp_harmless(e)),
//@   loop 1:
//@+    invariant_except_break
//@+        may_continue(codec.reads@),
//@+    invariant
//@+        forall|i: int| 0 <= i < codec.reads@.len() - 1 ==> ((#[trigger] codec.reads@[i]) matches Err(e) ==> sp_harmless(e)),
//@ end
//@ canary reader_loop: final(codec).reads@.len() == 0
