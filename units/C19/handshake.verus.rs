//@ assume: TcpStream, the wire codec (read_message / write_message / Msg::new: decided elsewhere in C10 / C19), Peer::is_denied, user_agent, Tracker, PeerLiveInfo and the two RwLock-protected rings are abstract: read_message returns an arbitrary decoded value; the nonce ring is a ghost sequence read through `contains` (its maintenance is decided by C19/nonce_ring); locking itself is outside this family (C17)
//@ assume: T6: `user_agent().to_string()` => user_agent_string(); `Arc::new(RwLock::new(PeerLiveInfo::new(d)))` => live_info_new(d); `std::cmp::min` on ProtocolVersion => pv_min (the derived ordering of the u32 newtype); T3: debug!/trace! removed
//@ assume: decided here (C19, 'the handshake settles on the lower of the two protocol versions; refuses a different genesis and a connection to itself'): Handshake::initiate sends a Hand carrying OUR protocol version, genesis and a nonce that is in our ring afterwards, and returns Ok(peer_info) ONLY IF the Shake's genesis equals ours, the peer is not denied, and peer_info.version == min(our version, the Shake's version) with direction Outbound; Handshake::accept returns Ok(peer_info) ONLY IF the Hand's genesis equals ours, the Hand's nonce is NOT one of our own recent nonces (self-connection), the peer is not denied, peer_info.version == min(our version, the Hand's version) with direction Inbound, and the Shake it sent carries OUR version and is framed with the negotiated version; a self-connection is answered with PeerWithSelf after recording the address. Exit assertions (T4) at each `Ok(peer_info)`.
//@ assumed_items: 22
//@ fns: Handshake::initiate, Handshake::accept, Handshake::negotiate_protocol_version
#[derive(Clone, Copy, PartialEq, Eq)]
pub struct ProtocolVersion(pub u32);
#[derive(Clone, Copy, PartialEq, Eq, Structural)]
pub struct Hash { pub h: u64 }
#[derive(Clone, Copy, PartialEq, Eq)]
pub struct SocketAddr { pub a: u64 }
#[derive(Clone, Copy, PartialEq, Eq)]
pub struct PeerAddr(pub SocketAddr);
#[derive(Clone, Copy, PartialEq, Eq)]
pub struct Capabilities { pub bits: u32 }
#[derive(Clone, Copy, PartialEq, Eq)]
pub struct Difficulty { pub d: u64 }
#[derive(Clone, Copy)]
pub struct IoError { pub k: u8 }
pub enum Error { Connection(IoError), GenesisMismatch { us: Hash, peer: Hash }, ConnectionClose, PeerWithSelf, Other }
#[derive(Clone, Copy, PartialEq, Eq)]
pub enum Direction { Inbound, Outbound }
#[derive(Clone, Copy, PartialEq, Eq)]
pub enum Type { Hand, Shake }
#[derive(Clone, Copy)]
pub struct UserAgent { pub s: u64 }
#[derive(Clone, Copy)]
pub struct LiveInfo { pub d: Difficulty }
#[derive(Clone, Copy)]
pub struct Duration { pub ms: u64 }
pub const HAND_READ_TIMEOUT: Duration = Duration { ms: 10_000 };
pub const SHAKE_READ_TIMEOUT: Duration = Duration { ms: 10_000 };
pub const HAND_WRITE_TIMEOUT: Duration = Duration { ms: 2_000 };
pub const SHAKE_WRITE_TIMEOUT: Duration = Duration { ms: 2_000 };
pub const ADDRS_CAP: usize = 128;
pub struct Hand { pub version: ProtocolVersion, pub capabilities: Capabilities, pub nonce: u64, pub genesis: Hash, pub total_difficulty: Difficulty, pub sender_addr: PeerAddr, pub receiver_addr: PeerAddr, pub user_agent: UserAgent }
pub struct Shake { pub version: ProtocolVersion, pub capabilities: Capabilities, pub genesis: Hash, pub total_difficulty: Difficulty, pub user_agent: UserAgent }
pub struct PeerInfo { pub capabilities: Capabilities, pub user_agent: UserAgent, pub version: ProtocolVersion, pub addr: PeerAddr, pub direction: Direction, pub live_info: LiveInfo }
#[derive(Clone, Copy)]
pub struct P2PConfig { pub c: u64 }
#[derive(Clone, Copy)]
pub struct Tracker { pub t: u8 }
impl Tracker { pub fn clone(&self) -> (r: Tracker) ensures r == *self { *self } }
pub uninterp spec fn sp_denied(c: P2PConfig, a: PeerAddr) -> bool;
pub struct Peer { pub p: u8 }
impl Peer {
    #[verifier::external_body]
    pub fn is_denied(config: &P2PConfig, addr: PeerAddr) -> (r: bool) ensures r == sp_denied(*config, addr) { unimplemented!() }
}
#[verifier::external_body]
pub struct TcpStream { _p: u8 }
impl TcpStream {
    #[verifier::external_body]
    pub fn set_write_timeout(&self, d: Option<Duration>) -> (r: Result<(), IoError>) { unimplemented!() }
    #[verifier::external_body]
    pub fn set_read_timeout(&self, d: Option<Duration>) -> (r: Result<(), IoError>) { unimplemented!() }
    #[verifier::external_body]
    pub fn peer_addr(&self) -> (r: Result<SocketAddr, IoError>) { unimplemented!() }
}
/// a framed message: what was put in it and the protocol version it is serialised with
pub struct Msg<T> { pub t: Type, pub body: T, pub version: ProtocolVersion }
impl<T> Msg<T> {
    #[verifier::external_body]
    pub fn new(t: Type, body: T, version: ProtocolVersion) -> (r: Result<Msg<T>, Error>)
        ensures r matches Ok(m) ==> m.t == t && m.body == body && m.version == version { unimplemented!() }
}
/// ghost log of what this handshake wrote to the socket
pub struct Wire { pub hands: Ghost<Seq<(Hand, ProtocolVersion)>>, pub shakes: Ghost<Seq<(Shake, ProtocolVersion)>> }
#[verifier::external_body]
fn write_message<T>(conn: &mut TcpStream, msg: &Msg<T>, tracker: Tracker) -> (r: Result<(), Error>) { unimplemented!() }
#[verifier::external_body]
fn read_message<T>(conn: &mut TcpStream, version: ProtocolVersion, t: Type) -> (r: Result<T, Error>) { unimplemented!() }
#[verifier::external_body]
fn user_agent_string() -> (r: UserAgent) { unimplemented!() }
#[verifier::external_body]
fn live_info_new(d: Difficulty) -> (r: LiveInfo) { unimplemented!() }
#[verifier::external_body]
fn resolve_peer_addr(advertised: PeerAddr, conn: &TcpStream) -> (r: PeerAddr) { unimplemented!() }
fn pv_min(a: ProtocolVersion, b: ProtocolVersion) -> (r: ProtocolVersion)
    ensures r.0 == if a.0 <= b.0 { a.0 } else { b.0 }
{ if a.0 <= b.0 { a } else { b } }
/// the two RwLock-protected rings, seen through the operations the handshake uses
#[verifier::external_body]
pub struct NonceLock { _p: u8 }
#[verifier::external_body]
pub struct NonceGuard { _p: u8 }
#[verifier::external_body]
pub struct AddrLock { _p: u8 }
#[verifier::external_body]
pub struct AddrGuard { _p: u8 }
impl NonceLock {
    pub uninterp spec fn ring(&self) -> Set<u64>;
    #[verifier::external_body]
    pub fn read(&self) -> (r: NonceGuard) ensures r.ring() == self.ring() { unimplemented!() }
}
impl NonceGuard {
    pub uninterp spec fn ring(&self) -> Set<u64>;
    #[verifier::external_body]
    pub fn contains(&self, n: &u64) -> (r: bool) ensures r == self.ring().contains(*n) { unimplemented!() }
}
impl AddrLock { #[verifier::external_body] pub fn write(&self) -> (r: AddrGuard) { unimplemented!() } }
impl AddrGuard {
    #[verifier::external_body] pub fn push_back(&mut self, a: PeerAddr) { unimplemented!() }
    #[verifier::external_body] pub fn len(&self) -> (r: usize) { unimplemented!() }
    #[verifier::external_body] pub fn pop_front(&mut self) -> (r: Option<PeerAddr>) { unimplemented!() }
}
pub struct Handshake { pub nonces: NonceLock, pub addrs: AddrLock, pub genesis: Hash, pub config: P2PConfig, pub protocol_version: ProtocolVersion, pub tracker: Tracker }
pub open spec fn vmin(a: ProtocolVersion, b: ProtocolVersion) -> u32 { if a.0 <= b.0 { a.0 } else { b.0 } }
impl Handshake {
    /// Handshake::next_nonce (decided by C19/nonce_ring): the returned nonce is in the ring afterwards. The ring lives behind
    /// an Arc<RwLock<..>>, so `&self` suffices; its later state is not tracked here.
    #[verifier::external_body]
    fn next_nonce(&self) -> (r: u64) { unimplemented!() }
//@ extract p2p/src/handshake.rs :: impl Handshake::negotiate_protocol_version
//@   rewrite `std::cmp::min(` => `pv_min(`
//@   ensures:
//@+    r matches Ok(v) && v.0 == vmin(self.protocol_version, other),
//@ end
//@ extract p2p/src/handshake.rs :: impl Handshake::initiate
//@   strip_logs
//@   rewrite `user_agent().to_string()` => `user_agent_string()`
//@   rewrite `Arc::new(RwLock::new(PeerLiveInfo::new(shake.total_difficulty)))` => `live_info_new(shake.total_difficulty)`
//@   before `let msg = Msg::new(Type::Hand, hand, self.protocol_version)?;`:
//@+    proof { assert(hand.version == self.protocol_version && hand.genesis == self.genesis && hand.nonce == nonce); }
//@   before `\t\tOk(peer_info)`:
//@+    proof { assert(shake.genesis == self.genesis); assert(peer_info.version.0 == vmin(self.protocol_version, shake.version));
//@+            assert(peer_info.direction == Direction::Outbound); assert(!sp_denied(self.config, peer_info.addr));
//@+            assert(msg.version == self.protocol_version && msg.t == Type::Hand); }
//@   ensures:
//@+    r matches Ok(pi) ==> pi.direction == Direction::Outbound && pi.version.0 <= self.protocol_version.0 && !sp_denied(self.config, pi.addr),
//@ end
//@ extract p2p/src/handshake.rs :: impl Handshake::accept
//@   strip_logs
//@   rewrite `user_agent().to_string()` => `user_agent_string()`
//@   rewrite `Arc::new(RwLock::new(PeerLiveInfo::new(hand.total_difficulty)))` => `live_info_new(hand.total_difficulty)`
//@   before `let negotiated_version = self.negotiate_protocol_version(hand.version)?;`:
//@+    proof { assert(hand.genesis == self.genesis); assert(!self.nonces.ring().contains(hand.nonce)); }
//@   before `\t\tOk(peer_info)`:
//@+    proof { assert(hand.genesis == self.genesis); assert(peer_info.version.0 == vmin(self.protocol_version, hand.version));
//@+            assert(peer_info.direction == Direction::Inbound); assert(!sp_denied(self.config, peer_info.addr));
//@+            assert(msg.body.version == self.protocol_version && msg.body.genesis == self.genesis && msg.version == negotiated_version && msg.t == Type::Shake); }
//@   ensures:
//@+    r matches Ok(pi) ==> pi.direction == Direction::Inbound && pi.version.0 <= self.protocol_version.0 && !sp_denied(self.config, pi.addr),
//@ end
}
//@ canary accept: r.is_err()
