//@ assume: ProtocolVersion is the u32 newtype with derived ordering (T6: `std::cmp::min` on it replaced by pv_min on the wrapped value); the Handshake struct is reduced to its protocol_version field
//@ assume: decided here: the handshake settles on the lower of the two protocol versions; genesis / self-connection refusal happen inside accept/initiate on a socket and are not decided
//@ assumed_items: 0
//@ fns: Handshake::negotiate_protocol_version
#[derive(Clone, Copy)]
pub struct ProtocolVersion(pub u32);
pub enum Error { Other }
pub struct Handshake { pub protocol_version: ProtocolVersion }
fn pv_min(a: ProtocolVersion, b: ProtocolVersion) -> (r: ProtocolVersion)
    ensures r.0 == if a.0 <= b.0 { a.0 } else { b.0 }
{ if a.0 <= b.0 { a } else { b } }
impl Handshake {
//@ extract p2p/src/handshake.rs :: impl Handshake::negotiate_protocol_version
//@   rewrite `std::cmp::min(` => `pv_min(`
//@   ensures:
//@+    r matches Ok(v) && v.0 == (if self.protocol_version.0 <= other.0 { self.protocol_version.0 } else { other.0 }),
//@ end
}
//@ canary negotiate_protocol_version: r.is_err()
