//@ assume: the header chain is an uninterpreted function of height (sp_hdr) that get_header_hash_by_height + get_block_header / get_previous_header read (store invariant, assumed: the header stored for the hash at height h has height h; stored heights and kernel MMR sizes are below 2^62); the kernel MMR read (get_data), pmmr::is_leaf / n_leaves, the NRD index (clear, apply_kernel_rules -- decided in C13/nrd_rule), SyncState / StopState and Instant are abstract; apply_kernel_rules is recorded in a ghost log
//@ assume: T6: `if let Some(ref s) = x` => `if let Some(s) = &x`; `ReadonlyPMMR::at(&self.kernel_pmmr_h.backend, self.kernel_pmmr_h.size)` => kernel_pmmr_at(..); T3: debug! removed
//@ assume: termination of the two loops is NOT proved (exec_allows_no_decreases_clause): the inner walk ends only if the header chain's kernel counts eventually cover the kernel MMR, a consistency property of the store
//@ assume: assumed preconditions: from_header is the header chain's header at its height; the kernel MMR size is below 2^62; NRD is enabled or not (both paths)
//@ assume: decided here (C13, the NRD relative lock after a restart / compaction / fast sync): TxHashSet::verify_kernel_pos_index re-applies every NoRecentDuplicate kernel found at kernel MMR position p with the height of THE block that contains p -- the header h of the chain with kernel_mmr_size(previous header) < p <= kernel_mmr_size(h) -- never with an earlier block's height (which would make the relative lock look satisfied); positions and heights do not overflow
//@ assumed_items: 19
//@ fns: TxHashSet::verify_kernel_pos_index
#[derive(Clone, Copy, PartialEq, Eq)]
pub struct Hash { pub h: u64 }
#[derive(Clone, Copy)]
pub struct BlockHeader { pub height: u64, pub kernel_mmr_size: u64, pub id: Hash }
impl BlockHeader {
    pub fn hash(&self) -> (r: Hash) ensures r == self.id { self.id }
    pub fn clone(&self) -> (r: BlockHeader) ensures r == *self { *self }
}
pub enum Error { Store, Other }
#[derive(Clone, Copy)]
pub struct NRDRelativeHeight { pub h: u16 }
#[derive(Clone, Copy)]
pub enum KernelFeatures { Plain { fee: u64 }, Coinbase, HeightLocked { fee: u64, lock_height: u64 }, NoRecentDuplicate { fee: u64, relative_height: NRDRelativeHeight } }
#[derive(Clone, Copy)]
pub struct TxKernel { pub features: KernelFeatures, pub excess: u64 }
#[derive(Clone, Copy)]
pub struct CommitPos { pub pos: u64, pub height: u64 }
/// the header chain: header at a height
pub uninterp spec fn sp_hdr(height: u64) -> BlockHeader;
/// kernel MMR size just before the block at `height`
pub open spec fn sp_prev_kernels(height: u64) -> u64 { if height == 0 { 0 } else { sp_hdr((height - 1) as u64).kernel_mmr_size } }
#[verifier::external_body]
pub struct HeaderPmmr { _p: u8 }
impl HeaderPmmr {
    #[verifier::external_body]
    pub fn get_header_hash_by_height(&self, height: u64) -> (r: Result<Hash, Error>) ensures r matches Ok(h) ==> h == sp_hdr(height).id && sp_hdr(height).height == height { unimplemented!() }
}
pub struct Batch { pub applied: Ghost<Seq<(TxKernel, CommitPos)>>, pub _p: u8 }
impl Batch {
    #[verifier::external_body]
    pub fn get_block_header(&self, h: &Hash) -> (r: Result<BlockHeader, Error>)
        ensures r matches Ok(hd) ==> hd.id == *h && hd.kernel_mmr_size < 0x4000_0000_0000_0000u64 && hd.height < 0x4000_0000_0000_0000u64 && (forall|height: u64| sp_hdr(height).id == *h ==> hd == #[trigger] sp_hdr(height)) { unimplemented!() }
    #[verifier::external_body]
    pub fn get_previous_header(&self, h: &BlockHeader) -> (r: Result<BlockHeader, Error>)
        ensures r matches Ok(p) ==> p.kernel_mmr_size < 0x4000_0000_0000_0000u64 && (h.height >= 1 && *h == sp_hdr(h.height) ==> p == sp_hdr((h.height - 1) as u64)) { unimplemented!() }
}
pub struct KernelIndex { pub _p: u8 }
impl KernelIndex {
    #[verifier::external_body]
    pub fn clear(&self, batch: &mut Batch) -> (r: Result<(), Error>) ensures final(batch).applied@ == old(batch).applied@ { unimplemented!() }
}
pub mod store { use super::*;
    #[verifier::external_body]
    pub fn nrd_recent_kernel_index() -> (r: KernelIndex) { unimplemented!() } }
pub mod global { #[verifier::external_body] pub fn is_nrd_enabled() -> (r: bool) { unimplemented!() } }
pub mod pmmr { use super::*;
    #[verifier::external_body] pub fn is_leaf(pos0: u64) -> (r: bool) { unimplemented!() }
    #[verifier::external_body] pub fn n_leaves(size: u64) -> (r: u64) { unimplemented!() } }
#[verifier::external_body]
fn apply_kernel_rules(kernel: &TxKernel, pos: CommitPos, batch: &mut Batch) -> (r: Result<(), Error>)
    ensures r.is_ok() ==> final(batch).applied@ == old(batch).applied@.push((*kernel, pos)), r.is_err() ==> final(batch).applied@ == old(batch).applied@ { unimplemented!() }
#[verifier::external_body]
pub struct KernelPmmr { _p: u8 }
impl KernelPmmr { #[verifier::external_body] pub fn get_data(&self, pos0: u64) -> (r: Option<TxKernel>) { unimplemented!() } }
pub struct Backend { pub _p: u8 }
pub struct PMMRHandle { pub backend: Backend, pub size: u64 }
#[verifier::external_body]
fn kernel_pmmr_at(b: &Backend, size: u64) -> (r: KernelPmmr) { unimplemented!() }
#[verifier::external_body]
pub struct SyncState { _p: u8 }
impl SyncState { #[verifier::external_body] pub fn on_setup(&self, a: Option<u64>, b: Option<u64>, c: Option<u64>, d: Option<u64>) { unimplemented!() } }
#[verifier::external_body]
pub struct StopState { _p: u8 }
impl StopState { #[verifier::external_body] pub fn is_stopped(&self) -> (r: bool) { unimplemented!() } }
pub struct ArcLike<T> { pub v: T }
#[verifier::external_body]
pub struct Instant { _p: u8 }
impl Instant { #[verifier::external_body] pub fn now() -> (r: Instant) { unimplemented!() } }
/// every entry the rebuild pushed carries the height of the block that contains its position
pub open spec fn entry_ok(e: (TxKernel, CommitPos)) -> bool { sp_prev_kernels(e.1.height) < e.1.pos <= sp_hdr(e.1.height).kernel_mmr_size }
pub struct TxHashSet { pub kernel_pmmr_h: PMMRHandle }
impl TxHashSet {
//@ extract chain/src/txhashset/txhashset.rs :: impl TxHashSet::verify_kernel_pos_index
//@   attr: #[verifier::exec_allows_no_decreases_clause]
//@   strip_logs
//@   sigrewrite `header_pmmr: &PMMRHandle<BlockHeader>,` => `header_pmmr: &HeaderPmmr,`
//@   sigrewrite `batch: &mut Batch<'_>,` => `batch: &mut Batch,`
//@   sigrewrite `status: Option<Arc<SyncState>>,` => `status: Option<SyncState>,`
//@   sigrewrite `stop_state: Option<Arc<StopState>>,` => `stop_state: Option<StopState>,`
//@   rewrite `let kernel_pmmr = ReadonlyPMMR::at(&self.kernel_pmmr_h.backend, self.kernel_pmmr_h.size);` => `let kernel_pmmr = kernel_pmmr_at(&self.kernel_pmmr_h.backend, self.kernel_pmmr_h.size);`
//@   rewrite `if let Some(ref s) = status {` => `if let Some(s) = &status {`
//@   rewrite `if let Some(ref s) = stop_state {` => `if let Some(s) = &stop_state {`
//@   rewrite `let mut count = 0;` => `let mut count: u64 = 0;`
//@   rewrite `let mut applied = 0;` => `let mut applied: u64 = 0;`
//@   requires:
//@+    *from_header == sp_hdr(from_header.height), from_header.height < 0x4000_0000_0000_0000u64, self.kernel_pmmr_h.size < 0x4000_0000_0000_0000u64,
//@   ensures:
//@+    forall|i: int| old(batch).applied@.len() <= i < final(batch).applied@.len() ==> entry_ok(#[trigger] final(batch).applied@[i]),
//@+    final(batch).applied@.len() >= old(batch).applied@.len(),
//@+    final(batch).applied@.take(old(batch).applied@.len() as int) =~= old(batch).applied@,
//@   loop 1:
//@+    invariant
//@+        self.kernel_pmmr_h.size < 0x4000_0000_0000_0000u64, 1 <= current_pos <= 0x4000_0000_0000_0001u64,
//@+        count <= current_pos, applied <= current_pos, current_header.height < 0x4000_0000_0000_0000u64,
//@+        current_header == sp_hdr(current_header.height), sp_prev_kernels(current_header.height) < current_pos,
//@+        batch.applied@.len() >= old(batch).applied@.len(), batch.applied@.take(old(batch).applied@.len() as int) =~= old(batch).applied@,
//@+        forall|i: int| old(batch).applied@.len() <= i < batch.applied@.len() ==> entry_ok(#[trigger] batch.applied@[i]),
//@   loop 2?:
//@+    invariant
//@+        current_header == sp_hdr(current_header.height), sp_prev_kernels(current_header.height) < current_pos, current_header.height < 0x4000_0000_0000_0000u64,
//@+        batch.applied@.len() >= old(batch).applied@.len(), batch.applied@.take(old(batch).applied@.len() as int) =~= old(batch).applied@,
//@+        forall|i: int| old(batch).applied@.len() <= i < batch.applied@.len() ==> entry_ok(#[trigger] batch.applied@[i]),
//@   before `let new_pos = CommitPos {`:
//@+    proof { assert(sp_prev_kernels(current_header.height) < current_pos <= current_header.kernel_mmr_size); }
//@ end
}
//@ canary verify_kernel_pos_index: r.is_err()
