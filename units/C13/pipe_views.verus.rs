//@ assume: the extension pair, the UTXO view built from it (Extension::utxo_view) and the batch are abstract: the view remembers WHICH output extension and WHICH header extension it was built over; UTXOView::verify_coinbase_maturity (C13/coinbase_maturity) and UTXOView::validate_block (C02/utxo_block) are uninterpreted predicates of (view, their arguments); T3: debug! removed; T6: `denylist.contains(&header.hash())` => slice_contains (element equality); `"..".into()` => msg()
//@ assume: decided here (C13 'coinbase maturity ... on every fork', C02): pipe::verify_coinbase_maturity judges the block's OWN inputs at the block's OWN height through the view over the extension pair it was handed -- the pair that pipe::process_block / rewind_and_apply_fork have just put on the fork being extended (C03/process_block, C02/block_fork) -- and pipe::validate_utxo validates the block against that same view; pipe::validate_header_denylist refuses a header exactly when its hash is on the list
//@ assumed_items: 4
//@ fns: pipe::verify_coinbase_maturity, pipe::validate_utxo, pipe::validate_header_denylist
#[derive(Clone, Copy, PartialEq, Eq, Structural)]
pub struct Hash { pub v: u64 }
pub struct Msg;
pub fn msg() -> Msg { Msg }
pub mod block { pub enum Error { Other(super::Msg) } }
pub enum Error { Block(block::Error), Immature, Utxo }
#[derive(Clone, Copy)]
pub struct Inputs { pub id: u64 }
pub struct BlockHeader { pub height: u64, pub id: Hash }
impl BlockHeader { pub fn hash(&self) -> (r: Hash) ensures r == self.id { self.id } }
pub struct Block { pub header: BlockHeader, pub ins: Inputs, pub body_id: u64 }
impl Block { pub fn inputs(&self) -> (r: Inputs) ensures r == self.ins { self.ins } }
#[derive(Clone, Copy)]
pub struct OutputIdentifier { pub v: u64 }
#[derive(Clone, Copy)]
pub struct CommitPos { pub pos: u64, pub height: u64 }
#[verifier::external_body]
pub fn slice_contains(l: &[Hash], h: &Hash) -> (r: bool) ensures r == l@.contains(*h) { unimplemented!() }
pub struct Extension { pub id: u64 }
pub struct HeaderExtension { pub id: u64 }
pub struct UTXOView { pub ext: Ghost<u64>, pub hext: Ghost<u64> }
pub uninterp spec fn sp_mature(ext: u64, hext: u64, ins: Inputs, height: u64) -> bool;
pub uninterp spec fn sp_utxo_valid(ext: u64, hext: u64, block_body: u64, ins: Inputs) -> bool;
pub mod store { pub struct Batch { pub _p: u8 } }
impl Extension {
    #[verifier::external_body]
    pub fn utxo_view(&self, header_ext: &HeaderExtension) -> (r: UTXOView) ensures r.ext@ == self.id, r.hext@ == header_ext.id { unimplemented!() }
}
impl UTXOView {
    #[verifier::external_body]
    pub fn verify_coinbase_maturity(&self, inputs: &Inputs, height: u64, batch: &store::Batch) -> (r: Result<(), Error>) ensures r is Ok ==> sp_mature(self.ext@, self.hext@, *inputs, height) { unimplemented!() }
    #[verifier::external_body]
    pub fn validate_block(&self, block: &Block, batch: &store::Batch) -> (r: Result<Vec<(OutputIdentifier, CommitPos)>, Error>) ensures r is Ok ==> sp_utxo_valid(self.ext@, self.hext@, block.body_id, block.ins) { unimplemented!() }
}
pub mod txhashset { use super::*; pub struct ExtensionPair { pub extension: Extension, pub header_extension: HeaderExtension } }
//@ extract chain/src/pipe.rs :: fn verify_coinbase_maturity
//@   sigrewrite `ext: &txhashset::ExtensionPair<'_>,` => `ext: &txhashset::ExtensionPair,`
//@   sigrewrite `batch: &store::Batch<'_>,` => `batch: &store::Batch,`
//@   ensures:
//@+    r is Ok ==> sp_mature(ext.extension.id, ext.header_extension.id, block.ins, block.header.height),
//@ end
//@ extract chain/src/pipe.rs :: fn validate_utxo
//@   sigrewrite `ext: &mut txhashset::ExtensionPair<'_>,` => `ext: &mut txhashset::ExtensionPair,`
//@   sigrewrite `batch: &store::Batch<'_>,` => `batch: &store::Batch,`
//@   ensures:
//@+    *final(ext) == *old(ext),
//@+    r is Ok ==> sp_utxo_valid(old(ext).extension.id, old(ext).header_extension.id, block.body_id, block.ins),
//@ end
//@ extract chain/src/pipe.rs :: fn validate_header_denylist
//@   strip_logs
//@   rewrite `denylist.contains(&header.hash())` => `slice_contains(denylist, &header.hash())`
//@   rewrite `"header hash denied".into(),` => `msg(),`
//@   ensures:
//@+    r is Ok <==> !denylist@.contains(header.id),
//@ end
//@ canary verify_coinbase_maturity: r is Err
//@ canary validate_header_denylist: r is Err
