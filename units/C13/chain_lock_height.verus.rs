//@ assume: Chain is reduced to abstract tip accessors: head_header / head (the BODY head, the chain transactions will be mined on) and header_head (the header chain's head, which can be ahead or on another fork) with uninterpreted heights; Transaction::lock_height is the maximum kernel lock height (Kani unit C13/lock_heights, bounded, on the real code)
//@ assume: decided here: the pool-side lock-height rule -- Chain::verify_tx_lock_height admits a transaction iff its lock height is at most the height of the NEXT block (head height + 1), so a height-locked kernel stays out of the pool until the next block reaches its lock height
//@ assumed_items: 6
//@ fns: Chain::verify_tx_lock_height, Chain::next_block_height
pub enum Error { TxLockHeight, Store }
pub struct BlockHeader { pub height: u64 }
pub struct Tip { pub height: u64 }
#[verifier::external_body]
pub struct Transaction { _p: u8 }
impl Transaction {
    pub uninterp spec fn sp_lock_height(&self) -> u64;
    #[verifier::external_body]
    pub fn lock_height(&self) -> (r: u64) ensures r == self.sp_lock_height() { unimplemented!() }
}
#[verifier::external_body]
pub struct Chain { _p: u8 }
impl Chain {
    pub uninterp spec fn sp_head_height(&self) -> u64;
    /// the other tips the real Chain offers: the header chain's head and the body head as a Tip -- heights of their own
    pub uninterp spec fn sp_header_head_height(&self) -> u64;
    #[verifier::external_body]
    pub fn header_head(&self) -> (r: Result<Tip, Error>) ensures r matches Ok(t) ==> t.height == self.sp_header_head_height() { unimplemented!() }
    #[verifier::external_body]
    pub fn head(&self) -> (r: Result<Tip, Error>) ensures r matches Ok(t) ==> t.height == self.sp_head_height() { unimplemented!() }
    #[verifier::external_body]
    pub fn head_header(&self) -> (r: Result<BlockHeader, Error>) ensures r matches Ok(h) ==> h.height == self.sp_head_height() { unimplemented!() }
//@ extract chain/src/chain.rs :: impl Chain::next_block_height
//@   requires:
//@+    self.sp_head_height() < u64::MAX,
//@   ensures:
//@+    r matches Ok(h) ==> h == self.sp_head_height() + 1,
//@ end
//@ extract chain/src/chain.rs :: impl Chain::verify_tx_lock_height
//@   requires:
//@+    self.sp_head_height() < u64::MAX,
//@   ensures:
//@+    r.is_ok() ==> tx.sp_lock_height() <= self.sp_head_height() + 1,
//@+    tx.sp_lock_height() > self.sp_head_height() + 1 ==> r.is_err(),
//@ end
}
//@ canary verify_tx_lock_height: r.is_err()
