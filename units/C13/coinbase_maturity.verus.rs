//@ assume: UTXOView, Batch, Inputs are abstract; validate_input (under contract in C02/utxo_view) resolves an input commitment to (output identifier, position) or fails: sp_validate; get_header_by_height returns the header at that height on the chain being extended; global::coinbase_maturity is a per-chain constant
//@ assume: T5: the two iterator chains `inputs.iter().map(f).collect::<Result<Vec<_>, _>>()` and `spent.iter().filter_map(g).max()` keep their shape over abstract stand-ins (InputVec/InIter/ResIter, SpentVec/SpIter/PosIter) whose contracts say exactly: map applies f in order; collect is Ok(all values) iff no element is an Err; filter_map keeps the `Some` results in order; max is the largest element (None iff empty). BOTH closures are the REAL closure texts, verified as lifted functions (T7). T6: `let inputs: Vec<_> = inputs.into()` => inputs_into; the type annotation `Result<Vec<_>, _>` => `Result<SpentVec, Error>`
//@ assume: decided here: UTXOView::verify_coinbase_maturity returns Ok only if every input resolved (validate_input on its own commitment) and, when at least one resolved output is a coinbase, the block/tx height is at least the maturity AND EVERY coinbase being spent sits at a position <= the output MMR size of the header `maturity` blocks below -- i.e. the check is made against the MOST RECENT (highest-position) coinbase, not the first or last one in input order; it fails when a coinbase is spent below the maturity height. History clauses (every fork) are not decided.
//@ assumed_items: 15
//@ fns: UTXOView::verify_coinbase_maturity, 2 closures in UTXOView::verify_coinbase_maturity
#[derive(Clone, Copy, PartialEq, Eq)]
pub struct Commitment { pub c: u64 }
#[derive(Clone, Copy, PartialEq, Eq)]
pub enum OutputFeatures { Plain, Coinbase }
impl OutputFeatures { pub fn is_coinbase(self) -> (r: bool) ensures r == (self == OutputFeatures::Coinbase) { match self { OutputFeatures::Coinbase => true, OutputFeatures::Plain => false } } }
#[derive(Clone, Copy)]
pub struct OutputIdentifier { pub features: OutputFeatures, pub commit: Commitment }
#[derive(Clone, Copy)]
pub struct CommitPos { pub pos: u64, pub height: u64 }
#[derive(Clone, Copy)]
pub struct Input { pub c: Commitment }
impl Input { pub fn commitment(&self) -> (r: Commitment) ensures r == self.c { self.c } }
#[verifier::external_body]
pub struct Inputs { _p: u8 }
impl Inputs { pub uninterp spec fn list(&self) -> Seq<Input>; }
#[verifier::external_body]
pub struct Batch { _p: u8 }
pub struct BlockHeader { pub output_mmr_size: u64, pub height: u64 }
#[derive(Clone, Copy)]
pub enum Error { ImmatureCoinbase, AlreadySpent, Store }
pub uninterp spec fn sp_maturity() -> u64;
pub uninterp spec fn sp_validate(v: UTXOView, batch: Batch, c: Commitment) -> Result<(OutputIdentifier, CommitPos), Error>;
pub uninterp spec fn sp_header_at(v: UTXOView, batch: Batch, height: u64) -> Option<BlockHeader>;
pub mod global {
    use super::*;
    #[verifier::external_body]
    pub fn coinbase_maturity() -> (r: u64) ensures r == sp_maturity() { unimplemented!() }
}
/// every input resolved, in order -- or None if one did not
pub open spec fn resolved(v: UTXOView, batch: Batch, ins: Seq<Input>) -> Option<Seq<(OutputIdentifier, CommitPos)>> decreases ins.len() {
    if ins.len() == 0 { Some(Seq::empty()) } else {
        match (resolved(v, batch, ins.drop_last()), sp_validate(v, batch, ins.last().c)) { (Some(s), Ok(x)) => Some(s.push(x)), _ => None } }
}
pub open spec fn is_cb_at(s: Seq<(OutputIdentifier, CommitPos)>, i: int) -> bool { 0 <= i < s.len() && s[i].0.features == OutputFeatures::Coinbase }
/// what the second closure must return
pub open spec fn sp_cb_pos(x: (OutputIdentifier, CommitPos)) -> Option<u64> { if x.0.features == OutputFeatures::Coinbase { Some(x.1.pos) } else { None } }
pub open spec fn cb_positions(s: Seq<(OutputIdentifier, CommitPos)>) -> Seq<u64> decreases s.len() {
    if s.len() == 0 { Seq::empty() } else { let r = cb_positions(s.drop_last()); match sp_cb_pos(s.last()) { Some(p) => r.push(p), None => r } }
}
/// stand-ins for the iterator adaptors
pub struct InputVec { pub v: Vec<Input> }
pub struct InIter { pub items: Ghost<Seq<Input>> }
pub struct ResIter { pub view: Ghost<UTXOView>, pub batch: Ghost<Batch>, pub ins: Ghost<Seq<Input>> }
pub struct SpentVec { pub v: Vec<(OutputIdentifier, CommitPos)> }
pub struct SpIter { pub items: Ghost<Seq<(OutputIdentifier, CommitPos)>> }
pub struct PosIter { pub items: Ghost<Seq<u64>> }
pub struct ResolveEnv<'a> { pub view: &'a UTXOView, pub batch: &'a Batch }
pub struct CbPos {}
#[verifier::external_body]
fn inputs_into(inputs: &Inputs) -> (r: InputVec) ensures r.v@ == inputs.list() { unimplemented!() }
impl InputVec { #[verifier::external_body] pub fn iter(&self) -> (r: InIter) ensures r.items@ == self.v@ { unimplemented!() } }
impl InIter {
    /// Iterator::map with the lifted closure resolve_one (returns sp_validate(view, batch, x.c) for each x)
    #[verifier::external_body]
    pub fn map(self, f: ResolveEnv) -> (r: ResIter) ensures r.view@ == *f.view, r.batch@ == *f.batch, r.ins@ == self.items@ { unimplemented!() }
}
impl ResIter {
    /// collect::<Result<Vec<_>, _>>(): Ok(all values in order) iff no element is an Err
    #[verifier::external_body]
    pub fn collect(self) -> (r: Result<SpentVec, Error>)
        ensures r matches Ok(sv) ==> resolved(self.view@, self.batch@, self.ins@) == Some(sv.v@), r.is_err() ==> resolved(self.view@, self.batch@, self.ins@).is_none() { unimplemented!() }
}
impl SpentVec { #[verifier::external_body] pub fn iter(&self) -> (r: SpIter) ensures r.items@ == self.v@ { unimplemented!() } }
impl SpIter {
    #[verifier::external_body]
    pub fn filter_map(self, f: CbPos) -> (r: PosIter) ensures r.items@ == cb_positions(self.items@) { unimplemented!() }
}
impl PosIter {
    #[verifier::external_body]
    pub fn min(self) -> (r: Option<u64>)
        ensures self.items@.len() == 0 ==> r.is_none(),
            self.items@.len() > 0 ==> (r matches Some(m) && self.items@.contains(m) && forall|i: int| 0 <= i < self.items@.len() ==> self.items@[i] >= m) { unimplemented!() }
    #[verifier::external_body]
    pub fn last(self) -> (r: Option<u64>)
        ensures self.items@.len() == 0 ==> r.is_none(), self.items@.len() > 0 ==> r == Some(self.items@.last()) { unimplemented!() }
    #[verifier::external_body]
    pub fn max(self) -> (r: Option<u64>)
        ensures self.items@.len() == 0 ==> r.is_none(),
            self.items@.len() > 0 ==> (r matches Some(m) && self.items@.contains(m) && forall|i: int| 0 <= i < self.items@.len() ==> self.items@[i] <= m) { unimplemented!() }
}
/// cb_positions lists exactly the positions of the coinbase entries
proof fn lemma_cb_positions(s: Seq<(OutputIdentifier, CommitPos)>)
    ensures forall|i: int| is_cb_at(s, i) ==> cb_positions(s).contains(#[trigger] s[i].1.pos),
            forall|p: u64| cb_positions(s).contains(p) ==> exists|i: int| is_cb_at(s, i) && #[trigger] s[i].1.pos == p,
    decreases s.len()
{
    if s.len() > 0 {
        let t = s.drop_last(); lemma_cb_positions(t);
        let r = cb_positions(t); let full = cb_positions(s);
        assert forall|i: int| is_cb_at(s, i) implies full.contains(#[trigger] s[i].1.pos) by {
            if i < t.len() { assert(is_cb_at(t, i)); assert(t[i] == s[i]); assert(r.contains(t[i].1.pos)); let k = choose|k: int| 0 <= k < r.len() && r[k] == t[i].1.pos; assert(full[k] == r[k]); }
            else { assert(full == r.push(s.last().1.pos)); assert(full[full.len() - 1] == s[i].1.pos); }
        }
        assert forall|p: u64| full.contains(p) implies exists|i: int| is_cb_at(s, i) && #[trigger] s[i].1.pos == p by {
            let k = choose|k: int| 0 <= k < full.len() && full[k] == p;
            if k < r.len() { assert(r[k] == p); assert(r.contains(p)); let i = choose|i: int| is_cb_at(t, i) && #[trigger] t[i].1.pos == p; assert(is_cb_at(s, i) && s[i].1.pos == p); }
            else { assert(is_cb_at(s, s.len() - 1) && s[s.len() - 1].1.pos == p); }
        }
    }
}
#[verifier::external_body]
pub struct UTXOView { _p: u8 }
impl UTXOView {
    #[verifier::external_body]
    pub fn validate_input(&self, commit: Commitment, batch: &Batch) -> (r: Result<(OutputIdentifier, CommitPos), Error>) ensures r == sp_validate(*self, *batch, commit) { unimplemented!() }
    #[verifier::external_body]
    pub fn get_header_by_height(&self, height: u64, batch: &Batch) -> (r: Result<BlockHeader, Error>)
        ensures r matches Ok(h) ==> sp_header_at(*self, *batch, height) == Some(h), r.is_err() ==> sp_header_at(*self, *batch, height).is_none()
    { unimplemented!() }

//@ extract chain/src/txhashset/utxo_view.rs :: impl UTXOView::verify_coinbase_maturity
//@   sigrewrite `batch: &Batch<'_>,` => `batch: &Batch,`
//@   rewrite `let inputs: Vec<_> = inputs.into();` => `let inputs: InputVec = inputs_into(inputs);`
//@   rewrite `let spent: Result<Vec<_>, _> = inputs` => `let spent: Result<SpentVec, Error> = inputs`
//@   eclosure 1 replaced_by `ResolveEnv { view: self, batch }`
//@   closure 1 replaced_by `CbPos {}`
//@   before `if let Some(pos) = pos {`:
//@+    proof { let s = resolved(*self, *batch, inputs.v@).unwrap(); let cp = cb_positions(s); lemma_cb_positions(s);
//@+            assert forall|i: int| is_cb_at(s, i) implies (pos matches Some(m) && s[i].1.pos <= m) by {
//@+                assert(cp.contains(s[i].1.pos)); let k = choose|k: int| 0 <= k < cp.len() && cp[k] == s[i].1.pos; assert(cp[k] <= pos.unwrap()); }
//@+            if pos.is_some() { let m = pos.unwrap(); assert(cp.contains(m)); let i = choose|i: int| is_cb_at(s, i) && #[trigger] s[i].1.pos == m; assert(is_cb_at(s, i)); } }
//@   ensures:
//@+    r.is_ok() ==> (resolved(*self, *batch, inputs.list()) matches Some(s) && (
//@+        (forall|i: int| !is_cb_at(s, i)) || (
//@+            height >= sp_maturity()
//@+            && (sp_header_at(*self, *batch, (height - sp_maturity()) as u64) matches Some(h)
//@+                && forall|i: int| is_cb_at(s, i) ==> s[i].1.pos <= h.output_mmr_size)))),
//@+    (resolved(*self, *batch, inputs.list()) matches Some(s) && (exists|i: int| is_cb_at(s, i)) && height < sp_maturity()) ==> r.is_err(),
//@ end
//@ extract chain/src/txhashset/utxo_view.rs :: impl UTXOView::verify_coinbase_maturity
//@   eclosure 1 lifted_as `fn resolve_one(&self, x: &Input, batch: &Batch) -> Result<(OutputIdentifier, CommitPos), Error>`
//@   ensures:
//@+    r == sp_validate(*self, *batch, x.c),
//@ end
}
//@ extract chain/src/txhashset/utxo_view.rs :: impl UTXOView::verify_coinbase_maturity
//@   closure 1 lifted_as `fn cb_pos(arg: &(OutputIdentifier, CommitPos)) -> Option<u64>`
//@   at_start:
//@+    let (out, pos) = arg; // the closure's pattern parameter `|(out, pos)|` (the verifier accepts only identifier parameters)
//@   ensures:
//@+    r == sp_cb_pos(*arg),
//@ end
//@ canary verify_coinbase_maturity: r.is_err()
