//@ assume: Chain is reduced to its two lock-protected handles and the body head accessor; a header MMR handle / header extension FOLLOWS a chain (ghost `follows`: the hash of the header whose ancestry the MMR currently holds): on disk that is the HEADER head, which can sit on a different fork than the body head (headers of a heavier fork arrive first, or never get their bodies); rewind_and_apply_header_fork(h, ext, batch) makes the extension follow h (proved for the real function in C02/header_fork: rewinds to the common ancestor and re-applies h's ancestry); UTXOView::verify_coinbase_maturity(inputs, height, batch) is abstract here (its cutoff logic is decided in C13/coinbase_maturity): Ok ==> every coinbase spent by `inputs` is mature at `height` ACCORDING TO THE HEADER CHAIN THE VIEW READS (sp_mature(chain followed, inputs, height)); RwLock read()/write() return the guarded value
//@ assume: T7: the closure handed to txhashset::extending_readonly is lifted and verified; the stand-in hands back the predicate it proves. T6: the lock guards are a struct with the guarded value as field `v` (`&mut header_pmmr` => `&mut header_pmmr.v`); `ext.header_extension` is an owned field here (`&mut ext.header_extension` / `&ext.header_extension`)
//@ assume: decided here (C13, 'a transaction spending it is not admitted to the pool before that ... These decisions are taken against the fork being extended'): the pool-side check Chain::verify_coinbase_maturity returns Ok ONLY IF the spent coinbases are mature at the height of the NEXT block (body head + 1) according to the header chain OF THE BODY HEAD -- the chain the next block will extend -- not whatever chain the header MMR happens to follow
//@ assumed_items: 8
//@ fns: Chain::verify_coinbase_maturity, Chain::verify_coinbase_maturity (closure), Chain::next_block_height
pub enum Error { ImmatureCoinbase, Store }
#[derive(Clone, Copy)]
pub struct Hash { pub v: u64 }
#[derive(Clone, Copy)]
pub struct BlockHeader { pub height: u64, pub id: Hash }
#[verifier::external_body]
pub struct Inputs { _p: u8 }
/// every coinbase spent by `inputs` is mature at `height`, the cutoff header being read from the header chain ending in `chain`
pub uninterp spec fn sp_mature(chain: Hash, inputs: Inputs, height: u64) -> bool;
pub struct Batch { pub _p: u8 }
pub struct PMMRHandle { pub follows: Ghost<Hash> }
pub struct TxHashSet { pub _p: u8 }
pub struct HeaderExtension { pub follows: Ghost<Hash> }
pub struct Extension { pub _p: u8 }
pub struct ExtensionPair { pub header_extension: HeaderExtension, pub extension: Extension }
pub struct UTXOView { pub follows: Ghost<Hash> }
impl UTXOView {
    #[verifier::external_body]
    pub fn verify_coinbase_maturity(&self, inputs: &Inputs, height: u64, batch: &Batch) -> (r: Result<(), Error>)
        ensures r.is_ok() ==> sp_mature(self.follows@, *inputs, height) { unimplemented!() }
}
impl Extension {
    #[verifier::external_body]
    pub fn utxo_view(&self, header_ext: &HeaderExtension) -> (r: UTXOView) ensures r.follows@ == header_ext.follows@ { unimplemented!() }
}
pub struct RwLock<T> { pub v: T }
impl<T> RwLock<T> {
    pub fn read(&self) -> (r: &T) ensures *r == self.v { &self.v }
}
pub struct Chain { pub header_pmmr: RwLock<PMMRHandle>, pub txhashset: RwLock<TxHashSet>, pub _p: u8 }
impl Chain {
    pub uninterp spec fn sp_body_head(&self) -> BlockHeader;
    #[verifier::external_body]
    pub fn head_header(&self) -> (r: Result<BlockHeader, Error>) ensures r matches Ok(h) ==> h == self.sp_body_head() { unimplemented!() }
//@ extract chain/src/chain.rs :: impl Chain::next_block_height
//@   requires:
//@+    self.sp_body_head().height < u64::MAX,
//@   ensures:
//@+    r matches Ok(h) ==> h == self.sp_body_head().height + 1,
//@ end
}
pub struct MaturityEnv<'a> { pub inputs: &'a Inputs, pub height: u64, pub head_header: &'a BlockHeader }
impl Chain {
    /// Chain::rewind_and_apply_header_fork (denylist wrapper around pipe::rewind_and_apply_header_fork, proved in C02/header_fork):
    /// afterwards the header extension holds exactly `header`'s ancestry
    #[verifier::external_body]
    fn rewind_and_apply_header_fork(&self, header: &BlockHeader, ext: &mut HeaderExtension, batch: &mut Batch) -> (r: Result<(), Error>)
        ensures r.is_ok() ==> final(ext).follows@ == header.id { unimplemented!() }
//@ extract chain/src/chain.rs :: impl Chain::verify_coinbase_maturity
//@   closure 1 lifted_as `fn maturity_inner(&self, ext: &mut ExtensionPair, batch: &mut Batch, inputs: &Inputs, height: u64, head_header: &BlockHeader) -> Result<(), Error>`
//@   rewrite `self.rewind_and_apply_header_fork(&head_header, ext.header_extension, batch)?;` => `self.rewind_and_apply_header_fork(head_header, &mut ext.header_extension, batch)?;` x?
//@   rewrite `.utxo_view(ext.header_extension)` => `.utxo_view(&ext.header_extension)` x?
//@   ensures:
//@+    r.is_ok() ==> sp_mature(head_header.id, *inputs, height),
//@ end
}
pub mod txhashset {
    use super::*;
    /// txhashset::extending_readonly (under contract in C06/extending_readonly), abstract over the closure's environment:
    /// Ok only if the closure (maturity_inner above) returned Ok; the header extension it gets follows whatever the handle follows
    #[verifier::external_body]
    pub fn extending_readonly(handle: &mut PMMRHandle, trees: &mut TxHashSet, env: MaturityEnv) -> (r: Result<(), Error>)
        ensures r.is_ok() ==> sp_mature(env.head_header.id, *env.inputs, env.height) { unimplemented!() }
    /// the readonly UTXO view over the header MMR AS IT IS ON DISK (ReadonlyPMMR::at(&handle.backend, handle.size)): judged on the chain the handle follows
    #[verifier::external_body]
    pub fn utxo_view(handle: &PMMRHandle, trees: &TxHashSet, env: MaturityEnv) -> (r: Result<(), Error>)
        ensures r.is_ok() ==> sp_mature(handle.follows@, *env.inputs, env.height) { unimplemented!() }
}
impl<T> RwLock<T> {
    #[verifier::external_body]
    pub fn write(&self) -> (r: Guard<T>) ensures r.v == self.v { unimplemented!() }
}
pub struct Guard<T> { pub v: T }
impl Chain {
//@ extract chain/src/chain.rs :: impl Chain::verify_coinbase_maturity
//@   closure 1 replaced_by `MaturityEnv { inputs, height, head_header: &head_header }`
//@   rewrite `txhashset::extending_readonly(&mut header_pmmr, &mut txhashset, ` => `txhashset::extending_readonly(&mut header_pmmr.v, &mut txhashset.v, ` x?
//@   requires:
//@+    self.sp_body_head().height < u64::MAX,
//@   ensures:
//@+    // mature at the next block's height, judged on the chain the next block extends: the BODY head's
//@+    r.is_ok() ==> sp_mature(self.sp_body_head().id, *inputs, (self.sp_body_head().height + 1) as u64),
//@ end
}
//@ canary verify_coinbase_maturity: r.is_err()
