//@ applies_if: chain/src/chain.rs :: impl Chain::verify_coinbase_maturity :: `txhashset::utxo_view(`
//@ assume: SHAPE-SPECIFIC unit: this is the unit that reported finding F15 on the pinned tree; it applies only while Chain::verify_coinbase_maturity builds its view with txhashset::utxo_view (the header MMR as it is on disk), i.e. if the repair 93592e0cb is reverted; on the repaired tree it is skipped and C13/chain_maturity decides the function
//@ assume: Chain is reduced to its two lock-protected handles and the body head accessor; a header MMR handle / header extension FOLLOWS a chain (ghost `follows`: the hash of the header whose ancestry the MMR currently holds): on disk that is the HEADER head, which can sit on a different fork than the body head (headers of a heavier fork arrive first, or never get their bodies); rewind_and_apply_header_fork(h, ext, batch) makes the extension follow h (proved for the real function in C02/header_fork: rewinds to the common ancestor and re-applies h's ancestry); UTXOView::verify_coinbase_maturity(inputs, height, batch) is abstract here (its cutoff logic is decided in C13/coinbase_maturity): Ok ==> every coinbase spent by `inputs` is mature at `height` ACCORDING TO THE HEADER CHAIN THE VIEW READS (sp_mature(chain followed, inputs, height)); RwLock read()/write() return the guarded value
//@ assume: T7: the closure handed to txhashset::extending_readonly is lifted and verified; the stand-in hands back the predicate it proves. T6: `self.header_pmmr.write()` / `self.txhashset.write()` => guard accessors over the abstract handles
//@ assume: decided here (C13, 'a transaction spending it is not admitted to the pool before that ... These decisions are taken against the fork being extended'): the pool-side check Chain::verify_coinbase_maturity returns Ok ONLY IF the spent coinbases are mature at the height of the NEXT block (body head + 1) according to the header chain OF THE BODY HEAD -- the chain the next block will extend -- not whatever chain the header MMR happens to follow
//@ assumed_items: 5
//@ fns: Chain::verify_coinbase_maturity, Chain::verify_coinbase_maturity (closure), Chain::next_block_height
pub enum Error { ImmatureCoinbase, Store }
#[derive(Clone, Copy)]
pub struct Hash { pub v: u64 }
#[derive(Clone, Copy)]
pub struct BlockHeader { pub height: u64, pub id: Hash }
#[verifier::external_body]
pub struct Inputs { _p: u8 }
/// every coinbase spent by `inputs` is mature at `height`, the cutoff header being read from the header chain ending in `chain`
pub uninterp spec fn sp_mature(chain: Hash, inputs: Inputs, height: u64) -> bool;
pub struct Batch { pub _p: u8 }
pub struct PMMRHandle { pub follows: Ghost<Hash> }
pub struct TxHashSet { pub _p: u8 }
pub struct HeaderExtension { pub follows: Ghost<Hash> }
pub struct Extension { pub _p: u8 }
pub struct ExtensionPair { pub header_extension: HeaderExtension, pub extension: Extension }
pub struct UTXOView { pub follows: Ghost<Hash> }
impl UTXOView {
    #[verifier::external_body]
    pub fn verify_coinbase_maturity(&self, inputs: &Inputs, height: u64, batch: &Batch) -> (r: Result<(), Error>)
        ensures r.is_ok() ==> sp_mature(self.follows@, *inputs, height) { unimplemented!() }
}
impl Extension {
    #[verifier::external_body]
    pub fn utxo_view(&self, header_ext: &HeaderExtension) -> (r: UTXOView) ensures r.follows@ == header_ext.follows@ { unimplemented!() }
}
pub struct RwLock<T> { pub v: T }
impl<T> RwLock<T> {
    pub fn read(&self) -> (r: &T) ensures *r == self.v { &self.v }
}
pub struct Chain { pub header_pmmr: RwLock<PMMRHandle>, pub txhashset: RwLock<TxHashSet>, pub _p: u8 }
impl Chain {
    pub uninterp spec fn sp_body_head(&self) -> BlockHeader;
    #[verifier::external_body]
    pub fn head_header(&self) -> (r: Result<BlockHeader, Error>) ensures r matches Ok(h) ==> h == self.sp_body_head() { unimplemented!() }
//@ extract chain/src/chain.rs :: impl Chain::next_block_height
//@   requires:
//@+    self.sp_body_head().height < u64::MAX,
//@   ensures:
//@+    r matches Ok(h) ==> h == self.sp_body_head().height + 1,
//@ end
}
pub struct MaturityEnv<'a> { pub inputs: &'a Inputs, pub height: u64 }
pub mod txhashset {
    use super::*;
    /// the readonly UTXO view over the header MMR AS IT IS ON DISK (txhashset::utxo_view builds ReadonlyPMMR::at(&handle.backend, handle.size))
    #[verifier::external_body]
    pub fn utxo_view(handle: &PMMRHandle, trees: &TxHashSet, env: MaturityEnv) -> (r: Result<(), Error>)
        ensures r.is_ok() ==> sp_mature(handle.follows@, *env.inputs, env.height) { unimplemented!() }
}
impl Chain {
//@ extract chain/src/chain.rs :: impl Chain::verify_coinbase_maturity
//@   closure 1 replaced_by `MaturityEnv { inputs, height }`
//@   requires:
//@+    self.sp_body_head().height < u64::MAX,
//@   ensures:
//@+    // mature at the next block's height, judged on the chain the next block extends: the BODY head's
//@+    r.is_ok() ==> sp_mature(self.sp_body_head().id, *inputs, (self.sp_body_head().height + 1) as u64),
//@ end
}
//@ canary verify_coinbase_maturity: r.is_err()
