//@ assume: the NRD recent-kernel index (an LMDB-backed list per excess) is abstract: peek_pos returns the most recent entry for the excess on the fork being extended, push_pos appends the new one, pop_pos drops the most recent one (the whole per-excess list is the view, so a rewind can find the earlier instance); is_nrd_enabled is an uninterpreted flag; KernelFeatures is the real enum (extracted, attributes stripped) with FeeFields/NRDRelativeHeight as newtypes
//@ assume: T6 rewrites: `relative_height.into()` => nrd_to_u64(relative_height) (the From impl: the wrapped u16 widened), path prefixes dropped, log macros removed (T3)
//@ assume: decided here: when the feature is on, an NRD kernel is refused iff the same excess has an index entry fewer than relative_height blocks below the block being applied, and an accepted NRD kernel is appended to its excess's list with every earlier entry kept; a refused kernel, other kernel variants and other excesses leave the index untouched. Per-fork maintenance of the index during rewind/reorg is a history property and is not decided.
//@ assumed_items: 8
//@ fns: txhashset::apply_kernel_rules
#[derive(Clone, Copy)]
pub struct FeeFields(pub u64);
#[derive(Clone, Copy)]
pub struct NRDRelativeHeight(pub u16);
//@ extract core/src/core/transaction.rs :: enum KernelFeatures
//@   strip_attrs
//@ end
#[verifier::external_body]
#[derive(Clone, Copy)]
pub struct Commitment { _p: u8 }
pub struct TxKernel { pub features: KernelFeatures, pub excess_c: Commitment }
#[derive(Clone, Copy)]
pub struct CommitPos { pub pos: u64, pub height: u64 }
#[verifier::external_body]
pub struct Batch { _p: u8 }
#[verifier::external_body]
pub struct KernelIndex { _p: u8 }
pub enum Error { NRDRelativeHeight, Store }

pub uninterp spec fn sp_nrd_enabled() -> bool;
impl Batch {
    /// the index: per excess, the list of positions where it occurred on the fork being extended, oldest first
    pub uninterp spec fn entries(&self, c: Commitment) -> Seq<CommitPos>;
    /// most recent index entry for this excess
    pub open spec fn recent(&self, c: Commitment) -> Option<CommitPos> {
        if self.entries(c).len() > 0 { Some(self.entries(c).last()) } else { None }
    }
}
impl TxKernel {
    pub fn excess(&self) -> (r: Commitment) ensures r == self.excess_c { self.excess_c }
}
#[verifier::external_body]
fn is_nrd_enabled() -> (r: bool) ensures r == sp_nrd_enabled() { unimplemented!() }
#[verifier::external_body]
fn nrd_recent_kernel_index() -> (r: KernelIndex) { unimplemented!() }
fn nrd_to_u64(h: NRDRelativeHeight) -> (r: u64) ensures r == h.0 as u64 { h.0 as u64 }
impl KernelIndex {
    #[verifier::external_body]
    pub fn peek_pos(&self, batch: &mut Batch, c: Commitment) -> (r: Result<Option<CommitPos>, Error>)
        ensures r matches Ok(p) ==> p == old(batch).recent(c),
                forall|d: Commitment| final(batch).entries(d) == old(batch).entries(d)
    { unimplemented!() }
    #[verifier::external_body]
    pub fn push_pos(&self, batch: &mut Batch, c: Commitment, pos: CommitPos) -> (r: Result<(), Error>)
        ensures r.is_ok() ==> final(batch).entries(c) == old(batch).entries(c).push(pos),
                r.is_err() ==> final(batch).entries(c) == old(batch).entries(c),
                forall|d: Commitment| d != c ==> final(batch).entries(d) == old(batch).entries(d)
    { unimplemented!() }
    #[verifier::external_body]
    pub fn pop_pos(&self, batch: &mut Batch, c: Commitment) -> (r: Result<Option<CommitPos>, Error>)
        ensures r.is_ok() ==> final(batch).entries(c) == (if old(batch).entries(c).len() > 0 { old(batch).entries(c).drop_last() } else { old(batch).entries(c) }),
                r.is_err() ==> final(batch).entries(c) == old(batch).entries(c),
                forall|d: Commitment| d != c ==> final(batch).entries(d) == old(batch).entries(d)
    { unimplemented!() }
}

/// relative height of an NRD kernel, None for the other variants
pub open spec fn nrd_rel(f: KernelFeatures) -> Option<u64> {
    match f { KernelFeatures::NoRecentDuplicate { relative_height, .. } => Some(relative_height.0 as u64), _ => None }
}
/// the same excess occurred fewer than `rel` blocks below the block being applied
pub open spec fn too_recent(prev: Option<CommitPos>, pos: CommitPos, rel: u64) -> bool {
    match prev { Some(p) => (if pos.height >= p.height { pos.height - p.height } else { 0 }) < rel, None => false }
}

//@ extract chain/src/txhashset/txhashset.rs :: fn apply_kernel_rules
//@   strip_logs
//@   sigrewrite `batch: &mut Batch<'_>,` => `batch: &mut Batch,`
//@   rewrite `global::is_nrd_enabled()` => `is_nrd_enabled()`
//@   rewrite `store::nrd_recent_kernel_index()` => `nrd_recent_kernel_index()`
//@   rewrite `diff < relative_height.into()` => `diff < nrd_to_u64(relative_height)`
//@   ensures:
//@+    !sp_nrd_enabled() ==> r.is_ok() && final(batch).entries(kernel.excess_c) == old(batch).entries(kernel.excess_c),
//@+    (sp_nrd_enabled() && nrd_rel(kernel.features).is_some()) ==>
//@+        (r.is_ok() <==> !too_recent(old(batch).recent(kernel.excess_c), pos, nrd_rel(kernel.features).unwrap())) || r.is_err(),
//@+    (sp_nrd_enabled() && nrd_rel(kernel.features).is_some() && r.is_ok()) ==>
//@+        !too_recent(old(batch).recent(kernel.excess_c), pos, nrd_rel(kernel.features).unwrap()) && final(batch).entries(kernel.excess_c) == old(batch).entries(kernel.excess_c).push(pos),
//@+    (sp_nrd_enabled() && nrd_rel(kernel.features).is_some()
//@+        && too_recent(old(batch).recent(kernel.excess_c), pos, nrd_rel(kernel.features).unwrap())) ==> r.is_err(),
//@+    (sp_nrd_enabled() && nrd_rel(kernel.features).is_none()) ==> r.is_ok() && final(batch).entries(kernel.excess_c) == old(batch).entries(kernel.excess_c),
//@+    forall|d: Commitment| d != kernel.excess_c ==> final(batch).entries(d) == old(batch).entries(d),
//@+    r.is_err() ==> final(batch).entries(kernel.excess_c) == old(batch).entries(kernel.excess_c),
//@ end
//@ canary apply_kernel_rules: r.is_err()
