//@ assume: the NRD recent-kernel index (an LMDB-backed list per excess) is abstract: peek_pos returns the most recent entry for the excess on the fork being extended, push_pos records the new one; is_nrd_enabled is an uninterpreted flag; KernelFeatures is the real enum (extracted, attributes stripped) with FeeFields/NRDRelativeHeight as newtypes
//@ assume: T6 rewrites: `relative_height.into()` => nrd_to_u64(relative_height) (the From impl: the wrapped u16 widened), path prefixes dropped, log macros removed (T3)
//@ assume: decided here: when the feature is on, an NRD kernel is refused iff the same excess has an index entry fewer than relative_height blocks below the block being applied, and an accepted NRD kernel is recorded; other kernel variants are untouched. Per-fork maintenance of the index during rewind/reorg is a history property and is not decided.
//@ assumed_items: 7
//@ fns: txhashset::apply_kernel_rules
#[derive(Clone, Copy)]
pub struct FeeFields(pub u64);
#[derive(Clone, Copy)]
pub struct NRDRelativeHeight(pub u16);
//@ extract core/src/core/transaction.rs :: enum KernelFeatures
//@   strip_attrs
//@ end
#[verifier::external_body]
#[derive(Clone, Copy)]
pub struct Commitment { _p: u8 }
pub struct TxKernel { pub features: KernelFeatures, pub excess_c: Commitment }
#[derive(Clone, Copy)]
pub struct CommitPos { pub pos: u64, pub height: u64 }
#[verifier::external_body]
pub struct Batch { _p: u8 }
#[verifier::external_body]
pub struct KernelIndex { _p: u8 }
pub enum Error { NRDRelativeHeight, Store }

pub uninterp spec fn sp_nrd_enabled() -> bool;
impl Batch {
    pub uninterp spec fn recent(&self, c: Commitment) -> Option<CommitPos>;  // most recent index entry for this excess
}
impl TxKernel {
    pub fn excess(&self) -> (r: Commitment) ensures r == self.excess_c { self.excess_c }
}
#[verifier::external_body]
fn is_nrd_enabled() -> (r: bool) ensures r == sp_nrd_enabled() { unimplemented!() }
#[verifier::external_body]
fn nrd_recent_kernel_index() -> (r: KernelIndex) { unimplemented!() }
fn nrd_to_u64(h: NRDRelativeHeight) -> (r: u64) ensures r == h.0 as u64 { h.0 as u64 }
impl KernelIndex {
    #[verifier::external_body]
    pub fn peek_pos(&self, batch: &mut Batch, c: Commitment) -> (r: Result<Option<CommitPos>, Error>)
        ensures r matches Ok(p) ==> p == old(batch).recent(c), final(batch).recent(c) == old(batch).recent(c),
                forall|d: Commitment| final(batch).recent(d) == old(batch).recent(d)
    { unimplemented!() }
    #[verifier::external_body]
    pub fn push_pos(&self, batch: &mut Batch, c: Commitment, pos: CommitPos) -> (r: Result<(), Error>)
        ensures r.is_ok() ==> final(batch).recent(c) == Some(pos)
    { unimplemented!() }
}

/// relative height of an NRD kernel, None for the other variants
pub open spec fn nrd_rel(f: KernelFeatures) -> Option<u64> {
    match f { KernelFeatures::NoRecentDuplicate { relative_height, .. } => Some(relative_height.0 as u64), _ => None }
}
/// the same excess occurred fewer than `rel` blocks below the block being applied
pub open spec fn too_recent(prev: Option<CommitPos>, pos: CommitPos, rel: u64) -> bool {
    match prev { Some(p) => (if pos.height >= p.height { pos.height - p.height } else { 0 }) < rel, None => false }
}

//@ extract chain/src/txhashset/txhashset.rs :: fn apply_kernel_rules
//@   strip_logs
//@   sigrewrite `batch: &mut Batch<'_>,` => `batch: &mut Batch,`
//@   rewrite `global::is_nrd_enabled()` => `is_nrd_enabled()`
//@   rewrite `store::nrd_recent_kernel_index()` => `nrd_recent_kernel_index()`
//@   rewrite `diff < relative_height.into()` => `diff < nrd_to_u64(relative_height)`
//@   ensures:
//@+    !sp_nrd_enabled() ==> r.is_ok() && final(batch).recent(kernel.excess_c) == old(batch).recent(kernel.excess_c),
//@+    (sp_nrd_enabled() && nrd_rel(kernel.features).is_some()) ==>
//@+        (r.is_ok() <==> !too_recent(old(batch).recent(kernel.excess_c), pos, nrd_rel(kernel.features).unwrap())) || r.is_err(),
//@+    (sp_nrd_enabled() && nrd_rel(kernel.features).is_some() && r.is_ok()) ==>
//@+        !too_recent(old(batch).recent(kernel.excess_c), pos, nrd_rel(kernel.features).unwrap()) && final(batch).recent(kernel.excess_c) == Some(pos),
//@+    (sp_nrd_enabled() && nrd_rel(kernel.features).is_some()
//@+        && too_recent(old(batch).recent(kernel.excess_c), pos, nrd_rel(kernel.features).unwrap())) ==> r.is_err(),
//@+    (sp_nrd_enabled() && nrd_rel(kernel.features).is_none()) ==> r.is_ok() && final(batch).recent(kernel.excess_c) == old(batch).recent(kernel.excess_c),
//@ end
//@ canary apply_kernel_rules: r.is_err()
