//@ assume: the LMDB batch is a ghost map from (prefix, key) to a stored value that is either a list wrapper or a list entry (their first bytes differ -- variants 0,1 vs 2,3,4 -- so reading one as the other fails); assumed contracts: get_ser answers the stored value of that key (T6: `get_ser::<ListWrapper<T>>(k0, k1, None)` => get_list_ser(k0, k1), `get_ser(db_key, &key, None)` in get_entry => get_entry_ser(db_key, &key): the value type is chosen by the type parameter), put_ser stores exactly the value at exactly the key, delete removes exactly the key, and each leaves everything else alone; a failed call changes nothing
//@ assume: keys are abstract identities: the list key of a commitment is the commitment's bytes, the entry key `commit | pos` (entry_key: 33 commitment bytes followed by the big-endian position) is an INJECTIVE function of (commitment, position) -- ASSUMED (entry_key itself is not verified: byteorder); the two prefixes of an index differ (precondition)
//@ assume: T5: generic `T: PosEntry` => the one implementor CommitPos (pos, height); trait methods extracted as inherent ones (`Self::List` => ListWrapper, `Self::Entry` => ListEntry); T6: `"..".into()` error strings => msg(); the loop condition of rewind `.map(|x| x.pos() > rewind_pos).unwrap_or(false)` => helper `above(.., rewind_pos)` over the lifted, verified closure (Option::map / unwrap_or are std)
//@ assume: decided here (C13 'relative locks hold on every fork' / C06: the NRD kernel index the rule reads is a per-excess stack that a rewind must restore exactly), against the ABSTRACT VIEW of a commitment's list -- the sequence of positions reached from the list wrapper through the `next` links (head first, strictly descending positions, Head then Middles then Tail; forward links only: `prev`, used by the back-pruning path, is not part of the view): peek_pos returns the first element; push_pos refuses a position not above the first and otherwise makes the view [new] ++ old; pop_pos returns and removes exactly the first element (an empty list stays empty); rewind(p) removes exactly the leading elements above p and nothing else -- for ANY list length; and every one of them changes only keys of THIS commitment under THIS index's two prefixes (other commitments' lists and every other table are untouched)
//@ assumed_items: 6
//@ fns: MultiIndex::get_list, ListIndex::get_entry, MultiIndex::peek_pos, MultiIndex::push_pos, MultiIndex::pop_pos, MultiIndex::rewind (+ closure)
global size_of usize == 8;
#[derive(Clone, Copy)]
pub struct KeyBytes { pub id: Ghost<int> }
#[derive(Clone, Copy)]
pub struct Commitment { pub key: KeyBytes }
impl Commitment { pub fn as_ref(&self) -> (r: &KeyBytes) ensures *r == self.key { &self.key } }
#[derive(Clone, Copy, PartialEq, Eq, Structural)]
pub struct CommitPos { pub pos: u64, pub height: u64 }
impl CommitPos { pub fn pos(&self) -> (r: u64) ensures r == self.pos { self.pos } }
pub enum Error { OtherErr(Msg), Store }
pub struct Msg { pub _p: u8 }
pub fn msg() -> Msg { Msg { _p: 0 } }
//@ extract chain/src/linked_list.rs :: enum ListWrapper
//@   rewrite `pub enum ListWrapper<T> {` => `pub enum ListWrapper {`
//@   rewrite `pos: T,` => `pos: CommitPos,`
//@   strip_attrs
//@ end
//@ extract chain/src/linked_list.rs :: enum ListEntry
//@   rewrite `pub enum ListEntry<T> {` => `pub enum ListEntry {`
//@   rewrite `pos: T,` => `pos: CommitPos,` x3
//@   strip_attrs
//@ end
pub enum Value { L(ListWrapper), E(ListEntry) }
pub type DbMap = Map<(Option<u8>, int), Value>;
pub trait Storable { spec fn as_value(&self) -> Value; }
impl Storable for ListWrapper { open spec fn as_value(&self) -> Value { Value::L(*self) } }
impl Storable for ListEntry { open spec fn as_value(&self) -> Value { Value::E(*self) } }
pub struct Db { pub m: Ghost<DbMap> }
impl Db {
    #[verifier::external_body]
    pub fn get_list_ser(&self, prefix: Option<u8>, key: &KeyBytes) -> (r: Result<Option<ListWrapper>, Error>)
        ensures r matches Ok(o) ==> (match self.m@.get((prefix, key.id@)) { Some(Value::L(l)) => o == Some(l), Some(Value::E(_)) => false, None => o is None }) { unimplemented!() }
    #[verifier::external_body]
    pub fn get_entry_ser(&self, prefix: Option<u8>, key: &KeyBytes) -> (r: Result<Option<ListEntry>, Error>)
        ensures r matches Ok(o) ==> (match self.m@.get((prefix, key.id@)) { Some(Value::E(e)) => o == Some(e), Some(Value::L(_)) => false, None => o is None }) { unimplemented!() }
    #[verifier::external_body]
    pub fn put_ser<V: Storable>(&mut self, prefix: Option<u8>, key: &KeyBytes, v: &V) -> (r: Result<(), Error>)
        ensures r.is_ok() ==> final(self).m@ == old(self).m@.insert((prefix, key.id@), v.as_value()), r.is_err() ==> final(self).m@ == old(self).m@ { unimplemented!() }
}
pub struct Batch { pub db: Db }
impl Batch {
    #[verifier::external_body]
    pub fn delete(&mut self, prefix: Option<u8>, key: &KeyBytes) -> (r: Result<(), Error>)
        ensures r.is_ok() ==> final(self).db.m@ == old(self).db.m@.remove((prefix, key.id@)), r.is_err() ==> final(self).db.m@ == old(self).db.m@ { unimplemented!() }
}
pub uninterp spec fn sp_ekey(c: Commitment, pos: u64) -> int;
#[verifier::external_body]
pub proof fn axiom_ekey_injective(c1: Commitment, p1: u64, c2: Commitment, p2: u64)
    ensures sp_ekey(c1, p1) == sp_ekey(c2, p2) ==> c1.key.id@ == c2.key.id@ && p1 == p2 { }
pub struct MultiIndex { pub list_prefix: u8, pub entry_prefix: u8 }

pub open spec fn sp_entry(m: DbMap, ix: MultiIndex, c: Commitment, p: u64) -> Option<ListEntry> {
    match m.get((Some(ix.entry_prefix), sp_ekey(c, p))) { Some(Value::E(e)) => Some(e), _ => None }
}
pub open spec fn sp_list(m: DbMap, ix: MultiIndex, c: Commitment) -> Option<ListWrapper> {
    match m.get((Some(ix.list_prefix), c.key.id@)) { Some(Value::L(l)) => Some(l), _ => None }
}
/// the positions reached from the entry at p through the `next` links; `first`: p is the head of the list. None = not a well-formed chain
pub open spec fn sp_from(m: DbMap, ix: MultiIndex, c: Commitment, p: u64, first: bool) -> Option<Seq<CommitPos>> decreases p {
    match sp_entry(m, ix, c, p) {
        Some(ListEntry::Head { pos, next }) => if first && pos.pos == p && next < p { match sp_from(m, ix, c, next, false) { Some(s) => Some(seq![pos] + s), None => None } } else { None },
        Some(ListEntry::Middle { pos, next, prev }) => if !first && pos.pos == p && next < p { match sp_from(m, ix, c, next, false) { Some(s) => Some(seq![pos] + s), None => None } } else { None },
        Some(ListEntry::Tail { pos, prev }) => if !first && pos.pos == p { Some(seq![pos]) } else { None },
        None => None,
    }
}
/// the abstract view of the list of commitment c
pub open spec fn sp_view(m: DbMap, ix: MultiIndex, c: Commitment) -> Option<Seq<CommitPos>> {
    match m.get((Some(ix.list_prefix), c.key.id@)) {
        None => Some(Seq::empty()),
        Some(Value::L(ListWrapper::Single { pos })) => Some(seq![pos]),
        Some(Value::L(ListWrapper::Multi { head, tail })) => sp_from(m, ix, c, head, true),
        Some(Value::E(_)) => None,
    }
}
/// only keys of commitment c under this index's prefixes differ
pub open spec fn sp_only_c(m: DbMap, m2: DbMap, ix: MultiIndex, c: Commitment) -> bool {
    forall|k: (Option<u8>, int)| m.get(k) != m2.get(k) ==> (k == (Some(ix.list_prefix), c.key.id@) || exists|p: u64| k == (Some(ix.entry_prefix), #[trigger] sp_ekey(c, p)))
}
/// below position p the two maps hold the same entries of c
pub open spec fn sp_same_below(m: DbMap, m2: DbMap, ix: MultiIndex, c: Commitment, p: u64) -> bool {
    forall|q: u64| q < p ==> sp_entry(m, ix, c, q) == #[trigger] sp_entry(m2, ix, c, q)
}
pub proof fn lemma_from_same(m: DbMap, m2: DbMap, ix: MultiIndex, c: Commitment, p: u64, first: bool)
    requires sp_same_below(m, m2, ix, c, p), sp_entry(m, ix, c, p) == sp_entry(m2, ix, c, p),
    ensures sp_from(m, ix, c, p, first) == sp_from(m2, ix, c, p, first),
    decreases p,
{
    match sp_entry(m, ix, c, p) {
        Some(ListEntry::Head { pos, next }) => { if next < p { assert(sp_entry(m, ix, c, next) == sp_entry(m2, ix, c, next)); lemma_from_same(m, m2, ix, c, next, false); } },
        Some(ListEntry::Middle { pos, next, prev }) => { if next < p { assert(sp_entry(m, ix, c, next) == sp_entry(m2, ix, c, next)); lemma_from_same(m, m2, ix, c, next, false); } },
        _ => {},
    }
}
/// an entry key of c at another position, or any list key, is a different key
pub proof fn lemma_keys(ix: MultiIndex, c: Commitment, p: u64, q: u64)
    requires ix.list_prefix != ix.entry_prefix,
    ensures p != q ==> sp_ekey(c, p) != sp_ekey(c, q),
{ axiom_ekey_injective(c, p, c, q); }

impl MultiIndex {
    /// stands in for entry_key (see the second assumption)
    #[verifier::external_body]
    fn entry_key(&self, commit: Commitment, pos: u64) -> (r: (Option<u8>, KeyBytes)) ensures r.0 == Some(self.entry_prefix), r.1.id@ == sp_ekey(commit, pos) { unimplemented!() }
//@ extract chain/src/linked_list.rs :: impl ListIndex for MultiIndex::get_list
//@   sigrewrite `batch: &Batch<'_>` => `batch: &Batch`
//@   sigrewrite `Result<Option<Self::List>, Error>` => `Result<Option<ListWrapper>, Error>`
//@   rewrite `\n\t\t\t.get_ser::<ListWrapper<T>>(list_key.0, list_key.1, None)` => `.get_list_ser(list_key.0, list_key.1)`
//@   ensures:
//@+    r matches Ok(o) ==> (match batch.db.m@.get((Some(self.list_prefix), commit.key.id@)) { Some(Value::L(l)) => o == Some(l), Some(Value::E(_)) => false, None => o is None }),
//@ end
//@ extract chain/src/linked_list.rs :: trait ListIndex::get_entry
//@   sigrewrite `batch: &Batch<'_>` => `batch: &Batch`
//@   sigrewrite `Result<Option<Self::Entry>, Error>` => `Result<Option<ListEntry>, Error>`
//@   rewrite `batch.db.get_ser(db_key, &key, None)` => `batch.db.get_entry_ser(db_key, &key)`
//@   ensures:
//@+    r matches Ok(o) ==> (match batch.db.m@.get((Some(self.entry_prefix), sp_ekey(commit, pos))) { Some(Value::E(e)) => o == Some(e), Some(Value::L(_)) => false, None => o is None }),
//@ end
//@ extract chain/src/linked_list.rs :: impl ListIndex for MultiIndex::peek_pos
//@   sigrewrite `batch: &Batch<'_>` => `batch: &Batch`
//@   sigrewrite `Result<Option<T>, Error>` => `Result<Option<CommitPos>, Error>`
//@   rewrite `"expected head to be head variant".into()` => `msg()`
//@   requires:
//@+    sp_view(batch.db.m@, *self, commit) is Some,
//@   ensures:
//@+    r matches Ok(o) ==> ({ let v = sp_view(batch.db.m@, *self, commit)->Some_0; o == (if v.len() > 0 { Some(v[0]) } else { None::<CommitPos> }) }),
//@ end
//@ extract chain/src/linked_list.rs :: impl ListIndex for MultiIndex::push_pos
//@   sigrewrite `batch: &mut Batch<'_>` => `batch: &mut Batch`
//@   sigrewrite `new_pos: T` => `new_pos: CommitPos`
//@   rewrite `ListWrapper<T>` => `ListWrapper` x2
//@   rewrite `"pos must be increasing".into()` => `msg()` x2
//@   rewrite `"expected head to be head variant".into()` => `msg()`
//@   at_start:
//@+    let ghost m0 = batch.db.m@;
//@+    proof { assert forall|p: u64, q: u64| p != q implies sp_ekey(commit, p) != sp_ekey(commit, q) by { lemma_keys(*self, commit, p, q); } }
//@   requires:
//@+    self.list_prefix != self.entry_prefix, sp_view(old(batch).db.m@, *self, commit) is Some,
//@   ensures:
//@+    ({ let v = sp_view(old(batch).db.m@, *self, commit)->Some_0;
//@+       &&& (v.len() > 0 && new_pos.pos <= v[0].pos ==> r is Err && final(batch).db.m@ == old(batch).db.m@)
//@+       &&& (r is Ok ==> sp_view(final(batch).db.m@, *self, commit) == Some(seq![new_pos] + v)) }),
//@+    sp_only_c(old(batch).db.m@, final(batch).db.m@, *self, commit),
//@   before `Ok(())`:
//@+    proof {
//@+        let m1 = batch.db.m@;
//@+        match sp_list(m0, *self, commit) {
//@+            Some(ListWrapper::Single { pos }) => {
//@+                assert(sp_entry(m1, *self, commit, pos.pos) == Some(ListEntry::Tail { pos: pos, prev: new_pos.pos }));
//@+                assert(sp_from(m1, *self, commit, pos.pos, false) == Some(seq![pos]));
//@+                assert(sp_entry(m1, *self, commit, new_pos.pos) == Some(ListEntry::Head { pos: new_pos, next: pos.pos }));
//@+                assert(sp_from(m1, *self, commit, new_pos.pos, true) == Some(seq![new_pos] + seq![pos]));
//@+                assert(sp_view(m1, *self, commit) == Some(seq![new_pos] + seq![pos]));
//@+            },
//@+            Some(ListWrapper::Multi { head, tail }) => {
//@+                let e0 = sp_entry(m0, *self, commit, head);
//@+                assert(sp_same_below(m0, m1, *self, commit, head));
//@+                match e0 { Some(ListEntry::Head { pos, next }) => {
//@+                    assert(sp_entry(m1, *self, commit, head) == Some(ListEntry::Middle { pos: pos, next: next, prev: new_pos.pos }));
//@+                    assert(sp_entry(m0, *self, commit, next) == sp_entry(m1, *self, commit, next));
//@+                    assert(sp_same_below(m0, m1, *self, commit, next));
//@+                    lemma_from_same(m0, m1, *self, commit, next, false);
//@+                    assert(sp_entry(m1, *self, commit, new_pos.pos) == Some(ListEntry::Head { pos: new_pos, next: head }));
//@+                    let v = sp_from(m0, *self, commit, head, true)->Some_0;
//@+                    assert(sp_from(m1, *self, commit, head, false) == Some(v));
//@+                    assert(sp_from(m1, *self, commit, new_pos.pos, true) == Some(seq![new_pos] + v));
//@+                    assert(sp_view(m1, *self, commit) == Some(seq![new_pos] + v));
//@+                }, _ => {} }
//@+            },
//@+            None => { assert(seq![new_pos] + Seq::<CommitPos>::empty() =~= seq![new_pos]); assert(sp_view(m1, *self, commit) == Some(seq![new_pos])); },
//@+        }
//@+    }
//@ end
//@ extract chain/src/linked_list.rs :: impl ListIndex for MultiIndex::pop_pos
//@   sigrewrite `batch: &mut Batch<'_>` => `batch: &mut Batch`
//@   sigrewrite `Result<Option<T>, Error>` => `Result<Option<CommitPos>, Error>`
//@   rewrite `ListWrapper<T>` => `ListWrapper`
//@   rewrite `"expected head to be head variant".into()` => `msg()`
//@   rewrite `"next was unexpected".into()` => `msg()`
//@   rewrite `"next missing".into()` => `msg()`
//@   at_start:
//@+    let ghost m0 = batch.db.m@;
//@+    proof { assert forall|p: u64, q: u64| p != q implies sp_ekey(commit, p) != sp_ekey(commit, q) by { lemma_keys(*self, commit, p, q); } }
//@   requires:
//@+    self.list_prefix != self.entry_prefix, sp_view(old(batch).db.m@, *self, commit) is Some,
//@   ensures:
//@+    ({ let v = sp_view(old(batch).db.m@, *self, commit)->Some_0;
//@+       &&& (r matches Ok(None) ==> v.len() == 0 && final(batch).db.m@ == old(batch).db.m@)
//@+       &&& (r matches Ok(Some(p)) ==> v.len() > 0 && p == v[0] && sp_view(final(batch).db.m@, *self, commit) == Some(v.drop_first())) }),
//@+    sp_only_c(old(batch).db.m@, final(batch).db.m@, *self, commit),
//@   before* `Ok(Some(current_pos))`:
//@+    proof {
//@+        let m1 = batch.db.m@;
//@+        match sp_list(m0, *self, commit) { Some(ListWrapper::Multi { head, tail }) => {
//@+            match sp_entry(m0, *self, commit, head) { Some(ListEntry::Head { pos: hp, next: hn }) => {
//@+                assert(sp_same_below(m0, m1, *self, commit, hn));
//@+                match sp_entry(m0, *self, commit, hn) {
//@+                    Some(ListEntry::Middle { pos, next, prev }) => {
//@+                        assert(sp_entry(m0, *self, commit, next) == sp_entry(m1, *self, commit, next));
//@+                        assert(sp_same_below(m0, m1, *self, commit, next));
//@+                        lemma_from_same(m0, m1, *self, commit, next, false);
//@+                        assert(sp_entry(m1, *self, commit, hn) == Some(ListEntry::Head { pos: pos, next: next }));
//@+                        let rest = sp_from(m0, *self, commit, hn, false)->Some_0;
//@+                        assert((seq![hp] + rest).drop_first() =~= rest);
//@+                    },
//@+                    Some(ListEntry::Tail { pos, prev }) => {
//@+                        assert((seq![hp] + seq![pos]).drop_first() =~= seq![pos]);
//@+                    },
//@+                    _ => {},
//@+                }
//@+            }, _ => {} }
//@+        }, _ => {} }
//@+    }
//@   before `Ok(Some(pos))`:
//@+    proof { assert(seq![pos].drop_first() =~= Seq::<CommitPos>::empty()); }
//@ end
//@ extract chain/src/linked_list.rs :: impl RewindableListIndex for MultiIndex::rewind
//@   eclosure 1 lifted_as `fn is_above(x: CommitPos, rewind_pos: u64) -> bool`
//@   ensures:
//@+    r == (x.pos > rewind_pos),
//@ end
//@ extract chain/src/linked_list.rs :: impl RewindableListIndex for MultiIndex::rewind
//@   sigrewrite `batch: &mut Batch<'_>` => `batch: &mut Batch`
//@   rewrite `while self\n\t\t\t.peek_pos(batch, commit)?\n\t\t\t.map(|x| x.pos() > rewind_pos)\n\t\t\t.unwrap_or(false)\n\t\t{` => `while above(self.peek_pos(batch, commit)?, rewind_pos) {`
//@   requires:
//@+    self.list_prefix != self.entry_prefix, sp_view(old(batch).db.m@, *self, commit) is Some,
//@   ensures:
//@+    r is Ok ==> ({ let v = sp_view(old(batch).db.m@, *self, commit)->Some_0;
//@+        exists|k: int| 0 <= k <= v.len() && #[trigger] sp_rewound(v, k, rewind_pos) && sp_view(final(batch).db.m@, *self, commit) == Some(v.skip(k)) }),
//@+    sp_only_c(old(batch).db.m@, final(batch).db.m@, *self, commit),
//@   loop 1:
//@+    invariant
//@+        self.list_prefix != self.entry_prefix, sp_view(old(batch).db.m@, *self, commit) is Some,
//@+        0 <= k <= v0.len(), v0 == sp_view(old(batch).db.m@, *self, commit)->Some_0,
//@+        forall|i: int| 0 <= i < k ==> (#[trigger] v0[i]).pos > rewind_pos,
//@+        sp_view(batch.db.m@, *self, commit) == Some(v0.skip(k)),
//@+        sp_only_c(old(batch).db.m@, batch.db.m@, *self, commit),
//@+    decreases v0.len() - k,
//@   at_start:
//@+    let ghost v0 = sp_view(batch.db.m@, *self, commit)->Some_0; let ghost mut k: int = 0;
//@+    proof { assert(v0.skip(0) =~= v0); }
//@   before `self.pop_pos(batch, commit)?;`:
//@+    let ghost mb = batch.db.m@;
//@   after `self.pop_pos(batch, commit)?;`:
//@+    proof { assert(v0.skip(k)[0] == v0[k]); assert(v0.skip(k).drop_first() =~= v0.skip(k + 1)); k = k + 1; lemma_only_c_trans(old(batch).db.m@, mb, batch.db.m@, *self, commit); }
//@   before `Ok(())`:
//@+    proof { if k < v0.len() { assert(v0.skip(k)[0] == v0[k]); } assert(sp_rewound(v0, k, rewind_pos)); }
//@ end
}
/// Option::map(f).unwrap_or(false) over the lifted closure
pub fn above(o: Option<CommitPos>, rewind_pos: u64) -> (r: bool) ensures r == (o matches Some(x) && x.pos > rewind_pos) { match o { Some(x) => MultiIndex::is_above(x, rewind_pos), None => false } }
/// exactly the k leading elements are above the rewind position
pub open spec fn sp_rewound(v: Seq<CommitPos>, k: int, rewind_pos: u64) -> bool {
    (forall|i: int| 0 <= i < k ==> (#[trigger] v[i]).pos > rewind_pos) && (k < v.len() ==> v[k].pos <= rewind_pos)
}
pub proof fn lemma_only_c_trans(a: DbMap, b: DbMap, c2: DbMap, ix: MultiIndex, c: Commitment)
    requires sp_only_c(a, b, ix, c), sp_only_c(b, c2, ix, c),
    ensures sp_only_c(a, c2, ix, c),
{
    assert forall|k: (Option<u8>, int)| a.get(k) != c2.get(k) implies (k == (Some(ix.list_prefix), c.key.id@) || exists|p: u64| k == (Some(ix.entry_prefix), #[trigger] sp_ekey(c, p))) by {
        if a.get(k) != b.get(k) { } else { assert(b.get(k) != c2.get(k)); }
    }
}
//@ canary push_pos: r is Err
//@ canary pop_pos: r is Err
