//@ assume: Chain / the readonly extension are abstract: txhashset::extending_readonly(.., closure) => extending_readonly_kernels (returns exactly what the closure returned; its discard-everything contract is C06/extending_readonly); Extension::apply_kernels(kernels, height, batch) is abstract with an uninterpreted meaning (the NRD rule it applies per kernel is decided in C13/nrd_rule); Chain::next_block_height is the body head height + 1 (C13/chain_lock_height); RwLock guards are abstract
//@ assume: T7: the `any` predicate closure and the extension closure are lifted and verified; the `tx.kernels().iter().any(f)` shell is std (true iff f holds for some element) and is replaced by any_kernel (T6), with f replaced by the unit value NrdPred
//@ assume: decided here (C13, 'relative locks' on the POOL side): Chain::validate_tx_kernels returns Ok WITHOUT consulting the kernel index only if NO kernel of the transaction is a NoRecentDuplicate kernel; otherwise its result is exactly the result of applying ALL the transaction's kernels at the NEXT BLOCK HEIGHT in a readonly extension (so the relative-height rule is judged at the height the transaction would be mined at, and duplicates inside the transaction see each other)
//@ assumed_items: 7
//@ fns: Chain::validate_tx_kernels (+ its two closures)
pub enum Error { NRDRelativeHeight, Other }
#[derive(Clone, Copy)]
pub struct NRDRelativeHeight { pub h: u16 }
#[derive(Clone, Copy)]
pub enum KernelFeatures { Plain { fee: u64 }, Coinbase, HeightLocked { fee: u64, lock_height: u64 }, NoRecentDuplicate { fee: u64, relative_height: NRDRelativeHeight } }
#[derive(Clone, Copy)]
pub struct TxKernel { pub features: KernelFeatures }
pub struct Transaction { pub ks: Vec<TxKernel> }
impl Transaction { pub fn kernels(&self) -> (r: &[TxKernel]) ensures r@ == self.ks@ { self.ks.as_slice() } }
pub open spec fn sp_is_nrd(k: TxKernel) -> bool { k.features is NoRecentDuplicate }
pub struct NrdPred;
/// `slice.iter().any(pred)`: true iff the (lifted, verified) predicate holds for some element
#[verifier::external_body]
pub fn any_kernel(ks: &[TxKernel], f: NrdPred) -> (r: bool) ensures r == exists|i: int| 0 <= i < ks@.len() && sp_is_nrd(#[trigger] ks@[i]) { unimplemented!() }
pub struct Guard { pub _p: u8 }
pub struct Lock { pub _p: u8 }
impl Lock { #[verifier::external_body] pub fn write(&self) -> (r: Guard) { unimplemented!() } }
pub struct Batch { pub _p: u8 }
pub uninterp spec fn sp_kernels_apply(ks: Seq<TxKernel>, height: u64) -> Result<(), Error>;
pub struct Extension { pub _p: u8 }
impl Extension {
    #[verifier::external_body]
    pub fn apply_kernels(&mut self, kernels: &[TxKernel], height: u64, batch: &Batch) -> (r: Result<(), Error>) ensures r == sp_kernels_apply(kernels@, height) { unimplemented!() }
}
pub struct ExtensionPair { pub extension: Extension }
pub uninterp spec fn sp_body_head_height() -> u64;
pub struct VtkEnv<'a> { pub tx: &'a Transaction }
pub struct Chain { pub header_pmmr: Lock, pub txhashset: Lock }
pub mod txhashset {
    use super::*;
    /// runs the (lifted) closure in a readonly extension and returns what it returned
    #[verifier::external_body]
    pub fn extending_readonly_kernels(chain: &Chain, header_pmmr: &mut Guard, trees: &mut Guard, env: VtkEnv) -> (r: Result<(), Error>)
        ensures sp_body_head_height() < u64::MAX ==> r == sp_kernels_apply(env.tx.ks@, (sp_body_head_height() + 1) as u64) || r is Err { unimplemented!() }
}
#[derive(Clone, Copy)]
pub struct Tip { pub height: u64 }
impl Chain {
    /// offered: the body head / header head, so that a variant reading a height elsewhere is decided
    #[verifier::external_body]
    pub fn head(&self) -> (r: Result<Tip, Error>) ensures r matches Ok(t) ==> t.height == sp_body_head_height() { unimplemented!() }
    #[verifier::external_body]
    pub fn header_head(&self) -> (r: Result<Tip, Error>) { unimplemented!() }
    #[verifier::external_body]
    pub fn next_block_height(&self) -> (r: Result<u64, Error>) ensures r matches Ok(h) ==> sp_body_head_height() < u64::MAX && h == sp_body_head_height() + 1 { unimplemented!() }
//@ extract chain/src/chain.rs :: impl Chain::validate_tx_kernels
//@   eclosure 1 lifted_as `fn nrd_pred(k: &TxKernel) -> bool`
//@   ensures:
//@+    r == sp_is_nrd(*k),
//@ end
//@ extract chain/src/chain.rs :: impl Chain::validate_tx_kernels
//@   closure 1 lifted_as `fn vtk_inner(&self, ext: &mut ExtensionPair, batch: &Batch, tx: &Transaction) -> Result<(), Error>`
//@   ensures:
//@+    r matches Ok(_) ==> sp_body_head_height() < u64::MAX && r == sp_kernels_apply(tx.ks@, (sp_body_head_height() + 1) as u64),
//@ end
//@ extract chain/src/chain.rs :: impl Chain::validate_tx_kernels
//@   eclosure 1 replaced_by `NrdPred`
//@   closure 1 replaced_by `VtkEnv { tx }`
//@   rewrite `tx.kernels().iter().any(NrdPred)` => `any_kernel(tx.kernels(), NrdPred)`
//@   rewrite `txhashset::extending_readonly(&mut header_pmmr, &mut txhashset, VtkEnv { tx })` => `txhashset::extending_readonly_kernels(self, &mut header_pmmr, &mut txhashset, VtkEnv { tx })`
//@   ensures:
//@+    // Ok without looking at the index only when no kernel is NRD
//@+    (exists|i: int| 0 <= i < tx.ks@.len() && sp_is_nrd(#[trigger] tx.ks@[i])) && r.is_ok() && sp_body_head_height() < u64::MAX
//@+        ==> sp_kernels_apply(tx.ks@, (sp_body_head_height() + 1) as u64).is_ok(),
//@ end
}
//@ canary validate_tx_kernels: r.is_err()
