//@ assume: KernelFeatures is the real enum (extracted, attributes stripped); TxKernel is reduced to its features, Block to header height + kernel list
//@ assume: T6 rewrites: `for k in self.kernels() {` => `for k in it: self.kernels().iter()` (Verus iterator-loop syntax over the same slice) with a spliced invariant
//@ assume: decided here, UNBOUNDED in the number of kernels: Block::verify_kernel_lock_heights returns Ok iff no height-locked kernel has lock_height above the block's height (a height-locked kernel is refused in a block below its lock height)
//@ assumed_items: 0
//@ fns: Block::verify_kernel_lock_heights
#[derive(Clone, Copy)]
pub struct FeeFields(pub u64);
#[derive(Clone, Copy)]
pub struct NRDRelativeHeight(pub u16);
//@ extract core/src/core/transaction.rs :: enum KernelFeatures
//@   strip_attrs
//@ end
pub struct TxKernel { pub features: KernelFeatures }
pub struct BlockHeader { pub height: u64 }
pub struct Block { pub header: BlockHeader, pub kernel_list: Vec<TxKernel> }
pub enum Error { KernelLockHeight(u64), Other }

pub open spec fn lock_of(k: TxKernel) -> Option<u64> {
    match k.features { KernelFeatures::HeightLocked { lock_height, .. } => Some(lock_height), _ => None }
}
pub open spec fn all_unlocked(ks: Seq<TxKernel>, height: u64, n: int) -> bool {
    forall|i: int| 0 <= i < n ==> (#[trigger] lock_of(ks[i]) matches Some(l) ==> l <= height)
}

impl Block {
    pub fn kernels(&self) -> (r: &[TxKernel]) ensures r@ == self.kernel_list@ { self.kernel_list.as_slice() }

//@ extract core/src/core/block.rs :: impl Block::verify_kernel_lock_heights
//@   rewrite `for k in self.kernels() {` => `for k in it: self.kernels().iter() {`
//@   ensures:
//@+    r.is_ok() <==> all_unlocked(self.kernel_list@, self.header.height, self.kernel_list@.len() as int),
//@   loop 1:
//@+    invariant
//@+        all_unlocked(self.kernel_list@, self.header.height, it.index@ as int),
//@   before `return Err(Error::KernelLockHeight(lock_height));`:
//@+    proof { assert(lock_of(self.kernel_list@[it.index@ as int]) == Some(lock_height)); }
//@ end
}
//@ canary verify_kernel_lock_heights: r.is_ok()
