//@ crate: grin_core
//@ target: core/src/core/block.rs
//@ assume: bounded stand-in for the kernel list: <= 3 kernels of arbitrary variants (the loop over kernels is not closed by a loop contract)
//@ assume: decided here: the block-level absolute lock-height rule and the NRD/header-version rule; coinbase maturity (UTXOView, needs LMDB), per-fork evaluation and the pool path are outside (DESIGN 6 C13)
//@ harness c13_block_lock_heights kind=bounded tier=quick fns=Block::verify_kernel_lock_heights,Block::verify_nrd_kernels_for_header_version,TransactionBody::lock_height bound=<=3_kernels
use crate::verif_kani_support::*;
use crate::core::transaction::{FeeFields, NRDRelativeHeight};

fn any_kernel() -> (TxKernel, Option<u64>, bool) {
	let f = FeeFields::zero();
	let k: u8 = kani::any();
	let lh: u64 = kani::any();
	let (features, lock, nrd) = match k {
		0 => (KernelFeatures::Plain { fee: f }, None, false),
		1 => (KernelFeatures::Coinbase, None, false),
		2 => (KernelFeatures::HeightLocked { fee: f, lock_height: lh }, Some(lh), false),
		_ => (KernelFeatures::NoRecentDuplicate { fee: f, relative_height: NRDRelativeHeight::new(1).unwrap() }, None, true),
	};
	(TxKernel { features, excess: Commitment([0u8; 33]), excess_sig: unsafe { core::mem::zeroed() } }, lock, nrd)
}

/// A block is refused iff some height-locked kernel has lock_height > block height; NRD kernels
/// are refused when the feature is off or the header version is below 4.
#[kani::proof]
#[kani::unwind(5)]
#[kani::stub(alloc::fmt::format, stub_format)]
#[kani::stub(crate::global::is_nrd_enabled, stub_is_nrd_enabled)]
fn c13_block_lock_heights() {
	unsafe {
		NRD_ENABLED = kani::any();
	}
	let n: u8 = kani::any();
	kani::assume(n <= 3);
	let mut kernels = Vec::new();
	let mut max_lock: u64 = 0;
	let mut any_lock_above = false;
	let mut any_nrd = false;
	let height: u64 = kani::any();
	let mut i = 0;
	while i < n {
		let (k, lock, nrd) = any_kernel();
		if let Some(l) = lock {
			if l > max_lock {
				max_lock = l;
			}
			if l > height {
				any_lock_above = true;
			}
		}
		any_nrd = any_nrd || nrd;
		kernels.push(k);
		i += 1;
	}
	let version: u16 = kani::any();
	let mut body = TransactionBody::empty();
	body.kernels = kernels;
	assert!(body.lock_height() == max_lock, "C13: body lock height is the max kernel lock height");
	let mut header = BlockHeader {
		version: HeaderVersion(version),
		height,
		prev_hash: ZERO_HASH,
		prev_root: ZERO_HASH,
		timestamp: DateTime::<Utc>::from_timestamp(0, 0).unwrap(),
		output_root: ZERO_HASH,
		range_proof_root: ZERO_HASH,
		kernel_root: ZERO_HASH,
		total_kernel_offset: unsafe { core::mem::zeroed::<BlindingFactor>() },
		output_mmr_size: 0,
		kernel_mmr_size: 0,
		pow: ProofOfWork { total_difficulty: Difficulty::from_num(1), secondary_scaling: 0, nonce: 0, proof: Proof { edge_bits: 31, nonces: vec![] } },
	};
	let block = Block { header, body };
	assert!(block.verify_kernel_lock_heights().is_ok() == !any_lock_above, "C13: height-locked kernel refused below its lock height");
	let nrd_ok = block.verify_nrd_kernels_for_header_version().is_ok();
	assert!(nrd_ok == (!any_nrd || (stub_is_nrd_enabled() && version >= 4)), "C13: NRD kernels need the feature flag and header version >= 4");
	core::mem::forget(block); // BlindingFactor zeroizes on drop with inline asm, which Kani cannot model
}
