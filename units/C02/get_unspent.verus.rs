//@ assume: as C02/utxo_view: the output-position index (LMDB) and the output MMR are abstract readings; `ReadonlyPMMR::at(&backend, size)` is the MMR view at the handle's size; T6: `out.commitment() == commit` => commit_eq; `"txhashset unspent check".to_string()` => msg(); the type annotation on the readonly view dropped
//@ assume: index invariant used as precondition: every indexed position is >= 1 (`pos1.pos - 1`)
//@ assume: decided here (C02, 'TxHashSet::get_unspent' -- what the API, the wallet and the pool ask): get_unspent(commit) returns Some((out, pos)) ONLY IF the index maps the commitment to pos, the output MMR AT THE HANDLE'S SIZE still holds `out` at pos - 1 (unspent) and out's commitment is the one asked for; it returns None when the commitment is not indexed, when the leaf is gone (spent) and when a stale index entry points at a different commitment; a store error is passed on
//@ assumed_items: 14
//@ fns: TxHashSet::get_unspent

#[verifier::external_body]
#[derive(Clone, Copy)]
pub struct Commitment { _p: u8 }
#[verifier::external_body]
#[derive(Clone, Copy)]
pub struct OutputIdentifier { _p: u8 }
#[verifier::external_body]
pub struct Output { _p: u8 }
#[derive(Clone, Copy)]
pub struct CommitPos { pub pos: u64, pub height: u64 }
#[verifier::external_body]
pub struct Batch { _p: u8 }
#[verifier::external_body]
pub struct OutputPMMR { _p: u8 }
pub enum Error { AlreadySpent(Commitment), DuplicateCommitment(Commitment), Other, Store, StoreErr(StoreError, String) }
#[verifier::external_body]
pub struct StoreError { _p: u8 }
#[verifier::external_body]
pub fn msg() -> (r: String) { unimplemented!() }
pub struct UTXOView { pub output_pmmr: OutputPMMR }

pub uninterp spec fn sp_index(b: Batch, c: Commitment) -> Option<CommitPos>;   // output_pos index
pub uninterp spec fn sp_data(m: OutputPMMR, pos0: u64) -> Option<OutputIdentifier>; // unspent leaf data at pos0
pub uninterp spec fn sp_commit_of(o: OutputIdentifier) -> Commitment;
pub uninterp spec fn sp_out_commit(o: Output) -> Commitment;

fn commit_eq(a: &Commitment, b: &Commitment) -> (r: bool)
    ensures r == (*a == *b)
{ commit_eq_ext(a, b) }
#[verifier::external_body]
fn commit_eq_ext(a: &Commitment, b: &Commitment) -> (r: bool) ensures r == (*a == *b) { unimplemented!() }

impl OutputIdentifier {
    #[verifier::external_body]
    pub fn commitment(&self) -> (r: Commitment) ensures r == sp_commit_of(*self) { unimplemented!() }
}
impl Output {
    #[verifier::external_body]
    pub fn commitment(&self) -> (r: Commitment) ensures r == sp_out_commit(*self) { unimplemented!() }
}
impl Batch {
    #[verifier::external_body]
    pub fn get_output_pos_height(&self, c: &Commitment) -> (r: Result<Option<CommitPos>, StoreError>)
        ensures r matches Ok(p) ==> p == sp_index(*self, *c) { unimplemented!() }
    #[verifier::external_body]
    pub fn get_output_pos(&self, c: &Commitment) -> (r: Result<u64, Error>)
        ensures r matches Ok(p0) ==> sp_index(*self, *c) == Some(CommitPos { pos: (p0 + 1) as u64, height: sp_index(*self, *c).unwrap().height }) && p0 < u64::MAX,
                sp_index(*self, *c).is_none() ==> r.is_err(),
                sp_index(*self, *c).is_some() ==> r.is_ok() { unimplemented!() }
}
impl OutputPMMR {
    #[verifier::external_body]
    pub fn get_data(&self, pos0: u64) -> (r: Option<OutputIdentifier>) ensures r == sp_data(*self, pos0) { unimplemented!() }
}

/// the commitment is indexed and the MMR still holds an unspent output with that commitment
pub open spec fn dup_unspent(b: Batch, m: OutputPMMR, c: Commitment) -> bool {
    match sp_index(b, c) {
        Some(cp) => cp.pos >= 1 && (match sp_data(m, (cp.pos - 1) as u64) { Some(o) => sp_commit_of(o) == c, None => false }),
        None => false,
    }
}

pub struct Backend { pub _p: u8 }
pub struct PMMRHandle { pub backend: Backend, pub size: u64 }
pub uninterp spec fn sp_view(b: Backend, size: u64) -> OutputPMMR;
pub struct ReadonlyPMMR;
impl ReadonlyPMMR {
    #[verifier::external_body]
    pub fn at(b: &Backend, size: u64) -> (r: OutputPMMR) ensures r == sp_view(*b, size) { unimplemented!() }
}
pub struct TxHashSet { pub output_pmmr_h: PMMRHandle, pub commit_index: Batch }
impl TxHashSet {
//@ extract chain/src/txhashset/txhashset.rs :: impl TxHashSet::get_unspent
//@   rewrite `let output_pmmr: ReadonlyPMMR<'_, OutputIdentifier, _> =\n\t\t\t\t\tReadonlyPMMR::at(` => `let output_pmmr =\n\t\t\t\t\tReadonlyPMMR::at(` x?
//@   rewrite `out.commitment() == commit` => `commit_eq(&out.commitment(), &commit)` x?
//@   rewrite `"txhashset unspent check".to_string()` => `msg()` x?
//@   requires:
//@+    sp_index(self.commit_index, commit) matches Some(p) ==> p.pos >= 1,
//@   ensures:
//@+    r matches Ok(Some((out, pos))) ==> sp_index(self.commit_index, commit) == Some(pos)
//@+        && sp_data(sp_view(self.output_pmmr_h.backend, self.output_pmmr_h.size), (pos.pos - 1) as u64) == Some(out) && sp_commit_of(out) == commit,
//@+    (r.is_ok() && sp_index(self.commit_index, commit) is None) ==> r matches Ok(None),
//@+    (r.is_ok() && (sp_index(self.commit_index, commit) matches Some(p) && sp_data(sp_view(self.output_pmmr_h.backend, self.output_pmmr_h.size), (p.pos - 1) as u64) is None)) ==> r matches Ok(None),
//@ end
}
//@ canary get_unspent: r.is_err()
