//@ assume: Batch output-position index, the output / range-proof PMMRs (push returns the 0-based position of the new leaf, which is below the new MMR size, get_data the unspent leaf data) and commitment equality are abstract with uninterpreted meanings
//@ assume: T6 rewrites: `.map_err(&Error::TxHashSetErr)?` => `?`, error payload strings dropped, `==` on Commitment => commit_eq, lifetimes dropped
//@ assume: decided here: Extension::apply_output refuses an output whose commitment is indexed and still present unspent in the output MMR (DuplicateCommitment, nothing pushed), and otherwise pushes the output and its range proof at the same position of their MMRs and returns that position (1-based)
//@ assumed_items: 18
//@ fns: Extension::apply_output
#[verifier::external_body]
#[derive(Clone, Copy)]
pub struct Commitment { _p: u8 }
#[verifier::external_body]
#[derive(Clone, Copy)]
pub struct OutputIdentifier { _p: u8 }
#[verifier::external_body]
#[derive(Clone, Copy)]
pub struct RangeProof { _p: u8 }
#[verifier::external_body]
pub struct Output { _p: u8 }
#[verifier::external_body]
pub struct Batch { _p: u8 }
pub enum Error { DuplicateCommitment(Commitment), TxHashSetErr, Other }

pub uninterp spec fn sp_commit(o: Output) -> Commitment;
pub uninterp spec fn sp_ident_commit(o: OutputIdentifier) -> Commitment;
pub uninterp spec fn sp_index0(b: Batch, c: Commitment) -> Option<u64>;   // 0-based indexed position

#[verifier::external_body]
fn commit_eq(a: &Commitment, b: &Commitment) -> (r: bool) ensures r == (*a == *b) { unimplemented!() }
impl Output {
    #[verifier::external_body]
    pub fn commitment(&self) -> (r: Commitment) ensures r == sp_commit(*self) { unimplemented!() }
    #[verifier::external_body]
    pub fn identifier(&self) -> (r: OutputIdentifier) ensures sp_ident_commit(r) == sp_commit(*self) { unimplemented!() }
    #[verifier::external_body]
    pub fn proof(&self) -> (r: RangeProof) { unimplemented!() }
}
impl OutputIdentifier {
    #[verifier::external_body]
    pub fn commitment(&self) -> (r: Commitment) ensures r == sp_ident_commit(*self) { unimplemented!() }
}
impl Batch {
    #[verifier::external_body]
    pub fn get_output_pos(&self, c: &Commitment) -> (r: Result<u64, Error>)
        ensures r matches Ok(p) ==> sp_index0(*self, *c) == Some(p), r.is_err() ==> sp_index0(*self, *c).is_none() { unimplemented!() }
}
#[verifier::external_body]
pub struct OutPmmr { _p: u8 }
#[verifier::external_body]
pub struct ProofPmmr { _p: u8 }
impl OutPmmr {
    pub uninterp spec fn data(&self, pos0: u64) -> Option<OutputIdentifier>;
    pub uninterp spec fn leaves(&self) -> Seq<OutputIdentifier>;
    pub uninterp spec fn size(&self) -> u64;
    #[verifier::external_body]
    pub fn get_data(&self, pos0: u64) -> (r: Option<OutputIdentifier>) ensures r == self.data(pos0) { unimplemented!() }
    #[verifier::external_body]
    pub fn push(&mut self, o: &OutputIdentifier) -> (r: Result<u64, Error>)
        ensures r.is_ok() ==> final(self).leaves() == old(self).leaves().push(*o),
                r matches Ok(p) ==> p < final(self).size(),
                r.is_err() ==> final(self).leaves() == old(self).leaves() { unimplemented!() }
    #[verifier::external_body]
    pub fn unpruned_size(&self) -> (r: u64) ensures r == self.size() { unimplemented!() }
}
impl ProofPmmr {
    pub uninterp spec fn leaves(&self) -> Seq<RangeProof>;
    pub uninterp spec fn size(&self) -> u64;
    #[verifier::external_body]
    pub fn push(&mut self, p: &RangeProof) -> (r: Result<u64, Error>)
        ensures r.is_ok() ==> final(self).leaves().len() == old(self).leaves().len() + 1,
                r.is_err() ==> final(self).leaves() == old(self).leaves() { unimplemented!() }
    #[verifier::external_body]
    pub fn unpruned_size(&self) -> (r: u64) ensures r == self.size() { unimplemented!() }
}
pub struct Extension { pub output_pmmr: OutPmmr, pub rproof_pmmr: ProofPmmr }

/// the commitment is indexed and the output MMR still holds an unspent output with it
pub open spec fn dup_unspent(b: Batch, m: OutPmmr, c: Commitment) -> bool {
    match sp_index0(b, c) { Some(p) => (match m.data(p) { Some(o) => sp_ident_commit(o) == c, None => false }), None => false }
}

impl Extension {
//@ extract chain/src/txhashset/txhashset.rs :: impl Extension::apply_output
//@   sigrewrite `batch: &Batch<'_>` => `batch: &Batch`
//@   rewrite `out_mmr.commitment() == commit` => `commit_eq(&out_mmr.commitment(), &commit)`
//@   rewrite `.push(&out.identifier())\n\t\t\t.map_err(&Error::TxHashSetErr)?;` => `.push(&out.identifier())?;`
//@   rewrite `.push(&out.proof())\n\t\t\t.map_err(&Error::TxHashSetErr)?;` => `.push(&out.proof())?;`
//@   rewrite `return Err(Error::Other(\n\t\t\t\t\t"output vs rproof MMRs different sizes".to_string(),\n\t\t\t\t));` => `return Err(Error::Other);`
//@   rewrite `return Err(Error::Other(\n\t\t\t\t\t"output vs rproof MMRs different pos".to_string(),\n\t\t\t\t));` => `return Err(Error::Other);`
//@   requires:
//@+    true,
//@   ensures:
//@+    dup_unspent(*batch, old(self).output_pmmr, sp_commit(*out)) ==> r.is_err() && final(self).output_pmmr.leaves() == old(self).output_pmmr.leaves()
//@+        && final(self).rproof_pmmr.leaves() == old(self).rproof_pmmr.leaves(),
//@+    r.is_ok() ==> !dup_unspent(*batch, old(self).output_pmmr, sp_commit(*out))
//@+        && final(self).output_pmmr.leaves().len() == old(self).output_pmmr.leaves().len() + 1
//@+        && sp_ident_commit(final(self).output_pmmr.leaves().last()) == sp_commit(*out)
//@+        && final(self).rproof_pmmr.leaves().len() == old(self).rproof_pmmr.leaves().len() + 1
//@+        && final(self).output_pmmr.size() == final(self).rproof_pmmr.size(),
//@ end
}
//@ canary apply_output: r.is_err()
