//@ assume: Extension / Batch / output PMMR / NRD kernel index are abstract with ghost logs of the index writes; the spent index of a block is a list of (pos, height) entries; rewind_mmrs_to_pos is an abstract callee logging its arguments
//@ assume: T6 rewrites: `spent.iter().map(|x| x.pos).collect()` => helper positions_of (pointwise .pos); the legacy-bitmap fallback `bitmap.iter().map(|x| x.into()).collect()` => helper bitmap_positions (uninterpreted); `if let Ok(ref spent) = spent {` => by-reference match; `for .. in ..` loops => Verus iterator loops with spliced invariants; `if let KernelFeatures::NoRecentDuplicate { .. } = kernel.features` kept over a reduced enum; log macros removed; lifetimes dropped
//@ assume: decided here: Extension::rewind_single_block undoes one block on the extension -- the MMRs are rewound to the PREVIOUS header's output/kernel sizes with exactly the block's spent positions handed over to be unspent; a removal from the output-position index is attempted for EVERY output the block created; and EVERY entry of the block's spent index whose output is (again) present in the output MMR gets its index entry restored to the spent position -- so that after a reorganisation the index names exactly the outputs unspent on the fork being built
//@ assume: PRECONDITION: positions stored in the spent index are 1-based (>= 1) -- `pos1.pos - 1` would underflow on a stored 0; the index is written by apply_block from MMR positions returned by apply_output (1 + pos0)
//@ assume: PRECONDITION: a block has fewer than 2^31 outputs (`missing_count` is an i32 counter; the block weight rule bounds outputs to a few thousand)
//@ assumed_items: 16
//@ fns: Extension::rewind_single_block
#[verifier::external_body]
#[derive(Clone, Copy)]
pub struct Hash { _p: u8 }
#[verifier::external_body]
#[derive(Clone, Copy)]
pub struct Commitment { _p: u8 }
#[derive(Clone, Copy)]
pub struct CommitPos { pub pos: u64, pub height: u64 }
#[derive(Clone, Copy)]
pub struct BlockHeader { pub height: u64, pub id: Hash, pub output_mmr_size: u64, pub kernel_mmr_size: u64 }
impl BlockHeader { pub fn hash(&self) -> (r: Hash) ensures r == self.id { self.id } }
#[derive(Clone, Copy)]
pub enum KernelFeatures { Plain, NoRecentDuplicate { rel: u16 } }
#[derive(Clone, Copy)]
pub struct TxKernel { pub features: KernelFeatures, pub excess_c: Commitment }
impl TxKernel { pub fn excess(&self) -> (r: Commitment) ensures r == self.excess_c { self.excess_c } }
#[derive(Clone, Copy)]
pub struct Output { pub commit: Commitment }
impl Output { pub fn commitment(&self) -> (r: Commitment) ensures r == self.commit { self.commit } }
#[derive(Clone, Copy)]
pub struct OutputIdentifier { pub commit: Commitment }
impl OutputIdentifier { pub fn commitment(&self) -> (r: Commitment) ensures r == self.commit { self.commit } }
pub struct Block { pub header: BlockHeader, pub outs: Vec<Output>, pub kerns: Vec<TxKernel> }
impl Block {
    pub fn outputs(&self) -> (r: &[Output]) ensures r@ == self.outs@ { self.outs.as_slice() }
    pub fn kernels(&self) -> (r: &[TxKernel]) ensures r@ == self.kerns@ { self.kerns.as_slice() }
}
pub enum Error { Rejected, StoreErr }
#[verifier::external_body]
pub struct Bitmap { _p: u8 }
pub uninterp spec fn sp_prev(h: BlockHeader) -> BlockHeader;
pub uninterp spec fn sp_spent_index(id: Hash) -> Option<Seq<CommitPos>>;
pub uninterp spec fn sp_bitmap_positions(b: Bitmap) -> Seq<u64>;
pub uninterp spec fn sp_nrd_enabled() -> bool;
pub open spec fn pos_seq(s: Seq<CommitPos>) -> Seq<u64> { s.map_values(|x: CommitPos| x.pos) }

pub struct Batch { pub deleted: Ghost<Seq<Commitment>>, pub saved: Ghost<Seq<(Commitment, CommitPos)>>, pub nrd_rewound: Ghost<Seq<(Commitment, u64)>> }
impl Batch {
    #[verifier::external_body]
    pub fn get_previous_header(&self, h: &BlockHeader) -> (r: Result<BlockHeader, Error>) ensures r matches Ok(p) ==> p == sp_prev(*h) { unimplemented!() }
    #[verifier::external_body]
    pub fn get_spent_index(&self, id: &Hash) -> (r: Result<Vec<CommitPos>, Error>)
        ensures r matches Ok(v) ==> sp_spent_index(*id) == Some(v@), r.is_err() ==> sp_spent_index(*id).is_none() { unimplemented!() }
    #[verifier::external_body]
    pub fn get_block_input_bitmap(&self, id: &Hash) -> (r: Result<Bitmap, Error>) { unimplemented!() }
    #[verifier::external_body]
    pub fn delete_output_pos_height(&mut self, c: &Commitment) -> (r: Result<(), Error>)
        ensures final(self).deleted@ == old(self).deleted@.push(*c), final(self).saved@ == old(self).saved@, final(self).nrd_rewound@ == old(self).nrd_rewound@ { unimplemented!() }
    #[verifier::external_body]
    pub fn save_output_pos_height(&mut self, c: &Commitment, pos: CommitPos) -> (r: Result<(), Error>)
        ensures r.is_ok() ==> final(self).saved@ == old(self).saved@.push((*c, pos)), final(self).deleted@ == old(self).deleted@, final(self).nrd_rewound@ == old(self).nrd_rewound@ { unimplemented!() }
}
#[verifier::external_body]
fn positions_of(spent: &Vec<CommitPos>) -> (r: Vec<u64>) ensures r@ == pos_seq(spent@) { unimplemented!() }
#[verifier::external_body]
fn bitmap_positions(b: &Bitmap) -> (r: Vec<u64>) ensures r@ == sp_bitmap_positions(*b) { unimplemented!() }
pub mod global { use super::*;
    #[verifier::external_body]
    pub fn is_nrd_enabled() -> (r: bool) ensures r == sp_nrd_enabled() { unimplemented!() } }
#[verifier::external_body]
pub struct KernelIndex { _p: u8 }
impl KernelIndex {
    #[verifier::external_body]
    pub fn rewind(&self, batch: &mut Batch, c: Commitment, size: u64) -> (r: Result<(), Error>)
        ensures r.is_ok() ==> final(batch).nrd_rewound@ == old(batch).nrd_rewound@.push((c, size)), final(batch).deleted@ == old(batch).deleted@, final(batch).saved@ == old(batch).saved@ { unimplemented!() }
}
pub mod store { use super::*;
    #[verifier::external_body]
    pub fn nrd_recent_kernel_index() -> (r: KernelIndex) { unimplemented!() } }
pub struct OutPmmr { pub size: u64, pub id: Ghost<int> }
impl OutPmmr {
    pub uninterp spec fn data(&self, pos0: u64) -> Option<OutputIdentifier>;
    #[verifier::external_body]
    pub fn get_data(&self, pos0: u64) -> (r: Option<OutputIdentifier>) ensures r == self.data(pos0) { unimplemented!() }
}
pub struct Extension { pub output_pmmr: OutPmmr, pub mmr_rewinds: Ghost<Seq<(u64, u64, Seq<u64>)>> }
impl Extension {
    #[verifier::external_body]
    fn rewind_mmrs_to_pos(&mut self, output_pos: u64, kernel_pos: u64, spent_pos: &Vec<u64>) -> (r: Result<(), Error>)
        ensures r.is_ok() ==> final(self).mmr_rewinds@ == old(self).mmr_rewinds@.push((output_pos, kernel_pos, spent_pos@)) { unimplemented!() }
}
pub open spec fn all_pos_ge1(s: Seq<CommitPos>) -> bool { forall|j: int| 0 <= j < s.len() ==> (#[trigger] s[j]).pos >= 1 }
/// entries of the spent index restored so far: those among the first `upto` whose output is present
pub open spec fn restored(m: OutPmmr, spent: Seq<CommitPos>, upto: int) -> Seq<(Commitment, CommitPos)>
    decreases upto
{
    if upto <= 0 { Seq::empty() }
    else { match m.data((spent[upto - 1].pos - 1) as u64) {
        Some(out) => restored(m, spent, upto - 1).push((out.commit, spent[upto - 1])),
        None => restored(m, spent, upto - 1) } }
}

impl Extension {
//@ extract chain/src/txhashset/txhashset.rs :: impl Extension::rewind_single_block
//@   strip_logs
//@   sigrewrite `batch: &mut Batch<'_>,` => `batch: &mut Batch,`
//@   rewrite `let spent_pos: Vec<_> = if let Ok(ref spent) = spent {` => `let spent_pos: Vec<u64> = if let Ok(spent) = &spent {`
//@   rewrite `spent.iter().map(|x| x.pos).collect()` => `positions_of(spent)`
//@   rewrite `bitmap.iter().map(|x| x.into()).collect()` => `bitmap_positions(&bitmap)`
//@   rewrite `for out in block.outputs() {` => `for out in it: block.outputs().iter() {`
//@   rewrite `for kernel in block.kernels() {` => `for kernel in it2: block.kernels().iter() {`
//@   rewrite `for pos1 in spent {` => `for pos1r in it3: spent.iter() { let pos1 = *pos1r;`
//@   before `let mut missing_count = 0;`:
//@+    let ghost rew = self.mmr_rewinds@;
//@+    let ghost pm = self.output_pmmr;
//@   loop 1:
//@+    invariant
//@+        self.mmr_rewinds@ == rew, self.output_pmmr == pm,
//@+        batch.deleted@ =~= old(batch).deleted@ + block.outs@.map_values(|o: Output| o.commit).take(it.index@ as int),
//@+        batch.saved@ == old(batch).saved@, batch.nrd_rewound@ == old(batch).nrd_rewound@,
//@+        missing_count <= it.index@, block.outs@.len() < 0x7fff_ffff,
//@   loop 2:
//@+    invariant
//@+        self.mmr_rewinds@ == rew, self.output_pmmr == pm,
//@+        batch.deleted@ =~= old(batch).deleted@ + block.outs@.map_values(|o: Output| o.commit),
//@+        batch.saved@ == old(batch).saved@,
//@   loop 3:
//@+    invariant
//@+        self.mmr_rewinds@ == rew, self.output_pmmr == pm,
//@+        batch.deleted@ =~= old(batch).deleted@ + block.outs@.map_values(|o: Output| o.commit),
//@+        all_pos_ge1(spent@),
//@+        batch.saved@ =~= old(batch).saved@ + restored(pm, spent@, it3.index@ as int),
//@   after `if let Ok(spent) = spent {`:
//@+    proof { assert(sp_spent_index(block.header.id) == Some(spent@)); }
//@   requires:
//@+    block.outs@.len() < 0x7fff_ffff,
//@+    sp_spent_index(block.header.id) matches Some(s) ==> all_pos_ge1(s),
//@   ensures:
//@+    r.is_ok() ==> final(self).mmr_rewinds@.len() == old(self).mmr_rewinds@.len() + 1
//@+        && final(self).mmr_rewinds@.take(old(self).mmr_rewinds@.len() as int) =~= old(self).mmr_rewinds@,
//@+    r.is_ok() && block.header.height > 0 ==> final(self).mmr_rewinds@.last().0 == sp_prev(block.header).output_mmr_size
//@+        && final(self).mmr_rewinds@.last().1 == sp_prev(block.header).kernel_mmr_size,
//@+    r.is_ok() && block.header.height == 0 ==> final(self).mmr_rewinds@.last().0 == 0 && final(self).mmr_rewinds@.last().1 == 0,
//@+    r.is_ok() ==> (sp_spent_index(block.header.id) matches Some(s) ==> final(self).mmr_rewinds@.last().2 == pos_seq(s)),
//@+    r.is_ok() ==> final(batch).deleted@ =~= old(batch).deleted@ + block.outs@.map_values(|o: Output| o.commit),
//@+    r matches Ok(v) ==> (sp_spent_index(block.header.id) matches Some(s) ==> v@ == pos_seq(s).push(final(self).output_pmmr.size)),
//@+    r.is_ok() ==> (sp_spent_index(block.header.id) matches Some(s) ==> final(batch).saved@ =~= old(batch).saved@ + restored(final(self).output_pmmr, s, s.len() as int)),
//@+    r.is_ok() ==> (sp_spent_index(block.header.id).is_none() ==> final(batch).saved@ == old(batch).saved@),
//@ end
}
//@ canary rewind_single_block: r.is_err()
