//@ assume: apply_output / apply_input / apply_kernels / apply_to_bitmap_accumulator, the UTXOView and the Batch index are abstract; apply_output and apply_input carry (as assumed contracts, in ghost-log form) what C02/apply_output and C02/apply_input prove of the real bodies; validate_inputs carries what C02/utxo_view proves of validate_input
//@ assume: T6 rewrites: `for out in b.outputs() {` / `for (out, pos) in &spent {` => Verus iterator-loop syntax over the same slices with spliced invariants; the closure-based `.into_iter().map(|(_, pos)| pos).collect()` => helper `positions_of`; lifetimes dropped
//@ assume: decided here: Extension::apply_block returns Ok only if EVERY output of the block went through apply_output (so none duplicated an unspent commitment), the block's inputs passed validate_inputs against the state reached through this extension, EVERY resolved input went through apply_input (so each was unspent and is spent exactly once), the output-position index gained every new output and lost every spent one, and the spent index records exactly the spent positions
//@ assumed_items: 26
//@ fns: Extension::apply_block
#[verifier::external_body]
#[derive(Clone, Copy)]
pub struct Commitment { _p: u8 }
#[verifier::external_body]
#[derive(Clone, Copy)]
pub struct OutputIdentifier { _p: u8 }
#[verifier::external_body]
pub struct Output { _p: u8 }
#[verifier::external_body]
pub struct Inputs { _p: u8 }
#[verifier::external_body]
pub struct TxKernel { _p: u8 }
#[verifier::external_body]
#[derive(Clone, Copy)]
pub struct Hash { _p: u8 }
#[verifier::external_body]
pub struct Tip { _p: u8 }
#[verifier::external_body]
pub struct HeaderExtension { _p: u8 }
#[derive(Clone, Copy)]
pub struct CommitPos { pub pos: u64, pub height: u64 }
pub struct BlockHeader { pub height: u64 }
pub enum Error { Rejected }

pub uninterp spec fn sp_commit(o: Output) -> Commitment;
pub uninterp spec fn sp_ident_commit(o: OutputIdentifier) -> Commitment;
/// what UTXOView::validate_inputs establishes of its result (proved per input in C02/utxo_view)
pub uninterp spec fn sp_inputs_resolved(out_log: Seq<Output>, in_log: Seq<(Commitment, CommitPos)>, inputs: Inputs, spent: Seq<(OutputIdentifier, CommitPos)>) -> bool;
pub uninterp spec fn sp_kernels_applied(k: Seq<TxKernel>, height: u64) -> bool;
pub uninterp spec fn sp_tip_of(h: BlockHeader) -> Tip;

impl Output {
    #[verifier::external_body]
    pub fn commitment(&self) -> (r: Commitment) ensures r == sp_commit(*self) { unimplemented!() }
}
impl OutputIdentifier {
    #[verifier::external_body]
    pub fn commitment(&self) -> (r: Commitment) ensures r == sp_ident_commit(*self) { unimplemented!() }
}
pub struct Block { pub header: BlockHeader }
impl Block {
    pub uninterp spec fn sp_outputs(&self) -> Seq<Output>;
    pub uninterp spec fn sp_inputs(&self) -> Inputs;
    pub uninterp spec fn sp_kernels(&self) -> Seq<TxKernel>;
    pub uninterp spec fn sp_hash(&self) -> Hash;
    #[verifier::external_body]
    pub fn outputs(&self) -> (r: &[Output]) ensures r@ == self.sp_outputs() { unimplemented!() }
    #[verifier::external_body]
    pub fn inputs(&self) -> (r: Inputs) ensures r == self.sp_inputs() { unimplemented!() }
    #[verifier::external_body]
    pub fn kernels(&self) -> (r: &[TxKernel]) ensures r@ == self.sp_kernels() { unimplemented!() }
    #[verifier::external_body]
    pub fn hash(&self) -> (r: Hash) ensures r == self.sp_hash() { unimplemented!() }
}
impl Tip {
    #[verifier::external_body]
    pub fn from_header(h: &BlockHeader) -> (r: Tip) ensures r == sp_tip_of(*h) { unimplemented!() }
}

#[verifier::external_body]
pub struct Batch { _p: u8 }
impl Batch {
    /// ghost logs of the index writes
    pub uninterp spec fn saved(&self) -> Seq<(Commitment, CommitPos)>;
    pub uninterp spec fn deleted(&self) -> Seq<Commitment>;
    pub uninterp spec fn spent_index(&self) -> Seq<(Hash, Seq<CommitPos>)>;
    #[verifier::external_body]
    pub fn save_output_pos_height(&mut self, c: &Commitment, pos: CommitPos) -> (r: Result<(), Error>)
        ensures r.is_ok() ==> final(self).saved() == old(self).saved().push((*c, pos)),
                final(self).deleted() == old(self).deleted(), final(self).spent_index() == old(self).spent_index() { unimplemented!() }
    #[verifier::external_body]
    pub fn delete_output_pos_height(&mut self, c: &Commitment) -> (r: Result<(), Error>)
        ensures r.is_ok() ==> final(self).deleted() == old(self).deleted().push(*c),
                final(self).saved() == old(self).saved(), final(self).spent_index() == old(self).spent_index() { unimplemented!() }
    #[verifier::external_body]
    pub fn save_spent_index(&mut self, h: &Hash, spent: &Vec<CommitPos>) -> (r: Result<(), Error>)
        ensures r.is_ok() ==> final(self).spent_index() == old(self).spent_index().push((*h, spent@)),
                final(self).saved() == old(self).saved(), final(self).deleted() == old(self).deleted() { unimplemented!() }
}

pub struct UTXOView { pub out_log: Ghost<Seq<Output>>, pub in_log: Ghost<Seq<(Commitment, CommitPos)>> }
impl UTXOView {
    #[verifier::external_body]
    pub fn validate_inputs(&self, inputs: &Inputs, batch: &Batch) -> (r: Result<Vec<(OutputIdentifier, CommitPos)>, Error>)
        ensures r matches Ok(v) ==> sp_inputs_resolved(self.out_log@, self.in_log@, *inputs, v@) { unimplemented!() }
}

pub open spec fn pos_seq(s: Seq<(OutputIdentifier, CommitPos)>) -> Seq<CommitPos> { s.map_values(|x: (OutputIdentifier, CommitPos)| x.1) }
pub open spec fn spend_seq(s: Seq<(OutputIdentifier, CommitPos)>) -> Seq<(Commitment, CommitPos)> { s.map_values(|x: (OutputIdentifier, CommitPos)| (sp_ident_commit(x.0), x.1)) }
pub open spec fn commit_seq(s: Seq<(OutputIdentifier, CommitPos)>) -> Seq<Commitment> { s.map_values(|x: (OutputIdentifier, CommitPos)| sp_ident_commit(x.0)) }

#[verifier::external_body]
fn positions_of(spent: Vec<(OutputIdentifier, CommitPos)>) -> (r: Vec<CommitPos>) ensures r@ == pos_seq(spent@) { unimplemented!() }

pub proof fn lemma_push_contains(s: Seq<u64>, x: u64)
    ensures s.push(x).contains(x), forall|y: u64| s.contains(y) ==> #[trigger] s.push(x).contains(y)
{
    assert(s.push(x)[s.len() as int] == x);
    assert forall|y: u64| s.contains(y) implies #[trigger] s.push(x).contains(y) by { let i = choose|i: int| 0 <= i < s.len() && s[i] == y; assert(s.push(x)[i] == y); }
}
pub struct Extension {
    pub head: Tip,
    /// ghost logs: outputs that went through a successful apply_output, inputs through a successful apply_input
    pub out_log: Ghost<Seq<Output>>,
    pub in_log: Ghost<Seq<(Commitment, CommitPos)>>,
    pub kernels_ok: Ghost<bool>,
    /// positions handed out by apply_output, and the position lists the bitmap accumulator was rebuilt from
    pub created: Ghost<Seq<u64>>,
    pub acc_log: Ghost<Seq<Seq<u64>>>,
}
impl Extension {
    #[verifier::external_body]
    pub fn apply_output(&mut self, out: &Output, batch: &Batch) -> (r: Result<u64, Error>)
        ensures r.is_ok() ==> final(self).out_log@ == old(self).out_log@.push(*out),
                r.is_err() ==> final(self).out_log@ == old(self).out_log@,
                r matches Ok(p) ==> final(self).created@ == old(self).created@.push(p), final(self).acc_log@ == old(self).acc_log@,
                final(self).in_log@ == old(self).in_log@, final(self).kernels_ok@ == old(self).kernels_ok@ { unimplemented!() }
    #[verifier::external_body]
    pub fn apply_input(&mut self, commit: Commitment, pos: CommitPos) -> (r: Result<(), Error>)
        ensures r.is_ok() ==> final(self).in_log@ == old(self).in_log@.push((commit, pos)),
                r.is_err() ==> final(self).in_log@ == old(self).in_log@, final(self).created@ == old(self).created@, final(self).acc_log@ == old(self).acc_log@,
                final(self).out_log@ == old(self).out_log@, final(self).kernels_ok@ == old(self).kernels_ok@ { unimplemented!() }
    #[verifier::external_body]
    pub fn utxo_view(&self, header_ext: &HeaderExtension) -> (r: UTXOView)
        ensures r.out_log@ == self.out_log@, r.in_log@ == self.in_log@ { unimplemented!() }
    #[verifier::external_body]
    pub fn apply_kernels(&mut self, kernels: &[TxKernel], height: u64, batch: &Batch) -> (r: Result<(), Error>)
        ensures r.is_ok() ==> final(self).kernels_ok@ == sp_kernels_applied(kernels@, height), final(self).created@ == old(self).created@, final(self).acc_log@ == old(self).acc_log@,
                final(self).out_log@ == old(self).out_log@, final(self).in_log@ == old(self).in_log@ { unimplemented!() }
    #[verifier::external_body]
    fn apply_to_bitmap_accumulator(&mut self, output_pos: &Vec<u64>) -> (r: Result<(), Error>)
        ensures final(self).out_log@ == old(self).out_log@, final(self).in_log@ == old(self).in_log@, final(self).kernels_ok@ == old(self).kernels_ok@,
            final(self).created@ == old(self).created@, final(self).acc_log@ == old(self).acc_log@.push(output_pos@) { unimplemented!() }

//@ extract chain/src/txhashset/txhashset.rs :: impl Extension::apply_block
//@   sigrewrite `header_ext: &HeaderExtension<'_>` => `header_ext: &HeaderExtension`
//@   sigrewrite `batch: &mut Batch<'_>` => `batch: &mut Batch`
//@   rewrite `let mut affected_pos = vec![];` => `let mut affected_pos: Vec<u64> = Vec::new();`
//@   rewrite `for out in b.outputs() {` => `for out in it: b.outputs().iter() {`
//@   rewrite `for (out, pos) in &spent {` => `for sp in it2: spent.iter() { let out = &sp.0; let pos = &sp.1;`
//@   rewrite `let spent: Vec<_> = spent.into_iter().map(|(_, pos)| pos).collect();` => `let ghost spent0 = spent@; let spent: Vec<CommitPos> = positions_of(spent);`
//@   loop 1:
//@+    invariant
//@+        self.out_log@ =~= old(self).out_log@ + b.sp_outputs().take(it.index@ as int),
//@+        self.in_log@ == old(self).in_log@,
//@+        batch.saved().len() == old(batch).saved().len() + it.index@,
//@+        forall|j: int| 0 <= j < it.index@ ==> (#[trigger] batch.saved()[old(batch).saved().len() + j]).0 == sp_commit(b.sp_outputs()[j]),
//@+        batch.saved().take(old(batch).saved().len() as int) == old(batch).saved(),
//@+        self.acc_log@ == old(self).acc_log@, self.created@.len() == old(self).created@.len() + it.index@,
//@+        self.created@.take(old(self).created@.len() as int) =~= old(self).created@,
//@+        forall|k: int| 0 <= k < it.index@ ==> affected_pos@.contains(#[trigger] self.created@[old(self).created@.len() + k]),
//@+        batch.deleted() == old(batch).deleted(), batch.spent_index() == old(batch).spent_index(),
//@   loop 2:
//@+    invariant
//@+        self.out_log@ =~= old(self).out_log@ + b.sp_outputs(),
//@+        self.in_log@ =~= old(self).in_log@ + spend_seq(spent@).take(it2.index@ as int),
//@+        batch.deleted() =~= old(batch).deleted() + commit_seq(spent@).take(it2.index@ as int),
//@+        batch.saved().len() == old(batch).saved().len() + b.sp_outputs().len(),
//@+        forall|j: int| 0 <= j < b.sp_outputs().len() ==> (#[trigger] batch.saved()[old(batch).saved().len() + j]).0 == sp_commit(b.sp_outputs()[j]),
//@+        batch.spent_index() == old(batch).spent_index(),
//@+        self.acc_log@ == old(self).acc_log@, self.created@.len() == old(self).created@.len() + b.sp_outputs().len(),
//@+        forall|k: int| 0 <= k < b.sp_outputs().len() ==> affected_pos@.contains(#[trigger] self.created@[old(self).created@.len() + k]),
//@+        forall|j: int| 0 <= j < it2.index@ ==> affected_pos@.contains((#[trigger] spent@[j]).1.pos),
//@   before? `affected_pos.push(pos);`:
//@+    let ghost ap0 = affected_pos@;
//@   after? `affected_pos.push(pos);`:
//@+    proof { lemma_push_contains(ap0, pos); }
//@   before? `affected_pos.push(pos.pos);`:
//@+    let ghost ap0 = affected_pos@;
//@   after? `affected_pos.push(pos.pos);`:
//@+    proof { lemma_push_contains(ap0, pos.pos); }
//@   before `let spent = self`:
//@+    proof { assert(b.sp_outputs().take(b.sp_outputs().len() as int) =~= b.sp_outputs()); }
//@   before `let ghost spent0`:
//@+    proof { assert(spend_seq(spent@).take(spent@.len() as int) =~= spend_seq(spent@)); assert(commit_seq(spent@).take(spent@.len() as int) =~= commit_seq(spent@)); }
//@   requires:
//@+    true,
//@   ensures:
//@+    r.is_ok() ==> final(self).out_log@ == old(self).out_log@ + b.sp_outputs(),
//@+    r.is_ok() ==> exists|spent: Seq<(OutputIdentifier, CommitPos)>|
//@+        sp_inputs_resolved(old(self).out_log@ + b.sp_outputs(), old(self).in_log@, b.sp_inputs(), spent)
//@+        && final(self).in_log@ == old(self).in_log@ + spend_seq(spent)
//@+        && final(batch).deleted() == old(batch).deleted() + commit_seq(spent)
//@+        && final(batch).spent_index() == old(batch).spent_index().push((b.sp_hash(), pos_seq(spent))),
//@+    r.is_ok() ==> final(batch).saved().len() == old(batch).saved().len() + b.sp_outputs().len()
//@+        && forall|j: int| 0 <= j < b.sp_outputs().len() ==> (#[trigger] final(batch).saved()[old(batch).saved().len() + j]).0 == sp_commit(b.sp_outputs()[j]),
//@+    r.is_ok() ==> final(self).kernels_ok@ == sp_kernels_applied(b.sp_kernels(), b.header.height),
//@+    r.is_ok() ==> final(self).head == sp_tip_of(b.header),
//@+    // C15: the bitmap accumulator is rebuilt once, from a list holding the position of EVERY output created and EVERY output spent by the block
//@+    r.is_ok() ==> final(self).acc_log@.len() == old(self).acc_log@.len() + 1
//@+        && final(self).created@.len() == old(self).created@.len() + b.sp_outputs().len()
//@+        && (forall|k: int| 0 <= k < b.sp_outputs().len() ==> final(self).acc_log@.last().contains(#[trigger] final(self).created@[old(self).created@.len() + k]))
//@+        && exists|spent: Seq<(OutputIdentifier, CommitPos)>| sp_inputs_resolved(old(self).out_log@ + b.sp_outputs(), old(self).in_log@, b.sp_inputs(), spent)
//@+            && forall|j: int| 0 <= j < spent.len() ==> final(self).acc_log@.last().contains((#[trigger] spent[j]).1.pos),
//@ end
}
//@ canary apply_block: r.is_err()
