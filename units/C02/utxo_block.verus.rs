//@ assume: UTXOView / Batch / Block / Transaction / Inputs are abstract; validate_output (refuses an indexed, still-unspent duplicate commitment) and validate_input are under contract on the real code in C02/utxo_view; validate_inputs (an iterator chain mapping validate_input over the inputs; its element closures are decided in C02/validate_inputs) is an abstract callee here
//@ assume: T6 rewrites: `for output in block.outputs() {` / `for output in tx.outputs() {` => Verus iterator loops with spliced invariants; lifetimes dropped
//@ assume: decided here: UTXOView::validate_block and validate_tx return Ok only if EVERY output of the block / transaction passed validate_output (so none duplicates a currently unspent commitment) AND the inputs were resolved by validate_inputs; the result is validate_inputs' result unchanged
//@ assumed_items: 10
//@ fns: UTXOView::validate_block, UTXOView::validate_tx
#[verifier::external_body]
pub struct Output { _p: u8 }
#[verifier::external_body]
pub struct Inputs { _p: u8 }
#[verifier::external_body]
pub struct OutputIdentifier { _p: u8 }
#[verifier::external_body]
pub struct CommitPos { _p: u8 }
#[verifier::external_body]
pub struct Batch { _p: u8 }
pub enum Error { Dup, Spent }
pub struct Block { pub outs: Vec<Output>, pub ins: Inputs }
impl Block {
    pub fn outputs(&self) -> (r: &[Output]) ensures r@ == self.outs@ { self.outs.as_slice() }
    #[verifier::external_body]
    pub fn inputs(&self) -> (r: Inputs) ensures r == self.ins { unimplemented!() }
}
pub struct Transaction { pub outs: Vec<Output>, pub ins: Inputs }
impl Transaction {
    pub fn outputs(&self) -> (r: &[Output]) ensures r@ == self.outs@ { self.outs.as_slice() }
    #[verifier::external_body]
    pub fn inputs(&self) -> (r: Inputs) ensures r == self.ins { unimplemented!() }
}
pub uninterp spec fn sp_output_ok(v: UTXOView, b: Batch, o: Output) -> bool;
pub uninterp spec fn sp_inputs_ok(v: UTXOView, b: Batch, i: Inputs, r: Seq<(OutputIdentifier, CommitPos)>) -> bool;
#[verifier::external_body]
pub struct UTXOView { _p: u8 }
impl UTXOView {
    #[verifier::external_body]
    fn validate_output(&self, output: &Output, batch: &Batch) -> (r: Result<(), Error>) ensures r.is_ok() ==> sp_output_ok(*self, *batch, *output) { unimplemented!() }
    #[verifier::external_body]
    pub fn validate_inputs(&self, inputs: &Inputs, batch: &Batch) -> (r: Result<Vec<(OutputIdentifier, CommitPos)>, Error>)
        ensures r matches Ok(v) ==> sp_inputs_ok(*self, *batch, *inputs, v@) { unimplemented!() }

//@ extract chain/src/txhashset/utxo_view.rs :: impl UTXOView::validate_block
//@   sigrewrite `batch: &Batch<'_>,` => `batch: &Batch,`
//@   rewrite `for output in block.outputs() {` => `for output in it: block.outputs().iter() {`
//@   loop 1?:
//@+    invariant
//@+        forall|k: int| 0 <= k < it.index@ ==> sp_output_ok(*self, *batch, #[trigger] block.outs@[k]),
//@   ensures:
//@+    r matches Ok(v) ==> (forall|k: int| 0 <= k < block.outs@.len() ==> sp_output_ok(*self, *batch, #[trigger] block.outs@[k])) && sp_inputs_ok(*self, *batch, block.ins, v@),
//@ end
//@ extract chain/src/txhashset/utxo_view.rs :: impl UTXOView::validate_tx
//@   sigrewrite `batch: &Batch<'_>,` => `batch: &Batch,`
//@   rewrite `for output in tx.outputs() {` => `for output in it: tx.outputs().iter() {`
//@   loop 1?:
//@+    invariant
//@+        forall|k: int| 0 <= k < it.index@ ==> sp_output_ok(*self, *batch, #[trigger] tx.outs@[k]),
//@   ensures:
//@+    r matches Ok(v) ==> (forall|k: int| 0 <= k < tx.outs@.len() ==> sp_output_ok(*self, *batch, #[trigger] tx.outs@[k])) && sp_inputs_ok(*self, *batch, tx.ins, v@),
//@ end
}
//@ canary validate_block: r.is_err()
