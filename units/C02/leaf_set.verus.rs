//@ assume: croaring::Bitmap (CRoaring, C code behind FFI) is an external type with abstract view Set<int> of u32 values; assumed contracts: add/remove/contains change or read exactly one element, remove_range removes exactly [lo, hi], or_inplace is set union, maximum is the greatest element, clone preserves the view
//@ assume: positions satisfy pos0 < 2^32 - 1 (the code narrows `1 + pos0 as u32`); stated as a precondition, i.e. the MMR has fewer than 2^32 nodes
//@ assume: decided here: the set algebra of the unspent-leaf bitmap (whole-view postconditions); fork trees, reorganisation histories, restart and the LMDB output index are outside this family (DESIGN 6 C02)
//@ assume: 64-bit target
//@ assumed_items: 9
//@ fns: LeafSet::add, LeafSet::remove, LeafSet::includes, LeafSet::rewind, LeafSet::discard
global size_of usize == 8;

#[verifier::external_body]
pub struct ExtPath;

#[verifier::external_body]
pub struct Bitmap { _p: u8 }

pub struct RangeIncl { pub start: u32, pub end: u32 }
/// `a..b` (offered: the pinned text uses the inclusive form)
pub struct RangeExcl { pub start: u32, pub end: u32 }
pub trait U32Range { spec fn has(&self, x: int) -> bool; }
impl U32Range for RangeIncl { open spec fn has(&self, x: int) -> bool { self.start <= x && x <= self.end } }
impl U32Range for RangeExcl { open spec fn has(&self, x: int) -> bool { self.start <= x && x < self.end } }

impl Bitmap {
    pub uninterp spec fn view(&self) -> Set<int>;

    #[verifier::external_body]
    pub fn add(&mut self, x: u32)
        ensures final(self)@ == old(self)@.insert(x as int)
    { unimplemented!() }
    #[verifier::external_body]
    pub fn remove(&mut self, x: u32)
        ensures final(self)@ == old(self)@.remove(x as int)
    { unimplemented!() }
    #[verifier::external_body]
    pub fn contains(&self, x: u32) -> (r: bool)
        ensures r == self@.contains(x as int)
    { unimplemented!() }
    #[verifier::external_body]
    pub fn maximum(&self) -> (r: Option<u32>)
        ensures r.is_none() ==> self@ =~= Set::empty(),
                r.is_some() ==> self@.contains(r.unwrap() as int) && (forall|x: int| self@.contains(x) ==> x <= r.unwrap()),
    { unimplemented!() }
    #[verifier::external_body]
    pub fn remove_range<R: U32Range>(&mut self, range: R)
        ensures final(self)@ == old(self)@.filter(|x: int| !range.has(x))
    { unimplemented!() }
    #[verifier::external_body]
    pub fn or_inplace(&mut self, other: &Bitmap)
        ensures final(self)@ == old(self)@.union(other@)
    { unimplemented!() }
    #[verifier::external_body]
    pub fn clone(&self) -> (r: Bitmap)
        ensures r@ == self@
    { unimplemented!() }
}

//@ extract store/src/leaf_set.rs :: struct LeafSet
//@   rewrite `path: PathBuf,` => `path: ExtPath,`
//@   pub_fields
//@ end

impl LeafSet {
//@ extract store/src/leaf_set.rs :: impl LeafSet::add
//@   requires:
//@+    pos0 < 0xffff_ffffu64,
//@   ensures:
//@+    final(self).bitmap@ == old(self).bitmap@.insert(pos0 + 1),
//@+    final(self).bitmap_bak@ == old(self).bitmap_bak@,
//@ end

//@ extract store/src/leaf_set.rs :: impl LeafSet::remove
//@   requires:
//@+    pos0 < 0xffff_ffffu64,
//@   ensures:
//@+    final(self).bitmap@ == old(self).bitmap@.remove(pos0 + 1),
//@+    final(self).bitmap_bak@ == old(self).bitmap_bak@,
//@ end

//@ extract store/src/leaf_set.rs :: impl LeafSet::includes
//@   requires:
//@+    pos0 < 0xffff_ffffu64,
//@   ensures:
//@+    r == self.bitmap@.contains(pos0 + 1),
//@ end

//@ extract store/src/leaf_set.rs :: impl LeafSet::rewind
//@   rewrite `let to_remove = ((cutoff_pos + 1) as u32)..=self.bitmap.maximum().unwrap_or(0);` => `let to_remove = RangeIncl { start: ((cutoff_pos + 1) as u32), end: self.bitmap.maximum().unwrap_or(0) };` x?
//@   rewrite `let to_remove = ((cutoff_pos + 1) as u32)..self.bitmap.maximum().unwrap_or(0);` => `let to_remove = RangeExcl { start: ((cutoff_pos + 1) as u32), end: self.bitmap.maximum().unwrap_or(0) };` x?
//@   requires:
//@+    cutoff_pos < 0xffff_ffffu64,
//@+    forall|x: int| old(self).bitmap@.contains(x) ==> 0 <= x <= 0xffff_ffff,
//@   ensures:
//@+    final(self).bitmap@ =~= old(self).bitmap@.filter(|x: int| x <= cutoff_pos).union(rewind_rm_pos@),
//@+    final(self).bitmap_bak@ == old(self).bitmap_bak@,
//@ end

//@ extract store/src/leaf_set.rs :: impl LeafSet::discard
//@   ensures:
//@+    final(self).bitmap@ == old(self).bitmap_bak@,
//@+    final(self).bitmap_bak@ == old(self).bitmap_bak@,
//@ end
}
//@ canary rewind: final(self).bitmap@ == old(self).bitmap@
