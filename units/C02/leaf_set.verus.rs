//@ assume: croaring::Bitmap (CRoaring, C code behind FFI) is an external type with abstract view Set<int> of u32 values; assumed contracts: add/remove/contains change or read exactly one element, remove_range removes exactly [lo, hi], or_inplace is set union, maximum is the greatest element, clone preserves the view
//@ assume: positions satisfy pos0 < 2^32 - 1 (the code narrows `1 + pos0 as u32`); stated as a precondition, i.e. the MMR has fewer than 2^32 nodes
//@ assume: decided here: the set algebra of the unspent-leaf bitmap (whole-view postconditions); fork trees, reorganisation histories, restart and the LMDB output index are outside this family (DESIGN 6 C02)
//@ assume: LeafSet::flush: the disk content of the leaf-set file is a ghost out-parameter (T6: `Tracked(disk)` added to flush and to save_via_temp_file, whose contract -- Ok means the path holds exactly what the writer closure wrote, Err leaves it -- is assumed here and its step order decided in C09/save_via_temp_file); the writer closure is lifted and verified (T7); `serialize::<Portable>()` => serialize_portable(), a function of the set; run_optimize keeps the set
//@ assume: decided here (C02 / C09): after a successful flush the file holds the CURRENT leaf set and discard() returns to the CURRENT leaf set -- for ANY previous backup, in particular when a reorg left a leaf set with the same number of leaves and the same last leaf as the backup
//@ assume: LeafSet::open: store::read_bitmap is abstract (the bitmap decoded from the file's bytes, the ghost `disk` handed in); ASSUMED: decoding inverts the portable serialisation; lemma_flush_then_open (over the two contracts): reopening after a successful flush yields exactly the flushed leaf set, as bitmap AND as backup; T3: the debug block is removed
//@ assume: 64-bit target
//@ assumed_items: 21
//@ fns: LeafSet::add, LeafSet::remove, LeafSet::includes, LeafSet::rewind, LeafSet::discard, LeafSet::flush (+ its writer closure), LeafSet::open, LeafSet::copy_snapshot
global size_of usize == 8;

#[verifier::external_body]
pub struct ExtPath;
impl ExtPath {
    /// whether the file is there (ghost: sp_exists); says nothing about its content
    #[verifier::external_body]
    pub fn exists(&self) -> (r: bool) ensures r == sp_exists(*self) { unimplemented!() }
    #[verifier::external_body]
    pub fn as_ref(&self) -> (r: &ExtPath) ensures *r == *self { unimplemented!() }
    #[verifier::external_body]
    pub fn to_path_buf(&self) -> (r: ExtPath) ensures r == *self { unimplemented!() }
}
pub uninterp spec fn sp_exists(p: ExtPath) -> bool;

#[verifier::external_body]
pub struct Bitmap { _p: u8 }

pub struct RangeIncl { pub start: u32, pub end: u32 }
/// `a..b` (offered: the pinned text uses the inclusive form)
pub struct RangeExcl { pub start: u32, pub end: u32 }
pub trait U32Range { spec fn has(&self, x: int) -> bool; }
impl U32Range for RangeIncl { open spec fn has(&self, x: int) -> bool { self.start <= x && x <= self.end } }
impl U32Range for RangeExcl { open spec fn has(&self, x: int) -> bool { self.start <= x && x < self.end } }

impl Bitmap {
    pub uninterp spec fn view(&self) -> Set<int>;

    #[verifier::external_body]
    pub fn add(&mut self, x: u32)
        ensures final(self)@ == old(self)@.insert(x as int)
    { unimplemented!() }
    #[verifier::external_body]
    pub fn remove(&mut self, x: u32)
        ensures final(self)@ == old(self)@.remove(x as int)
    { unimplemented!() }
    #[verifier::external_body]
    pub fn contains(&self, x: u32) -> (r: bool)
        ensures r == self@.contains(x as int)
    { unimplemented!() }
    #[verifier::external_body]
    pub fn maximum(&self) -> (r: Option<u32>)
        ensures r.is_none() ==> self@ =~= Set::empty(),
                r.is_some() ==> self@.contains(r.unwrap() as int) && (forall|x: int| self@.contains(x) ==> x <= r.unwrap()),
    { unimplemented!() }
    #[verifier::external_body]
    pub fn remove_range<R: U32Range>(&mut self, range: R)
        ensures final(self)@ == old(self)@.filter(|x: int| !range.has(x))
    { unimplemented!() }
    #[verifier::external_body]
    pub fn or_inplace(&mut self, other: &Bitmap)
        ensures final(self)@ == old(self)@.union(other@)
    { unimplemented!() }
    #[verifier::external_body]
    pub fn clone(&self) -> (r: Bitmap)
        ensures r@ == self@
    { unimplemented!() }
    #[verifier::external_body]
    pub fn is_empty(&self) -> (r: bool) ensures r == (self@ == Set::<int>::empty()) { unimplemented!() }
    /// offered (not used by the pinned text of flush)
    #[verifier::external_body]
    pub fn cardinality(&self) -> (r: u64)
        ensures self@.finite() ==> r as nat == self@.len()
    { unimplemented!() }
    /// re-encodes the containers; the set is unchanged
    #[verifier::external_body]
    pub fn run_optimize(&mut self) -> (r: bool)
        ensures final(self)@ == old(self)@
    { unimplemented!() }
    /// stands in for `serialize::<Portable>()`
    #[verifier::external_body]
    pub fn serialize_portable(&self) -> (r: Vec<u8>)
        ensures r@ == sp_ser(self@)
    { unimplemented!() }
}
/// the portable serialisation of a bitmap (a function of the set)
pub uninterp spec fn sp_ser(s: Set<int>) -> Seq<u8>;
/// what read_bitmap makes of a file's bytes; ASSUMED: it inverts the portable serialisation (croaring)
pub uninterp spec fn sp_deser(b: Seq<u8>) -> Set<int>;
#[verifier::external_body]
pub proof fn axiom_deser_ser(s: Set<int>) ensures sp_deser(sp_ser(s)) == s { }
/// store::read_bitmap(path): the bitmap decoded from the file at path (its bytes: the ghost `disk`)
#[verifier::external_body]
pub fn read_bitmap(path: &ExtPath, Tracked(disk): Tracked<&Disk>) -> (r: io::Result<Bitmap>) ensures r matches Ok(b) ==> b@ == sp_deser(disk.content) { unimplemented!() }
#[verifier::external_body]
pub fn bitmap_new() -> (r: Bitmap) ensures r@ == Set::<int>::empty() { unimplemented!() }
/// REOPEN: a leaf set flushed and then opened again from the same file is the leaf set that was flushed, and discard() keeps it
pub proof fn lemma_flush_then_open(flushed: Set<int>, disk: Disk, opened: LeafSet)
    requires disk.content == sp_ser(flushed), opened.bitmap@ == sp_deser(disk.content), opened.bitmap_bak@ == opened.bitmap@,
    ensures opened.bitmap@ == flushed && opened.bitmap_bak@ == flushed,
{ axiom_deser_ser(flushed); }
pub struct IoError { pub k: u8 }
pub mod io { pub type Result<T> = std::result::Result<T, super::IoError>; }
/// the temp file handed to the writer closure: the bytes written to it so far
pub struct TmpFile { pub written: Ghost<Seq<u8>> }
impl TmpFile {
    #[verifier::external_body]
    pub fn write_all(&mut self, b: &Vec<u8>) -> (r: io::Result<()>)
        ensures r.is_ok() ==> final(self).written@ == old(self).written@ + b@
    { unimplemented!() }
}
/// what the leaf-set file holds on disk (ghost out-parameter of flush)
pub tracked struct Disk { pub ghost content: Seq<u8> }
pub struct WriteBitmap<'a> { pub ls: &'a LeafSet }
/// save_via_temp_file(path, ext, f): create the temp file, run f on it, fsync, rename over `path` (step order: C09/save_via_temp_file). Ok means `path` now holds exactly what f wrote; Err leaves `path` as it was
#[verifier::external_body]
pub fn save_via_temp_file<'a>(path: &ExtPath, ext: &str, f: WriteBitmap<'a>, Tracked(disk): Tracked<&mut Disk>) -> (r: io::Result<()>)
    ensures r.is_ok() ==> final(disk).content == sp_ser(f.ls.bitmap@), r.is_err() ==> final(disk).content == old(disk).content
{ unimplemented!() }

//@ extract store/src/leaf_set.rs :: struct LeafSet
//@   rewrite `path: PathBuf,` => `path: ExtPath,`
//@   pub_fields
//@ end

impl LeafSet {
//@ extract store/src/leaf_set.rs :: impl LeafSet::add
//@   requires:
//@+    pos0 < 0xffff_ffffu64,
//@   ensures:
//@+    final(self).bitmap@ == old(self).bitmap@.insert(pos0 + 1),
//@+    final(self).bitmap_bak@ == old(self).bitmap_bak@,
//@ end

//@ extract store/src/leaf_set.rs :: impl LeafSet::remove
//@   requires:
//@+    pos0 < 0xffff_ffffu64,
//@   ensures:
//@+    final(self).bitmap@ == old(self).bitmap@.remove(pos0 + 1),
//@+    final(self).bitmap_bak@ == old(self).bitmap_bak@,
//@ end

//@ extract store/src/leaf_set.rs :: impl LeafSet::includes
//@   requires:
//@+    pos0 < 0xffff_ffffu64,
//@   ensures:
//@+    r == self.bitmap@.contains(pos0 + 1),
//@ end

//@ extract store/src/leaf_set.rs :: impl LeafSet::rewind
//@   rewrite `let to_remove = ((cutoff_pos + 1) as u32)..=self.bitmap.maximum().unwrap_or(0);` => `let to_remove = RangeIncl { start: ((cutoff_pos + 1) as u32), end: self.bitmap.maximum().unwrap_or(0) };` x?
//@   rewrite `let to_remove = ((cutoff_pos + 1) as u32)..self.bitmap.maximum().unwrap_or(0);` => `let to_remove = RangeExcl { start: ((cutoff_pos + 1) as u32), end: self.bitmap.maximum().unwrap_or(0) };` x?
//@   requires:
//@+    cutoff_pos < 0xffff_ffffu64,
//@+    forall|x: int| old(self).bitmap@.contains(x) ==> 0 <= x <= 0xffff_ffff,
//@   ensures:
//@+    final(self).bitmap@ =~= old(self).bitmap@.filter(|x: int| x <= cutoff_pos).union(rewind_rm_pos@),
//@+    final(self).bitmap_bak@ == old(self).bitmap_bak@,
//@ end

//@ extract store/src/leaf_set.rs :: impl LeafSet::open
//@   strip_logs
//@   sigrewrite `pub fn open<P: AsRef<Path>>(path: P)` => `pub fn open(path: &ExtPath, Tracked(disk): Tracked<&Disk>)`
//@   rewrite `read_bitmap(&file_path)?` => `read_bitmap(&file_path, Tracked(disk))?`
//@   rewrite `Bitmap::new()` => `bitmap_new()`
//@   rewrite `\t\tif !bitmap.is_empty() {\n\t\t}\n` => `` x?
//@   ensures:
//@+    // what is opened is what the file holds (nothing, if there is no file), and the backup starts equal to it
//@+    r matches Ok(ls) ==> ls.bitmap@ == (if sp_exists(*path) { sp_deser(disk.content) } else { Set::<int>::empty() }) && ls.bitmap_bak@ == ls.bitmap@ && ls.path == *path,
//@ end

//@ extract store/src/leaf_set.rs :: impl LeafSet::copy_snapshot
//@   strip_logs
//@   sigrewrite `pub fn copy_snapshot<P: AsRef<Path>>(path: P, cp_path: P)` => `pub fn copy_snapshot(path: &ExtPath, cp_path: &ExtPath, Tracked(snap): Tracked<&Disk>, Tracked(disk): Tracked<&mut Disk>)`
//@   rewrite `read_bitmap(&cp_file_path)?` => `read_bitmap(&cp_file_path, Tracked(snap))?`
//@   rewrite `leaf_set.flush()?;` => `leaf_set.flush(Tracked(disk))?;`
//@   ensures:
//@+    // the rewound snapshot (if there is one) REPLACES the primary leaf-set file: same set; no snapshot: the primary file is left alone
//@+    r.is_ok() && sp_exists(*cp_path) ==> final(disk).content == sp_ser(sp_deser(snap.content)),
//@+    r.is_ok() && !sp_exists(*cp_path) ==> final(disk).content == old(disk).content,
//@+    r.is_err() ==> final(disk).content == old(disk).content,
//@ end

//@ extract store/src/leaf_set.rs :: impl LeafSet::flush
//@   closure 1 lifted_as `fn write_bitmap(&self, file: &mut TmpFile) -> io::Result<()>`
//@   rewrite `self.bitmap.serialize::<Portable>()` => `self.bitmap.serialize_portable()`
//@   ensures:
//@+    r.is_ok() ==> final(file).written@ == old(file).written@ + sp_ser(self.bitmap@),
//@ end

//@ extract store/src/leaf_set.rs :: impl LeafSet::flush
//@   sigrewrite `pub fn flush(&mut self)` => `pub fn flush(&mut self, Tracked(disk): Tracked<&mut Disk>)`
//@   closure 1 replaced_by `WriteBitmap { ls: &*self }, Tracked(disk)`
//@   ensures:
//@+    // Ok: the file holds the CURRENT leaf set and the in-memory backup (what discard() goes back to) is the current leaf set -- whatever the two looked like before
//@+    r.is_ok() ==> final(disk).content == sp_ser(old(self).bitmap@) && final(self).bitmap_bak@ == old(self).bitmap@,
//@+    r.is_err() ==> final(disk).content == old(disk).content && final(self).bitmap_bak@ == old(self).bitmap_bak@,
//@+    final(self).bitmap@ == old(self).bitmap@,
//@ end

//@ extract store/src/leaf_set.rs :: impl LeafSet::discard
//@   ensures:
//@+    final(self).bitmap@ == old(self).bitmap_bak@,
//@+    final(self).bitmap_bak@ == old(self).bitmap_bak@,
//@ end
}
//@ canary rewind: final(self).bitmap@ == old(self).bitmap@
