//@ assume: the output and range-proof PMMRs are abstract: prune(pos0) returns Ok(true) if the leaf was unspent and is now marked spent, Ok(false) if it was already spent, Err on a backend error; the set of unspent leaves is a ghost set
//@ assume: T6 rewrites: `.map_err(Error::TxHashSetErr)?` => `?` (the abstract prune already returns the chain error type); lifetimes dropped
//@ assume: decided here: Extension::apply_input spends an output exactly once -- it succeeds only if the output leaf was unspent, marks the same position spent in BOTH the output and range-proof MMRs, and reports AlreadySpent when the leaf was not unspent
//@ assumed_items: 3
//@ fns: Extension::apply_input
#[verifier::external_body]
#[derive(Clone, Copy)]
pub struct Commitment { _p: u8 }
#[derive(Clone, Copy)]
pub struct CommitPos { pub pos: u64, pub height: u64 }
pub enum Error { AlreadySpent(Commitment), TxHashSetErr }
#[verifier::external_body]
pub struct Pmmr { _p: u8 }
impl Pmmr {
    pub uninterp spec fn unspent(&self) -> Set<int>;
    #[verifier::external_body]
    pub fn prune(&mut self, pos0: u64) -> (r: Result<bool, Error>)
        ensures r matches Ok(true) ==> old(self).unspent().contains(pos0 as int) && final(self).unspent() == old(self).unspent().remove(pos0 as int),
                r matches Ok(false) ==> !old(self).unspent().contains(pos0 as int) && final(self).unspent() == old(self).unspent(),
                r.is_err() ==> final(self).unspent() == old(self).unspent(),
    { unimplemented!() }
}
pub struct Extension { pub output_pmmr: Pmmr, pub rproof_pmmr: Pmmr }
impl Extension {
//@ extract chain/src/txhashset/txhashset.rs :: impl Extension::apply_input
//@   rewrite `\t\t\t\tself.rproof_pmmr\n\t\t\t\t\t.prune(pos.pos - 1)\n\t\t\t\t\t.map_err(Error::TxHashSetErr)?;` => `\t\t\t\tself.rproof_pmmr.prune(pos.pos - 1)?;`
//@   rewrite `Err(e) => Err(Error::TxHashSetErr(e)),` => `Err(e) => Err(e),`
//@   requires:
//@+    pos.pos >= 1,
//@   ensures:
//@+    r.is_ok() ==> old(self).output_pmmr.unspent().contains(pos.pos - 1)
//@+        && final(self).output_pmmr.unspent() == old(self).output_pmmr.unspent().remove(pos.pos - 1)
//@+        && !final(self).rproof_pmmr.unspent().contains(pos.pos - 1),
//@+    !old(self).output_pmmr.unspent().contains(pos.pos - 1) ==> r.is_err() && final(self).output_pmmr.unspent() == old(self).output_pmmr.unspent(),
//@ end
}
//@ canary apply_input: r.is_err()
