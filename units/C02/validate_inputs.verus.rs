//@ assume: UTXOView::validate_input (look-up by commitment: Ok((out, pos)) only for an output that is currently unspent at pos and carries that commitment) is abstract here -- under contract on the real code in C02/utxo_view; OutputIdentifier is (features, commitment); `input.into()` (From<&Input> for OutputIdentifier) copies features and commitment; Result::and_then is std (runs the closure on Ok, passes Err through)
//@ assume: T7: the two closures mapped over the inputs are lifted and verified; the `inputs.iter().map(f).collect::<Result<Vec<_>, _>>()` shells are NOT verified (std: Ok(results in order) iff every element's closure returned Ok); T6: the inner `|(out, pos)|` closures get a variable parameter + `let (out, pos) = p;` (Verus has no pattern parameters) and a spliced closure contract; `out == input.into()` => `out == id_of(input)`; error! removed
//@ assume: decided here (C02, 'every input spends an existing unspent output'): the element function of validate_inputs accepts an input only if validate_input found a currently unspent output with the input's COMMITMENT and -- for inputs that carry features -- the output's FEATURES equal the input's (a plain input cannot spend a coinbase output and skip its maturity rule), and returns exactly the (output, position) that validate_input found
//@ assumed_items: 4
//@ fns: UTXOView::validate_inputs (its two element closures)
//@ import: use vstd::std_specs::cmp::PartialEqSpecImpl;
#[derive(Clone, Copy)]
pub struct Commitment { pub v: u64 }
#[derive(Clone, Copy)]
pub struct OutputIdentifier { pub features: u8, pub commit: Commitment }
impl PartialEqSpecImpl for OutputIdentifier { open spec fn obeys_eq_spec() -> bool { true } open spec fn eq_spec(&self, other: &OutputIdentifier) -> bool { self.features == other.features && self.commit.v == other.commit.v } }
impl PartialEq for OutputIdentifier { fn eq(&self, other: &OutputIdentifier) -> (r: bool) { self.features == other.features && self.commit.v == other.commit.v } }
#[derive(Clone, Copy)]
pub struct CommitPos { pub pos: u64, pub height: u64 }
#[derive(Clone, Copy)]
pub struct Input { pub features: u8, pub commit: Commitment }
#[derive(Clone, Copy)]
pub struct CommitWrapper { pub commit: Commitment }
impl OutputIdentifier { pub fn commitment(&self) -> (r: Commitment) ensures r == self.commit { self.commit } }
impl PartialEqSpecImpl for Commitment { open spec fn obeys_eq_spec() -> bool { true } open spec fn eq_spec(&self, other: &Commitment) -> bool { self.v == other.v } }
impl PartialEq for Commitment { fn eq(&self, other: &Commitment) -> (r: bool) { self.v == other.v } }
impl Input { pub fn commitment(&self) -> (r: Commitment) ensures r == self.commit { self.commit } }
impl CommitWrapper { pub fn commitment(&self) -> (r: Commitment) ensures r == self.commit { self.commit } }
pub fn id_of(i: &Input) -> (r: OutputIdentifier) ensures r.features == i.features, r.commit == i.commit { OutputIdentifier { features: i.features, commit: i.commit } }
#[verifier::external_body]
pub struct Batch { _p: u8 }
pub enum Error { Other(Msg), AlreadySpent }
pub struct Msg;
pub fn msg() -> Msg { Msg }
pub assume_specification<T, E, U, F: FnOnce(T) -> Result<U, E>>[Result::<T, E>::and_then::<U, F>](s: Result<T, E>, f: F) -> (r: Result<U, E>)
    requires s matches Ok(t) ==> f.requires((t,)),
    ensures s matches Err(e) ==> r == Err::<U, E>(e), s matches Ok(t) ==> f.ensures((t,), r);
/// (out, pos) is a currently unspent output carrying commitment c, at position pos
pub uninterp spec fn sp_unspent(v: UTXOView, b: Batch, c: Commitment, out: OutputIdentifier, pos: CommitPos) -> bool;
#[verifier::external_body]
pub struct UTXOView { _p: u8 }
impl UTXOView {
    #[verifier::external_body]
    fn validate_input(&self, input: Commitment, batch: &Batch) -> (r: Result<(OutputIdentifier, CommitPos), Error>)
        ensures r matches Ok(p) ==> sp_unspent(*self, *batch, input, p.0, p.1) && p.0.commit.v == input.v { unimplemented!() }
//@ extract chain/src/txhashset/utxo_view.rs :: impl UTXOView::validate_inputs
//@   closure 1 lifted_as `fn commit_only_element(&self, input: &CommitWrapper, batch: &Batch) -> Result<(OutputIdentifier, CommitPos), Error>`
//@   rewrite `.and_then(|(out, pos)| Ok((out, pos)))` => `.and_then(|p: (OutputIdentifier, CommitPos)| -> (q: Result<(OutputIdentifier, CommitPos), Error>) ensures q == Ok::<(OutputIdentifier, CommitPos), Error>(p) { let (out, pos) = p; Ok((out, pos)) })` x?
//@   ensures:
//@+    r matches Ok(p) ==> sp_unspent(*self, *batch, input.commit, p.0, p.1) && p.0.commit.v == input.commit.v,
//@ end
//@ extract chain/src/txhashset/utxo_view.rs :: impl UTXOView::validate_inputs
//@   strip_logs
//@   closure 2 lifted_as `fn full_input_element(&self, input: &Input, batch: &Batch) -> Result<(OutputIdentifier, CommitPos), Error>`
//@   rewrite `.and_then(|(out, pos)| {` => `.and_then(|p: (OutputIdentifier, CommitPos)| -> (q: Result<(OutputIdentifier, CommitPos), Error>) ensures q matches Ok(z) ==> z == p && p.0.features == input.features && p.0.commit.v == input.commit.v { let (out, pos) = p;` x?
//@   rewrite `out == input.into()` => `out == id_of(input)` x?
//@   rewrite `Error::Other("input mismatch".into())` => `Error::Other(msg())` x?
//@   ensures:
//@+    r matches Ok(p) ==> sp_unspent(*self, *batch, input.commit, p.0, p.1) && p.0.commit.v == input.commit.v
//@+        // the output found is exactly the one the input names: same features
//@+        && p.0.features == input.features,
//@ end
}
//@ canary full_input_element: r.is_err()
