//@ assume: the header chain is abstract: PMMRHandle::get_header_hash_by_height(k) + Batch::get_block_header give the header sp_hdr(k) with sp_hdr(k).height == k (the by-height index, C04); Batch::head gives the chain head; Batch::save_output_pos_height appends to a ghost log; one error type; 64-bit target
//@ assume: T7: the LAST part of TxHashSet::init_output_pos_index -- from `let total_outputs = outputs_pos.len();` to the end: the walk that gives every unspent output lacking an index entry its (pos, height) entry -- is lifted to a function of its free variables (outputs_pos, header_pmmr, batch); the first part (iterating the store index and the leaf set, `retain` with a closure) is iterator code outside T1-T7 and is NOT under contract: that outputs_pos holds exactly the unspent outputs without an entry, in ascending position, is a precondition here. T3: debug! removed (with it the only use of `now`)
//@ assume: decided here (C02, 'unspent ones never vanish' / the reported set equals the replayed set, after state sync): if the positions are strictly ascending, header output MMR sizes do not decrease with height and the head's output MMR covers the last position, then on Ok EVERY listed output got an index entry, in order, with its own position and the height of the FIRST header whose output MMR contains that position (output_mmr_size(h-1) < pos <= output_mmr_size(h), h >= 1); no index arithmetic overflows and outputs_pos is never indexed out of range
//@ assumed_items: 6
//@ fns: tail of TxHashSet::init_output_pos_index
#[derive(Clone, Copy, PartialEq, Eq)]
pub struct Commitment { pub c: u64 }
#[derive(Clone, Copy, PartialEq, Eq)]
pub struct Hash { pub h: u64 }
#[derive(Clone, Copy, PartialEq, Eq)]
pub struct CommitPos { pub pos: u64, pub height: u64 }
#[derive(Clone, Copy)]
pub struct BlockHeader { pub height: u64, pub output_mmr_size: u64 }
pub struct Tip { pub height: u64 }
pub enum Error { Store, Other }
pub uninterp spec fn sp_hdr(k: u64) -> BlockHeader;
pub uninterp spec fn sp_hash_at(k: u64) -> Hash;
#[verifier::external_body]
pub struct PMMRHandle { _p: u8 }
impl PMMRHandle {
    #[verifier::external_body]
    pub fn get_header_hash_by_height(&self, height: u64) -> (r: Result<Hash, Error>) ensures r matches Ok(h) ==> h == sp_hash_at(height) { unimplemented!() }
}
#[verifier::external_body]
pub struct Batch { _p: u8 }
impl Batch {
    pub uninterp spec fn saved(&self) -> Seq<(Commitment, CommitPos)>;
    pub uninterp spec fn head_height(&self) -> u64;
    #[verifier::external_body]
    pub fn head(&self) -> (r: Result<Tip, Error>) ensures r matches Ok(t) ==> t.height == self.head_height() { unimplemented!() }
    #[verifier::external_body]
    pub fn get_block_header(&self, h: &Hash) -> (r: Result<BlockHeader, Error>)
        ensures r matches Ok(hd) ==> forall|k: u64| sp_hash_at(k) == *h ==> hd == #[trigger] sp_hdr(k) { unimplemented!() }
    #[verifier::external_body]
    pub fn save_output_pos_height(&mut self, c: &Commitment, pos: CommitPos) -> (r: Result<(), Error>)
        ensures r.is_ok() ==> final(self).saved() == old(self).saved().push((*c, pos)), final(self).head_height() == old(self).head_height() { unimplemented!() }
}
/// the entry output k must get: its position and the first height whose output MMR holds it
pub open spec fn right_entry(e: (Commitment, CommitPos), o: (Commitment, u64)) -> bool {
    e.0 == o.0 && e.1.pos == o.1 && e.1.height >= 1 && o.1 <= sp_hdr(e.1.height).output_mmr_size
    && (e.1.height == 1 || sp_hdr((e.1.height - 1) as u64).output_mmr_size < o.1)
}
pub open spec fn chain_ok(maxh: u64) -> bool {
    (forall|k: u64| #[trigger] sp_hdr(k).height == k)
    && (forall|a: u64, b: u64| 1 <= a <= b <= maxh ==> #[trigger] sp_hdr(a).output_mmr_size <= #[trigger] sp_hdr(b).output_mmr_size)
}
pub open spec fn ascending(s: Seq<(Commitment, u64)>) -> bool { forall|a: int, b: int| 0 <= a < b < s.len() ==> s[a].1 < s[b].1 }
//@ extract chain/src/txhashset/txhashset.rs :: impl TxHashSet::init_output_pos_index
//@   tail `let total_outputs = outputs_pos.len();` lifted_as `fn index_missing(outputs_pos: Vec<(Commitment, u64)>, header_pmmr: &PMMRHandle, batch: &mut Batch) -> Result<(), Error>`
//@   strip_logs
//@   rewrite `let mut i = 0;` => `let mut i: usize = 0;`
//@   rewrite `for search_height in 0..max_height {` => `for search_height in it: 0..max_height {`
//@   requires:
//@+    outputs_pos@.len() > 0, ascending(outputs_pos@), chain_ok(old(batch).head_height()), old(batch).head_height() < u64::MAX,
//@+    old(batch).head_height() >= 1 && outputs_pos@.last().1 <= sp_hdr(old(batch).head_height()).output_mmr_size,
//@   loop 1:
//@+    invariant
//@+        i <= total_outputs == outputs_pos@.len(), max_height == old(batch).head_height() == batch.head_height(),
//@+        ascending(outputs_pos@), chain_ok(max_height),
//@+        batch.saved().len() == old(batch).saved().len() + i,
//@+        forall|k: int| 0 <= k < i ==> right_entry(#[trigger] batch.saved()[old(batch).saved().len() + k], outputs_pos@[k]),
//@+        search_height == 0 || (i < total_outputs ==> outputs_pos@[i as int].1 > sp_hdr(search_height).output_mmr_size),
//@   loop 2:
//@+    invariant
//@+        i <= total_outputs == outputs_pos@.len(), max_height == old(batch).head_height() == batch.head_height(),
//@+        search_height < max_height, h == sp_hdr((search_height + 1) as u64), ascending(outputs_pos@), chain_ok(max_height),
//@+        batch.saved().len() == old(batch).saved().len() + i,
//@+        forall|k: int| 0 <= k < i ==> right_entry(#[trigger] batch.saved()[old(batch).saved().len() + k], outputs_pos@[k]),
//@+        search_height == 0 || (i < total_outputs ==> outputs_pos@[i as int].1 > sp_hdr(search_height).output_mmr_size),
//@+    ensures
//@+        i < total_outputs ==> outputs_pos@[i as int].1 > h.output_mmr_size,
//@+    decreases total_outputs - i,
//@   before `while i < total_outputs {`:
//@+    proof { assert(h == sp_hdr((search_height + 1) as u64)); }
//@   ensures:
//@+    r.is_ok() ==> final(batch).saved().len() == old(batch).saved().len() + outputs_pos@.len()
//@+        && forall|k: int| 0 <= k < outputs_pos@.len() ==> right_entry(#[trigger] final(batch).saved()[old(batch).saved().len() + k], outputs_pos@[k]),
//@ end
//@ canary init_output_pos_index: r.is_err()
