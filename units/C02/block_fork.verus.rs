//@ assume: Extension / ExtensionPair are abstract (owned fields; ghost logs of the rewind target and the blocks applied since); stored blocks are looked up by hash (get_block(hash(h)) is the stored block whose header is h); verify_coinbase_maturity, validate_utxo, verify_block_sums, apply_block_to_txhashset are abstract callees with uninterpreted "this check passed" meanings (each is under contract in C13 / C02 / C01 units)
//@ assume: T6 rewrites: the two `let x = &mut ext.field;` re-borrows are folded into their uses (`extension.` => `ext.extension.`, `header_extension` => `ext.header_extension`); `&dyn Fn(..)` => `&Allowed`; `.map_err(..)?` => `?`; `vec![]` => Vec::new(); `fork_hashes.reverse()` => reversal helper; `for h in fork_hashes {` => Verus iterator loop; lifetimes dropped
//@ assume: termination of the two walks is NOT proved (depends on stored heights decreasing along prev links): exec_allows_no_decreases_clause
//@ assume: decided here: pipe::rewind_and_apply_fork (the "on every fork" machinery of C02/C03/C06) first prepares the header MMR for the fork (contract of rewind_and_apply_header_fork, verified in the same file), rewinds the txhashset extension to the first ancestor of the CURRENT HEAD that is on that header chain, and then re-applies EXACTLY the stored blocks on the path from that fork point (exclusive) to `header` (inclusive), oldest first, each one only after coinbase maturity, UTXO validation and block sums were re-verified on this fork; it returns that fork point
//@ assumed_items: 11
//@ fns: pipe::rewind_and_apply_fork
//@ include: header_fork.verus.rs

pub struct Block { pub header: BlockHeader, pub body_id: u64 }
pub uninterp spec fn sp_stored_block(id: Hash) -> Block;
pub uninterp spec fn sp_mature(b: Block) -> bool;
pub uninterp spec fn sp_utxo_ok(b: Block) -> bool;
pub uninterp spec fn sp_sums_ok(b: Block) -> bool;
impl Batch {
    pub uninterp spec fn sp_head_header(&self) -> BlockHeader;
    #[verifier::external_body]
    pub fn head_header(&self) -> (r: Result<BlockHeader, Error>) ensures r matches Ok(h) ==> h == self.sp_head_header() { unimplemented!() }
    #[verifier::external_body]
    pub fn get_block(&self, id: &Hash) -> (r: Result<Block, Error>) ensures r matches Ok(b) ==> b == sp_stored_block(*id) { unimplemented!() }
    /// offered (not used by the pinned text): the body tail and the body head as tips -- a variant that bounds the walk by them is then DECIDED
    #[verifier::external_body]
    pub fn tail(&self) -> (r: Result<Tip, Error>) { unimplemented!() }
    #[verifier::external_body]
    pub fn head(&self) -> (r: Result<Tip, Error>) { unimplemented!() }
}
pub assume_specification<T, E>[ Result::<T, E>::unwrap_or ](this: Result<T, E>, default: T) -> (r: T)
    ensures (this matches Ok(v) ==> r == v), (this is Err ==> r == default);
#[derive(Clone, Copy)]
pub struct Tip { pub height: u64, pub last_block_h: Hash, pub prev_block_h: Hash }
pub struct Extension { pub rewound_to: Ghost<Option<BlockHeader>>, pub applied: Ghost<Seq<Block>> }
impl Extension {
    #[verifier::external_body]
    pub fn rewind(&mut self, h: &BlockHeader, batch: &Batch) -> (r: Result<(), Error>)
        ensures r.is_ok() ==> final(self).rewound_to@ == Some(*h) && final(self).applied@ == Seq::<Block>::empty() { unimplemented!() }
    /// offered so that a variant re-applying fork blocks WITHOUT apply_block_to_txhashset's root / size validation is decided:
    /// such a block does not count as applied-and-validated
    #[verifier::external_body]
    pub fn apply_block<H: HxArg>(&mut self, b: &Block, header_ext: H, batch: &mut Batch) -> (r: Result<(), Error>)
        ensures final(self).rewound_to@ == old(self).rewound_to@, final(self).applied@ == old(self).applied@, final(batch).sp_head_header() == old(batch).sp_head_header() { unimplemented!() }
}
pub trait HxArg {}
impl HxArg for HeaderExtension {}
impl<'a> HxArg for &'a HeaderExtension {}
impl<'a> HxArg for &'a mut HeaderExtension {}
pub struct ExtensionPair { pub header_extension: HeaderExtension, pub extension: Extension }
#[verifier::external_body]
fn verify_coinbase_maturity(b: &Block, ext: &ExtensionPair, batch: &Batch) -> (r: Result<(), Error>) ensures r.is_ok() ==> sp_mature(*b) { unimplemented!() }
#[verifier::external_body]
fn validate_utxo(b: &Block, ext: &mut ExtensionPair, batch: &Batch) -> (r: Result<(), Error>)
    ensures r.is_ok() ==> sp_utxo_ok(*b), final(ext).extension == old(ext).extension, final(ext).header_extension == old(ext).header_extension { unimplemented!() }
#[verifier::external_body]
fn verify_block_sums(b: &Block, batch: &mut Batch) -> (r: Result<(), Error>) ensures r.is_ok() ==> sp_sums_ok(*b), final(batch).sp_head_header() == old(batch).sp_head_header() { unimplemented!() }
#[verifier::external_body]
fn apply_block_to_txhashset(b: &Block, ext: &mut ExtensionPair, batch: &mut Batch) -> (r: Result<(), Error>)
    ensures r.is_ok() ==> final(ext).extension.applied@ == old(ext).extension.applied@.push(*b), final(ext).extension.rewound_to@ == old(ext).extension.rewound_to@,
            final(ext).header_extension == old(ext).header_extension { unimplemented!() }

/// the txhashset fork point: first ancestor of the head header (inclusive) on the header chain, or height 0
pub open spec fn head_fork_depth(chain: Seq<BlockHeader>, head: BlockHeader, m: nat) -> bool { fork_depth(chain, head, m) }
/// `header`'s ancestors strictly above the fork point's height are exactly the first n
pub open spec fn above(header: BlockHeader, fp: BlockHeader, n: nat) -> bool {
    (forall|k: nat| k < n ==> (#[trigger] anc(header, k)).height > fp.height) && anc(header, n).height <= fp.height
}

//@ extract chain/src/pipe.rs :: fn rewind_and_apply_fork
//@   attr: #[verifier::exec_allows_no_decreases_clause]
//@   sigrewrite `ext: &mut txhashset::ExtensionPair<'_>,` => `ext: &mut ExtensionPair,`
//@   sigrewrite `batch: &mut store::Batch<'_>,` => `batch: &mut Batch,`
//@   sigrewrite `ctx_specific_validation: &dyn Fn(&BlockHeader) -> Result<(), Error>,` => `ctx_specific_validation: &Allowed,`
//@   rewrite `\tlet extension = &mut ext.extension;\n\tlet header_extension = &mut ext.header_extension;\n` => ``
//@   rewrite `rewind_and_apply_header_fork(header, header_extension, batch, ctx_specific_validation)?;` => `rewind_and_apply_header_fork(header, &mut ext.header_extension, batch, ctx_specific_validation)?;`
//@   rewrite `!header_extension.is_on_current_chain(&current, batch)?` => `!ext.header_extension.is_on_current_chain(&current, batch)?`
//@   rewrite `extension.rewind(&fork_point, batch)?;` => `ext.extension.rewind(&fork_point, batch)?;`
//@   rewrite `let mut fork_hashes = vec![];` => `let mut fork_hashes: Vec<Hash> = Vec::new();`
//@   rewrite `fork_hashes.reverse();` => `vec_reverse(&mut fork_hashes);`
//@   rewrite `for h in fork_hashes {` => `for h in it: fork_hashes.iter() {`
//@   rewrite `\t\t\t.get_block(&h)\n\t\t\t.map_err(|e| Error::StoreErr(e, "getting forked blocks".to_string()))?;` => `\t\t\t.get_block(h)?;`
//@   before `let mut current = batch.head_header()?;`:
//@+    let ghost hchain = ext.header_extension.chain@;
//@+    let ghost ext1 = *ext;
//@+    let ghost mut m: nat = 0;
//@   before `\t\tcurrent = batch.get_previous_header(&current)?;\n\t}\n\tlet fork_point = current;`:
//@+    proof { m = m + 1; assert(anc(batch.sp_head_header(), m) == sp_prev(anc(batch.sp_head_header(), (m - 1) as nat))); }
//@   before `fork_hashes.push(current.hash());`:
//@+    proof { assert(anc(*header, (fork_hashes@.len() + 1) as nat) == sp_prev(anc(*header, fork_hashes@.len() as nat))); }
//@   loop 1:
//@+    invariant
//@+        *ext == ext1, ext.header_extension.chain@ == hchain, batch.sp_head_header() == old(batch).sp_head_header(),
//@+        current == anc(batch.sp_head_header(), m),
//@+        forall|k: nat| k < m ==> (#[trigger] anc(batch.sp_head_header(), k)).height > 0 && !sp_on_current(hchain, anc(batch.sp_head_header(), k)),
//@   loop 2:
//@+    invariant
//@+        ext.header_extension == ext1.header_extension, ext.extension.rewound_to@ == Some(fork_point), ext.extension.applied@ == Seq::<Block>::empty(),
//@+        current == anc(*header, fork_hashes@.len() as nat),
//@+        forall|k: nat| k < fork_hashes@.len() ==> (#[trigger] anc(*header, k)).height > fork_point.height,
//@+        forall|k: int| 0 <= k < fork_hashes@.len() ==> fork_hashes@[k] == (#[trigger] anc(*header, k as nat)).id,
//@   before `vec_reverse(&mut fork_hashes);`:
//@+    let ghost n = fork_hashes@.len() as nat;
//@+    let ghost walked = fork_hashes@;
//@   before `Ok(fork_point)`:
//@+    proof { assert(fork_depth(ext.header_extension.chain@, old(batch).sp_head_header(), m)); assert(above(*header, fork_point, n)); }
//@   loop 3:
//@+    invariant
//@+        ext.header_extension == ext1.header_extension, ext.extension.rewound_to@ == Some(fork_point),
//@+        fork_hashes@ == walked.reverse(), walked.len() == n,
//@+        forall|k: int| 0 <= k < n ==> walked[k] == (#[trigger] anc(*header, k as nat)).id,
//@+        ext.extension.applied@.len() == it.index@,
//@+        forall|j: int| 0 <= j < it.index@ ==> (#[trigger] ext.extension.applied@[j]) == sp_stored_block(anc(*header, (n - 1 - j) as nat).id)
//@+            && sp_mature(ext.extension.applied@[j]) && sp_utxo_ok(ext.extension.applied@[j]) && sp_sums_ok(ext.extension.applied@[j]),
//@   ensures:
//@+    r matches Ok(fp) ==> (exists|m: nat| fork_depth(final(ext).header_extension.chain@, old(batch).sp_head_header(), m) && fp == anc(old(batch).sp_head_header(), m))
//@+        && final(ext).extension.rewound_to@ == Some(fp)
//@+        && (exists|n: nat| above(*header, fp, n) && final(ext).extension.applied@.len() == n
//@+            && forall|j: int| 0 <= j < n ==> (#[trigger] final(ext).extension.applied@[j]) == sp_stored_block(anc(*header, (n - 1 - j) as nat).id)
//@+                && sp_mature(final(ext).extension.applied@[j]) && sp_utxo_ok(final(ext).extension.applied@[j]) && sp_sums_ok(final(ext).extension.applied@[j])),
//@ end
//@ canary rewind_and_apply_fork: r.is_err()
