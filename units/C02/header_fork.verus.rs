//@ assume: HeaderExtension / Batch are abstract; the header store is an uninterpreted parent function sp_prev with stored headers looked up by hash (get_block_header(hash(h)) == h for stored headers); is_on_current_chain, rewind, validate_root, apply_header are abstract with ghost logs; the ctx-specific validation callback (`&dyn Fn(&BlockHeader) -> Result<(), Error>`) is an abstract object with a `call` method
//@ assume: T6 rewrites: `&dyn Fn(..)` parameter => `&Allowed`, `(ctx_specific_validation)(&header)?` => `ctx_specific_validation.call(&header)?`; `.map_err(|e| Error::StoreErr(..))?` => `?`; `vec![]` => Vec::new(); `fork_hashes.reverse()` => helper with the reversal contract; `for h in fork_hashes {` => Verus iterator loop over the same Vec; lifetimes dropped
//@ assume: termination of the walk back to the fork point is NOT proved (it depends on stored heights decreasing along prev links): the function carries exec_allows_no_decreases_clause
//@ assume: decided here: pipe::rewind_and_apply_header_fork rewinds the header extension to the first ancestor of `header` (inclusive, walking prev links) that is on the extension's current chain or has height 0, and then re-applies EXACTLY the headers strictly after it on the path to `header`, oldest first, each one only after the ctx-specific validation (deny list) and validate_root succeeded
//@ assumed_items: 10
//@ fns: pipe::rewind_and_apply_header_fork
#[derive(Clone, Copy, PartialEq, Eq, Structural)]
pub struct Hash { pub h: u64 }
#[derive(Clone, Copy)]
pub struct BlockHeader { pub height: u64, pub id: Hash, pub nonce: u64 }
impl BlockHeader {
    pub fn hash(&self) -> (r: Hash) ensures r == self.id { self.id }
    pub fn clone(&self) -> (r: BlockHeader) ensures r == *self { *self }
}
pub enum Error { Rejected, StoreErr }
#[verifier::external_body]
pub struct Allowed { _p: u8 }
pub uninterp spec fn sp_allowed(a: Allowed, h: BlockHeader) -> bool;
pub uninterp spec fn sp_prev(h: BlockHeader) -> BlockHeader;
pub uninterp spec fn sp_stored(id: Hash) -> BlockHeader;
pub uninterp spec fn sp_on_current(chain: Seq<BlockHeader>, h: BlockHeader) -> bool;
pub uninterp spec fn sp_rewound(chain: Seq<BlockHeader>, to: BlockHeader) -> Seq<BlockHeader>;
impl Allowed {
    #[verifier::external_body]
    pub fn call(&self, h: &BlockHeader) -> (r: Result<(), Error>) ensures r.is_ok() ==> sp_allowed(*self, *h) { unimplemented!() }
}
#[verifier::external_body]
pub struct Batch { _p: u8 }
impl Batch {
    #[verifier::external_body]
    pub fn get_previous_header(&self, h: &BlockHeader) -> (r: Result<BlockHeader, Error>) ensures r matches Ok(p) ==> p == sp_prev(*h) { unimplemented!() }
    #[verifier::external_body]
    pub fn get_block_header(&self, id: &Hash) -> (r: Result<BlockHeader, Error>) ensures r matches Ok(h) ==> h == sp_stored(*id) { unimplemented!() }
}
/// ghost history of the header extension: `chain` is the header MMR content is_on_current_chain consults,
/// `rewound_to` the header it was rewound to, `applied` the headers applied since
#[derive(Clone, Copy)]
pub struct HeaderExtension { pub chain: Ghost<Seq<BlockHeader>>, pub rewound_to: Ghost<Option<BlockHeader>>, pub applied: Ghost<Seq<BlockHeader>>, pub roots_ok: Ghost<Seq<BlockHeader>> }
impl HeaderExtension {
    #[verifier::external_body]
    pub fn is_on_current_chain(&self, h: &BlockHeader, batch: &Batch) -> (r: Result<bool, Error>) ensures r matches Ok(b) ==> b == sp_on_current(self.chain@, *h) { unimplemented!() }
    #[verifier::external_body]
    pub fn rewind(&mut self, h: &BlockHeader) -> (r: Result<(), Error>)
        ensures r.is_ok() ==> final(self).rewound_to@ == Some(*h) && final(self).applied@ == Seq::<BlockHeader>::empty() && final(self).roots_ok@ == Seq::<BlockHeader>::empty()
                && final(self).chain@ == sp_rewound(old(self).chain@, *h) { unimplemented!() }
    #[verifier::external_body]
    pub fn validate_root(&mut self, h: &BlockHeader) -> (r: Result<(), Error>)
        ensures r.is_ok() ==> final(self).roots_ok@ == old(self).roots_ok@.push(*h), final(self).applied@ == old(self).applied@, final(self).rewound_to@ == old(self).rewound_to@, final(self).chain@ == old(self).chain@ { unimplemented!() }
    #[verifier::external_body]
    pub fn apply_header(&mut self, h: &BlockHeader) -> (r: Result<(), Error>)
        ensures r.is_ok() ==> final(self).applied@ == old(self).applied@.push(*h), final(self).roots_ok@ == old(self).roots_ok@, final(self).rewound_to@ == old(self).rewound_to@,
                final(self).chain@ == old(self).chain@.push(*h) { unimplemented!() }
}
#[verifier::external_body]
fn vec_reverse(v: &mut Vec<Hash>) ensures final(v)@ == old(v)@.reverse() { unimplemented!() }

/// k-th ancestor along prev links
pub open spec fn anc(h: BlockHeader, k: nat) -> BlockHeader decreases k { if k == 0 { h } else { sp_prev(anc(h, (k - 1) as nat)) } }
/// the walk from `h` stops at its n-th ancestor: none of the first n was on the chain (and all had height > 0), the n-th is (or has height 0)
pub open spec fn fork_depth(chain: Seq<BlockHeader>, h: BlockHeader, n: nat) -> bool {
    (forall|k: nat| k < n ==> (#[trigger] anc(h, k)).height > 0 && !sp_on_current(chain, anc(h, k)))
    && (anc(h, n).height == 0 || sp_on_current(chain, anc(h, n)))
}

//@ extract chain/src/pipe.rs :: fn rewind_and_apply_header_fork
//@   attr: #[verifier::exec_allows_no_decreases_clause]
//@   sigrewrite `ext: &mut txhashset::HeaderExtension<'_>,` => `ext: &mut HeaderExtension,`
//@   sigrewrite `batch: &mut store::Batch<'_>,` => `batch: &mut Batch,`
//@   sigrewrite `ctx_specific_validation: &dyn Fn(&BlockHeader) -> Result<(), Error>,` => `ctx_specific_validation: &Allowed,`
//@   rewrite `let mut fork_hashes = vec![];` => `let mut fork_hashes: Vec<Hash> = Vec::new();`
//@   rewrite `fork_hashes.reverse();` => `vec_reverse(&mut fork_hashes);`
//@   rewrite `for h in fork_hashes {` => `for hr in it: fork_hashes.iter() { let h = *hr;`
//@   rewrite `\t\t\t.get_block_header(&h)\n\t\t\t.map_err(|e| Error::StoreErr(e, "getting forked headers".to_string()))?;` => `\t\t\t.get_block_header(&h)?;`
//@   rewrite `(ctx_specific_validation)(&header)?;` => `ctx_specific_validation.call(&header)?;`
//@   loop 1:
//@+    invariant
//@+        ext.chain@ == old(ext).chain@, ext.rewound_to@ == old(ext).rewound_to@, ext.applied@ == old(ext).applied@, ext.roots_ok@ == old(ext).roots_ok@,
//@+        current == anc(*header, fork_hashes@.len() as nat),
//@+        forall|k: nat| k < fork_hashes@.len() ==> (#[trigger] anc(*header, k)).height > 0 && !sp_on_current(ext.chain@, anc(*header, k)),
//@+        forall|k: int| 0 <= k < fork_hashes@.len() ==> fork_hashes@[k] == (#[trigger] anc(*header, k as nat)).id,
//@   after `current = batch.get_previous_header(&current)?;`:
//@+    proof { assert(anc(*header, fork_hashes@.len() as nat) == sp_prev(anc(*header, (fork_hashes@.len() - 1) as nat))); }
//@   before `vec_reverse(&mut fork_hashes);`:
//@+    let ghost n = fork_hashes@.len() as nat;
//@+    let ghost walked = fork_hashes@;
//@+    proof { assert(fork_depth(old(ext).chain@, *header, n)); }
//@   loop 2:
//@+    invariant
//@+        ext.rewound_to@ == Some(forked_header), forked_header == anc(*header, n),
//@+        fork_hashes@ == walked.reverse(), walked.len() == n,
//@+        forall|k: int| 0 <= k < n ==> walked[k] == (#[trigger] anc(*header, k as nat)).id,
//@+        ext.applied@.len() == it.index@, ext.roots_ok@ =~= ext.applied@, ext.chain@ =~= sp_rewound(old(ext).chain@, forked_header) + ext.applied@,
//@+        forall|j: int| 0 <= j < it.index@ ==> (#[trigger] ext.applied@[j]) == sp_stored(anc(*header, (n - 1 - j) as nat).id) && sp_allowed(*ctx_specific_validation, ext.applied@[j]),
//@   ensures:
//@+    *final(batch) == *old(batch),
//@+    r.is_ok() ==> exists|n: nat| fork_depth(old(ext).chain@, *header, n)
//@+        && final(ext).rewound_to@ == Some(anc(*header, n))
//@+        && final(ext).applied@.len() == n && final(ext).roots_ok@ == final(ext).applied@
//@+        && final(ext).chain@ == sp_rewound(old(ext).chain@, anc(*header, n)) + final(ext).applied@
//@+        && forall|j: int| 0 <= j < n ==> (#[trigger] final(ext).applied@[j]) == sp_stored(anc(*header, (n - 1 - j) as nat).id) && sp_allowed(*ctx_specific_validation, final(ext).applied@[j]),
//@ end
//@ canary rewind_and_apply_header_fork: r.is_err()
