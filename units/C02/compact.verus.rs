//@ assume: Batch::head_header returns the stored head header (sp_head); the two PMMR backends are abstract: check_compact(cutoff, rm) is recorded in a ghost log (what it does with the two arguments is C08/prune_list + C02/leaf_set + store code outside)
//@ assume: T5: `self.output_pmmr_h.backend` / `self.rproof_pmmr_h.backend` keep their field paths over abstract handle types; T3: debug! lines removed
//@ assume: decided here (C02 / C08, compaction must keep what a rewind inside the horizon needs): TxHashSet::compact hands to BOTH backends' check_compact the cutoff = horizon_header.output_mmr_size and, as the protected set, EXACTLY the union of the input bitmaps of the blocks from the current head back to (not including) the horizon header -- computed by the real input_pos_to_rewind (C02/input_pos_to_rewind, included and re-verified) with its arguments in the right order -- and does nothing else to them; it fails if reading the head or computing that set fails
//@ assumed_items: 2
//@ fns: TxHashSet::compact
//@ include: ../C02/input_pos_to_rewind.verus.rs

pub uninterp spec fn sp_head(b: Batch) -> BlockHeader;
impl Batch {
    #[verifier::external_body]
    pub fn head_header(&self) -> (r: Result<BlockHeader, Error>) ensures r matches Ok(h) ==> h == sp_head(*self) { unimplemented!() }
}
pub struct Backend { pub log: Ghost<Seq<(u64, Set<int>)>> }
impl Backend {
    #[verifier::external_body]
    pub fn check_compact(&mut self, cutoff_pos: u64, rewind_rm_pos: &Bitmap) -> (r: Result<bool, Error>)
        ensures final(self).log@ == old(self).log@.push((cutoff_pos, rewind_rm_pos@)) { unimplemented!() }
}
pub struct Handle { pub backend: Backend }
pub struct TxHashSet { pub output_pmmr_h: Handle, pub rproof_pmmr_h: Handle }
/// number of blocks between the horizon header and the head
pub open spec fn span(head: BlockHeader, horizon: BlockHeader) -> nat { (if head.height > horizon.height { head.height - horizon.height } else { 0 }) as nat }
impl TxHashSet {
//@ extract chain/src/txhashset/txhashset.rs :: impl TxHashSet::compact
//@   strip_logs
//@   sigrewrite `batch: &Batch<'_>,` => `batch: &Batch,`
//@   ensures:
//@+    r.is_ok() ==> ({
//@+        let protect = inputs_union(*batch, sp_head(*batch), span(sp_head(*batch), *horizon_header));
//@+        final(self).output_pmmr_h.backend.log@ == old(self).output_pmmr_h.backend.log@.push((horizon_header.output_mmr_size, protect))
//@+        && final(self).rproof_pmmr_h.backend.log@ == old(self).rproof_pmmr_h.backend.log@.push((horizon_header.output_mmr_size, protect)) }),
//@   before `\t\tOk(())`:
//@+    proof { assert(rewind_rm_pos@ =~= inputs_union(*batch, sp_head(*batch), span(sp_head(*batch), *horizon_header))); }
//@ end
}
//@ canary compact: r.is_err()
