//@ assume: Batch (LMDB output-position index) and the output MMR are abstract: get_output_pos_height / get_output_pos / get_data return uninterpreted functions of their arguments; Commitment equality is an uninterpreted equivalence helper
//@ assume: index invariant used as precondition: every indexed position is >= 1 (`pos1.pos - 1`); nothing in validate_input checks it
//@ assume: T6 rewrites: `==` on Commitment replaced by commit_eq, error payload strings dropped, log macros removed (T3)
//@ assume: decided here: the single-input and single-output admission decisions against one state (index + MMR); validate_inputs (iterator collect), per-fork application, rewind and restart are outside (DESIGN 6 C02)
//@ assumed_items: 11
//@ fns: UTXOView::validate_input, UTXOView::validate_output

#[verifier::external_body]
#[derive(Clone, Copy)]
pub struct Commitment { _p: u8 }
#[verifier::external_body]
#[derive(Clone, Copy)]
pub struct OutputIdentifier { _p: u8 }
#[verifier::external_body]
pub struct Output { _p: u8 }
#[derive(Clone, Copy)]
pub struct CommitPos { pub pos: u64, pub height: u64 }
#[verifier::external_body]
pub struct Batch { _p: u8 }
#[verifier::external_body]
pub struct OutputPMMR { _p: u8 }
pub enum Error { AlreadySpent(Commitment), DuplicateCommitment(Commitment), Other, Store }
pub struct UTXOView { pub output_pmmr: OutputPMMR }

pub uninterp spec fn sp_index(b: Batch, c: Commitment) -> Option<CommitPos>;   // output_pos index
pub uninterp spec fn sp_data(m: OutputPMMR, pos0: u64) -> Option<OutputIdentifier>; // unspent leaf data at pos0
pub uninterp spec fn sp_commit_of(o: OutputIdentifier) -> Commitment;
pub uninterp spec fn sp_out_commit(o: Output) -> Commitment;

fn commit_eq(a: &Commitment, b: &Commitment) -> (r: bool)
    ensures r == (*a == *b)
{ commit_eq_ext(a, b) }
#[verifier::external_body]
fn commit_eq_ext(a: &Commitment, b: &Commitment) -> (r: bool) ensures r == (*a == *b) { unimplemented!() }

impl OutputIdentifier {
    #[verifier::external_body]
    pub fn commitment(&self) -> (r: Commitment) ensures r == sp_commit_of(*self) { unimplemented!() }
}
impl Output {
    #[verifier::external_body]
    pub fn commitment(&self) -> (r: Commitment) ensures r == sp_out_commit(*self) { unimplemented!() }
}
impl Batch {
    #[verifier::external_body]
    pub fn get_output_pos_height(&self, c: &Commitment) -> (r: Result<Option<CommitPos>, Error>)
        ensures r matches Ok(p) ==> p == sp_index(*self, *c) { unimplemented!() }
    #[verifier::external_body]
    pub fn get_output_pos(&self, c: &Commitment) -> (r: Result<u64, Error>)
        ensures r matches Ok(p0) ==> sp_index(*self, *c) == Some(CommitPos { pos: (p0 + 1) as u64, height: sp_index(*self, *c).unwrap().height }) && p0 < u64::MAX,
                sp_index(*self, *c).is_none() ==> r.is_err(),
                sp_index(*self, *c).is_some() ==> r.is_ok() { unimplemented!() }
}
impl OutputPMMR {
    #[verifier::external_body]
    pub fn get_data(&self, pos0: u64) -> (r: Option<OutputIdentifier>) ensures r == sp_data(*self, pos0) { unimplemented!() }
}

/// the commitment is indexed and the MMR still holds an unspent output with that commitment
pub open spec fn dup_unspent(b: Batch, m: OutputPMMR, c: Commitment) -> bool {
    match sp_index(b, c) {
        Some(cp) => cp.pos >= 1 && (match sp_data(m, (cp.pos - 1) as u64) { Some(o) => sp_commit_of(o) == c, None => false }),
        None => false,
    }
}

impl UTXOView {
//@ extract chain/src/txhashset/utxo_view.rs :: impl UTXOView::validate_input
//@   strip_logs
//@   sigrewrite `batch: &Batch<'_>` => `batch: &Batch`
//@   rewrite `out.commitment() == input` => `commit_eq(&out.commitment(), &input)`
//@   rewrite `Error::Other(\n\t\t\t\t\t\t"input mismatch (output_pos index mismatch?)".into(),\n\t\t\t\t\t)` => `Error::Other`
//@   requires:
//@+    sp_index(*batch, input) matches Some(p) ==> p.pos >= 1,
//@   ensures:
//@+    r matches Ok((out, pos)) ==> sp_index(*batch, input) == Some(pos)
//@+        && sp_data(self.output_pmmr, (pos.pos - 1) as u64) == Some(out)
//@+        && sp_commit_of(out) == input,
//@+    (sp_index(*batch, input).is_none()) ==> r.is_err(),
//@+    (sp_index(*batch, input) matches Some(p) && sp_data(self.output_pmmr, (p.pos - 1) as u64).is_none()) ==> r.is_err(),
//@ end

//@ extract chain/src/txhashset/utxo_view.rs :: impl UTXOView::validate_output
//@   sigrewrite `batch: &Batch<'_>` => `batch: &Batch`
//@   rewrite `out_mmr.commitment() == output.commitment()` => `commit_eq(&out_mmr.commitment(), &output.commitment())`
//@   ensures:
//@+    dup_unspent(*batch, self.output_pmmr, sp_out_commit(*output)) ==> r.is_err(),
//@+    sp_index(*batch, sp_out_commit(*output)).is_none() ==> r.is_ok(),
//@ end
}
//@ canary validate_input: r.is_err()
