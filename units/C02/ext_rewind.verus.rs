//@ assume: Extension / Batch are abstract; stored headers and blocks are looked up by hash; rewind_single_block, rewind_mmrs_to_pos, apply_to_bitmap_accumulator are abstract callees with ghost logs (rewind_single_block is under contract in C02/rewind_single_block)
//@ assume: T6 rewrites: `vec![]` => Vec::new(); `affected_pos.append(&mut affected_pos_single_block)` => helper with the concatenation contract; `&[]` / `&[x]` slice literals => helper slices; `batch: &mut Batch` kept; log macros removed
//@ assume: termination of the walk is NOT proved (depends on stored heights decreasing along prev links): exec_allows_no_decreases_clause
//@ assume: decided here: Extension::rewind(header) undoes EXACTLY the blocks on the current extension's chain strictly above `header`'s height, newest first, each through rewind_single_block (which unspends that block's inputs and removes its outputs), rebuilds the bitmap accumulator from a position list that contains every position any of those blocks affected, then sets the extension head to `header`; when the extension is already at or below that height it only truncates the MMRs to the header's sizes
//@ assumed_items: 11
//@ fns: Extension::rewind
#[verifier::external_body]
#[derive(Clone, Copy)]
pub struct Hash { _p: u8 }
#[derive(Clone, Copy)]
pub struct BlockHeader { pub height: u64, pub id: Hash, pub output_mmr_size: u64, pub kernel_mmr_size: u64 }
impl BlockHeader {
    pub fn hash(&self) -> (r: Hash) ensures r == self.id { self.id }
}
#[derive(Clone, Copy)]
pub struct Tip { pub height: u64, pub id: Hash }
impl Tip {
    pub fn hash(&self) -> (r: Hash) ensures r == self.id { self.id }
    pub fn from_header(h: &BlockHeader) -> (r: Tip) ensures r == (Tip { height: h.height, id: h.id }) { Tip { height: h.height, id: h.id } }
}
pub struct Block { pub header: BlockHeader, pub body_id: u64 }
pub enum Error { Rejected, StoreErr }
pub uninterp spec fn sp_prev(h: BlockHeader) -> BlockHeader;
pub uninterp spec fn sp_stored(id: Hash) -> BlockHeader;
pub uninterp spec fn sp_stored_block(id: Hash) -> Block;
#[verifier::external_body]
pub struct Batch { _p: u8 }
impl Batch {
    #[verifier::external_body]
    pub fn get_previous_header(&self, h: &BlockHeader) -> (r: Result<BlockHeader, Error>) ensures r matches Ok(p) ==> p == sp_prev(*h) { unimplemented!() }
    #[verifier::external_body]
    pub fn get_block_header(&self, id: &Hash) -> (r: Result<BlockHeader, Error>) ensures r matches Ok(h) ==> h == sp_stored(*id) { unimplemented!() }
    #[verifier::external_body]
    pub fn get_block(&self, id: &Hash) -> (r: Result<Block, Error>) ensures r matches Ok(b) ==> b == sp_stored_block(*id) { unimplemented!() }
}
pub uninterp spec fn sp_affected(b: Block) -> Seq<u64>;
pub struct Extension { pub head: Tip, pub undone: Ghost<Seq<Block>>, pub truncated_to: Ghost<Option<(u64, u64)>>, pub acc_log: Ghost<Seq<Seq<u64>>> }
impl Extension {
    #[verifier::external_body]
    fn rewind_single_block(&mut self, block: &Block, batch: &mut Batch) -> (r: Result<Vec<u64>, Error>)
        ensures r.is_ok() ==> final(self).undone@ == old(self).undone@.push(*block), final(self).head == old(self).head, final(self).truncated_to@ == old(self).truncated_to@, final(self).acc_log@ == old(self).acc_log@,
            r matches Ok(v) ==> v@ == sp_affected(*block) { unimplemented!() }
    #[verifier::external_body]
    fn rewind_mmrs_to_pos(&mut self, output_pos: u64, kernel_pos: u64, spent_pos: &[u64]) -> (r: Result<(), Error>)
        ensures r.is_ok() ==> final(self).truncated_to@ == Some((output_pos, kernel_pos)), final(self).head == old(self).head, final(self).undone@ == old(self).undone@, final(self).acc_log@ == old(self).acc_log@ { unimplemented!() }
    #[verifier::external_body]
    fn apply_to_bitmap_accumulator(&mut self, output_pos: &[u64]) -> (r: Result<(), Error>)
        ensures final(self).head == old(self).head, final(self).undone@ == old(self).undone@, final(self).truncated_to@ == old(self).truncated_to@, final(self).acc_log@ == old(self).acc_log@.push(output_pos@) { unimplemented!() }
}
#[verifier::external_body]
fn vec_append(a: &mut Vec<u64>, b: &mut Vec<u64>) ensures final(a)@ == old(a)@ + old(b)@ { unimplemented!() }
#[verifier::external_body]
fn empty_slice() -> (r: &'static [u64]) ensures r@.len() == 0 { unimplemented!() }
#[verifier::external_body]
fn slice_of_one(x: u64) -> (r: Vec<u64>) ensures r@ == seq![x] { unimplemented!() }

pub open spec fn anc(h: BlockHeader, k: nat) -> BlockHeader decreases k { if k == 0 { h } else { sp_prev(anc(h, (k - 1) as nat)) } }

impl Extension {
//@ extract chain/src/txhashset/txhashset.rs :: impl Extension::rewind
//@   attr: #[verifier::exec_allows_no_decreases_clause]
//@   strip_logs
//@   rewrite `self.rewind_mmrs_to_pos(header.output_mmr_size, header.kernel_mmr_size, &[])?;` => `self.rewind_mmrs_to_pos(header.output_mmr_size, header.kernel_mmr_size, empty_slice())?;`
//@   rewrite `self.apply_to_bitmap_accumulator(&[header.output_mmr_size])?;` => `self.apply_to_bitmap_accumulator(slice_of_one(header.output_mmr_size).as_slice())?;`
//@   rewrite `let mut affected_pos = vec![];` => `let mut affected_pos: Vec<u64> = Vec::new();`
//@   rewrite `affected_pos.append(&mut affected_pos_single_block);` => `vec_append(&mut affected_pos, &mut affected_pos_single_block);`
//@   rewrite `self.apply_to_bitmap_accumulator(&affected_pos)?;` => `self.apply_to_bitmap_accumulator(affected_pos.as_slice())?;`
//@   before `let mut current = head_header;`:
//@+    let ghost mut m: nat = 0;
//@   after `let block = batch.get_block(&current.hash())?;`:
//@+    let ghost aff0 = affected_pos@;
//@   before `current = batch.get_previous_header(&current)?;`:
//@+    proof { let sb = sp_affected(block);
//@+        assert forall|x: u64| aff0.contains(x) implies affected_pos@.contains(x) by { let q = choose|q: int| 0 <= q < aff0.len() && aff0[q] == x; assert(affected_pos@[q] == x); }
//@+        assert forall|j: int| 0 <= j < sb.len() implies affected_pos@.contains(#[trigger] sb[j]) by { assert(affected_pos@[aff0.len() + j] == sb[j]); }
//@+        m = m + 1; assert(anc(head_header, m) == sp_prev(anc(head_header, (m - 1) as nat))); }
//@   before `self.apply_to_bitmap_accumulator(affected_pos.as_slice())?;`:
//@+    proof { let n0 = old(self).undone@.len();
//@+        assert forall|k: int, j: int| n0 <= k < self.undone@.len() && 0 <= j < sp_affected(self.undone@[k]).len() implies affected_pos@.contains(#[trigger] sp_affected(self.undone@[k])[j]) by {
//@+            let kk = (k - n0) as nat; assert(anc(head_header, kk).height > header.height); assert(self.undone@[(n0 + kk) as int] == sp_stored_block(anc(head_header, kk).id)); } }
//@   loop 1:
//@+    invariant
//@+        head_header == sp_stored(old(self).head.id), self.head == old(self).head, self.truncated_to@ == old(self).truncated_to@,
//@+        current == anc(head_header, m), self.acc_log@ == old(self).acc_log@,
//@+        forall|k: nat, j: int| k < m && 0 <= j < sp_affected(sp_stored_block(anc(head_header, k).id)).len() ==> affected_pos@.contains(#[trigger] sp_affected(sp_stored_block(anc(head_header, k).id))[j]),
//@+        self.undone@.len() == old(self).undone@.len() + m,
//@+        self.undone@.take(old(self).undone@.len() as int) =~= old(self).undone@,
//@+        forall|k: nat| k < m ==> (#[trigger] anc(head_header, k)).height > header.height
//@+            && self.undone@[(old(self).undone@.len() + k) as int] == sp_stored_block(anc(head_header, k).id),
//@   ensures:
//@+    r.is_ok() ==> final(self).head == (Tip { height: header.height, id: header.id }),
//@+    r.is_ok() && sp_stored(old(self).head.id).height <= header.height ==> final(self).undone@ == old(self).undone@
//@+        && final(self).truncated_to@ == Some((header.output_mmr_size, header.kernel_mmr_size)),
//@+    r.is_ok() && sp_stored(old(self).head.id).height > header.height ==> exists|m: nat|
//@+        anc(sp_stored(old(self).head.id), m).height <= header.height
//@+        && final(self).undone@.len() == old(self).undone@.len() + m
//@+        && final(self).undone@.take(old(self).undone@.len() as int) =~= old(self).undone@
//@+        && forall|k: nat| k < m ==> (#[trigger] anc(sp_stored(old(self).head.id), k)).height > header.height
//@+            && final(self).undone@[(old(self).undone@.len() + k) as int] == sp_stored_block(anc(sp_stored(old(self).head.id), k).id),
//@+    // C09 / C15: when there is nothing to undo the MMR files are still TRUNCATED at the header (files ahead of the db head after an
//@+    // interrupted run), and the accumulator chunk holding the truncation point is rebuilt from the truncated leaf set with them
//@+    r.is_ok() && sp_stored(old(self).head.id).height <= header.height ==> final(self).acc_log@ == old(self).acc_log@.push(seq![header.output_mmr_size]),
//@+    // the bitmap accumulator is rebuilt from a list that contains EVERY position affected by EVERY block undone
//@+    r.is_ok() && sp_stored(old(self).head.id).height > header.height ==> final(self).acc_log@.len() == old(self).acc_log@.len() + 1
//@+        && forall|k: int, j: int| old(self).undone@.len() <= k < final(self).undone@.len() && 0 <= j < sp_affected(final(self).undone@[k]).len()
//@+            ==> final(self).acc_log@.last().contains(#[trigger] sp_affected(final(self).undone@[k])[j]),
//@ end
}
//@ canary rewind: r.is_err()
