//@ assume: the LMDB read Batch::get_spent_index (abstract: returns the stored per-block list sp_spent_index(hash) or an error), and croaring Bitmap (view: a set of u32; FromIterator) are outside the extracted text
//@ assume: T5: the std iterator adaptors `Vec::into_iter().map(f).collect::<Bitmap>()` are stood in for by the abstract SpentVec / SpentIter / MappedIter types whose contracts say exactly `collect` = the set of f(x) over the elements; the closure `f` itself is the REAL closure text, verified as a lifted function (T7)
//@ assume: assumed precondition (store invariant): every position in a stored spent index fits in 32 bits (otherwise the real `try_into().unwrap()` panics)
//@ assume: decided here (C02, compaction / rewind protection): Batch::get_block_input_bitmap(bh) is EXACTLY the set of MMR positions recorded in block bh's spent index (no shift, none dropped, none added); C02/input_pos_to_rewind (which treats this function as abstract) then shows the compaction-protection set is the union of these bitmaps over the rewound blocks
//@ assumed_items: 5
//@ fns: Batch::get_block_input_bitmap, closure in Batch::get_block_input_bitmap
#[derive(Clone, Copy, PartialEq, Eq)]
pub struct Hash { pub h: u64 }
pub enum Error { NotFound, Other }
/// croaring::Bitmap: a set of u32
#[verifier::external_body]
pub struct Bitmap { _p: u8 }
impl Bitmap {
    pub uninterp spec fn view(&self) -> Set<u32>;
}
/// stand-in for Vec<CommitPos> as returned by the db read
pub struct SpentVec { pub v: Vec<CommitPos> }
pub struct SpentIter { pub items: Ghost<Seq<CommitPos>> }
pub struct MappedIter { pub items: Ghost<Seq<u32>> }
/// the closure value passed to `map` (its body is verified below as the lifted function `pos_of`)
pub struct PosOf {}
pub open spec fn sp_pos_of(x: CommitPos) -> u32 { x.pos as u32 }
pub open spec fn fits(s: Seq<CommitPos>) -> bool { forall|i: int| 0 <= i < s.len() ==> (#[trigger] s[i]).pos <= 0xffff_ffff }
pub open spec fn in_pos_set(s: Seq<CommitPos>, p: u32) -> bool { exists|i: int| 0 <= i < s.len() && (#[trigger] s[i]).pos == p as u64 }
impl SpentVec {
    #[verifier::external_body]
    pub fn into_iter(self) -> (r: SpentIter) ensures r.items@ == self.v@ { unimplemented!() }
}
impl SpentIter {
    /// Iterator::map with the lifted closure: element i of the result is what `pos_of` returns for element i
    #[verifier::external_body]
    pub fn map(self, f: PosOf) -> (r: MappedIter)
        requires forall|i: int| 0 <= i < self.items@.len() ==> pos_of_pre(#[trigger] self.items@[i]),
        ensures r.items@.len() == self.items@.len(), forall|i: int| #![trigger self.items@[i]] #![trigger r.items@[i]] 0 <= i < self.items@.len() ==> pos_of_post(self.items@[i], r.items@[i]) { unimplemented!() }
}
impl MappedIter {
    /// FromIterator<u32> for Bitmap
    #[verifier::external_body]
    pub fn collect(self) -> (r: Bitmap) ensures forall|p: u32| r@.contains(p) <==> (exists|i: int| 0 <= i < self.items@.len() && #[trigger] self.items@[i] == p) { unimplemented!() }
}
pub open spec fn pos_of_pre(x: CommitPos) -> bool { x.pos <= 0xffff_ffff }
pub open spec fn pos_of_post(x: CommitPos, r: u32) -> bool { r as u64 == x.pos }
pub uninterp spec fn sp_spent_index(h: Hash) -> Option<Seq<CommitPos>>;
pub struct Batch { pub _p: u8 }
impl Batch {
    #[verifier::external_body]
    pub fn get_spent_index(&self, bh: &Hash) -> (r: Result<SpentVec, Error>)
        ensures r matches Ok(v) ==> sp_spent_index(*bh) == Some(v.v@) && fits(v.v@), r.is_err() ==> sp_spent_index(*bh).is_none() { unimplemented!() }
//@ extract chain/src/store.rs :: impl Batch::get_block_input_bitmap
//@   eclosure 1 replaced_by `PosOf {}`
//@   rewrite `let bitmap = self` => `let bitmap: Bitmap = self`
//@   ensures:
//@+    r matches Ok(bm) ==> sp_spent_index(*bh).is_some() && (forall|p: u32| bm@.contains(p) <==> in_pos_set(sp_spent_index(*bh).unwrap(), p)),
//@+    r.is_err() ==> sp_spent_index(*bh).is_none(),
//@ end
}
//@ extract chain/src/store.rs :: impl Batch::get_block_input_bitmap
//@   eclosure 1 lifted_as `fn pos_of(x: CommitPos) -> u32`
//@   requires:
//@+    pos_of_pre(x),
//@   ensures:
//@+    pos_of_post(x, r),
//@ end
//@ extract chain/src/types.rs :: struct CommitPos
//@   strip_attrs
//@ end
//@ canary get_block_input_bitmap: r.is_err()
