//@ assume: BlockHeader, BlockContext, Batch, DateTime, Difficulty are abstracted: the header is a record of the fields the rules read, every helper the function calls (denylist hook, previous-header lookup, version schedule, MMR leaf counts, weight, PoW verifier, achieved difficulty, difficulty iterator + retarget) is an external_body function whose result is an UNINTERPRETED spec function of its arguments -- so the contract says which checks validate_header makes and against what, not that the helpers are right (they are covered by other units where possible: header_version, next_difficulty/wtema, weight_by_iok, n_leaves); DifficultyIter::from_batch(start, ..) walks back from the stored header whose hash is `start` and hashes identify headers (ax_hash_identifies)
//@ assume: T6 rewrites on the extracted text (exactly the list in the extract block): path prefixes dropped (consensus::, store::, global::, TransactionBody::), comparison operators on non-primitive types replaced by named helpers with the same meaning (DateTime <=, Difficulty <=, <, -, !=, HeaderVersion <), Options::SKIP_POW test via a helper, log macros removed (T3)
//@ assume: a stored parent header has height < u64::MAX (`prev.height + 1`)
//@ assume: decided here: validate_header returns Ok only if every listed rule holds (height+1, scheduled version, strictly later timestamp, MMR counts grew, weight lower bound, and unless SKIP_POW: PoW verifies, cumulative difficulty strictly above the parent's, achieved difficulty >= the increase, increase == network retarget, matching secondary scaling before version 5); the future-time limit (UntrustedBlockHeader::read) and the header-MMR root (HeaderExtension) are separate code not covered by this unit
//@ assumed_items: 26
//@ fns: pipe::validate_header

pub struct HeaderVersion(pub u16);
#[verifier::external_body]
pub struct DateTimeUtc { _p: u8 }
#[derive(PartialEq, Eq, Structural, Clone, Copy)]
pub struct Difficulty { pub num: u64 }
pub struct ProofOfWorkView { pub secondary_scaling: u32, pub edge_bits: u8 }
pub uninterp spec fn sp_is_secondary(p: ProofOfWorkView) -> bool;
pub uninterp spec fn sp_is_primary(p: ProofOfWorkView) -> bool;
impl ProofOfWorkView {
    #[verifier::external_body]
    pub fn is_secondary(&self) -> (r: bool) ensures r == sp_is_secondary(*self) { unimplemented!() }
    #[verifier::external_body]
    pub fn is_primary(&self) -> (r: bool) ensures r == sp_is_primary(*self) { unimplemented!() }
    pub fn edge_bits(&self) -> (r: u8) ensures r == self.edge_bits { self.edge_bits }
}
#[verifier::external_body]
pub struct HashV { _p: u8 }

pub struct BlockHeader {
    pub version: HeaderVersion,
    pub height: u64,
    pub timestamp: DateTimeUtc,
    pub pow: ProofOfWorkView,
    pub id: Ghost<int>,
}
pub struct HeaderDifficultyInfo { pub difficulty: Difficulty, pub secondary_scaling: u32 }
#[verifier::external_body]
pub struct Batch { _p: u8 }
#[verifier::external_body]
pub struct Options { _p: u8 }
#[verifier::external_body]
pub struct DifficultyIter { _p: u8 }
pub struct BlockContext { pub opts: Options, pub batch: Batch }

pub mod block { pub enum Error { TooHeavy } }
pub enum Error {
    InvalidBlockHeight, InvalidBlockVersion(HeaderVersion), InvalidBlockTime, InvalidMMRSize,
    Block(block::Error), DifficultyTooLow, WrongTotalDifficulty, InvalidScaling, LowEdgebits, InvalidPow, Other,
}

// ---- uninterpreted meanings of the helpers --------------------------------------------------
pub uninterp spec fn sp_allowed(h: BlockHeader) -> bool;          // denylist hook accepts
pub uninterp spec fn sp_prev(h: BlockHeader) -> Option<BlockHeader>; // stored parent, if any
pub uninterp spec fn sp_version_ok(height: u64, v: u16) -> bool;  // consensus::valid_header_version
pub uninterp spec fn sp_ts_le(a: DateTimeUtc, b: DateTimeUtc) -> bool;
pub uninterp spec fn sp_out_count(h: BlockHeader) -> u64;
pub uninterp spec fn sp_kern_count(h: BlockHeader) -> u64;
pub uninterp spec fn sp_weight(i: u64, o: u64, k: u64) -> u64;
pub uninterp spec fn sp_max_block_weight() -> u64;
pub uninterp spec fn sp_skip_pow(o: Options) -> bool;
pub uninterp spec fn sp_pow_ok(h: BlockHeader) -> bool;           // validate_pow_only accepts
pub uninterp spec fn sp_total(h: BlockHeader) -> u64;             // cumulative difficulty
pub uninterp spec fn sp_achieved(h: BlockHeader) -> u64;          // pow.to_difficulty(height)
pub uninterp spec fn sp_next(height: u64, prev: BlockHeader) -> HeaderDifficultyInfo; // retarget over prev's ancestors

#[verifier::external_body]
fn validate_header_ctx(header: &BlockHeader, ctx: &mut BlockContext) -> (r: Result<(), Error>)
    ensures r.is_ok() ==> sp_allowed(*header), final(ctx).opts == old(ctx).opts
{ unimplemented!() }
#[verifier::external_body]
fn prev_header_store(header: &BlockHeader, batch: &mut Batch) -> (r: Result<BlockHeader, Error>)
    ensures r matches Ok(p) ==> sp_prev(*header) == Some(p)
{ unimplemented!() }
#[verifier::external_body]
fn valid_header_version(height: u64, version: &HeaderVersion) -> (r: bool)
    ensures r == sp_version_ok(height, version.0)
{ unimplemented!() }
#[verifier::external_body]
fn ts_le(a: &DateTimeUtc, b: &DateTimeUtc) -> (r: bool)
    ensures r == sp_ts_le(*a, *b)
{ unimplemented!() }
#[verifier::external_body]
fn weight_by_iok(i: u64, o: u64, k: u64) -> (r: u64)
    ensures r == sp_weight(i, o, k)
{ unimplemented!() }
#[verifier::external_body]
fn max_block_weight() -> (r: u64)
    ensures r == sp_max_block_weight()
{ unimplemented!() }
#[verifier::external_body]
fn skip_pow(o: &Options) -> (r: bool)
    ensures r == sp_skip_pow(*o)
{ unimplemented!() }
#[verifier::external_body]
fn validate_pow_only(header: &BlockHeader, ctx: &mut BlockContext) -> (r: Result<(), Error>)
    ensures r.is_ok() ==> sp_pow_ok(*header), final(ctx).opts == old(ctx).opts
{ unimplemented!() }
/// the hash value that identifies a stored header (hashes identify headers)
pub uninterp spec fn sp_hash_of(h: BlockHeader) -> HashV;
pub uninterp spec fn sp_header_at(h: HashV) -> BlockHeader;
#[verifier::external_body]
pub proof fn ax_hash_identifies(h: BlockHeader) ensures sp_header_at(sp_hash_of(h)) == h { }
impl BlockHeader {
    #[verifier::external_body]
    pub fn hash(&self) -> (r: HashV) ensures r == sp_hash_of(*self) { unimplemented!() }
}
/// DifficultyIter::from_batch(start, batch): walks back from the header whose hash is `start`
#[verifier::external_body]
fn difficulty_iter_from_batch(start: HashV, b: Batch) -> (r: DifficultyIter)
    ensures sp_iter_of(r) == sp_header_at(start)
{ unimplemented!() }
pub uninterp spec fn sp_iter_of(i: DifficultyIter) -> BlockHeader;
#[verifier::external_body]
fn next_difficulty(height: u64, cursor: DifficultyIter) -> (r: HeaderDifficultyInfo)
    ensures r == sp_next(height, sp_iter_of(cursor))
{ unimplemented!() }
fn diff_le(a: Difficulty, b: Difficulty) -> (r: bool) ensures r == (a.num <= b.num) { a.num <= b.num }
fn diff_lt(a: Difficulty, b: Difficulty) -> (r: bool) ensures r == (a.num < b.num) { a.num < b.num }
fn diff_ne(a: Difficulty, b: Difficulty) -> (r: bool) ensures r == (a.num != b.num) { a.num != b.num }
fn diff_sub(a: Difficulty, b: Difficulty) -> (r: Difficulty)
    requires a.num >= b.num
    ensures r.num == a.num - b.num
{ Difficulty { num: a.num - b.num } }

pub struct Tip { pub height: u64, pub last_block_h: HashV, pub prev_block_h: HashV }
impl Batch {
    #[verifier::external_body]
    pub fn child(&mut self) -> (r: Result<Batch, Error>)
    { unimplemented!() }
    /// offered so that a variant reading the chain heads is decided: ANY tip
    #[verifier::external_body]
    pub fn header_head(&self) -> (r: Result<Tip, Error>) { unimplemented!() }
    #[verifier::external_body]
    pub fn head(&self) -> (r: Result<Tip, Error>) { unimplemented!() }
}
impl BlockHeader {
    #[verifier::external_body]
    pub fn output_mmr_count(&self) -> (r: u64) ensures r == sp_out_count(*self) { unimplemented!() }
    #[verifier::external_body]
    pub fn kernel_mmr_count(&self) -> (r: u64) ensures r == sp_kern_count(*self) { unimplemented!() }
    #[verifier::external_body]
    pub fn total_difficulty(&self) -> (r: Difficulty) ensures r.num == sp_total(*self) { unimplemented!() }
    #[verifier::external_body]
    pub fn achieved_difficulty(&self, height: u64) -> (r: Difficulty) ensures r.num == sp_achieved(*self) { unimplemented!() }
}

/// The header rules of the property statement, as one predicate over the abstract helpers.
pub open spec fn header_rules(h: BlockHeader, skip: bool) -> bool {
    &&& sp_allowed(h)
    &&& sp_prev(h).is_some()
    &&& { let p = sp_prev(h).unwrap();
        &&& h.height == p.height + 1
        &&& sp_version_ok(h.height, h.version.0)
        &&& !sp_ts_le(h.timestamp, p.timestamp)
        &&& sp_out_count(h) > sp_out_count(p) && sp_kern_count(h) > sp_kern_count(p)
        &&& sp_weight(0, (sp_out_count(h) - sp_out_count(p)) as u64, (sp_kern_count(h) - sp_kern_count(p)) as u64) <= sp_max_block_weight()
        &&& (!skip ==> {
              &&& sp_pow_ok(h)
              &&& sp_total(h) > sp_total(p)
              &&& sp_achieved(h) >= sp_total(h) - sp_total(p)
              &&& sp_total(h) - sp_total(p) == sp_next(h.height, p).difficulty.num
              &&& (h.version.0 < 5 ==> h.pow.secondary_scaling == sp_next(h.height, p).secondary_scaling)
           })
    }
}

//@ extract chain/src/pipe.rs :: fn validate_header
//@   strip_logs
//@   sigrewrite `ctx: &mut BlockContext<'_>` => `ctx: &mut BlockContext`
//@   rewrite `consensus::valid_header_version(header.height, header.version)` => `valid_header_version(header.height, &header.version)`
//@   rewrite `header.timestamp <= prev.timestamp` => `ts_le(&header.timestamp, &prev.timestamp)`
//@   rewrite `TransactionBody::weight_by_iok(` => `weight_by_iok(`
//@   rewrite `global::max_block_weight()` => `max_block_weight()`
//@   rewrite `ctx.opts.contains(Options::SKIP_POW)` => `skip_pow(&ctx.opts)`
//@   rewrite `header.total_difficulty() <= prev.total_difficulty()` => `diff_le(header.total_difficulty(), prev.total_difficulty())`
//@   rewrite `header.total_difficulty() - prev.total_difficulty()` => `diff_sub(header.total_difficulty(), prev.total_difficulty())`
//@   rewrite `header.pow.to_difficulty(header.height) < target_difficulty` => `diff_lt(header.achieved_difficulty(header.height), target_difficulty)`
//@   rewrite `store::DifficultyIter::from_batch(` => `difficulty_iter_from_batch(`
//@   after `let diff_iter = `:
//@+    proof { ax_hash_identifies(prev); }
//@   rewrite `consensus::next_difficulty(` => `next_difficulty(`
//@   rewrite `target_difficulty != next_header_info.difficulty` => `diff_ne(target_difficulty, next_header_info.difficulty)`
//@   rewrite `header.version < HeaderVersion(5)` => `header.version.0 < 5` x?
//@   rewrite `header.version >= HeaderVersion(5)` => `header.version.0 >= 5` x?
//@   rewrite `Err(Error::InvalidBlockVersion(header.version))` => `Err(Error::InvalidBlockVersion(HeaderVersion(header.version.0)))`
//@   requires:
//@+    sp_prev(*header) matches Some(p) ==> p.height < u64::MAX,
//@   ensures:
//@+    r.is_ok() ==> header_rules(*header, sp_skip_pow(old(ctx).opts)),
//@ end
//@ canary validate_header: r.is_err()
