//@ assume: the cursor (an iterator of difficulty records, newest first) is abstract: `cursor.into_iter().take(k).collect()` => take_newest(cursor, k), the first min(k, len) records of the cursor's sequence in order; `<[T]>::reverse` reverses (std); HeaderDifficultyInfo keeps timestamp / difficulty / secondary_scaling / is_secondary (the hash field is dropped); global::initial_graph_weight is abstract
//@ assume: preconditions (what every caller provides, NOT checked here): the cursor yields at least one record (DifficultyIter starts at a stored header) and the newest record's timestamp is not below its predecessor's (validated headers have strictly increasing timestamps; `-` on these u64 would wrap otherwise)
//@ assume: decided here (C04, 'the network difficulty computed from the preceding headers ... a total, deterministic function of the preceding window ... window shorter than required'): global::difficulty_data_to_vector returns EXACTLY DMA_WINDOW + 1 = 61 records, oldest first: the newest min(61, n) records of the cursor in reverse order, preceded -- when fewer than 61 exist -- by simulated records that all carry the difficulty of the NEWEST real record (consensus: this is the rule the first 60 blocks of the existing chains were accepted under; padding with any other value, e.g. the oldest record's difficulty, changes the retarget below height 60), the default secondary scaling, and timestamps stepping back from the OLDEST real record by the spacing of the two newest records (BLOCK_TIME_SEC when there is only one), saturating at 0
//@ assumed_items: 4
//@ fns: global::difficulty_data_to_vector, HeaderDifficultyInfo::from_ts_diff
#[derive(Clone, Copy, PartialEq, Eq)]
pub struct Difficulty { pub num: u64 }
#[derive(Clone, Copy)]
pub struct HeaderDifficultyInfo { pub timestamp: u64, pub difficulty: Difficulty, pub secondary_scaling: u32, pub is_secondary: bool }
pub const DMA_WINDOW: u64 = 60;
pub const BLOCK_TIME_SEC: u64 = 60;
pub uninterp spec fn sp_initial_graph_weight() -> u32;
pub mod global { use super::*;
    #[verifier::external_body]
    pub fn initial_graph_weight() -> (r: u32) ensures r == sp_initial_graph_weight() { unimplemented!() }
}
impl HeaderDifficultyInfo {
//@ extract core/src/consensus.rs :: impl HeaderDifficultyInfo::from_ts_diff
//@   rewrite `\t\t\thash: None,\n` => ``
//@   ensures:
//@+    r.timestamp == timestamp, r.difficulty == difficulty, r.secondary_scaling == sp_initial_graph_weight(), r.is_secondary,
//@ end
}
#[verifier::external_body]
pub struct Cursor { _p: u8 }
pub uninterp spec fn sp_records(c: Cursor) -> Seq<HeaderDifficultyInfo>;
#[verifier::external_body]
pub fn take_newest(c: Cursor, k: usize) -> (r: Vec<HeaderDifficultyInfo>)
    ensures r@ == sp_records(c).take(if k as int <= sp_records(c).len() { k as int } else { sp_records(c).len() as int }) { unimplemented!() }
pub assume_specification<T> [<[T]>::reverse] (s: &mut [T])
    ensures final(s)@ == old(s)@.reverse();
pub open spec fn sat_sub(a: u64, b: u64) -> u64 { if a >= b { (a - b) as u64 } else { 0 } }
/// the timestamp of the k-th simulated record (k = 1 is the one right before the oldest real record)
pub open spec fn sp_pad_ts(oldest: u64, delta: u64, k: nat) -> u64 decreases k { if k == 0 { oldest } else { sat_sub(sp_pad_ts(oldest, delta, (k - 1) as nat), delta) } }
pub open spec fn sp_delta(recs: Seq<HeaderDifficultyInfo>) -> u64 { if recs.len() > 1 { (recs[0].timestamp - recs[1].timestamp) as u64 } else { 60 } }
/// the consensus window of a cursor (newest first) -- oldest first, exactly 61 long
pub open spec fn sp_is_window(w: Seq<HeaderDifficultyInfo>, recs: Seq<HeaderDifficultyInfo>) -> bool {
    let n = if recs.len() >= 61 { 61int } else { recs.len() as int };
    &&& w.len() == 61
    &&& forall|i: int| 0 <= i < n ==> w[60 - i] == #[trigger] recs[i]
    &&& forall|k: int| 1 <= k <= 61 - n ==> {
            &&& (#[trigger] w[61 - n - k]).difficulty == recs[0].difficulty
            &&& w[61 - n - k].timestamp == sp_pad_ts(recs[n - 1].timestamp, sp_delta(recs), k as nat)
            &&& w[61 - n - k].secondary_scaling == sp_initial_graph_weight()
            &&& w[61 - n - k].is_secondary }
}
//@ extract core/src/global.rs :: fn difficulty_data_to_vector
//@   sigrewrite `pub fn difficulty_data_to_vector<T>(cursor: T) -> Vec<HeaderDifficultyInfo>` => `pub fn difficulty_data_to_vector(cursor: Cursor) -> Vec<HeaderDifficultyInfo>`
//@   sigrewrite `where\n\tT: IntoIterator<Item = HeaderDifficultyInfo>,\n` => ``
//@   rewrite `cursor.into_iter().take(needed_block_count).collect()` => `take_newest(cursor, needed_block_count)`
//@   rewrite `last_n.last().unwrap().timestamp` => `last_n[last_n.len() - 1].timestamp` x?
//@   rewrite `for _ in n..needed_block_count {` => `for j in n..needed_block_count {`
//@   before `last_n.reverse();`:
//@+    let ghost pre = last_n@;
//@+    proof {
//@+        let recs = sp_records(cursor);
//@+        let nn = if recs.len() >= 61 { 61int } else { recs.len() as int };
//@+        assert(pre.len() == 61);
//@+        assert forall|i: int| 0 <= i < nn implies pre[i] == #[trigger] recs[i] by { assert(pre.take(nn)[i] == recs.take(nn)[i]); }
//@+    }
//@   after `last_n.reverse();`:
//@+    proof {
//@+        assert(last_n@ == pre.reverse());
//@+        assert forall|i: int| 0 <= i < 61 implies last_n@[i] == pre[60 - i] by { }
//@+        let recs = sp_records(cursor);
//@+        let nn = if recs.len() >= 61 { 61int } else { recs.len() as int };
//@+        assert forall|k: int| 1 <= k <= 61 - nn implies ({
//@+            &&& (#[trigger] last_n@[61 - nn - k]).difficulty == recs[0].difficulty
//@+            &&& last_n@[61 - nn - k].timestamp == sp_pad_ts(recs[nn - 1].timestamp, sp_delta(recs), k as nat)
//@+            &&& last_n@[61 - nn - k].secondary_scaling == sp_initial_graph_weight()
//@+            &&& last_n@[61 - nn - k].is_secondary }) by {
//@+            assert(last_n@[61 - nn - k] == pre[nn + k - 1]);
//@+        }
//@+        assert forall|i: int| 0 <= i < nn implies last_n@[60 - i] == #[trigger] recs[i] by { assert(pre[i] == recs[i]); }
//@+    }
//@   requires:
//@+    sp_records(cursor).len() >= 1,
//@+    sp_records(cursor).len() > 1 ==> sp_records(cursor)[0].timestamp >= sp_records(cursor)[1].timestamp,
//@   attr: #[verifier::loop_isolation(false)]
//@   loop 1:
//@+    invariant last_n@.len() == j, n <= j,
//@+        last_n@.take(n as int) == sp_records(cursor).take(n as int),
//@+        last_ts == sp_pad_ts(sp_records(cursor)[n - 1].timestamp, sp_delta(sp_records(cursor)), (j - n) as nat),
//@+        forall|k: int| 1 <= k <= j - n ==> {
//@+            &&& (#[trigger] last_n@[n + k - 1]).difficulty == sp_records(cursor)[0].difficulty
//@+            &&& last_n@[n + k - 1].timestamp == sp_pad_ts(sp_records(cursor)[n - 1].timestamp, sp_delta(sp_records(cursor)), k as nat)
//@+            &&& last_n@[n + k - 1].secondary_scaling == sp_initial_graph_weight()
//@+            &&& last_n@[n + k - 1].is_secondary },
//@   ensures:
//@+    sp_is_window(r@, sp_records(cursor)),
//@ end
//@ canary difficulty_data_to_vector: r@.len() == 60
