//@ assume: the boxed verifier is abstract: T5 `Result<Box<dyn PoWContext>, pow::Error>` => Result<Ctx, Error>, where Ctx records WHICH verifier was built (kind, edge_bits, proof_size); the unused generic parameter `<T>` is dropped; consensus::header_version(height) is the uninterpreted schedule (decided for all heights and chains by C04/consensus Kc); global::get_chain_type is an uninterpreted per-thread value
//@ assume: decided here (C04 PoW rules, 'a proof of work ... of the variant scheduled for its height'; C05 'for every variant'): on Mainnet / Testnet global::create_pow_context hands out the Cuckatoo verifier for every edge_bits above 29 and, for the secondary PoW (edge_bits <= 29), Cuckaroo / Cuckarood / Cuckaroom / Cuckarooz for header versions 1 / 2 / 3 / 4 and NO verifier (an error) for any later version -- after the last hard fork a 29-bit proof cannot be verified, hence not accepted; on every other chain type only Cuckatoo
//@ assumed_items: 8
//@ fns: global::create_pow_context
#[derive(Clone, Copy, PartialEq, Eq, Structural)]
pub enum ChainTypes { AutomatedTesting, UserTesting, Testnet, Mainnet }
#[derive(Clone, Copy, PartialEq, Eq, Structural)]
pub struct HeaderVersion(pub u16);
#[derive(Clone, Copy, PartialEq, Eq, Structural)]
pub enum Kind { Cuckatoo, Cuckaroo, Cuckarood, Cuckaroom, Cuckarooz }
pub struct Ctx { pub kind: Kind, pub edge_bits: u8, pub proof_size: usize }
pub enum Error { Verification, Other }
/// consensus constants a variant may name instead of the literal (values from core/src/consensus.rs)
pub const SECOND_POW_EDGE_BITS: u8 = 29;
pub const DEFAULT_MIN_EDGE_BITS: u8 = 31;
pub const BASE_EDGE_BITS: u8 = 24;
pub mod pow { pub use super::Error; }
pub uninterp spec fn sp_chain_type() -> ChainTypes;
pub uninterp spec fn sp_header_version(height: u64) -> HeaderVersion;
#[verifier::external_body]
fn get_chain_type() -> (r: ChainTypes) ensures r == sp_chain_type() { unimplemented!() }
#[verifier::external_body]
fn header_version(height: u64) -> (r: HeaderVersion) ensures r == sp_header_version(height) { unimplemented!() }
pub open spec fn built(r: Result<Ctx, Error>, k: Kind, e: u8, p: usize) -> bool { r matches Ok(c) ==> c.kind == k && c.edge_bits == e && c.proof_size == p }
#[verifier::external_body]
fn new_cuckatoo_ctx(edge_bits: u8, proof_size: usize, max_sols: u32) -> (r: Result<Ctx, Error>) ensures built(r, Kind::Cuckatoo, edge_bits, proof_size) { unimplemented!() }
#[verifier::external_body]
fn new_cuckaroo_ctx(edge_bits: u8, proof_size: usize) -> (r: Result<Ctx, Error>) ensures built(r, Kind::Cuckaroo, edge_bits, proof_size) { unimplemented!() }
#[verifier::external_body]
fn new_cuckarood_ctx(edge_bits: u8, proof_size: usize) -> (r: Result<Ctx, Error>) ensures built(r, Kind::Cuckarood, edge_bits, proof_size) { unimplemented!() }
#[verifier::external_body]
fn new_cuckaroom_ctx(edge_bits: u8, proof_size: usize) -> (r: Result<Ctx, Error>) ensures built(r, Kind::Cuckaroom, edge_bits, proof_size) { unimplemented!() }
#[verifier::external_body]
fn new_cuckarooz_ctx(edge_bits: u8, proof_size: usize) -> (r: Result<Ctx, Error>) ensures built(r, Kind::Cuckarooz, edge_bits, proof_size) { unimplemented!() }
#[verifier::external_body]
fn no_cuckaroo_ctx() -> (r: Result<Ctx, Error>) ensures r.is_err() { unimplemented!() }
/// the verifier scheduled for (chain, height, edge_bits); None = no verifier exists
pub open spec fn scheduled(ct: ChainTypes, height: u64, edge_bits: u8) -> Option<Kind> {
    if ct == ChainTypes::Mainnet || ct == ChainTypes::Testnet {
        if edge_bits > 29 { Some(Kind::Cuckatoo) }
        else if sp_header_version(height).0 == 1 { Some(Kind::Cuckaroo) }
        else if sp_header_version(height).0 == 2 { Some(Kind::Cuckarood) }
        else if sp_header_version(height).0 == 3 { Some(Kind::Cuckaroom) }
        else if sp_header_version(height).0 == 4 { Some(Kind::Cuckarooz) }
        else { None }
    } else { Some(Kind::Cuckatoo) }
}
//@ extract core/src/global.rs :: fn create_pow_context
//@   sigrewrite `pub fn create_pow_context<T>(` => `pub fn create_pow_context(`
//@   sigrewrite `) -> Result<Box<dyn PoWContext>, pow::Error> ` => `) -> Result<Ctx, pow::Error> `
//@   ensures:
//@+    r matches Ok(c) ==> scheduled(sp_chain_type(), height, edge_bits) == Some(c.kind) && c.edge_bits == edge_bits && c.proof_size == proof_size,
//@+    scheduled(sp_chain_type(), height, edge_bits).is_none() ==> r.is_err(),
//@ end
//@ canary create_pow_context: r.is_err()
