//@ assume: the header PMMR is abstract: a ghost sequence of pushed headers (`leaves`), a ghost log of rewinds requested from the BACKEND (`rewinds`: positions), an uninterpreted root of its current content, get_data(pos) reading the leaf stored at a position; pmmr::insertion_to_pmmr_index(n) == sp_leaf_pos(n) (proved in C07/pmmr_arith); PMMR::push / rewind / root are under contract in C07 (pmmr_push, pmmr_rewind, pmmr_root); Hash equality is equality of an id; Batch::get_block_header(h) is the stored header with that hash
//@ assume: T5: `impl<'a> HeaderExtension<'a>` => abstract struct with the same three fields (the PMMR owned); T6: `.map_err(&Error::TxHashSetErr)?` => `?`, `.map_err(|_| Error::InvalidRoot)?` => `?` against callees that already return the final error; `Error::Other("..".to_string())` => Error::Other(msg()); `self.pmmr.get_data(pos0).map(|x| x.hash())` => hash_of_entry(self.pmmr.get_data(pos0)); `&Bitmap::new()` => `&bitmap_new()`; `let t = t.into();` on a Tip is the identity; log macros removed (T3)
//@ assume: decided here (C04 'HeaderExtension::validate_root / apply_header'; C09 start-up recovery): HeaderExtension::rewind ALWAYS asks the backend to rewind to position 1 + insertion_to_pmmr_index(header.height) -- also when the extension's head already IS that header: that call is what truncates header-MMR files a killed process left AHEAD of the database, which setup_head relies on -- and then makes that header the head; apply_header pushes exactly the header and makes it the head; validate_root accepts a non-genesis header ONLY IF its prev_root equals the root of the MMR as it stands (all earlier headers); is_on_current_chain(t) is true ONLY IF t is not above the head and the header stored at t's height in THIS MMR has t's hash; get_header_hash_by_height reads the leaf at insertion_to_pmmr_index(height).
//@ assumed_items: 11
//@ fns: HeaderExtension::rewind, HeaderExtension::apply_header, HeaderExtension::validate_root, HeaderExtension::root, HeaderExtension::is_on_current_chain, HeaderExtension::get_header_by_height, HeaderExtension::get_header_hash_by_height, HeaderExtension::get_header_hash, HeaderExtension::force_rollback
//@ import: use vstd::std_specs::cmp::PartialEqSpecImpl;
#[derive(Clone, Copy)]
pub struct Hash { pub v: u64 }
impl PartialEqSpecImpl for Hash { open spec fn obeys_eq_spec() -> bool { true } open spec fn eq_spec(&self, other: &Hash) -> bool { self.v == other.v } }
impl PartialEq for Hash { fn eq(&self, other: &Hash) -> (r: bool) { self.v == other.v } }
pub enum Error { TxHashSetErr, InvalidRoot, Store, Other(String) }
#[verifier::external_body]
pub fn msg() -> (r: String) { unimplemented!() }
#[derive(Clone, Copy)]
pub struct BlockHeader { pub height: u64, pub prev_root: Hash, pub id: Hash, pub prev_hash: Hash }
impl BlockHeader {
    pub fn hash(&self) -> (r: Hash) ensures r == self.id { self.id }
}
#[derive(Clone, Copy)]
pub struct Tip { pub height: u64, pub last_block_h: Hash, pub prev_block_h: Hash }
impl Tip {
    pub open spec fn sp_from_header(h: BlockHeader) -> Tip { Tip { height: h.height, last_block_h: h.id, prev_block_h: h.prev_hash } }
    #[verifier::external_body]
    pub fn from_header(h: &BlockHeader) -> (r: Tip) ensures r == Tip::sp_from_header(*h) { unimplemented!() }
    pub fn hash(&self) -> (r: Hash) ensures r == self.last_block_h { self.last_block_h }
    pub fn into(self) -> (r: Tip) ensures r == self { self }
    pub fn clone(&self) -> (r: Tip) ensures r == *self { *self }
}
#[verifier::external_body]
pub struct Bitmap { _p: u8 }
#[verifier::external_body]
pub fn bitmap_new() -> (r: Bitmap) { unimplemented!() }
pub uninterp spec fn sp_leaf_pos(n: u64) -> u64;
pub mod pmmr {
    use super::*;
    #[verifier::external_body]
    pub fn insertion_to_pmmr_index(n: u64) -> (r: u64) ensures r == sp_leaf_pos(n), r < u64::MAX { unimplemented!() }
}
pub uninterp spec fn sp_root(leaves: Seq<BlockHeader>) -> Hash;
pub uninterp spec fn sp_hdr(h: Hash) -> BlockHeader;
pub struct PMMR { pub leaves: Ghost<Seq<BlockHeader>>, pub rewinds: Ghost<Seq<u64>> }
pub uninterp spec fn sp_data(p: PMMR, pos0: u64) -> Option<BlockHeader>;
impl PMMR {
    #[verifier::external_body]
    pub fn push(&mut self, h: &BlockHeader) -> (r: Result<u64, Error>)
        ensures r.is_ok() ==> final(self).leaves@ == old(self).leaves@.push(*h) && final(self).rewinds@ == old(self).rewinds@, r.is_err() ==> *final(self) == *old(self) { unimplemented!() }
    #[verifier::external_body]
    pub fn rewind(&mut self, pos1: u64, rm: &Bitmap) -> (r: Result<(), Error>)
        ensures r.is_ok() ==> final(self).rewinds@ == old(self).rewinds@.push(pos1), r.is_err() ==> *final(self) == *old(self) { unimplemented!() }
    #[verifier::external_body]
    pub fn root(&self) -> (r: Result<Hash, Error>) ensures r matches Ok(h) ==> h == sp_root(self.leaves@) { unimplemented!() }
    #[verifier::external_body]
    pub fn get_data(&self, pos0: u64) -> (r: Option<BlockHeader>) ensures r == sp_data(*self, pos0) { unimplemented!() }
    #[verifier::external_body]
    pub fn unpruned_size(&self) -> (r: u64) { unimplemented!() }
}
pub fn hash_of_entry(e: Option<BlockHeader>) -> (r: Option<Hash>) ensures r == (match e { Some(h) => Some(h.id), None => None }) { match e { Some(h) => Some(h.id), None => None } }
pub struct Batch { pub _p: u8 }
impl Batch {
    #[verifier::external_body]
    pub fn get_block_header(&self, h: &Hash) -> (r: Result<BlockHeader, Error>) ensures r matches Ok(x) ==> x == sp_hdr(*h) && x.id == *h { unimplemented!() }
}
pub struct HeaderExtension { pub head: Tip, pub pmmr: PMMR, pub rollback: bool }
impl HeaderExtension {
//@ extract chain/src/txhashset/txhashset.rs :: impl HeaderExtension::get_header_hash
//@   rewrite `self.pmmr.get_data(pos0).map(|x| x.hash())` => `hash_of_entry(self.pmmr.get_data(pos0))` x?
//@   ensures:
//@+    r == (match sp_data(self.pmmr, pos0) { Some(h) => Some(h.id), None => None }),
//@ end
//@ extract chain/src/txhashset/txhashset.rs :: impl HeaderExtension::get_header_hash_by_height
//@   ensures:
//@+    r == (match sp_data(self.pmmr, sp_leaf_pos(height)) { Some(h) => Some(h.id), None => None }),
//@ end
//@ extract chain/src/txhashset/txhashset.rs :: impl HeaderExtension::get_header_by_height
//@   sigrewrite `batch: &Batch<'_>,` => `batch: &Batch,`
//@   rewrite `"get header by height".to_string()` => `msg()` x?
//@   ensures:
//@+    r matches Ok(h) ==> sp_data(self.pmmr, sp_leaf_pos(height)) matches Some(e) && h.id == e.id,
//@ end
//@ extract chain/src/txhashset/txhashset.rs :: impl HeaderExtension::is_on_current_chain
//@   sigrewrite `pub fn is_on_current_chain<T: Into<Tip>>(` => `pub fn is_on_current_chain(`
//@   sigrewrite `t: T,` => `t: Tip,`
//@   sigrewrite `batch: &Batch<'_>,` => `batch: &Batch,`
//@   ensures:
//@+    r matches Ok(true) ==> t.height <= self.head.height && (sp_data(self.pmmr, sp_leaf_pos(t.height)) matches Some(e) && e.id.v == t.last_block_h.v),
//@ end
//@ extract chain/src/txhashset/txhashset.rs :: impl HeaderExtension::force_rollback
//@   ensures:
//@+    final(self).rollback, final(self).head == old(self).head, final(self).pmmr == old(self).pmmr,
//@ end
//@ extract chain/src/txhashset/txhashset.rs :: impl HeaderExtension::apply_header
//@   rewrite `.map_err(&Error::TxHashSetErr)?` => `?` x?
//@   ensures:
//@+    r.is_ok() ==> final(self).pmmr.leaves@ == old(self).pmmr.leaves@.push(*header) && final(self).head == Tip::sp_from_header(*header),
//@+    r.is_err() ==> final(self).pmmr == old(self).pmmr && final(self).head == old(self).head,
//@+    final(self).rollback == old(self).rollback,
//@ end
//@ extract chain/src/txhashset/txhashset.rs :: impl HeaderExtension::rewind
//@   strip_logs
//@   rewrite `.map_err(&Error::TxHashSetErr)?` => `?` x?
//@   rewrite `&Bitmap::new()` => `&bitmap_new()` x?
//@   ensures:
//@+    // the backend is ALWAYS asked to rewind to the header's position, whatever the current head is
//@+    r.is_ok() ==> final(self).pmmr.rewinds@ == old(self).pmmr.rewinds@.push((1 + sp_leaf_pos(header.height)) as u64) && final(self).head == Tip::sp_from_header(*header),
//@+    r.is_err() ==> final(self).pmmr == old(self).pmmr && final(self).head == old(self).head,
//@+    final(self).rollback == old(self).rollback,
//@ end
//@ extract chain/src/txhashset/txhashset.rs :: impl HeaderExtension::root
//@   rewrite `.map_err(|_| Error::InvalidRoot)?` => `?` x?
//@   ensures:
//@+    r matches Ok(h) ==> h == sp_root(self.pmmr.leaves@),
//@ end
//@ extract chain/src/txhashset/txhashset.rs :: impl HeaderExtension::validate_root
//@   ensures:
//@+    r.is_ok() && header.height != 0 ==> header.prev_root.v == sp_root(self.pmmr.leaves@).v,
//@+    header.height == 0 ==> r.is_ok(),
//@ end
}
//@ canary validate_root: r.is_err()
