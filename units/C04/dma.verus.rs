//@ assume: global::difficulty_data_to_vector is abstract HERE (its own contract -- exactly 61 records, the padding rule -- is decided in C04/difficulty_window): it returns the DMA_WINDOW + 1 = 61 newest difficulty records, oldest first, padded before genesis (sp_window); ASSUMED about it (true for validated headers, whose timestamps strictly increase, and for the padding, which steps backwards): the newest timestamp is not below the oldest. secondary_pow_scaling is abstract (its damp/clamp core is decided by Kani in C04/consensus)
//@ assume: T6: the generic `T: IntoIterator` signature => the abstract DiffCursor; `diff_data.iter().skip(1).map(|dd| dd.difficulty.to_num()).sum()` => sum_difficulties(&diff_data, 1), ASSUMED to return the mathematical sum of the difficulties from index 1 on (precondition: it fits in u64 -- the real `.sum()` would panic in a debug build / wrap in release); `max` / `min` at u64 => verified local functions; `max(num, 1)` in Difficulty::from_num likewise
//@ assume: ranges (preconditions): the window's timestamp span + 7200 fits in u64; the difficulty sum times 60 fits in u64 (sum < 2^58)
//@ assume: decided here (C04, the pre-HF4 difficulty rule still used to validate the first 1 048 320 mainnet headers): next_dma_difficulty is total on that domain and returns EXACTLY max(3, floor(S * 60 / T)) where S is the sum of the last 60 difficulties and T = clamp(damp(span, 3600, 3), 3600, 2) with damp(a, g, f) = floor((a + (f-1) g) / f) and clamp(a, g, c) = max(floor(g/c), min(a, g c)) -- the real damp and clamp are verified verbatim -- so 1800 <= T <= 7200 whatever the timestamps, i.e. the next difficulty lies between S/120 and S/30; the secondary scaling returned is secondary_pow_scaling(height, window without its first record)
//@ assumed_items: 5
//@ fns: consensus::next_dma_difficulty, consensus::damp, consensus::clamp
//@ import: use vstd::arithmetic::div_mod::*;
//@ import: use vstd::arithmetic::mul::*;
pub const BLOCK_TIME_SEC: u64 = 60;
pub const HOUR_SEC: u64 = 60 * 60;
pub const HOUR_HEIGHT: u64 = HOUR_SEC / BLOCK_TIME_SEC;
//@ extract core/src/consensus.rs :: const DMA_WINDOW
//@ end
//@ extract core/src/consensus.rs :: const BLOCK_TIME_WINDOW
//@ end
//@ extract core/src/consensus.rs :: const CLAMP_FACTOR
//@ end
//@ extract core/src/consensus.rs :: const DMA_DAMP_FACTOR
//@ end
//@ extract core/src/consensus.rs :: const MIN_DMA_DIFFICULTY
//@ end
#[verifier::external_body]
pub struct Hash { _p: u8 }
#[derive(PartialEq, Eq, Structural, Clone, Copy)]
pub struct Difficulty { pub num: u64 }
impl Difficulty {
//@ extract core/src/pow/types.rs :: impl Difficulty::from_num
//@   rewrite `max(num, 1)` => `if num >= 1 { num } else { 1 }`
//@   ensures:
//@+    r.num == if num >= 1 { num } else { 1 },
//@ end
//@ extract core/src/pow/types.rs :: impl Difficulty::to_num
//@   ensures:
//@+    r == self.num,
//@ end
}
//@ extract core/src/consensus.rs :: struct HeaderDifficultyInfo
//@   pub_fields
//@ end
impl HeaderDifficultyInfo {
//@ extract core/src/consensus.rs :: impl HeaderDifficultyInfo::from_diff_scaling
//@   ensures:
//@+    r.difficulty == difficulty, r.secondary_scaling == secondary_scaling,
//@ end
}
fn max(a: u64, b: u64) -> (r: u64) ensures r == (if a >= b { a } else { b }) { if a >= b { a } else { b } }
fn min(a: u64, b: u64) -> (r: u64) ensures r == (if a <= b { a } else { b }) { if a <= b { a } else { b } }
#[verifier::external_body]
pub struct DiffCursor { _p: u8 }
pub uninterp spec fn sp_window(c: DiffCursor) -> Seq<HeaderDifficultyInfo>;
pub uninterp spec fn sp_sec_scaling(height: u64, w: Seq<HeaderDifficultyInfo>) -> u32;
pub mod global { use super::*;
    #[verifier::external_body]
    pub fn difficulty_data_to_vector(cursor: DiffCursor) -> (r: Vec<HeaderDifficultyInfo>)
        ensures r@ == sp_window(cursor), r@.len() == 61, r@[60].timestamp >= r@[0].timestamp { unimplemented!() } }
#[verifier::external_body]
pub fn secondary_pow_scaling(height: u64, diff_data: &[HeaderDifficultyInfo]) -> (r: u32) ensures r == sp_sec_scaling(height, diff_data@) { unimplemented!() }
/// mathematical sum of the difficulties from index `from` on
pub open spec fn dsum(w: Seq<HeaderDifficultyInfo>, from: int) -> int decreases w.len() - from { if from >= w.len() { 0 } else { w[from].difficulty.num as int + dsum(w, from + 1) } }
#[verifier::external_body]
fn sum_difficulties(v: &Vec<HeaderDifficultyInfo>, from: usize) -> (r: u64)
    requires dsum(v@, from as int) <= u64::MAX ensures r as int == dsum(v@, from as int) { unimplemented!() }
pub open spec fn sp_damp(actual: int, goal: int, f: int) -> int { (actual + (f - 1) * goal) / f }
pub open spec fn sp_clamp(actual: int, goal: int, c: int) -> int { let lo = goal / c; let hi = if actual <= goal * c { actual } else { goal * c }; if lo >= hi { lo } else { hi } }
//@ extract core/src/consensus.rs :: fn damp
//@   requires:
//@+    damp_factor >= 1, actual as int + (damp_factor - 1) * goal <= u64::MAX,
//@   ensures:
//@+    r as int == sp_damp(actual as int, goal as int, damp_factor as int),
//@   at_start:
//@+    proof { assert((damp_factor - 1) * goal >= 0) by(nonlinear_arith) requires damp_factor >= 1, goal >= 0; }
//@ end
//@ extract core/src/consensus.rs :: fn clamp
//@   requires:
//@+    clamp_factor >= 1, goal as int * clamp_factor <= u64::MAX,
//@   ensures:
//@+    r as int == sp_clamp(actual as int, goal as int, clamp_factor as int),
//@+    goal as int / clamp_factor as int <= r as int <= goal as int * clamp_factor as int || goal as int / clamp_factor as int > goal as int * clamp_factor as int,
//@ end
pub open spec fn sp_adj_ts(w: Seq<HeaderDifficultyInfo>) -> int { sp_clamp(sp_damp(w[60].timestamp - w[0].timestamp, 3600, 3), 3600, 2) }
pub open spec fn sp_dma_num(w: Seq<HeaderDifficultyInfo>) -> int { let q = dsum(w, 1) * 60 / sp_adj_ts(w); let m = if q >= 3 { q } else { 3 }; if m >= 1 { m } else { 1 } }
//@ extract core/src/consensus.rs :: fn next_dma_difficulty
//@   sigrewrite `pub fn next_dma_difficulty<T>(height: u64, cursor: T) -> HeaderDifficultyInfo\nwhere\n\tT: IntoIterator<Item = HeaderDifficultyInfo>,` => `pub fn next_dma_difficulty(height: u64, cursor: DiffCursor) -> HeaderDifficultyInfo`
//@   rewrite `let diff_sum: u64 = diff_data\n\t\t.iter()\n\t\t.skip(1)\n\t\t.map(|dd| dd.difficulty.to_num())\n\t\t.sum();` => `let diff_sum: u64 = sum_difficulties(&diff_data, 1);`
//@   requires:
//@+    sp_window(cursor)[60].timestamp - sp_window(cursor)[0].timestamp <= 0xffff_ffff_ffff_0000u64,
//@+    dsum(sp_window(cursor), 1) < 0x400_0000_0000_0000,
//@   ensures:
//@+    r.difficulty.num as int == sp_dma_num(sp_window(cursor)),
//@+    1800 <= sp_adj_ts(sp_window(cursor)) <= 7200,
//@+    r.difficulty.num >= 3,
//@+    r.secondary_scaling == sp_sec_scaling(height, sp_window(cursor).subrange(1, 61)),
//@ end
//@ canary next_dma_difficulty: r.difficulty.num == 3
