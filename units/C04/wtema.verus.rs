//@ assume: the header cursor (an iterator over the ancestors' difficulty info, newest first) is abstract: DiffCursor with a ghost sequence, into_iter/next deliver its elements in order; header_version, Difficulty::min_wtema (a per-chain constant) and next_dma_difficulty are external with uninterpreted results
//@ assume: T6 rewrites: the generic `T: IntoIterator` signature is instantiated with DiffCursor, `max` on Difficulty replaced by diff_max (same meaning: derived Ord on the single u64 field), `header_version(height) < HeaderVersion(5)` compared on the u16 field
//@ assume: ranges (preconditions): at least two headers in the window, newest timestamp >= previous, last difficulty * 14400 fits in u64 (difficulty < 2^50), block time + 14340 fits in u64
//@ assume: decided here: the wtema retarget is total on that domain, deterministic (a function of the window), never below the minimum, equals max(min, floor(last*14400/(14340+dt))) and hence changes by at most the factor 14400/14340 upwards per block and by 14400/(14340+dt) downwards; next_difficulty selects wtema exactly for header versions >= 5. The DMA rule (61-header window, iterator sums) is not under contract.
//@ assumed_items: 8
//@ fns: consensus::next_wtema_difficulty, consensus::next_difficulty, HeaderDifficultyInfo::from_diff_scaling
//@ import: use vstd::arithmetic::div_mod::*;
//@ import: use vstd::arithmetic::mul::*;

pub const BLOCK_TIME_SEC: u64 = 60;
pub const HOUR_SEC: u64 = 60 * 60;
//@ extract core/src/consensus.rs :: const WTEMA_HALF_LIFE
//@ end

#[verifier::external_body]
pub struct Hash { _p: u8 }
#[derive(PartialEq, Eq, Structural, Clone, Copy)]
pub struct Difficulty { pub num: u64 }
pub struct HeaderVersion(pub u16);

pub uninterp spec fn sp_min_wtema() -> u64;
pub uninterp spec fn sp_version(height: u64) -> u16;

impl Difficulty {
    #[verifier::external_body]
    pub fn min_wtema() -> (r: Difficulty) ensures r.num == sp_min_wtema() { unimplemented!() }
//@ extract core/src/pow/types.rs :: impl Difficulty::from_num
//@   rewrite `max(num, 1)` => `if num >= 1 { num } else { 1 }`
//@   ensures:
//@+    r.num == if num >= 1 { num } else { 1 },
//@ end
//@ extract core/src/pow/types.rs :: impl Difficulty::to_num
//@   ensures:
//@+    r == self.num,
//@ end
}
fn diff_max(a: Difficulty, b: Difficulty) -> (r: Difficulty)
    ensures r.num == if a.num >= b.num { a.num } else { b.num }
{ if a.num >= b.num { a } else { b } }

//@ extract core/src/consensus.rs :: struct HeaderDifficultyInfo
//@   pub_fields
//@ end

impl HeaderDifficultyInfo {
//@ extract core/src/consensus.rs :: impl HeaderDifficultyInfo::from_diff_scaling
//@   ensures:
//@+    r.difficulty == difficulty, r.secondary_scaling == secondary_scaling, r.timestamp == 1, r.is_secondary, r.hash.is_none(),
//@ end
}

#[verifier::external_body]
pub struct DiffCursor { _p: u8 }
#[verifier::external_body]
pub struct DiffIter { _p: u8 }
impl DiffCursor {
    pub uninterp spec fn seq(&self) -> Seq<HeaderDifficultyInfo>;
    #[verifier::external_body]
    pub fn into_iter(self) -> (r: DiffIter) ensures r.rest() == self.seq() { unimplemented!() }
}
impl DiffIter {
    pub uninterp spec fn rest(&self) -> Seq<HeaderDifficultyInfo>;
    #[verifier::external_body]
    pub fn next(&mut self) -> (r: Option<HeaderDifficultyInfo>)
        ensures old(self).rest().len() == 0 ==> r.is_none(),
                old(self).rest().len() > 0 ==> r == Some(old(self).rest()[0]) && final(self).rest() == old(self).rest().subrange(1, old(self).rest().len() as int),
    { unimplemented!() }
}

/// the wtema rule as a mathematical function of the two newest headers
pub open spec fn wtema_spec(last: HeaderDifficultyInfo, prev: HeaderDifficultyInfo) -> int {
    let q = (last.difficulty.num as int * 14400) / (14340 + (last.timestamp - prev.timestamp));
    let q1 = if q >= 1 { q } else { 1 };
    if q1 >= sp_min_wtema() as int { q1 } else { sp_min_wtema() as int }
}

proof fn lemma_wtema_bounds(d: int, dt: int)
    requires d >= 0, dt >= 0
    ensures (d * 14400) / (14340 + dt) <= (d * 14400) / 14340,
            (d * 14400) / 14340 <= d + d / 239 + 1,
{
    lemma_div_is_ordered_by_denominator(d * 14400, 14340, 14340 + dt);
    assert((d * 14400) / 14340 <= d + d / 239 + 1) by(nonlinear_arith) requires d >= 0;
}

//@ extract core/src/consensus.rs :: fn next_wtema_difficulty
//@   sigrewrite `pub fn next_wtema_difficulty<T>(_height: u64, cursor: T) -> HeaderDifficultyInfo\nwhere\n\tT: IntoIterator<Item = HeaderDifficultyInfo>,` => `pub fn next_wtema_difficulty(_height: u64, cursor: DiffCursor) -> HeaderDifficultyInfo`
//@   rewrite `max(Difficulty::min_wtema(), Difficulty::from_num(next_diff))` => `diff_max(Difficulty::min_wtema(), Difficulty::from_num(next_diff))`
//@   requires:
//@+    cursor.seq().len() >= 2,
//@+    cursor.seq()[0].timestamp >= cursor.seq()[1].timestamp,
//@+    cursor.seq()[0].timestamp - cursor.seq()[1].timestamp <= 0xffff_ffff_ffff,
//@+    cursor.seq()[0].difficulty.num < 0x4_0000_0000_0000u64,
//@   ensures:
//@+    r.difficulty.num as int == wtema_spec(cursor.seq()[0], cursor.seq()[1]),
//@+    r.difficulty.num >= sp_min_wtema() && r.difficulty.num >= 1,
//@+    r.difficulty.num as int <= (if sp_min_wtema() as int >= 1 { sp_min_wtema() as int } else { 1 }) + (cursor.seq()[0].difficulty.num as int * 14400) / 14340,
//@+    r.secondary_scaling == 0,
//@   at_start:
//@+    proof { lemma_wtema_bounds(cursor.seq()[0].difficulty.num as int, cursor.seq()[0].timestamp - cursor.seq()[1].timestamp); }
//@ end

#[verifier::external_body]
pub fn header_version(height: u64) -> (r: HeaderVersion) ensures r.0 == sp_version(height) { unimplemented!() }
pub uninterp spec fn sp_dma(height: u64, c: DiffCursor) -> HeaderDifficultyInfo;
#[verifier::external_body]
pub fn next_dma_difficulty(height: u64, cursor: DiffCursor) -> (r: HeaderDifficultyInfo) ensures r == sp_dma(height, cursor) { unimplemented!() }

//@ extract core/src/consensus.rs :: fn next_difficulty
//@   sigrewrite `pub fn next_difficulty<T>(height: u64, cursor: T) -> HeaderDifficultyInfo\nwhere\n\tT: IntoIterator<Item = HeaderDifficultyInfo>,` => `pub fn next_difficulty(height: u64, cursor: DiffCursor) -> HeaderDifficultyInfo`
//@   rewrite `) < HeaderVersion(5)` => `).0 < 5`
//@   requires:
//@+    sp_version(height) >= 5 ==> (cursor.seq().len() >= 2 && cursor.seq()[0].timestamp >= cursor.seq()[1].timestamp
//@+        && cursor.seq()[0].timestamp - cursor.seq()[1].timestamp <= 0xffff_ffff_ffff && cursor.seq()[0].difficulty.num < 0x4_0000_0000_0000u64),
//@   ensures:
//@+    sp_version(height) >= 5 ==> r.difficulty.num as int == wtema_spec(cursor.seq()[0], cursor.seq()[1]) && r.secondary_scaling == 0,
//@+    sp_version(height) < 5 ==> r == sp_dma(height, cursor),
//@ end
//@ canary next_wtema_difficulty: r.difficulty.num == 1
