//@ assume: read_block_header, the clock comparison (header.timestamp > Utc::now() + future-time limit), the version schedule, is_primary/is_secondary, verify_size, MMR leaf counts, weight_by_iok and max_block_weight are external with uninterpreted meanings; the contract states which of them UntrustedBlockHeader::read consults before accepting a header from the network
//@ assume: T6 rewrites: clock comparison through helper ts_beyond_limit(&header.timestamp, ftl); path prefixes dropped; log macros removed (T3); `global::max_block_weight() * (header.height + 1)` kept verbatim -- its overflow is an explicit obligation discharged under the stated precondition height < 2^48
//@ assume: RANGE: the conjunction is claimed for decoded heights below 2^48; for larger heights `max_block_weight() * (height + 1)` wraps in release builds (no panic; Verus cannot express wrapping on the verbatim `*`), so read_block_header is assumed to return height < 2^48
//@ assume: decided here: a header decoded from the network is accepted only if it is not beyond the future-time limit, carries the version scheduled for its height, has admissible edge bits, a proof of the right size and MMR sizes within the per-height weight bound
//@ assumed_items: 13
//@ fns: UntrustedBlockHeader::read

pub struct HeaderVersion(pub u16);
#[verifier::external_body]
pub struct DateTimeUtc { _p: u8 }
#[verifier::external_body]
pub struct PowView { _p: u8 }
pub struct BlockHeader { pub version: HeaderVersion, pub height: u64, pub timestamp: DateTimeUtc, pub pow: PowView }
pub struct UntrustedBlockHeader(pub BlockHeader);
pub enum SerError { IOErr, CorruptedData, InvalidBlockVersion, TooLargeReadErr }
pub mod ser { pub use super::SerError as Error; }
pub trait Reader { spec fn remaining(&self) -> nat; }

pub uninterp spec fn sp_beyond_limit(t: DateTimeUtc, ftl: u64) -> bool;
pub uninterp spec fn sp_ftl() -> u64;
pub uninterp spec fn sp_version_ok(height: u64, v: u16) -> bool;
pub uninterp spec fn sp_primary(p: PowView) -> bool;
pub uninterp spec fn sp_secondary(p: PowView) -> bool;
pub uninterp spec fn sp_size_ok(h: BlockHeader) -> bool;
pub uninterp spec fn sp_out_count(h: BlockHeader) -> u64;
pub uninterp spec fn sp_kern_count(h: BlockHeader) -> u64;
pub uninterp spec fn sp_weight(i: u64, o: u64, k: u64) -> u64;
pub uninterp spec fn sp_max_block_weight() -> u64;

#[verifier::external_body]
fn read_block_header<R: Reader>(reader: &mut R) -> (r: Result<BlockHeader, SerError>)
    ensures r matches Ok(h) ==> h.height < 0x1_0000_0000_0000u64   // ASSUMED RANGE, see the unit's assumptions
{ unimplemented!() }
#[verifier::external_body]
fn get_future_time_limit() -> (r: u64) ensures r == sp_ftl() { unimplemented!() }
#[verifier::external_body]
fn ts_beyond_limit(t: &DateTimeUtc, ftl: u64) -> (r: bool) ensures r == sp_beyond_limit(*t, ftl) { unimplemented!() }
#[verifier::external_body]
fn valid_header_version(height: u64, version: &HeaderVersion) -> (r: bool) ensures r == sp_version_ok(height, version.0) { unimplemented!() }
#[verifier::external_body]
fn verify_size(h: &BlockHeader) -> (r: Result<(), SerError>) ensures r.is_ok() == sp_size_ok(*h) { unimplemented!() }
#[verifier::external_body]
fn weight_by_iok(i: u64, o: u64, k: u64) -> (r: u64) ensures r == sp_weight(i, o, k) { unimplemented!() }
#[verifier::external_body]
fn max_block_weight() -> (r: u64) ensures r == sp_max_block_weight(), r <= 40_000 { unimplemented!() }
impl PowView {
    #[verifier::external_body]
    pub fn is_primary(&self) -> (r: bool) ensures r == sp_primary(*self) { unimplemented!() }
    #[verifier::external_body]
    pub fn is_secondary(&self) -> (r: bool) ensures r == sp_secondary(*self) { unimplemented!() }
}
impl BlockHeader {
    #[verifier::external_body]
    pub fn output_mmr_count(&self) -> (r: u64) ensures r == sp_out_count(*self) { unimplemented!() }
    #[verifier::external_body]
    pub fn kernel_mmr_count(&self) -> (r: u64) ensures r == sp_kern_count(*self) { unimplemented!() }
}

pub open spec fn untrusted_header_rules(h: BlockHeader) -> bool {
    &&& !sp_beyond_limit(h.timestamp, sp_ftl())
    &&& sp_version_ok(h.height, h.version.0)
    &&& (sp_primary(h.pow) || sp_secondary(h.pow))
    &&& sp_size_ok(h)
    &&& sp_weight(0, sp_out_count(h), sp_kern_count(h)) as int <= sp_max_block_weight() as int * (h.height as int + 1)
}

//@ extract core/src/core/block.rs :: impl Readable for UntrustedBlockHeader::read
//@   strip_logs
//@   sigrewrite `fn read<R: Reader>(reader: &mut R) -> Result<UntrustedBlockHeader, ser::Error>` => `fn read_untrusted_header<R: Reader>(reader: &mut R) -> Result<UntrustedBlockHeader, ser::Error>`
//@   rewrite `global::get_future_time_limit()` => `get_future_time_limit()`
//@   rewrite `header.timestamp > Utc::now() + Duration::seconds(ftl as i64)` => `ts_beyond_limit(&header.timestamp, ftl)`
//@   rewrite `consensus::valid_header_version(header.height, header.version)` => `valid_header_version(header.height, &header.version)`
//@   rewrite `TransactionBody::weight_by_iok(` => `weight_by_iok(`
//@   rewrite `global::max_block_weight()` => `max_block_weight()`
//@   before `let global_weight =`:
//@+    proof { assert forall|a: int, b: int| 0 <= a <= 40000 && 0 <= b <= 0x1_0000_0000_0000 implies #[trigger] (a * b) <= 0xffff_ffff_ffff_ffff by {
//@+        assert(a * b <= 40000 * 0x1_0000_0000_0000) by(nonlinear_arith) requires 0 <= a <= 40000, 0 <= b <= 0x1_0000_0000_0000; } }
//@   ensures:
//@+    r matches Ok(u) ==> untrusted_header_rules(u.0),
//@ end
//@ canary read: r.is_err()
