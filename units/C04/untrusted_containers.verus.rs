//@ assume: CompactBlockBody::read, TransactionBody::read, their validate_read and Reader::read_u64 are abstract (decided in C10 / C11); the TRUSTED readers CompactBlock::read / BlockHeader::read are offered as abstract functions that promise nothing about the header (they are used for the local database)
//@ assume: T6: `UntrustedBlockHeader::read(reader)?` => `read_untrusted_header(reader)?` (the real function, included from C04/untrusted_header and re-verified); `header.into()` => the wrapped header; `.map_err(closure)?` => `?` over one error type; T3: error! removed
//@ assume: decided here (C04, 'from the network'): a full block or a compact block decoded from the network (UntrustedBlock::read, UntrustedCompactBlock::read) is accepted only if its HEADER passed the untrusted-header rules of C04/untrusted_header -- not beyond the future-time limit, scheduled version, admissible proof of work shape and size, weight bound -- i.e. both containers read their header through UntrustedBlockHeader::read and not through the trusted reader
//@ assumed_items: 10
//@ fns: UntrustedCompactBlock::read, UntrustedBlock::read
//@ include: ../C04/untrusted_header.verus.rs
impl UntrustedBlockHeader { pub fn into(self) -> (r: BlockHeader) ensures r == self.0 { self.0 } }
#[verifier::external_body]
pub struct CompactBlockBody { _p: u8 }
#[verifier::external_body]
pub struct TransactionBody { _p: u8 }
pub enum Weighting { AsBlock }
pub struct CompactBlock { pub header: BlockHeader, pub nonce: u64, pub body: CompactBlockBody }
pub struct Block { pub header: BlockHeader, pub body: TransactionBody }
pub struct UntrustedCompactBlock(pub CompactBlock);
pub struct UntrustedBlock(pub Block);
#[verifier::external_body]
fn read_u64<R: Reader>(reader: &mut R) -> (r: Result<u64, SerError>) { unimplemented!() }
impl CompactBlockBody { #[verifier::external_body] pub fn read<R: Reader>(reader: &mut R) -> (r: Result<CompactBlockBody, SerError>) { unimplemented!() } }
impl TransactionBody {
    #[verifier::external_body] pub fn read<R: Reader>(reader: &mut R) -> (r: Result<TransactionBody, SerError>) { unimplemented!() }
    #[verifier::external_body] pub fn validate_read(&self, w: Weighting) -> (r: Result<(), SerError>) { unimplemented!() }
}
impl BlockHeader { #[verifier::external_body] pub fn read<R: Reader>(reader: &mut R) -> (r: Result<BlockHeader, SerError>) { unimplemented!() } }
impl CompactBlock {
    /// the trusted reader (local database): no header rules
    #[verifier::external_body] pub fn read<R: Reader>(reader: &mut R) -> (r: Result<CompactBlock, SerError>) { unimplemented!() }
    #[verifier::external_body] pub fn validate_read(&self) -> (r: Result<(), SerError>) { unimplemented!() }
}
impl Block { #[verifier::external_body] pub fn read<R: Reader>(reader: &mut R) -> (r: Result<Block, SerError>) { unimplemented!() } }
impl UntrustedCompactBlock {
//@ extract core/src/core/compact_block.rs :: impl Readable for UntrustedCompactBlock::read
//@   rewrite `UntrustedBlockHeader::read(reader)?` => `read_untrusted_header(reader)?`
//@   rewrite `reader.read_u64()?` => `read_u64(reader)?`
//@   rewrite `cb.validate_read().map_err(|_| ser::Error::CorruptedData)?;` => `cb.validate_read()?;`
//@   ensures:
//@+    r matches Ok(u) ==> untrusted_header_rules(u.0.header),
//@ end
}
impl UntrustedBlock {
//@ extract core/src/core/block.rs :: impl Readable for UntrustedBlock::read
//@   strip_logs
//@   rewrite `UntrustedBlockHeader::read(reader)?` => `read_untrusted_header(reader)?`
//@   rewrite `body.validate_read(Weighting::AsBlock).map_err(|e| {\n\t\t\t/* T3: log macro removed */\n\t\t\tser::Error::CorruptedData\n\t\t})?;` => `body.validate_read(Weighting::AsBlock)?;`
//@   ensures:
//@+    r matches Ok(u) ==> untrusted_header_rules(u.0.header),
//@ end
}
//@ canary read: r.is_err()
