//@ crate: grin_core
//@ target: core/src/consensus.rs
//@ assume: global::get_chain_type stubbed to an arbitrary chain type fixed per harness (its thread_local/lazy_static body cannot be compiled by Kani); all four chain types are explored
//@ assume: alloc::fmt::format stubbed to String::new()
//@ assume: the wtema retarget and the next_difficulty dispatch are proved in the Verus unit C04/wtema (64-bit division by a symbolic divisor does not finish in CBMC with cadical, kissat or z3)
//@ harness c04_header_version_schedule kind=complete tier=quick fns=consensus::header_version,consensus::valid_header_version bound=-
//@ harness c04_damp_clamp kind=complete tier=quick fns=consensus::damp,consensus::clamp bound=-
//@ harness c04_secondary_ratio kind=complete tier=quick fns=consensus::secondary_pow_ratio bound=-
//@ harness c04_graph_weight kind=complete tier=quick fns=consensus::graph_weight,global::base_edge_bits bound=-
use crate::verif_kani_support::*;

fn table_version(ct: u8, height: u64) -> u16 {
	match ct {
		3 => core::cmp::min(5, 1 + height / 262_080) as u16, // Mainnet: half-year interval
		0 | 1 => core::cmp::min(5, 1 + height / 3) as u16,   // testing chains
		_ => {
			if height < 185_040 {
				1
			} else if height < 298_080 {
				2
			} else if height < 552_960 {
				3
			} else if height < 642_240 {
				4
			} else {
				5
			}
		}
	}
}

/// The version scheduled for a height: equals the published table, lies in 1..=5 and never
/// decreases with height -- for every u64 height and every chain type.
#[kani::proof]
#[kani::stub(crate::global::get_chain_type, stub_get_chain_type)]
fn c04_header_version_schedule() {
	init_globals();
	let ct = unsafe { CHAIN_TYPE_IDX };
	let h1: u64 = kani::any();
	let h2: u64 = kani::any();
	let v1 = header_version(h1);
	let v2 = header_version(h2);
	assert!(v1.0 >= 1 && v1.0 <= 5);
	assert!(v1.0 == table_version(ct, h1), "C04: version equals the schedule table");
	if h1 <= h2 {
		assert!(v1.0 <= v2.0, "C04: version schedule is monotone in height");
	}
	let claimed: u16 = kani::any();
	assert!(valid_header_version(h1, HeaderVersion(claimed)) == (claimed == v1.0));
}

/// damp moves toward the goal and never past it; clamp stays within [goal/f, goal*f].
#[kani::proof]
fn c04_damp_clamp() {
	let actual: u64 = kani::any();
	let goal: u64 = kani::any();
	// the only constants used by the retarget
	let f: u64 = if kani::any() { DMA_DAMP_FACTOR } else { AR_SCALE_DAMP_FACTOR };
	kani::assume(goal <= (1u64 << 40) && actual <= (1u64 << 59));
	let d = damp(actual, goal, f);
	assert!(d >= core::cmp::min(actual, goal) && d <= core::cmp::max(actual, goal), "C04: damp stays between actual and goal");
	let c = clamp(d, goal, CLAMP_FACTOR);
	assert!(c >= goal / CLAMP_FACTOR && c <= goal * CLAMP_FACTOR, "C04: clamp bounds");
	if d >= goal / CLAMP_FACTOR && d <= goal * CLAMP_FACTOR {
		assert!(c == d);
	}
}

#[kani::proof]
fn c04_secondary_ratio() {
	let h1: u64 = kani::any();
	let h2: u64 = kani::any();
	let r1 = secondary_pow_ratio(h1);
	assert!(r1 <= 90);
	if h1 <= h2 {
		assert!(secondary_pow_ratio(h2) <= r1);
	}
	assert!(secondary_pow_ratio(0) == 90);
}

/// graph_weight never underflows its shift for any edge_bits the header decoder admits
/// (edge_bits >= base_edge_bits), and is 0 for expired C31.
#[kani::proof]
#[kani::stub(crate::global::get_chain_type, stub_get_chain_type)]
fn c04_graph_weight() {
	init_globals();
	let height: u64 = kani::any();
	let eb: u8 = kani::any();
	kani::assume(eb >= global::base_edge_bits() && eb <= 63);
	let w = graph_weight(height, eb);
	if eb != 31 {
		assert!(w == (2u64 << (eb - global::base_edge_bits())) * eb as u64);
	} else {
		assert!(w <= (2u64 << (eb - global::base_edge_bits())) * 31);
	}
}
