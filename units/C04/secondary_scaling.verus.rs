//@ assume: T7 (expression closures): the predicate `|n| n.is_secondary` of ar_count and the projection `|dd| dd.secondary_scaling as u64` of secondary_pow_scaling are lifted and verified as named functions; the std shells `slice.iter().filter(f).count()` and `slice.iter().map(f).sum()` are stood in for by the abstract DdIter / FilteredIter / MappedIter types (T6: `diff_data.iter()` => dd_iter(diff_data)) whose ASSUMED contracts say: filter keeps, in order, exactly the elements the predicate holds for; count is the length; map is pointwise; sum is the mathematical sum (precondition: it fits in u64 -- the real `.sum()` would panic in a debug build / wrap in release)
//@ assume: T6: `max` / `min` at u64 => verified local functions; u64::saturating_sub => verified local method-free form is NOT needed (vstd specification)
//@ assume: ranges (preconditions): the window holds at most 2^24 records (it holds 60) so that scale_sum * 90 fits in u64
//@ assume: decided here (C04, 'matching secondary scaling before version 5'): consensus::secondary_pow_ratio is exactly max(0, 90 - floor(height / 11648)); consensus::ar_count is exactly 100 times the number of SECONDARY records of the window; consensus::secondary_pow_scaling is total on the stated domain and returns EXACTLY max(13, floor(S * pct / max(1, A))) (whenever that fits in 32 bits) where S is the sum of the window's secondary scaling factors, pct the ratio at that height and A = clamp(damp(ar_count, 60 * pct, 13), 60 * pct, 2), with the real damp and clamp verified verbatim
//@ assumed_items: 6
//@ fns: consensus::secondary_pow_ratio, consensus::ar_count (+ closure), consensus::secondary_pow_scaling (+ closure), consensus::damp, consensus::clamp
//@ import: use vstd::arithmetic::div_mod::*;
//@ import: use vstd::arithmetic::mul::*;
pub const BLOCK_TIME_SEC: u64 = 60;
pub const HOUR_SEC: u64 = 60 * 60;
pub const HOUR_HEIGHT: u64 = HOUR_SEC / BLOCK_TIME_SEC;
//@ extract core/src/consensus.rs :: const DAY_HEIGHT
//@ end
//@ extract core/src/consensus.rs :: const WEEK_HEIGHT
//@ end
//@ extract core/src/consensus.rs :: const YEAR_HEIGHT
//@ end
//@ extract core/src/consensus.rs :: const DMA_WINDOW
//@ end
//@ extract core/src/consensus.rs :: const CLAMP_FACTOR
//@ end
//@ extract core/src/consensus.rs :: const AR_SCALE_DAMP_FACTOR
//@ end
//@ extract core/src/consensus.rs :: const MIN_AR_SCALE
//@ end
#[verifier::external_body]
pub struct Hash { _p: u8 }
#[derive(PartialEq, Eq, Structural, Clone, Copy)]
pub struct Difficulty { pub num: u64 }
impl Difficulty {
//@ extract core/src/pow/types.rs :: impl Difficulty::to_num
//@   ensures:
//@+    r == self.num,
//@ end
}
//@ extract core/src/consensus.rs :: struct HeaderDifficultyInfo
//@   pub_fields
//@ end
fn max(a: u64, b: u64) -> (r: u64) ensures r == (if a >= b { a } else { b }) { if a >= b { a } else { b } }
fn min(a: u64, b: u64) -> (r: u64) ensures r == (if a <= b { a } else { b }) { if a <= b { a } else { b } }

pub open spec fn sp_is_sec(x: HeaderDifficultyInfo) -> bool { x.is_secondary }
pub open spec fn sp_scale_of(x: HeaderDifficultyInfo) -> u64 { x.secondary_scaling as u64 }
pub open spec fn sec_pred() -> spec_fn(HeaderDifficultyInfo) -> bool { |x: HeaderDifficultyInfo| sp_is_sec(x) }
pub open spec fn scale_fn() -> spec_fn(HeaderDifficultyInfo) -> u64 { |x: HeaderDifficultyInfo| sp_scale_of(x) }
pub open spec fn usum(s: Seq<u64>) -> int decreases s.len() { if s.len() == 0 { 0 } else { usum(s.drop_last()) + s.last() as int } }
pub open spec fn sp_count_sec(w: Seq<HeaderDifficultyInfo>) -> nat { w.filter(sec_pred()).len() }
pub open spec fn sp_scale_sum(w: Seq<HeaderDifficultyInfo>) -> int { usum(w.map_values(scale_fn())) }
pub proof fn lemma_usum_bound(s: Seq<u64>, b: int)
    requires forall|i: int| 0 <= i < s.len() ==> (#[trigger] s[i]) as int <= b, b >= 0
    ensures 0 <= usum(s) <= s.len() * b
    decreases s.len()
{
    if s.len() > 0 {
        lemma_usum_bound(s.drop_last(), b);
        assert((s.len() - 1) * b + b == s.len() * b) by(nonlinear_arith);
    }
}
pub proof fn lemma_count_le(w: Seq<HeaderDifficultyInfo>)
    ensures sp_count_sec(w) <= w.len()
{ w.filter_lemma(sec_pred()); }

pub struct IsSec {}
pub struct ScaleOf {}
pub struct DdIter { pub items: Ghost<Seq<HeaderDifficultyInfo>> }
pub struct FilteredIter { pub items: Ghost<Seq<HeaderDifficultyInfo>> }
pub struct MappedIter { pub items: Ghost<Seq<u64>> }
#[verifier::external_body]
pub fn dd_iter(s: &[HeaderDifficultyInfo]) -> (r: DdIter) ensures r.items@ == s@ { unimplemented!() }
impl DdIter {
    /// Iterator::filter with the lifted predicate: keeps, in order, exactly the elements it holds for
    #[verifier::external_body]
    pub fn filter(self, f: IsSec) -> (r: FilteredIter) ensures r.items@ == self.items@.filter(sec_pred()) { unimplemented!() }
    /// Iterator::map with the lifted projection: pointwise
    #[verifier::external_body]
    pub fn map(self, f: ScaleOf) -> (r: MappedIter) ensures r.items@ == self.items@.map_values(scale_fn()) { unimplemented!() }
}
impl FilteredIter {
    #[verifier::external_body]
    pub fn count(self) -> (r: usize) ensures r == self.items@.len() { unimplemented!() }
}
impl MappedIter {
    #[verifier::external_body]
    pub fn sum(self) -> (r: u64) requires usum(self.items@) <= u64::MAX ensures r as int == usum(self.items@) { unimplemented!() }
}

pub open spec fn sp_damp(actual: int, goal: int, f: int) -> int { (actual + (f - 1) * goal) / f }
pub open spec fn sp_clamp(actual: int, goal: int, c: int) -> int { let lo = goal / c; let hi = if actual <= goal * c { actual } else { goal * c }; if lo >= hi { lo } else { hi } }
pub open spec fn sp_ratio(height: int) -> int { if height / 11648 >= 90 { 0 } else { 90 - height / 11648 } }
pub open spec fn sp_adj_count(height: int, w: Seq<HeaderDifficultyInfo>) -> int { sp_clamp(sp_damp(100 * (sp_count_sec(w) as int), 60 * sp_ratio(height), 13), 60 * sp_ratio(height), 2) }
pub open spec fn sp_scaling(height: int, w: Seq<HeaderDifficultyInfo>) -> int {
    let a = sp_adj_count(height, w);
    let q = sp_scale_sum(w) * sp_ratio(height) / (if a >= 1 { a } else { 1 });
    if q >= 13 { q } else { 13 }
}
//@ extract core/src/consensus.rs :: fn damp
//@   requires:
//@+    damp_factor >= 1, actual as int + (damp_factor - 1) * goal <= u64::MAX,
//@   ensures:
//@+    r as int == sp_damp(actual as int, goal as int, damp_factor as int),
//@   at_start:
//@+    proof { assert((damp_factor - 1) * goal >= 0) by(nonlinear_arith) requires damp_factor >= 1, goal >= 0; }
//@ end
//@ extract core/src/consensus.rs :: fn clamp
//@   requires:
//@+    clamp_factor >= 1, goal as int * clamp_factor <= u64::MAX,
//@   ensures:
//@+    r as int == sp_clamp(actual as int, goal as int, clamp_factor as int),
//@ end
//@ extract core/src/consensus.rs :: fn secondary_pow_ratio
//@   ensures:
//@+    r as int == sp_ratio(height as int), r <= 90,
//@ end
//@ extract core/src/consensus.rs :: fn ar_count
//@   eclosure 1 replaced_by `IsSec {}`
//@   rewrite `diff_data.iter()` => `dd_iter(diff_data)`
//@   requires:
//@+    diff_data@.len() <= 0x100_0000,
//@   ensures:
//@+    r as int == 100 * sp_count_sec(diff_data@),
//@   at_start:
//@+    proof { lemma_count_le(diff_data@); }
//@ end
//@ extract core/src/consensus.rs :: fn ar_count
//@   eclosure 1 lifted_as `fn is_sec(n: &&HeaderDifficultyInfo) -> bool`
//@   ensures:
//@+    r == sp_is_sec(**n),
//@ end
//@ extract core/src/consensus.rs :: fn secondary_pow_scaling
//@   eclosure 1 replaced_by `ScaleOf {}`
//@   rewrite `diff_data.iter()` => `dd_iter(diff_data)`
//@   requires:
//@+    diff_data@.len() <= 0x100_0000,
//@   ensures:
//@+    sp_scaling(height as int, diff_data@) <= u32::MAX ==> r as int == sp_scaling(height as int, diff_data@),
//@   at_start:
//@+    proof {
//@+        lemma_count_le(diff_data@);
//@+        let m = diff_data@.map_values(scale_fn());
//@+        assert forall|i: int| 0 <= i < m.len() implies (#[trigger] m[i]) as int <= 0xffff_ffff by { }
//@+        lemma_usum_bound(m, 0xffff_ffff);
//@+        assert(m.len() * 0xffff_ffff <= 0x100_0000 * 0xffff_ffff) by(nonlinear_arith) requires m.len() <= 0x100_0000;
//@+    }
//@   before `let scale = `:
//@+    proof { assert(scale_sum * target_pct <= 0x100_0000 * 0xffff_ffff * 90) by(nonlinear_arith) requires scale_sum <= 0x100_0000 * 0xffff_ffff, target_pct <= 90; }
//@ end
//@ extract core/src/consensus.rs :: fn secondary_pow_scaling
//@   eclosure 1 lifted_as `fn scale_of(dd: &HeaderDifficultyInfo) -> u64`
//@   ensures:
//@+    r == sp_scale_of(*dd),
//@ end
//@ canary secondary_pow_scaling: r == 13
//@ canary ar_count: r == 0
//@ canary secondary_pow_ratio: r == 90
