//@ assume: the header store (ChainStore or a Batch on it, LMDB behind both) is ONE uninterpreted partial map from hash to header: get_block_header_skip_proof(h) answers the stored header or an error, get_previous_header_skip_proof(x) is the same read at x.prev_hash (chain/src/store.rs: two one-line wrappers); headers are plain data here (hash of the previous header, total difficulty, timestamp, secondary scaling, whether the proof is a secondary one); T5: `impl Iterator for DifficultyIter` => inherent; the lifetime parameter dropped
//@ assume: T6: `if let Some(ref x) = self.f` => `if let Some(x) = &self.f`; `.clone()` on Copy values dropped; `.map_or(Difficulty::zero(), |x| x.total_difficulty())` => td_or_zero (the same two cases); `a - b` on Difficulty => `a.sub(b)` with the real `sub` extracted as an inherent method (its subtraction is an obligation: see the precondition); `header.timestamp.timestamp() as u64` over an abstract DateTime
//@ assume: range (precondition, true on a validated chain): total difficulty never decreases from a stored header to its child (otherwise `total - previous total` underflows: a debug-build panic)
//@ assume: decided here (C04, 'increase == network retarget over the parent's ancestors'): DifficultyIter::next -- what feeds difficulty_data_to_vector -- yields on its first call the record of the START header and on every later call the record of the header stored under the previous record's `prev_hash`, i.e. it walks the ancestors of the start hash one step at a time, newest first, and ends exactly when a header is not in the store; each record carries THAT header's hash, timestamp, secondary scaling and is-secondary flag, and as difficulty its total difficulty MINUS its own parent's total (its whole total when the parent is not stored)
//@ assumed_items: 4
//@ fns: DifficultyIter::next, Difficulty::sub
#[derive(Clone, Copy, PartialEq, Eq)]
pub struct Hash { pub v: u64 }
#[derive(Clone, Copy, PartialEq, Eq)]
pub struct Difficulty { pub num: u64 }
impl Difficulty {
    pub fn zero() -> (r: Difficulty) ensures r.num == 0 { Difficulty { num: 0 } }
//@ extract core/src/pow/types.rs :: impl Sub<Difficulty> for Difficulty::sub
//@   requires:
//@+    self.num >= other.num,
//@   ensures:
//@+    r.num == self.num - other.num,
//@ end
}
#[derive(Clone, Copy, PartialEq, Eq)]
pub struct DateTime { pub secs: i64 }
impl DateTime { pub fn timestamp(&self) -> (r: i64) ensures r == self.secs { self.secs } }
#[derive(Clone, Copy, PartialEq, Eq)]
pub struct ProofOfWork { pub total_difficulty: Difficulty, pub secondary_scaling: u32, pub secondary: bool }
impl ProofOfWork { pub fn is_secondary(&self) -> (r: bool) ensures r == self.secondary { self.secondary } }
#[derive(Clone, Copy, PartialEq, Eq)]
pub struct BlockHeader { pub prev_hash: Hash, pub timestamp: DateTime, pub pow: ProofOfWork }
impl BlockHeader { pub fn total_difficulty(&self) -> (r: Difficulty) ensures r == self.pow.total_difficulty { self.pow.total_difficulty } }
pub enum Error { NotFound }
pub uninterp spec fn sp_get(h: Hash) -> Option<BlockHeader>;
pub struct Batch { pub _p: u8 }
pub struct ChainStore { pub _p: u8 }
impl Batch {
    #[verifier::external_body]
    pub fn get_block_header_skip_proof(&self, h: &Hash) -> (r: Result<BlockHeader, Error>) ensures (r matches Ok(x) ==> sp_get(*h) == Some(x)), (r is Err ==> sp_get(*h) is None) { unimplemented!() }
    #[verifier::external_body]
    pub fn get_previous_header_skip_proof(&self, x: &BlockHeader) -> (r: Result<BlockHeader, Error>) ensures (r matches Ok(p) ==> sp_get(x.prev_hash) == Some(p)), (r is Err ==> sp_get(x.prev_hash) is None) { unimplemented!() }
}
impl ChainStore {
    #[verifier::external_body]
    pub fn get_block_header_skip_proof(&self, h: &Hash) -> (r: Result<BlockHeader, Error>) ensures (r matches Ok(x) ==> sp_get(*h) == Some(x)), (r is Err ==> sp_get(*h) is None) { unimplemented!() }
    #[verifier::external_body]
    pub fn get_previous_header_skip_proof(&self, x: &BlockHeader) -> (r: Result<BlockHeader, Error>) ensures (r matches Ok(p) ==> sp_get(x.prev_hash) == Some(p)), (r is Err ==> sp_get(x.prev_hash) is None) { unimplemented!() }
}
pub fn td_or_zero(h: Option<BlockHeader>) -> (r: Difficulty) ensures r.num == (match h { Some(x) => x.pow.total_difficulty.num, None => 0 })
{ match h { Some(x) => x.total_difficulty(), None => Difficulty::zero() } }
//@ extract core/src/consensus.rs :: struct HeaderDifficultyInfo
//@   pub_fields
//@ end
impl HeaderDifficultyInfo {
//@ extract core/src/consensus.rs :: impl HeaderDifficultyInfo::new
//@   ensures:
//@+    r.hash == hash, r.timestamp == timestamp, r.difficulty == difficulty, r.secondary_scaling == secondary_scaling, r.is_secondary == is_secondary,
//@ end
}
pub struct DifficultyIter { pub start: Hash, pub store: Option<ChainStore>, pub batch: Option<Batch>, pub header: Option<BlockHeader>, pub prev_header: Option<BlockHeader>, pub prev_header_hash: Option<Hash> }
/// the record of the header stored under `hash`
pub open spec fn info_ok(i: HeaderDifficultyInfo, hash: Hash, h: BlockHeader) -> bool {
    i.hash == Some(hash) && i.timestamp == h.timestamp.secs as u64 && i.secondary_scaling == h.pow.secondary_scaling && i.is_secondary == h.pow.secondary
    && i.difficulty.num == h.pow.total_difficulty.num - (match sp_get(h.prev_hash) { Some(p) => p.pow.total_difficulty.num as int, None => 0 })
}
impl DifficultyIter {
    /// read-ahead state: once a header has been yielded, the next one (stored under its prev_hash) is already held
    pub open spec fn wf(&self) -> bool {
        (self.store is Some || self.batch is Some)
        && (self.header matches Some(h) ==> self.prev_header == sp_get(h.prev_hash) && self.prev_header_hash == Some(h.prev_hash))
    }
    /// the hash whose header the next call yields
    pub open spec fn upcoming(&self) -> Hash { match self.header { None => self.start, Some(h) => h.prev_hash } }
//@ extract chain/src/store.rs :: impl Iterator for DifficultyIter::next
//@   sigrewrite `-> Option<Self::Item>` => `-> Option<HeaderDifficultyInfo>`
//@   rewrite `if let Some(ref batch) = self.batch {` => `if let Some(batch) = &self.batch {`
//@   rewrite `} else if let Some(ref store) = self.store {` => `} else if let Some(store) = &self.store {`
//@   rewrite `(self.prev_header.clone(), self.prev_header_hash)` => `(self.prev_header, self.prev_header_hash)`
//@   rewrite `if let Some(header) = self.header.clone() {` => `if let Some(header) = self.header {`
//@   rewrite `let prev_difficulty = self\n\t\t\t\t.prev_header\n\t\t\t\t.clone()\n\t\t\t\t.map_or(Difficulty::zero(), |x| x.total_difficulty());` => `let prev_difficulty = td_or_zero(self.prev_header);`
//@   rewrite `header.total_difficulty() - prev_difficulty` => `header.total_difficulty().sub(prev_difficulty)`
//@   requires:
//@+    old(self).wf(),
//@+    forall|h: Hash| (#[trigger] sp_get(h)) matches Some(x) ==> (sp_get(x.prev_hash) matches Some(p) ==> p.pow.total_difficulty.num <= x.pow.total_difficulty.num),
//@   ensures:
//@+    final(self).wf(), final(self).start == old(self).start,
//@+    r matches Some(i) ==> (sp_get(old(self).upcoming()) matches Some(h) && info_ok(i, old(self).upcoming(), h) && final(self).header == Some(h)),
//@+    r is None ==> sp_get(old(self).upcoming()) is None,
//@ end
}
//@ canary next: r is None
