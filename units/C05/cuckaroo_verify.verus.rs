//@ assume: siphash_block is an uninterpreted function of (keys, nonce); the two endpoints are its low and high halves masked to the node range -- SipHash itself is outside; CuckooParams keeps its real fields; Proof is reduced to its nonce vector; global::proofsize() is an uninterpreted constant in 1..=2^20
//@ assume: T6 rewrites: `vec![x; n]` => helper vec_filled (n copies of x); every `Err(Error::Verification("<message>".to_owned()))` => `Err(Error::<Kind>)`, one abstract kind per message, so that the contract can say WHY the input checks fail; integer literal types made explicit; `for n in 0..size` loops get spliced invariants
//@ assume: termination IS proved (no exec_allows_no_decreases_clause): the outer walk visits distinct endpoints (injective step + pigeonhole), so it takes fewer than 2*size steps; the inner walk goes once round the circular bucket list (measure: not-yet-wrapped flag, then the cursor)
//@ assume: assumed: u64::leading_zeros(x) >= 1 for x < 2^63 (std intrinsic; only used to show `1 + mask` cannot overflow)
//@ assume: decided here, for ANY proof size and any siphash outputs (no bound): CuckarooContext::verify (Cuckaroo, the pre-hard-fork ASIC-resistant proof of work; bipartite graph, U endpoints at even and V endpoints at odd positions, two endpoints meet at a node when they are on the same side and carry the same value) never indexes out of range, and returns Ok ONLY IF the 2*size endpoints form one simple cycle through all `size` edges: starting from endpoint 0 and repeatedly moving to the UNIQUE other endpoint at the same node and then to the other end of that edge, the walk returns to endpoint 0 for the first time after exactly `size` steps, every node met has exactly two endpoints, all visited endpoints are distinct; plus nonces strictly ascending and within the edge mask. Every error except the xor pre-check carries its reason: wrong-length / edge-too-big / not-ascending are returned only for that reason; 'branch' only if three distinct endpoints share a node; 'dead end' only if some endpoint has no partner; 'too short' only if the walk from endpoint 0 closes after m != size steps -- each of which is incompatible with the endpoints forming one simple cycle through all edges. (Not decided: that the xor pre-check 'endpoints don't match up' never fires on a simple cycle -- the pairing argument over xor -- so completeness is decided up to that check.)
//@ assume: 64-bit target
//@ assumed_items: 5
//@ fns: CuckarooContext::verify
use vstd::std_specs::bits::*;
global size_of usize == 8;
pub enum Error { WrongLen, TooBig, NotAscending, Endpoints, Branch, DeadEnd, TooShort }
/// assumed property of the std intrinsic: a value below 2^63 has a leading zero
#[verifier::external_body]
proof fn axiom_lz_pos(x: u64) requires x < 0x8000_0000_0000_0000u64 ensures u64_leading_zeros(x) >= 1 { }
pub struct Proof { pub nonces: Vec<u64> }
impl Proof { pub fn proof_size(&self) -> (r: usize) ensures r == self.nonces@.len() { self.nonces.len() } }
pub struct CuckooParams { pub proof_size: usize, pub num_edges: u64, pub siphash_keys: [u64; 4], pub edge_mask: u64, pub node_mask: u64 }
pub uninterp spec fn sp_siphash(keys: [u64; 4], nonce: u64) -> u64;
#[verifier::external_body]
fn siphash_block(keys: &[u64; 4], nonce: u64, rot_e: u8, xor_all: bool) -> (r: u64) ensures r == sp_siphash(*keys, nonce) { unimplemented!() }
pub uninterp spec fn sp_proofsize() -> usize;
pub mod global { use super::*;
    #[verifier::external_body]
    pub fn proofsize() -> (r: usize) ensures r == sp_proofsize(), 1 <= r <= 0x10_0000 { unimplemented!() } }
#[verifier::external_body]
fn vec_filled_u64(x: u64, n: usize) -> (r: Vec<u64>) ensures r@.len() == n, forall|i: int| 0 <= i < n ==> r@[i] == x { unimplemented!() }
#[verifier::external_body]
fn vec_filled_usize(x: usize, n: usize) -> (r: Vec<usize>) ensures r@.len() == n, forall|i: int| 0 <= i < n ==> r@[i] == x { unimplemented!() }

// ---------- bucket lists ----------

// ---------- bucket lists ----------
// --- variant: bipartite (even endpoints are U nodes, odd endpoints V nodes); SH = low bits dropped before comparing ---
pub open spec fn key(uvs: Seq<u64>, e: int) -> int { 2 * ((uvs[e] >> 0u64) as int) + e % 2 }
pub open spec fn bk(uvs: Seq<u64>, mask: u64, e: int) -> int { 2 * (((uvs[e] >> 0u64) & mask) as int) + e % 2 }
pub open spec fn hlen(mask: u64) -> int { 2 * (mask + 1) }
proof fn lemma_key_bk(uvs: Seq<u64>, mask: u64, a: int, b: int) requires key(uvs, a) == key(uvs, b) ensures bk(uvs, mask, a) == bk(uvs, mask, b) {
    assert(a % 2 == b % 2 && (uvs[a] >> 0u64) == (uvs[b] >> 0u64)) by {
        let x = (uvs[a] >> 0u64) as int; let y = (uvs[b] >> 0u64) as int;
        assert(2 * x + a % 2 == 2 * y + b % 2);
        assert(0 <= a % 2 < 2 && 0 <= b % 2 < 2);
    }
}
proof fn lemma_bk_range(uvs: Seq<u64>, mask: u64, e: int) ensures 0 <= bk(uvs, mask, e) < hlen(mask) { let u = uvs[e] >> 0u64; assert((u & mask) <= mask) by(bit_vector); }
/// the two head arrays seen as one: bucket 2*bits + parity
pub open spec fn hc(headu: Seq<usize>, headv: Seq<usize>) -> Seq<usize> { Seq::new((2 * headu.len()) as nat, |b: int| if b % 2 == 0 { headu[b / 2] } else { headv[b / 2] }) }
proof fn lemma_hc_u(headu: Seq<usize>, headv: Seq<usize>, bits: int, m: usize)
    requires headu.len() == headv.len(), 0 <= bits < headu.len()
    ensures hc(headu.update(bits, m), headv) =~= hc(headu, headv).update(2 * bits, m), hc(headu, headv)[2 * bits] == headu[bits] { }
proof fn lemma_hc_v(headu: Seq<usize>, headv: Seq<usize>, bits: int, m: usize)
    requires headu.len() == headv.len(), 0 <= bits < headv.len()
    ensures hc(headu, headv.update(bits, m)) =~= hc(headu, headv).update(2 * bits + 1, m), hc(headu, headv)[2 * bits + 1] == headv[bits] { }

pub open spec fn member(uvs: Seq<u64>, mask: u64, b: int, e: int) -> bool { 0 <= e < uvs.len() && bk(uvs, mask, e) == b }
/// p is the largest member of bucket b strictly below `below`
pub open spec fn is_prev_in_bucket(uvs: Seq<u64>, mask: u64, b: int, below: int, p: int) -> bool {
    0 <= p < below && member(uvs, mask, b, p) && forall|x: int| p < x < below && 0 <= x < uvs.len() ==> #[trigger] bk(uvs, mask, x) != b
}
pub open spec fn none_in_bucket(uvs: Seq<u64>, mask: u64, b: int, below: int) -> bool {
    forall|x: int| 0 <= x < below && x < uvs.len() ==> #[trigger] bk(uvs, mask, x) != b
}
/// state of the head/prev lists after the first m endpoints were inserted (sentinel = nn)
pub open spec fn lists_ok(uvs: Seq<u64>, mask: u64, head: Seq<usize>, prev: Seq<usize>, nn: int, m: int) -> bool {
    &&& uvs.len() == nn && prev.len() == nn && head.len() == hlen(mask) && 0 <= m <= nn
    &&& forall|b: int| 0 <= b < hlen(mask) ==> (if #[trigger] head[b] == nn { none_in_bucket(uvs, mask, b, m) } else { is_prev_in_bucket(uvs, mask, b, m, head[b] as int) })
    &&& forall|e: int| 0 <= e < m ==> (if #[trigger] prev[e] == nn { none_in_bucket(uvs, mask, bk(uvs, mask, e), e) } else { is_prev_in_bucket(uvs, mask, bk(uvs, mask, e), e, prev[e] as int) })
}

/// inserting endpoint m with value val
proof fn lemma_insert(uvs: Seq<u64>, mask: u64, head: Seq<usize>, prev: Seq<usize>, nn: int, m: int, val: u64)
    requires lists_ok(uvs, mask, head, prev, nn, m), m < nn, nn < usize::MAX,
    ensures ({ let b = bk(uvs.update(m, val), mask, m);
               0 <= b < hlen(mask) && lists_ok(uvs.update(m, val), mask, head.update(b, m as usize), prev.update(m, head[b]), nn, m + 1) })
{
    lemma_bk_range(uvs.update(m, val), mask, m);
    let b = bk(uvs.update(m, val), mask, m);
    let uvs2 = uvs.update(m, val); let head2 = head.update(b, m as usize); let prev2 = prev.update(m, head[b]);
    assert forall|bb: int| 0 <= bb < hlen(mask) implies (if #[trigger] head2[bb] == nn { none_in_bucket(uvs2, mask, bb, m + 1) } else { is_prev_in_bucket(uvs2, mask, bb, m + 1, head2[bb] as int) }) by {
        if bb == b {
            assert(head2[bb] == m);
            assert(uvs2[m] == val); assert(bk(uvs2, mask, m) == b);
        } else {
            assert(head2[bb] == head[bb]);
            if head[bb] == nn {
                assert forall|x: int| 0 <= x < m + 1 && x < uvs2.len() implies #[trigger] bk(uvs2, mask, x) != bb by { if x < m { assert(uvs2[x] == uvs[x]); assert(bk(uvs2, mask, x) == bk(uvs, mask, x)); } }
            } else {
                let p = head[bb] as int;
                assert(uvs2[p] == uvs[p]); assert(bk(uvs2, mask, p) == bk(uvs, mask, p));
                assert forall|x: int| p < x < m + 1 && 0 <= x < uvs2.len() implies #[trigger] bk(uvs2, mask, x) != bb by { if x < m { assert(uvs2[x] == uvs[x]); assert(bk(uvs2, mask, x) == bk(uvs, mask, x)); } }
            }
        }
    }
    assert forall|e: int| 0 <= e < m + 1 implies (if #[trigger] prev2[e] == nn { none_in_bucket(uvs2, mask, bk(uvs2, mask, e), e) } else { is_prev_in_bucket(uvs2, mask, bk(uvs2, mask, e), e, prev2[e] as int) }) by {
        if e < m {
            assert(prev2[e] == prev[e]); assert(uvs2[e] == uvs[e]); assert(bk(uvs2, mask, e) == bk(uvs, mask, e));
            let be = bk(uvs, mask, e);
            if prev[e] == nn {
                assert forall|x: int| 0 <= x < e && x < uvs2.len() implies #[trigger] bk(uvs2, mask, x) != be by { assert(uvs2[x] == uvs[x]); assert(bk(uvs2, mask, x) == bk(uvs, mask, x)); }
            } else {
                let p = prev[e] as int;
                assert(uvs2[p] == uvs[p]); assert(bk(uvs2, mask, p) == bk(uvs, mask, p));
                assert forall|x: int| p < x < e && 0 <= x < uvs2.len() implies #[trigger] bk(uvs2, mask, x) != be by { assert(uvs2[x] == uvs[x]); assert(bk(uvs2, mask, x) == bk(uvs, mask, x)); }
            }
        } else {
            assert(prev2[m] == head[b]); assert(uvs2[m] == val); assert(bk(uvs2, mask, m) == b);
            if head[b] == nn {
                assert forall|x: int| 0 <= x < m && x < uvs2.len() implies #[trigger] bk(uvs2, mask, x) != b by { assert(uvs2[x] == uvs[x]); assert(bk(uvs2, mask, x) == bk(uvs, mask, x)); }
            } else {
                let p = head[b] as int;
                assert(uvs2[p] == uvs[p]); assert(bk(uvs2, mask, p) == bk(uvs, mask, p));
                assert forall|x: int| p < x < m && 0 <= x < uvs2.len() implies #[trigger] bk(uvs2, mask, x) != b by { assert(uvs2[x] == uvs[x]); assert(bk(uvs2, mask, x) == bk(uvs, mask, x)); }
            }
        }
    }
}

// ---------- circular predecessor ----------
/// p is the cyclic predecessor of e inside e's bucket: the largest member below e, or (when e is the smallest member) the largest member overall
pub open spec fn circ(uvs: Seq<u64>, mask: u64, e: int, p: int) -> bool {
    let b = bk(uvs, mask, e);
    &&& member(uvs, mask, b, p)
    &&& ( (p < e && forall|x: int| p < x < e ==> #[trigger] bk(uvs, mask, x) != b)
       || (p >= e && (forall|x: int| 0 <= x < e ==> #[trigger] bk(uvs, mask, x) != b) && (forall|x: int| p < x < uvs.len() ==> #[trigger] bk(uvs, mask, x) != b)) )
}
/// during the "make prev lists circular" pass: entries below n are circular, the others still as built
pub open spec fn mixed_ok(uvs: Seq<u64>, mask: u64, head: Seq<usize>, prev: Seq<usize>, nn: int, n: int) -> bool {
    &&& uvs.len() == nn && prev.len() == nn && head.len() == hlen(mask) && 0 <= n <= nn
    &&& forall|b: int| 0 <= b < hlen(mask) ==> (if #[trigger] head[b] == nn { none_in_bucket(uvs, mask, b, nn) } else { is_prev_in_bucket(uvs, mask, b, nn, head[b] as int) })
    &&& forall|e: int| n <= e < nn ==> (if #[trigger] prev[e] == nn { none_in_bucket(uvs, mask, bk(uvs, mask, e), e) } else { is_prev_in_bucket(uvs, mask, bk(uvs, mask, e), e, prev[e] as int) })
    &&& forall|e: int| 0 <= e < n ==> 0 <= #[trigger] prev[e] < nn && circ(uvs, mask, e, prev[e] as int)
}
proof fn lemma_lists_to_mixed(uvs: Seq<u64>, mask: u64, head: Seq<usize>, prev: Seq<usize>, nn: int)
    requires lists_ok(uvs, mask, head, prev, nn, nn) ensures mixed_ok(uvs, mask, head, prev, nn, 0) { }

proof fn lemma_circ_step(uvs: Seq<u64>, mask: u64, head: Seq<usize>, prev: Seq<usize>, nn: int, n: int)
    requires mixed_ok(uvs, mask, head, prev, nn, n), n < nn,
    ensures ({ let b = bk(uvs, mask, n);
               0 <= b < hlen(mask) && mixed_ok(uvs, mask, head, if prev[n] == nn { prev.update(n, head[b]) } else { prev }, nn, n + 1) })
{
    lemma_bk_range(uvs, mask, n);
    let b = bk(uvs, mask, n);
    let prev2 = if prev[n] == nn { prev.update(n, head[b]) } else { prev };
    // n itself is a member of b, so head[b] is a real endpoint: the largest member overall
    if head[b] == nn { assert(bk(uvs, mask, n) != b); }
    let hb = head[b] as int;
    assert(is_prev_in_bucket(uvs, mask, b, nn, hb));
    assert forall|e: int| 0 <= e < n + 1 implies 0 <= #[trigger] prev2[e] < nn && circ(uvs, mask, e, prev2[e] as int) by {
        if e < n { assert(prev2[e] == prev[e]); }
        else {
            if prev[n] == nn {
                assert(prev2[n] == head[b]);
                if hb < n { assert(bk(uvs, mask, hb) != b); }
            } else {
                assert(is_prev_in_bucket(uvs, mask, b, n, prev[n] as int));
            }
        }
    }
    assert forall|e: int| n + 1 <= e < nn implies (if #[trigger] prev2[e] == nn { none_in_bucket(uvs, mask, bk(uvs, mask, e), e) } else { is_prev_in_bucket(uvs, mask, bk(uvs, mask, e), e, prev2[e] as int) }) by { assert(prev2[e] == prev[e]); }
}

// ---------- following one bucket list ----------
/// endpoint e has been compared with i so far (k = current list cursor)
pub open spec fn exam(uvs: Seq<u64>, mask: u64, i: int, k: int, wrapped: bool, e: int) -> bool {
    member(uvs, mask, bk(uvs, mask, i), e) && e != i && (if !wrapped { k <= e < i } else { e < i || e >= k })
}
pub open spec fn minv(uvs: Seq<u64>, mask: u64, i: int, k: int, j: int, wrapped: bool) -> bool {
    &&& 0 <= i < uvs.len() && 0 <= k < uvs.len() && 0 <= j < uvs.len()
    &&& member(uvs, mask, bk(uvs, mask, i), k)
    &&& (!wrapped ==> k <= i) && (wrapped ==> k > i)
    &&& (j == i ==> forall|e: int| #[trigger] exam(uvs, mask, i, k, wrapped, e) ==> key(uvs, e) != key(uvs, i))
    &&& (j != i ==> exam(uvs, mask, i, k, wrapped, j) && key(uvs, j) == key(uvs, i) && forall|e: int| #[trigger] exam(uvs, mask, i, k, wrapped, e) && e != j ==> key(uvs, e) != key(uvs, i))
}
/// j is THE other endpoint carrying i's node (or j == i: there is none)
pub open spec fn uniq(uvs: Seq<u64>, i: int, j: int) -> bool {
    if j == i { forall|e: int| 0 <= e < uvs.len() && e != i ==> #[trigger] key(uvs, e) != key(uvs, i) }
    else { 0 <= j < uvs.len() && key(uvs, j) == key(uvs, i) && forall|e: int| 0 <= e < uvs.len() && e != i && e != j ==> #[trigger] key(uvs, e) != key(uvs, i) }
}
proof fn lemma_inner_step(uvs: Seq<u64>, mask: u64, i: int, k: int, j: int, wrapped: bool, k2: int)
    requires minv(uvs, mask, i, k, j, wrapped), 0 <= k2 < uvs.len(), circ(uvs, mask, k, k2),
    ensures k2 == i ==> uniq(uvs, i, j),
            k2 != i && key(uvs, k2) != key(uvs, i) ==> minv(uvs, mask, i, k2, j, wrapped || k2 >= k),
            k2 != i && key(uvs, k2) == key(uvs, i) && j == i ==> minv(uvs, mask, i, k2, k2, wrapped || k2 >= k),
            k2 != i ==> !exam(uvs, mask, i, k, wrapped, k2),
            wrapped ==> k2 < k,
{
    let b = bk(uvs, mask, i);
    let w2 = wrapped || k2 >= k;
    assert(bk(uvs, mask, k) == b);
    if wrapped && k2 >= k { assert(bk(uvs, mask, i) != b); }
    if k2 != i {
        // k2 is the cyclic predecessor of k: it has not been compared yet
        if k2 < k { if wrapped && k2 < i { assert(bk(uvs, mask, i) != b); } }
        else { if wrapped { assert(bk(uvs, mask, i) != b); } if k2 < i { assert(bk(uvs, mask, i) != b); } }
    }
    // the examined set grows by exactly k2 (when k2 != i); when k2 == i everything but i has been examined
    if k2 == i {
        assert forall|e: int| 0 <= e < uvs.len() && e != i && key(uvs, e) == key(uvs, i) implies exam(uvs, mask, i, k, wrapped, e) by {
            lemma_key_bk(uvs, mask, e, i);
            assert(bk(uvs, mask, e) == b);
            if k2 < k { /* wrapped: no member strictly between i and k */ if !wrapped { assert(k <= i); } if e > i && e < k { assert(bk(uvs, mask, e) != b); } }
            else { /* k2 >= k: k is the smallest member, k2 = i the largest */ if e < k { assert(bk(uvs, mask, e) != b); } if e > i { assert(bk(uvs, mask, e) != b); } }
        }
    } else {
        assert forall|e: int| exam(uvs, mask, i, k2, w2, e) <==> (exam(uvs, mask, i, k, wrapped, e) || e == k2) by {
            if k2 < k {
                if !wrapped { if e >= k2 && e < k && e != k2 { assert(bk(uvs, mask, e) != b); } }
                else { if k2 < i { assert(bk(uvs, mask, i) != b); } if e >= k2 && e < k && e != k2 { assert(bk(uvs, mask, e) != b); } }
            } else {
                // wrap: k smallest member, k2 largest
                if wrapped { assert(bk(uvs, mask, i) != b); }
                if e < k { if member(uvs, mask, b, e) { assert(bk(uvs, mask, e) != b); } }
                if e > k2 { if member(uvs, mask, b, e) { assert(bk(uvs, mask, e) != b); } }
                if k2 < i { assert(bk(uvs, mask, i) != b); }
            }
        }
        if k2 < k && wrapped && k2 < i { assert(bk(uvs, mask, i) != b); }
        if k2 >= k && k2 < i { assert(bk(uvs, mask, i) != b); }
    }
}

// ---------- the walk ----------
pub open spec fn flip1(j: int) -> int { if j % 2 == 0 { j + 1 } else { j - 1 } }
proof fn lemma_xor1(j: usize) requires j < 0x7fff_ffff_ffff_ffff ensures (j ^ 1usize) as int == flip1(j as int) {
    let x = j as u64;
    assert((x ^ 1u64) == (if x % 2 == 0 { (x + 1) as u64 } else { (x - 1) as u64 })) by(bit_vector) requires x < 0x7fff_ffff_ffff_ffffu64;
    assert((j ^ 1usize) as u64 == x ^ 1u64) by(bit_vector) requires x == j as u64;
}
/// the closed-or-open walk: path[0] == 0, every visited endpoint has exactly one partner js[t], the next endpoint is the other end of the partner's edge
pub open spec fn walk_ok(uvs: Seq<u64>, path: Seq<int>, js: Seq<int>) -> bool {
    &&& path.len() >= 1 && js.len() == path.len() - 1 && path[0] == 0
    &&& forall|t: int| 0 <= t < path.len() ==> 0 <= #[trigger] path[t] < uvs.len()
    &&& forall|t: int| 0 <= t < js.len() ==> #[trigger] js[t] != path[t] && uniq(uvs, path[t], js[t]) && path[t + 1] == flip1(js[t])
    &&& path.no_duplicates()
}
proof fn lemma_walk_extend(uvs: Seq<u64>, path: Seq<int>, js: Seq<int>, j: int)
    requires walk_ok(uvs, path, js), uvs.len() % 2 == 0, j != path.last(), uniq(uvs, path.last(), j), flip1(j) != 0,
    ensures walk_ok(uvs, path.push(flip1(j)), js.push(j))
{
    let i2 = flip1(j);
    let p2 = path.push(i2); let j2 = js.push(j);
    let last = path.last();
    assert(0 <= j < uvs.len());
    // i2 is new: otherwise two visited endpoints would share the partner j
    assert forall|t: int| 0 <= t < path.len() implies path[t] != i2 by {
        if path[t] == i2 {
            assert(t >= 1);
            assert(path[t] == flip1(js[t - 1]));
            assert(js[t - 1] == j);
            let x = path[t - 1];
            // uniq(x, j) and uniq(last, j): uvs[x] == uvs[j] == uvs[last]
            assert(key(uvs, x) == key(uvs, last));
            if x != last { assert(x != j); assert(key(uvs, x) != key(uvs, last)); }
            assert(path[t - 1] == path[path.len() - 1]);
        }
    }
    assert(p2.no_duplicates()) by {
        assert forall|a: int, b: int| 0 <= a < p2.len() && 0 <= b < p2.len() && a != b implies p2[a] != p2[b] by {
            if a < path.len() && b < path.len() { assert(p2[a] == path[a] && p2[b] == path[b]); }
        }
    }
    assert forall|t: int| 0 <= t < j2.len() implies #[trigger] j2[t] != p2[t] && uniq(uvs, p2[t], j2[t]) && p2[t + 1] == flip1(j2[t]) by {
        if t < js.len() { assert(j2[t] == js[t]); assert(p2[t] == path[t]); assert(p2[t + 1] == path[t + 1]); }
    }
}
/// distinct endpoints below nn: at most nn of them
proof fn lemma_pigeon(path: Seq<int>, nn: int)
    requires path.no_duplicates(), forall|t: int| 0 <= t < path.len() ==> 0 <= #[trigger] path[t] < nn, nn >= 0
    ensures path.len() <= nn
{
    let s = path.to_set();
    path.unique_seq_to_set();
    let r = vstd::set_lib::set_int_range(0, nn);
    vstd::set_lib::lemma_int_range(0, nn);
    assert(s.subset_of(r)) by {
        assert forall|x: int| s.contains(x) implies r.contains(x) by {
            let t = choose|t: int| 0 <= t < path.len() && path[t] == x;
            assert(0 <= path[t] < nn);
        }
    }
    vstd::set_lib::lemma_len_subset(s, r);
}
/// what Ok means: one simple cycle through all `size` edges
pub open spec fn simple_cycle(uvs: Seq<u64>, size: int) -> bool {
    exists|path: Seq<int>, js: Seq<int>| walk_ok(uvs, path, js.drop_last()) && path.len() == size && js.len() == size
        && #[trigger] uniq(uvs, path.last(), js.last()) && js.last() != path.last() && flip1(js.last()) == 0
}
/// three distinct endpoints at one node: a branch
pub open spec fn three_at_node(uvs: Seq<u64>, a: int, b: int, c: int) -> bool {
    0 <= a < uvs.len() && 0 <= b < uvs.len() && 0 <= c < uvs.len() && a != b && a != c && b != c && key(uvs, a) == key(uvs, b) && key(uvs, a) == key(uvs, c)
}
/// endpoint a has no partner
pub open spec fn dead_end(uvs: Seq<u64>, a: int) -> bool { 0 <= a < uvs.len() && uniq(uvs, a, a) }
/// the endpoint values the verifier derives from the proof's nonces
pub open spec fn ep(p: CuckooParams, nonces: Seq<u64>, e: int) -> u64 {
    let edge = sp_siphash(p.siphash_keys, nonces[e / 2]);
    if e % 2 == 0 { edge & p.node_mask } else { (edge >> 32) & p.node_mask }
}
pub open spec fn endpoints(p: CuckooParams, nonces: Seq<u64>) -> Seq<u64> { Seq::new((2 * nonces.len()) as nat, |e: int| ep(p, nonces, e)) }
pub open spec fn filled(uvs: Seq<u64>, p: CuckooParams, nonces: Seq<u64>, upto: int) -> bool { forall|e: int| 0 <= e < upto ==> #[trigger] uvs[e] == ep(p, nonces, e) }
proof fn lemma_match(uvs: Seq<u64>, k: int, i: int)
    requires k % 2 == i % 2
    ensures (uvs[k] == uvs[i]) == (key(uvs, k) == key(uvs, i)) { let a = uvs[k]; let b = uvs[i]; assert(a >> 0u64 == a) by(bit_vector); assert(b >> 0u64 == b) by(bit_vector); }

pub struct CuckarooContext { pub params: CuckooParams }
impl CuckarooContext {
//@ extract core/src/pow/cuckaroo.rs :: impl PoWContext for CuckarooContext::verify
//@   sigrewrite `fn verify(&self, proof: &Proof)` => `pub fn verify(&self, proof: &Proof)`
//@   rewrite `return Err(Error::Verification("wrong cycle length".to_owned()).into());` => `return Err(Error::WrongLen);`
//@   rewrite `return Err(Error::Verification("edge too big".to_owned()));` => `return Err(Error::TooBig);`
//@   rewrite `return Err(Error::Verification("edges not ascending".to_owned()));` => `return Err(Error::NotAscending);`
//@   rewrite `return Err(Error::Verification("endpoints don't match up".to_owned()));` => `return Err(Error::Endpoints);`
//@   rewrite `return Err(Error::Verification("branch in cycle".to_owned()));` => `return Err(Error::Branch);`
//@   rewrite `return Err(Error::Verification("cycle dead ends".to_owned()));` => `return Err(Error::DeadEnd);`
//@   rewrite `Err(Error::Verification("cycle too short".to_owned()))` => `Err(Error::TooShort)`
//@   rewrite `let mut uvs = vec![0u64; 2 * size];` => `let mut uvs = vec_filled_u64(0u64, 2 * size);`
//@   rewrite `let mut headu = vec![2 * size; 1 + mask as usize];` => `let mut headu = vec_filled_usize(2 * size, 1 + mask as usize);`
//@   rewrite `let mut headv = vec![2 * size; 1 + mask as usize];` => `let mut headv = vec_filled_usize(2 * size, 1 + mask as usize);`
//@   rewrite `let mut prev = vec![0usize; 2 * size];` => `let mut prev = vec_filled_usize(0usize, 2 * size);`
//@   rewrite `let mut n = 0;` => `let mut n: usize = 0;`
//@   rewrite `let mut i = 0;` => `let mut i: usize = 0;`
//@   before `let mut headu = vec_filled_usize(`:
//@+    proof { let x = size as u64; axiom_lz_pos(x); let lz: u64 = u64_leading_zeros(x) as u64; axiom_u64_leading_zeros(x);
//@+            assert((u64::MAX >> lz) < u64::MAX) by(bit_vector) requires 1 <= lz <= 64; }
//@   before `#1:for n in 0..size {`:
//@+    let ghost nn: int = 2 * size;
//@+    proof { assert(lists_ok(uvs@, mask, hc(headu@, headv@), prev@, nn, 0)); }
//@   loop 1:
//@+    invariant
//@+        nn == 2 * size, size == proof.nonces@.len(), nonces@ == proof.nonces@, 1 <= size <= 0x10_0000, mask < u64::MAX,
//@+        headu@.len() == mask + 1, headv@.len() == mask + 1,
//@+        lists_ok(uvs@, mask, hc(headu@, headv@), prev@, nn, 2 * n), filled(uvs@, self.params, nonces@, 2 * n),
//@+        forall|a: int| 0 <= a < n ==> #[trigger] nonces@[a] <= self.params.edge_mask,
//@+        forall|a: int| 1 <= a < n ==> nonces@[a - 1] < #[trigger] nonces@[a],
//@   before `uvs[2 * n] = u;`:
//@+    let ghost (uvs0, hu0, hv0, prev0) = (uvs@, headu@, headv@, prev@);
//@+    proof { lemma_insert(uvs0, mask, hc(hu0, hv0), prev0, nn, 2 * n, u);
//@+            let ub = (u >> 0u64) & mask; assert(((u >> 0u64) & mask) == (u & mask)) by(bit_vector); assert(ub <= mask) by(bit_vector) requires ub == (u >> 0u64) & mask;
//@+            lemma_hc_u(hu0, hv0, ub as int, (2 * n) as usize);
//@+            assert(bk(uvs0.update(2 * n, u), mask, 2 * n) == 2 * (ub as int)); }
//@   before `uvs[2 * n + 1] = v;`:
//@+    let ghost (uvs1, hu1, hv1, prev1) = (uvs@, headu@, headv@, prev@);
//@+    proof { assert(uvs1 == uvs0.update(2 * n, u));
//@+            lemma_insert(uvs1, mask, hc(hu1, hv1), prev1, nn, 2 * n + 1, v);
//@+            let vb = (v >> 0u64) & mask; assert(((v >> 0u64) & mask) == (v & mask)) by(bit_vector); assert(vb <= mask) by(bit_vector) requires vb == (v >> 0u64) & mask;
//@+            lemma_hc_v(hu1, hv1, vb as int, (2 * n + 1) as usize);
//@+            assert(bk(uvs1.update(2 * n + 1, v), mask, 2 * n + 1) == 2 * (vb as int) + 1); }
//@   before `xor0 ^= u;`:
//@+    proof { assert(uvs@ == uvs1.update(2 * n + 1, v));
//@+            assert forall|e: int| 0 <= e < 2 * n + 2 implies #[trigger] uvs@[e] == ep(self.params, nonces@, e) by { if e < 2 * n { assert(uvs@[e] == uvs0[e]); } } }
//@   before `#2:for n in 0..size {`:
//@+    proof { lemma_lists_to_mixed(uvs@, mask, hc(headu@, headv@), prev@, nn); }
//@   loop 2:
//@+    invariant
//@+        nn == 2 * size, 1 <= size <= 0x10_0000, mask < u64::MAX, headu@.len() == mask + 1, headv@.len() == mask + 1,
//@+        size == proof.nonces@.len(), filled(uvs@, self.params, proof.nonces@, 2 * size), uvs@.len() == 2 * size,
//@+        mixed_ok(uvs@, mask, hc(headu@, headv@), prev@, nn, 2 * n),
//@   before `if prev[2 * n] == 2 * size {`:
//@+    proof { lemma_circ_step(uvs@, mask, hc(headu@, headv@), prev@, nn, 2 * n);
//@+            let uu = uvs@[2 * n]; let ub = (uu >> 0u64) & mask; assert(((uu >> 0u64) & mask) == (uu & mask)) by(bit_vector); assert(ub <= mask) by(bit_vector) requires ub == (uu >> 0u64) & mask;
//@+            assert(hc(headu@, headv@)[2 * (ub as int)] == headu@[ub as int]); }
//@   before `if prev[2 * n + 1] == 2 * size {`:
//@+    proof { lemma_circ_step(uvs@, mask, hc(headu@, headv@), prev@, nn, 2 * n + 1);
//@+            let vv = uvs@[2 * n + 1]; let vb = (vv >> 0u64) & mask; assert(((vv >> 0u64) & mask) == (vv & mask)) by(bit_vector); assert(vb <= mask) by(bit_vector) requires vb == (vv >> 0u64) & mask;
//@+            assert(hc(headu@, headv@)[2 * (vb as int) + 1] == headv@[vb as int]); }
//@   before `let mut n: usize = 0;`:
//@+    let ghost mut path: Seq<int> = seq![0int];
//@+    let ghost mut js: Seq<int> = Seq::empty();
//@+    let ghost mut jlast: int = 0;
//@+    proof { assert(uvs@ =~= endpoints(self.params, proof.nonces@)); }
//@+    let ghost hcf = hc(headu@, headv@);
//@   loop 3:
//@+    invariant_except_break
//@+        size == proof.nonces@.len(), filled(uvs@, self.params, proof.nonces@, 2 * size), uvs@.len() == 2 * size,
//@+        nn == 2 * size, 1 <= size <= 0x10_0000, mixed_ok(uvs@, mask, hcf, prev@, nn, nn),
//@+        walk_ok(uvs@, path, js), path.len() == n + 1, path.last() == i, uvs@ == endpoints(self.params, proof.nonces@), n < nn,
//@+    ensures
//@+        walk_ok(uvs@, path, js), path.len() == n, uniq(uvs@, path.last(), jlast), jlast != path.last(), flip1(jlast) == 0,
//@+    decreases nn - n,
//@   after `j = i;`:
//@+    let ghost mut wrapped: bool = false;
//@+    proof { lemma_pigeon(path, nn); }
//@   loop 4:
//@+    invariant_except_break
//@+        size == proof.nonces@.len(), uvs@.len() == 2 * size,
//@+        nn == 2 * size, 1 <= size <= 0x10_0000, mixed_ok(uvs@, mask, hcf, prev@, nn, nn), i < nn,
//@+        minv(uvs@, mask, i as int, k as int, j as int, wrapped), uvs@ == endpoints(self.params, proof.nonces@),
//@+    ensures
//@+        uniq(uvs@, i as int, j as int), j < nn,
//@+    decreases (if wrapped { 0int } else { 1int }), k,
//@   before `k = prev[k];`:
//@+    let ghost k0 = k;
//@   after `k = prev[k];`:
//@+    proof { lemma_inner_step(uvs@, mask, i as int, k0 as int, j as int, wrapped, k as int);
//@+            if k != i { if j != i { assert(exam(uvs@, mask, i as int, k0 as int, wrapped, j as int)); assert(j != k); assert(key(uvs@, j as int) == key(uvs@, i as int)); }
//@+                wrapped = wrapped || k >= k0; lemma_match(uvs@, k as int, i as int); } }
//@   before `return Err(Error::Branch);`:
//@+    proof { assert(three_at_node(uvs@, i as int, j as int, k as int)); }
//@   before `return Err(Error::DeadEnd);`:
//@+    proof { assert(dead_end(uvs@, i as int)); }
//@   before `i = j ^ 1;`:
//@+    proof { lemma_xor1(j); jlast = j as int;
//@+            if flip1(j as int) != 0 { lemma_walk_extend(uvs@, path, js, j as int); path = path.push(flip1(j as int)); js = js.push(j as int); lemma_pigeon(path, nn); } }
//@   before `if n == size {`:
//@+    proof {
//@+        assert(uvs@ =~= endpoints(self.params, proof.nonces@));
//@+        if n != size {
//@+            let jsf = js.push(jlast);
//@+            assert(jsf.drop_last() =~= js);
//@+            assert(walk_ok(uvs@, path, jsf.drop_last()) && path.len() == n && jsf.len() == n
//@+                && uniq(uvs@, path.last(), jsf.last()) && jsf.last() != path.last() && flip1(jsf.last()) == 0);
//@+            assert(simple_cycle(uvs@, n as int));
//@+        }
//@+        if n == size {
//@+            let jsf = js.push(jlast);
//@+            assert(jsf.drop_last() =~= js);
//@+            assert(walk_ok(uvs@, path, jsf.drop_last()) && path.len() == size && jsf.len() == size
//@+                && uniq(uvs@, path.last(), jsf.last()) && jsf.last() != path.last() && flip1(jsf.last()) == 0);
//@+        }
//@+    }
//@   ensures:
//@+    r matches Err(Error::WrongLen) ==> proof.nonces@.len() != sp_proofsize(),
//@+    r matches Err(Error::TooBig) ==> exists|a: int| 0 <= a < proof.nonces@.len() && #[trigger] proof.nonces@[a] > self.params.edge_mask,
//@+    r matches Err(Error::NotAscending) ==> exists|a: int| 1 <= a < proof.nonces@.len() && proof.nonces@[a - 1] >= #[trigger] proof.nonces@[a],
//@+    r matches Err(Error::Branch) ==> exists|a: int, b: int, c: int| #[trigger] three_at_node(endpoints(self.params, proof.nonces@), a, b, c),
//@+    r matches Err(Error::DeadEnd) ==> exists|a: int| #[trigger] dead_end(endpoints(self.params, proof.nonces@), a),
//@+    r matches Err(Error::TooShort) ==> exists|m: int| m != sp_proofsize() && #[trigger] simple_cycle(endpoints(self.params, proof.nonces@), m),
//@+    r.is_ok() ==> proof.nonces@.len() == sp_proofsize()
//@+        && (forall|a: int| 0 <= a < proof.nonces@.len() ==> #[trigger] proof.nonces@[a] <= self.params.edge_mask)
//@+        && (forall|a: int| 1 <= a < proof.nonces@.len() ==> proof.nonces@[a - 1] < #[trigger] proof.nonces@[a])
//@+        && simple_cycle(endpoints(self.params, proof.nonces@), sp_proofsize() as int),
//@ end
}
//@ canary verify: r.is_err()
