//@ assume: global::create_pow_context (C05/pow_context: which verifier is scheduled for a height / edge-bits pair), PoWContext::set_header_nonce (SipHash key derivation from the header bytes: blake2b + siphash, outside) and PoWContext::verify (the five verifiers: C05/*_verify) are abstract: a context remembers the parameters it was created with and the header bytes / nonce its keys were set from, and `verify` is an uninterpreted predicate of (context parameters, key material, proof); BlockHeader::pre_pow is an uninterpreted function of the header (its layout: C10/header_ser); T5: `create_pow_context::<u64>` => the abstract constructor, `Box<dyn PoWContext>` => the abstract context
//@ assume: decided here (C05 'PoW verification accepts exactly the cycles of the HEADER-SEEDED graph', the glue): pow::verify_size(header) returns Ok ONLY IF the verifier scheduled for the header's OWN height, the proof's OWN edge bits and the proof's OWN number of nonces, keyed from the header's OWN pre-PoW bytes (no nonce override, not in solve mode), accepted the header's OWN proof; a context that cannot be created or keyed is an error
//@ assumed_items: 6
//@ fns: pow::verify_size
global size_of usize == 8;
pub enum Error { Verification, Other }
pub const MAX_SOLS: u32 = 10;
#[derive(Clone, Copy, PartialEq, Eq)]
pub struct CtxParams { pub height: u64, pub edge_bits: u8, pub proof_size: usize, pub max_sols: u32 }
pub struct Proof { pub edge_bits: u8, pub nonces: Vec<u64> }
pub struct ProofOfWork { pub proof: Proof, pub nonce: u64 }
impl ProofOfWork { pub fn edge_bits(&self) -> (r: u8) ensures r == self.proof.edge_bits { self.proof.edge_bits } }
pub struct BlockHeader { pub height: u64, pub pow: ProofOfWork, pub id: u64 }
pub uninterp spec fn sp_pre_pow(h: BlockHeader) -> Seq<u8>;
impl BlockHeader {
    #[verifier::external_body]
    pub fn pre_pow(&self) -> (r: Vec<u8>) ensures r@ == sp_pre_pow(*self) { unimplemented!() }
}
pub uninterp spec fn sp_scheduled(p: CtxParams) -> bool;
pub uninterp spec fn sp_pow_valid(p: CtxParams, header: Seq<u8>, nonce: Option<u32>, solve: bool, proof: Proof) -> bool;
pub struct PowCtx { pub params: Ghost<CtxParams>, pub keyed: Ghost<Option<(Seq<u8>, Option<u32>, bool)>> }
impl PowCtx {
    #[verifier::external_body]
    pub fn set_header_nonce(&mut self, header: Vec<u8>, nonce: Option<u32>, solve: bool) -> (r: Result<(), Error>)
        ensures final(self).params == old(self).params, r is Ok ==> final(self).keyed@ == Some((header@, nonce, solve)) { unimplemented!() }
    #[verifier::external_body]
    pub fn verify(&self, proof: &Proof) -> (r: Result<(), Error>)
        ensures r is Ok ==> (self.keyed@ matches Some(k) && sp_pow_valid(self.params@, k.0, k.1, k.2, *proof)) { unimplemented!() }
}
pub mod global { use super::*;
    /// offered (not used by the pinned text): chain-wide defaults, unrelated to the header at hand
    #[verifier::external_body]
    pub fn proofsize() -> (r: usize) { unimplemented!() }
    #[verifier::external_body]
    pub fn min_edge_bits() -> (r: u8) { unimplemented!() }
    #[verifier::external_body]
    pub fn create_pow_context(height: u64, edge_bits: u8, proof_size: usize, max_sols: u32) -> (r: Result<PowCtx, Error>)
        ensures r matches Ok(c) ==> c.params@ == (CtxParams { height, edge_bits, proof_size, max_sols }) && sp_scheduled(c.params@) && c.keyed@ is None { unimplemented!() }
}
//@ extract core/src/pow.rs :: fn verify_size
//@   rewrite `global::create_pow_context::<u64>(` => `global::create_pow_context(`
//@   ensures:
//@+    r is Ok ==> sp_scheduled(CtxParams { height: bh.height, edge_bits: bh.pow.proof.edge_bits, proof_size: bh.pow.proof.nonces@.len() as usize, max_sols: MAX_SOLS })
//@+        && sp_pow_valid(CtxParams { height: bh.height, edge_bits: bh.pow.proof.edge_bits, proof_size: bh.pow.proof.nonces@.len() as usize, max_sols: MAX_SOLS }, sp_pre_pow(*bh), None, false, bh.pow.proof),
//@ end
//@ canary verify_size: r is Err
