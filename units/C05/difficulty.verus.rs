//@ assume: the proof's identity hash (blake2b of the packed nonces) is abstract: Proof::hash().to_u64() is an uninterpreted function of the proof (so the achieved difficulty is by construction a function of the packed nonces and the scale only); graph_weight is external (covered in C04/consensus)
//@ assume: T6 rewrites: `max(1, self.hash().to_u64())` / `min(diff, <u64>::max_value() as u128)` => local max/min helpers; `max(num, 1)` in from_num likewise
//@ assume: decided here: the difficulty a proof achieves is the deterministic value min(floor(scale * 2^64 / max(1, h)), u64::MAX) of its hash prefix h and the scale, never panics (no division by zero, no overflow in u128), and from_proof_adjusted / from_proof_scaled / to_difficulty apply it with the graph weight resp. the secondary scaling and clamp to >= 1
//@ assumed_items: 4
//@ fns: Proof::scaled_difficulty, Difficulty::from_proof_adjusted, Difficulty::from_proof_scaled, Difficulty::from_num, ProofOfWork::to_difficulty
pub const SECOND_POW_EDGE_BITS: u8 = 29;
#[verifier::external_body]
pub struct HashV { _p: u8 }
pub struct Proof { pub edge_bits: u8, pub id: Ghost<int> }
pub struct ProofOfWork { pub secondary_scaling: u32, pub proof: Proof }
#[derive(PartialEq, Eq, Structural, Clone, Copy)]
pub struct Difficulty { pub num: u64 }

pub uninterp spec fn sp_hash_prefix(p: Proof) -> u64;
pub uninterp spec fn sp_graph_weight(height: u64, edge_bits: u8) -> u64;
impl HashV {
    pub uninterp spec fn prefix(&self) -> u64;
    #[verifier::external_body]
    pub fn to_u64(&self) -> (r: u64) ensures r == self.prefix() { unimplemented!() }
}
#[verifier::external_body]
fn graph_weight(height: u64, edge_bits: u8) -> (r: u64) ensures r == sp_graph_weight(height, edge_bits) { unimplemented!() }
fn max_u64(a: u64, b: u64) -> (r: u64) ensures r == if a >= b { a } else { b } { if a >= b { a } else { b } }
fn min_u128(a: u128, b: u128) -> (r: u128) ensures r == if a <= b { a } else { b } { if a <= b { a } else { b } }

/// the achieved difficulty as a mathematical function of hash prefix and scale
pub open spec fn scaled_spec(h: u64, scale: u64) -> int {
    let d = (scale as int * 0x1_0000_0000_0000_0000) / (if h >= 1 { h as int } else { 1 });
    if d <= 0xffff_ffff_ffff_ffff { d } else { 0xffff_ffff_ffff_ffff }
}

impl Proof {
    #[verifier::external_body]
    pub fn hash(&self) -> (r: HashV) ensures r.prefix() == sp_hash_prefix(*self) { unimplemented!() }

//@ extract core/src/pow/types.rs :: impl Proof::scaled_difficulty
//@   rewrite `max(1, self.hash().to_u64())` => `max_u64(1, self.hash().to_u64())`
//@   rewrite `min(diff, <u64>::max_value() as u128)` => `min_u128(diff, u64::MAX as u128)`
//@   ensures:
//@+    r as int == scaled_spec(sp_hash_prefix(*self), scale),
//@   at_start:
//@+    proof {
//@+        assert(((scale as u128) << 64u128) == (scale as u128) * 0x1_0000_0000_0000_0000u128) by(bit_vector);
//@+        assert((scale as int) * 0x1_0000_0000_0000_0000 <= 0xffff_ffff_ffff_ffff * 0x1_0000_0000_0000_0000) by(nonlinear_arith) requires scale <= 0xffff_ffff_ffff_ffff;
//@+    }
//@ end
}

impl Difficulty {
//@ extract core/src/pow/types.rs :: impl Difficulty::from_num
//@   rewrite `max(num, 1)` => `max_u64(num, 1)`
//@   ensures:
//@+    r.num == if num >= 1 { num } else { 1 },
//@ end

//@ extract core/src/pow/types.rs :: impl Difficulty::from_proof_adjusted
//@   ensures:
//@+    r.num as int == (if scaled_spec(sp_hash_prefix(*proof), sp_graph_weight(height, proof.edge_bits)) >= 1 { scaled_spec(sp_hash_prefix(*proof), sp_graph_weight(height, proof.edge_bits)) } else { 1 }),
//@ end

//@ extract core/src/pow/types.rs :: impl Difficulty::from_proof_scaled
//@   ensures:
//@+    r.num as int == (if scaled_spec(sp_hash_prefix(*proof), scaling as u64) >= 1 { scaled_spec(sp_hash_prefix(*proof), scaling as u64) } else { 1 }),
//@ end
}

impl ProofOfWork {
//@ extract core/src/pow/types.rs :: impl ProofOfWork::to_difficulty
//@   ensures:
//@+    self.proof.edge_bits == 29 ==> r.num as int == (if scaled_spec(sp_hash_prefix(self.proof), self.secondary_scaling as u64) >= 1 { scaled_spec(sp_hash_prefix(self.proof), self.secondary_scaling as u64) } else { 1 }),
//@+    self.proof.edge_bits != 29 ==> r.num as int == (if scaled_spec(sp_hash_prefix(self.proof), sp_graph_weight(height, self.proof.edge_bits)) >= 1 { scaled_spec(sp_hash_prefix(self.proof), sp_graph_weight(height, self.proof.edge_bits)) } else { 1 }),
//@ end
}
//@ canary scaled_difficulty: r == 0
