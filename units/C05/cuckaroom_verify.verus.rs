//@ assume: siphash_block is an uninterpreted function of (keys, nonce) -- SipHash-2-4 itself is outside; CuckooParams keeps its real fields; Proof is reduced to its nonce vector; global::proofsize() is an uninterpreted constant in 1..=2^20
//@ assume: T6 rewrites: `vec![x; n]` => helper vec_filled (n copies of x); every `Err(Error::Verification("<message>".to_owned()))` => `Err(Error::<Kind>)`, one abstract kind per message, so that the contract can say WHY the input checks fail; integer literal types made explicit; `for n in 0..size` loops get spliced invariants
//@ assume: termination IS proved (no exec_allows_no_decreases_clause): the outer walk visits distinct edges (visited array), so it takes at most size + 1 steps; the inner list walk strictly descends
//@ assume: decided here, for ANY proof size and any siphash outputs (no bound): CuckaroomContext::verify (Cuckaroom: a DIRECTED graph, edge n goes from node from[n] to node to[n]) never indexes out of range, and returns Ok ONLY IF the `size` edges form one simple directed cycle through all of them: starting from edge 0 and repeatedly moving to an edge that starts at the node where the current edge ends, the walk visits `size` DISTINCT edges and the last one ends where edge 0 starts; consecutive edges share their node; and no node is entered twice (the successor edge is a function of the node, so a repeated node would repeat an edge); plus nonces strictly ascending and within the edge mask. Every error except the xor pre-check carries its reason: wrong-length / edge-too-big / not-ascending only for that reason; 'dead end' only if no edge starts where some edge ends; 'branch' only if the walk from edge 0 runs into one of its own edges other than edge 0; 'too short' only if it closes after m != size edges -- each incompatible with one simple directed cycle through all edges. (Not decided: that the xor pre-check never fires on such a cycle.)
//@ assume: 64-bit target
//@ assume: assumed: u64::leading_zeros(x) >= 1 for x < 2^63 (std intrinsic; only used to show `1 + mask` cannot overflow)
//@ assumed_items: 6
//@ fns: CuckaroomContext::verify
use vstd::std_specs::bits::*;
global size_of usize == 8;
pub enum Error { WrongLen, TooBig, NotAscending, Endpoints, Branch, DeadEnd, TooShort }
/// assumed property of the std intrinsic (vstd's axiom states only the upper-bound half in a usable form): a value below 2^63 has a leading zero
#[verifier::external_body]
proof fn axiom_lz_pos(x: u64) requires x < 0x8000_0000_0000_0000u64 ensures u64_leading_zeros(x) >= 1 { }
pub struct Proof { pub nonces: Vec<u64> }
impl Proof { pub fn proof_size(&self) -> (r: usize) ensures r == self.nonces@.len() { self.nonces.len() } }
pub struct CuckooParams { pub proof_size: usize, pub num_edges: u64, pub siphash_keys: [u64; 4], pub edge_mask: u64, pub node_mask: u64 }
pub uninterp spec fn sp_proofsize() -> usize;
pub mod global { use super::*;
    #[verifier::external_body]
    pub fn proofsize() -> (r: usize) ensures r == sp_proofsize(), 1 <= r <= 0x10_0000 { unimplemented!() } }
pub uninterp spec fn sp_siphash(keys: [u64; 4], nonce: u64) -> u64;
#[verifier::external_body]
fn siphash_block(keys: &[u64; 4], nonce: u64, rot_e: u8, xor_all: bool) -> (r: u64) ensures r == sp_siphash(*keys, nonce) { unimplemented!() }
#[verifier::external_body]
fn vec_filled_u64(x: u64, n: usize) -> (r: Vec<u64>) ensures r@.len() == n, forall|i: int| 0 <= i < n ==> r@[i] == x { unimplemented!() }
#[verifier::external_body]
fn vec_filled_bool(x: bool, n: usize) -> (r: Vec<bool>) ensures r@.len() == n, forall|i: int| 0 <= i < n ==> r@[i] == x { unimplemented!() }
#[verifier::external_body]
fn vec_filled_usize(x: usize, n: usize) -> (r: Vec<usize>) ensures r@.len() == n, forall|i: int| 0 <= i < n ==> r@[i] == x { unimplemented!() }


// ---------- bucket lists ----------

// ---------- bucket lists ----------
// --- variant: cuckarooz (one node set; an endpoint's node is its value) ---
pub open spec fn key(uvs: Seq<u64>, e: int) -> int { uvs[e] as int }
pub open spec fn bk(uvs: Seq<u64>, mask: u64, e: int) -> int { (uvs[e] & mask) as int }
pub open spec fn hlen(mask: u64) -> int { mask + 1 }
proof fn lemma_key_bk(uvs: Seq<u64>, mask: u64, a: int, b: int) requires key(uvs, a) == key(uvs, b) ensures bk(uvs, mask, a) == bk(uvs, mask, b) { }
proof fn lemma_bk_range(uvs: Seq<u64>, mask: u64, e: int) ensures 0 <= bk(uvs, mask, e) < hlen(mask) { let u = uvs[e]; assert((u & mask) <= mask) by(bit_vector); }

pub open spec fn member(uvs: Seq<u64>, mask: u64, b: int, e: int) -> bool { 0 <= e < uvs.len() && bk(uvs, mask, e) == b }
/// p is the largest member of bucket b strictly below `below`
pub open spec fn is_prev_in_bucket(uvs: Seq<u64>, mask: u64, b: int, below: int, p: int) -> bool {
    0 <= p < below && member(uvs, mask, b, p) && forall|x: int| p < x < below && 0 <= x < uvs.len() ==> #[trigger] bk(uvs, mask, x) != b
}
pub open spec fn none_in_bucket(uvs: Seq<u64>, mask: u64, b: int, below: int) -> bool {
    forall|x: int| 0 <= x < below && x < uvs.len() ==> #[trigger] bk(uvs, mask, x) != b
}
/// state of the head/prev lists after the first m endpoints were inserted (sentinel = nn)
pub open spec fn lists_ok(uvs: Seq<u64>, mask: u64, head: Seq<usize>, prev: Seq<usize>, nn: int, m: int) -> bool {
    &&& uvs.len() == nn && prev.len() == nn && head.len() == hlen(mask) && 0 <= m <= nn
    &&& forall|b: int| 0 <= b < hlen(mask) ==> (if #[trigger] head[b] == nn { none_in_bucket(uvs, mask, b, m) } else { is_prev_in_bucket(uvs, mask, b, m, head[b] as int) })
    &&& forall|e: int| 0 <= e < m ==> (if #[trigger] prev[e] == nn { none_in_bucket(uvs, mask, bk(uvs, mask, e), e) } else { is_prev_in_bucket(uvs, mask, bk(uvs, mask, e), e, prev[e] as int) })
}

/// inserting endpoint m with value val
proof fn lemma_insert(uvs: Seq<u64>, mask: u64, head: Seq<usize>, prev: Seq<usize>, nn: int, m: int, val: u64)
    requires lists_ok(uvs, mask, head, prev, nn, m), m < nn, nn < usize::MAX,
    ensures ({ let b = bk(uvs.update(m, val), mask, m);
               0 <= b < hlen(mask) && lists_ok(uvs.update(m, val), mask, head.update(b, m as usize), prev.update(m, head[b]), nn, m + 1) })
{
    lemma_bk_range(uvs.update(m, val), mask, m);
    let b = bk(uvs.update(m, val), mask, m);
    let uvs2 = uvs.update(m, val); let head2 = head.update(b, m as usize); let prev2 = prev.update(m, head[b]);
    assert forall|bb: int| 0 <= bb < hlen(mask) implies (if #[trigger] head2[bb] == nn { none_in_bucket(uvs2, mask, bb, m + 1) } else { is_prev_in_bucket(uvs2, mask, bb, m + 1, head2[bb] as int) }) by {
        if bb == b {
            assert(head2[bb] == m);
            assert(uvs2[m] == val); assert(bk(uvs2, mask, m) == b);
        } else {
            assert(head2[bb] == head[bb]);
            if head[bb] == nn {
                assert forall|x: int| 0 <= x < m + 1 && x < uvs2.len() implies #[trigger] bk(uvs2, mask, x) != bb by { if x < m { assert(uvs2[x] == uvs[x]); assert(bk(uvs2, mask, x) == bk(uvs, mask, x)); } }
            } else {
                let p = head[bb] as int;
                assert(uvs2[p] == uvs[p]); assert(bk(uvs2, mask, p) == bk(uvs, mask, p));
                assert forall|x: int| p < x < m + 1 && 0 <= x < uvs2.len() implies #[trigger] bk(uvs2, mask, x) != bb by { if x < m { assert(uvs2[x] == uvs[x]); assert(bk(uvs2, mask, x) == bk(uvs, mask, x)); } }
            }
        }
    }
    assert forall|e: int| 0 <= e < m + 1 implies (if #[trigger] prev2[e] == nn { none_in_bucket(uvs2, mask, bk(uvs2, mask, e), e) } else { is_prev_in_bucket(uvs2, mask, bk(uvs2, mask, e), e, prev2[e] as int) }) by {
        if e < m {
            assert(prev2[e] == prev[e]); assert(uvs2[e] == uvs[e]); assert(bk(uvs2, mask, e) == bk(uvs, mask, e));
            let be = bk(uvs, mask, e);
            if prev[e] == nn {
                assert forall|x: int| 0 <= x < e && x < uvs2.len() implies #[trigger] bk(uvs2, mask, x) != be by { assert(uvs2[x] == uvs[x]); assert(bk(uvs2, mask, x) == bk(uvs, mask, x)); }
            } else {
                let p = prev[e] as int;
                assert(uvs2[p] == uvs[p]); assert(bk(uvs2, mask, p) == bk(uvs, mask, p));
                assert forall|x: int| p < x < e && 0 <= x < uvs2.len() implies #[trigger] bk(uvs2, mask, x) != be by { assert(uvs2[x] == uvs[x]); assert(bk(uvs2, mask, x) == bk(uvs, mask, x)); }
            }
        } else {
            assert(prev2[m] == head[b]); assert(uvs2[m] == val); assert(bk(uvs2, mask, m) == b);
            if head[b] == nn {
                assert forall|x: int| 0 <= x < m && x < uvs2.len() implies #[trigger] bk(uvs2, mask, x) != b by { assert(uvs2[x] == uvs[x]); assert(bk(uvs2, mask, x) == bk(uvs, mask, x)); }
            } else {
                let p = head[b] as int;
                assert(uvs2[p] == uvs[p]); assert(bk(uvs2, mask, p) == bk(uvs, mask, p));
                assert forall|x: int| p < x < m && 0 <= x < uvs2.len() implies #[trigger] bk(uvs2, mask, x) != b by { assert(uvs2[x] == uvs[x]); assert(bk(uvs2, mask, x) == bk(uvs, mask, x)); }
            }
        }
    }
}

/// distinct endpoints below nn: at most nn of them
proof fn lemma_pigeon(path: Seq<int>, nn: int)
    requires path.no_duplicates(), forall|t: int| 0 <= t < path.len() ==> 0 <= #[trigger] path[t] < nn, nn >= 0
    ensures path.len() <= nn
{
    let s = path.to_set();
    path.unique_seq_to_set();
    let r = vstd::set_lib::set_int_range(0, nn);
    vstd::set_lib::lemma_int_range(0, nn);
    assert(s.subset_of(r)) by {
        assert forall|x: int| s.contains(x) implies r.contains(x) by {
            let t = choose|t: int| 0 <= t < path.len() && path[t] == x;
            assert(0 <= path[t] < nn);
        }
    }
    vstd::set_lib::lemma_len_subset(s, r);
}

pub open spec fn efrom(p: CuckooParams, nonces: Seq<u64>, n: int) -> u64 { sp_siphash(p.siphash_keys, nonces[n]) & p.node_mask }
pub open spec fn eto(p: CuckooParams, nonces: Seq<u64>, n: int) -> u64 { (sp_siphash(p.siphash_keys, nonces[n]) >> 32) & p.node_mask }
pub open spec fn froms(p: CuckooParams, nonces: Seq<u64>) -> Seq<u64> { Seq::new(nonces.len(), |n: int| efrom(p, nonces, n)) }
pub open spec fn tos(p: CuckooParams, nonces: Seq<u64>) -> Seq<u64> { Seq::new(nonces.len(), |n: int| eto(p, nonces, n)) }
/// k is THE successor of an edge ending at node v: the latest edge starting at v
pub open spec fn succ_is(from: Seq<u64>, v: u64, k: int) -> bool { 0 <= k < from.len() && from[k] == v && forall|e: int| k < e < from.len() ==> #[trigger] from[e] != v }
/// the walk so far: distinct edges, each the successor of the previous one
pub open spec fn dwalk(from: Seq<u64>, to: Seq<u64>, path: Seq<int>) -> bool {
    &&& path.len() >= 1 && path[0] == 0 && path.no_duplicates()
    &&& forall|t: int| 0 <= t < path.len() ==> 0 <= #[trigger] path[t] < from.len()
    &&& forall|t: int| 0 <= t < path.len() - 1 ==> succ_is(from, to[path[t]], #[trigger] path[t + 1])
}
/// what Ok means: one simple directed cycle through all `size` edges
pub open spec fn simple_dcycle(from: Seq<u64>, to: Seq<u64>, size: int) -> bool {
    exists|path: Seq<int>| #[trigger] dwalk(from, to, path) && path.len() == size && succ_is(from, to[path.last()], 0)
        && forall|a: int, b: int| 0 <= a < b < size ==> to[path[a]] != to[path[b]]
}
/// no edge starts at the node where edge i ends
pub open spec fn no_out(from: Seq<u64>, to: Seq<u64>, i: int) -> bool { 0 <= i < to.len() && forall|e: int| 0 <= e < from.len() ==> #[trigger] from[e] != to[i] }
/// the walk from edge 0 runs into one of its own edges other than edge 0: a rho, not a cycle
pub open spec fn rho(from: Seq<u64>, to: Seq<u64>, path: Seq<int>, t: int) -> bool { dwalk(from, to, path) && 1 <= t < path.len() && succ_is(from, to[path.last()], path[t]) }
/// a repeated node would repeat an edge
proof fn lemma_nodes_distinct(from: Seq<u64>, to: Seq<u64>, path: Seq<int>)
    requires dwalk(from, to, path), succ_is(from, to[path.last()], 0), from.len() == to.len()
    ensures forall|a: int, b: int| 0 <= a < b < path.len() ==> to[path[a]] != to[path[b]]
{
    let n = path.len() as int;
    assert forall|a: int, b: int| 0 <= a < b < n implies to[path[a]] != to[path[b]] by {
        if to[path[a]] == to[path[b]] {
            let v = to[path[a]];
            // successors of a and b are both the latest edge starting at v
            let sa = if a + 1 < n { path[a + 1] } else { 0 };
            let sb = if b + 1 < n { path[b + 1] } else { 0 };
            assert(succ_is(from, v, sa)); assert(succ_is(from, v, sb));
            if sa < sb { assert(from[sb] != v); } else if sb < sa { assert(from[sa] != v); }
            assert(sa == sb);
            if b + 1 < n { assert(path[a + 1] == path[b + 1]); } else { assert(path[a + 1] == path[0]); }
        }
    }
}

pub struct CuckaroomContext { pub params: CuckooParams }
impl CuckaroomContext {
//@ extract core/src/pow/cuckaroom.rs :: impl PoWContext for CuckaroomContext::verify
//@   sigrewrite `fn verify(&self, proof: &Proof)` => `pub fn verify(&self, proof: &Proof)`
//@   rewrite `return Err(Error::Verification("wrong cycle length".to_owned()));` => `return Err(Error::WrongLen);`
//@   rewrite `return Err(Error::Verification("edge too big".to_owned()));` => `return Err(Error::TooBig);`
//@   rewrite `return Err(Error::Verification("edges not ascending".to_owned()));` => `return Err(Error::NotAscending);`
//@   rewrite `return Err(Error::Verification("endpoints don't match up".to_owned()));` => `return Err(Error::Endpoints);`
//@   rewrite `return Err(Error::Verification("branch in cycle".to_owned()));` => `return Err(Error::Branch);`
//@   rewrite `return Err(Error::Verification("cycle dead ends".to_owned()));` => `return Err(Error::DeadEnd);`
//@   rewrite `Err(Error::Verification("cycle too short".to_owned()))` => `Err(Error::TooShort)`
//@   rewrite `let mut from = vec![0u64; size];` => `let mut from = vec_filled_u64(0u64, size);`
//@   rewrite `let mut to = vec![0u64; size];` => `let mut to = vec_filled_u64(0u64, size);`
//@   rewrite `let mut head = vec![size; 1 + mask as usize];` => `let mut head = vec_filled_usize(size, 1 + mask as usize);`
//@   rewrite `let mut prev = vec![0usize; size];` => `let mut prev = vec_filled_usize(0usize, size);`
//@   rewrite `let mut visited = vec![false; size];` => `let mut visited = vec_filled_bool(false, size);`
//@   rewrite `let mut n = 0;` => `let mut n: usize = 0;`
//@   rewrite `let mut i = 0;` => `let mut i: usize = 0;`
//@   before `let mut head = vec_filled_usize(`:
//@+    proof { let x = size as u64; axiom_lz_pos(x); let lz: u64 = u64_leading_zeros(x) as u64; axiom_u64_leading_zeros(x);
//@+            assert((u64::MAX >> lz) < u64::MAX) by(bit_vector) requires 1 <= lz <= 64; }
//@   before `for n in 0..size {`:
//@+    let ghost nn: int = size as int;
//@+    proof { assert(lists_ok(from@, mask, head@, prev@, nn, 0)); }
//@   loop 1:
//@+    invariant
//@+        nn == size, size == proof.nonces@.len(), nonces@ == proof.nonces@, 1 <= size <= 0x10_0000, mask < u64::MAX, to@.len() == size,
//@+        lists_ok(from@, mask, head@, prev@, nn, n as int),
//@+        forall|e: int| 0 <= e < n ==> #[trigger] from@[e] == efrom(self.params, nonces@, e),
//@+        forall|e: int| 0 <= e < n ==> #[trigger] to@[e] == eto(self.params, nonces@, e),
//@+        forall|a: int| 0 <= a < n ==> #[trigger] nonces@[a] <= self.params.edge_mask,
//@+        forall|a: int| 1 <= a < n ==> nonces@[a - 1] < #[trigger] nonces@[a],
//@   before `from[n] = u;`:
//@+    let ghost (from0, head0, prev0) = (from@, head@, prev@);
//@+    proof { lemma_insert(from0, mask, head0, prev0, nn, n as int, u); let ub = u & mask; assert(ub <= mask) by(bit_vector) requires ub == u & mask; }
//@   before `xor_from ^= from[n];`:
//@+    proof { assert(from@ == from0.update(n as int, u));
//@+            assert forall|e: int| 0 <= e < n + 1 implies #[trigger] from@[e] == efrom(self.params, nonces@, e) by { if e < n { assert(from@[e] == from0[e]); } } }
//@   before `let mut n: usize = 0;`:
//@+    let ghost mut path: Seq<int> = Seq::empty();
//@   loop 2:
//@+    invariant_except_break
//@+        nn == size, size == proof.nonces@.len(), 1 <= size <= 0x10_0000, mask < u64::MAX, from@.len() == size, to@.len() == size, visited@.len() == size,
//@+        lists_ok(from@, mask, head@, prev@, nn, nn), i < size,
//@+        path.len() == n, n <= size,
//@+        forall|e: int| 0 <= e < size ==> #[trigger] visited@[e] == path.contains(e),
//@+        n == 0 ==> i == 0,
//@+        n > 0 ==> dwalk(from@, to@, path) && succ_is(from@, to@[path.last()], i as int) && i != 0,
//@+        forall|e: int| 0 <= e < size ==> #[trigger] from@[e] == efrom(self.params, proof.nonces@, e),
//@+        forall|e: int| 0 <= e < size ==> #[trigger] to@[e] == eto(self.params, proof.nonces@, e),
//@+    ensures
//@+        dwalk(from@, to@, path), path.len() == n, succ_is(from@, to@[path.last()], 0), from@.len() == size, to@.len() == size,
//@+        forall|e: int| 0 <= e < size ==> #[trigger] from@[e] == efrom(self.params, proof.nonces@, e),
//@+        forall|e: int| 0 <= e < size ==> #[trigger] to@[e] == eto(self.params, proof.nonces@, e),
//@+    decreases size + 1 - n,
//@   after `visited[i] = true;`:
//@+    proof {
//@+        let p2 = path.push(i as int);
//@+        assert(p2.no_duplicates()) by { assert forall|a: int, b: int| 0 <= a < p2.len() && 0 <= b < p2.len() && a != b implies p2[a] != p2[b] by {
//@+            if a < path.len() && b < path.len() { } else if a == path.len() { assert(path.contains(path[b])); } else { assert(path.contains(path[a])); } } }
//@+        assert forall|e: int| 0 <= e < size implies #[trigger] visited@[e] == p2.contains(e) by {
//@+            if e == i { assert(p2[path.len() as int] == e); } else { if path.contains(e) { let t = choose|t: int| 0 <= t < path.len() && path[t] == e; assert(p2[t] == e); }
//@+                if p2.contains(e) { let t = choose|t: int| 0 <= t < p2.len() && p2[t] == e; assert(t < path.len()); assert(path[t] == e); } } }
//@+        assert(dwalk(from@, to@, p2)) by { assert forall|t: int| 0 <= t < p2.len() - 1 implies succ_is(from@, to@[p2[t]], #[trigger] p2[t + 1]) by { if t + 1 < path.len() { assert(p2[t] == path[t] && p2[t+1] == path[t+1]); } else { assert(p2[t] == path.last()); } } }
//@+        path = p2;
//@+        lemma_pigeon(path, nn);
//@+        let tv = to@[i as int]; let tb = tv & mask; assert(tb <= mask) by(bit_vector) requires tb == tv & mask;
//@+    }
//@   after `let mut k = head[(to[i] & mask) as usize];`:
//@+    proof { let tv = to@[i as int]; let b = (tv & mask) as int;
//@+            assert forall|e: int| 0 <= e < size && from@[e] == tv implies bk(from@, mask, e) == b by { }
//@+            if k == size { assert(none_in_bucket(from@, mask, b, nn)); } else { assert(is_prev_in_bucket(from@, mask, b, nn, k as int)); } }
//@   loop 3:
//@+    invariant_except_break
//@+        nn == size, 1 <= size <= 0x10_0000, from@.len() == size, to@.len() == size, lists_ok(from@, mask, head@, prev@, nn, nn), i < size,
//@+        k <= size,
//@+        forall|e: int| 0 <= e < size ==> #[trigger] from@[e] == efrom(self.params, proof.nonces@, e),
//@+        forall|e: int| 0 <= e < size ==> #[trigger] to@[e] == eto(self.params, proof.nonces@, e),
//@+        size == proof.nonces@.len(),
//@+        k < size ==> bk(from@, mask, k as int) == (to@[i as int] & mask) as int,
//@+        forall|e: int| k < e < size ==> #[trigger] from@[e] != to@[i as int],
//@+        k == size ==> forall|e: int| 0 <= e < size ==> #[trigger] from@[e] != to@[i as int],
//@+    ensures
//@+        succ_is(from@, to@[i as int], k as int),
//@+    decreases (if k >= size { 0int } else { k + 1 }),
//@   before `k = prev[k];`:
//@+    proof { let tv = to@[i as int];
//@+            assert forall|e: int| 0 <= e < size && from@[e] == tv implies bk(from@, mask, e) == (tv & mask) as int by { }
//@+    }
//@   before `return Err(Error::DeadEnd);`:
//@+    proof { assert(from@ =~= froms(self.params, proof.nonces@)); assert(to@ =~= tos(self.params, proof.nonces@)); assert(no_out(from@, to@, i as int)); }
//@   before `return Err(Error::Branch);`:
//@+    proof { assert(from@ =~= froms(self.params, proof.nonces@)); assert(to@ =~= tos(self.params, proof.nonces@));
//@+            assert(path.contains(i as int)); let t = choose|t: int| 0 <= t < path.len() && path[t] == i as int; assert(rho(from@, to@, path, t)); }
//@   before `if n == size {`:
//@+    proof {
//@+        assert(from@ =~= froms(self.params, proof.nonces@)); assert(to@ =~= tos(self.params, proof.nonces@));
//@+        lemma_nodes_distinct(from@, to@, path);
//@+        assert(simple_dcycle(from@, to@, n as int));
//@+    }
//@   ensures:
//@+    r matches Err(Error::WrongLen) ==> proof.nonces@.len() != sp_proofsize(),
//@+    r matches Err(Error::TooBig) ==> exists|a: int| 0 <= a < proof.nonces@.len() && #[trigger] proof.nonces@[a] > self.params.edge_mask,
//@+    r matches Err(Error::NotAscending) ==> exists|a: int| 1 <= a < proof.nonces@.len() && proof.nonces@[a - 1] >= #[trigger] proof.nonces@[a],
//@+    r matches Err(Error::DeadEnd) ==> exists|a: int| #[trigger] no_out(froms(self.params, proof.nonces@), tos(self.params, proof.nonces@), a),
//@+    r matches Err(Error::Branch) ==> exists|path: Seq<int>, t: int| #[trigger] rho(froms(self.params, proof.nonces@), tos(self.params, proof.nonces@), path, t),
//@+    r matches Err(Error::TooShort) ==> exists|m: int| m != sp_proofsize() && #[trigger] simple_dcycle(froms(self.params, proof.nonces@), tos(self.params, proof.nonces@), m),
//@+    r.is_ok() ==> proof.nonces@.len() == sp_proofsize()
//@+        && (forall|a: int| 0 <= a < proof.nonces@.len() ==> #[trigger] proof.nonces@[a] <= self.params.edge_mask)
//@+        && (forall|a: int| 1 <= a < proof.nonces@.len() ==> proof.nonces@[a - 1] < #[trigger] proof.nonces@[a])
//@+        && simple_dcycle(froms(self.params, proof.nonces@), tos(self.params, proof.nonces@), sp_proofsize() as int),
//@ end
}
//@ canary verify: r.is_err()
