//@ assume: siphash_block is an uninterpreted function of (keys, nonce) -- SipHash-2-4 itself is outside; CuckooParams keeps its real fields; Proof is reduced to its nonce vector; global::proofsize() is an uninterpreted constant in 1..=2^20
//@ assume: T6 rewrites: `vec![x; n]` => helper vec_filled (n copies of x); every `Err(Error::Verification("<message>".to_owned()))` => `Err(Error::<Kind>)`, one abstract kind per message; integer literal types made explicit
//@ assume: 64-bit target
//@ assume: assumed: u64::leading_zeros(x) >= 1 for x < 2^63 (std intrinsic; only used to show `1 + mask` cannot overflow)
//@ assume: decided here, for ANY proof and any siphash outputs: CuckaroodContext::verify (Cuckarood, the proof of work of header version 2) never indexes out of range, never overflows and ALWAYS TERMINATES -- both direction counters stay within size/2 so every slot index 4*ndir+2*dir(+1) is below 2*size; the two bucket lists only ever link a slot to an EARLIER slot of the same side and direction (so the inner `while` strictly descends), and the outer cycle walk takes at most `size` steps. The last point did NOT hold on the pinned tree (finding F11: a rho-shaped edge set makes the walk run forever; the obligations that failed were the overflow check on `n += 1` and the outer loop's `decreases`) and holds after the repair. Also decided: verify returns Ok ONLY IF the nonces are strictly ascending, within the edge mask, 21/21 balanced between the two directions, and -- with the endpoints laid out in slots by direction rank as the code does -- the walk from slot 0 that repeatedly moves to THE unique endpoint on the same side with the wanted direction (1 from a U endpoint, 0 from a V endpoint) and the same node value, then to the other end of that edge, returns to slot 0 for the first time after exactly `size` steps, visiting `size` distinct endpoints (hence, by the alternation of directions, every edge exactly once): one simple alternating cycle through all edges. Rejections carry their reason too: wrong-length / too-big / not-ascending / not-balanced only for that reason, 'branch' only if an endpoint the walk stands on has two partners, 'dead end' only if it has none.
//@ assumed_items: 5
//@ fns: CuckaroodContext::verify
use vstd::std_specs::bits::*;
global size_of usize == 8;
pub enum Error { WrongLen, NotBalanced, TooBig, NotAscending, Endpoints, Branch, DeadEnd, TooLong, TooShort }
#[verifier::external_body]
proof fn axiom_lz_pos(x: u64) requires x < 0x8000_0000_0000_0000u64 ensures u64_leading_zeros(x) >= 1 { }
pub struct Proof { pub nonces: Vec<u64> }
impl Proof { pub fn proof_size(&self) -> (r: usize) ensures r == self.nonces@.len() { self.nonces.len() } }
pub struct CuckooParams { pub proof_size: usize, pub num_edges: u64, pub siphash_keys: [u64; 4], pub edge_mask: u64, pub node_mask: u64 }
pub uninterp spec fn sp_proofsize() -> usize;
pub mod global { use super::*;
    #[verifier::external_body]
    pub fn proofsize() -> (r: usize) ensures r == sp_proofsize(), 1 <= r <= 0x10_0000 { unimplemented!() } }
pub uninterp spec fn sp_siphash(keys: [u64; 4], nonce: u64) -> u64;
#[verifier::external_body]
fn siphash_block(keys: &[u64; 4], nonce: u64, rot_e: u8, xor_all: bool) -> (r: u64) ensures r == sp_siphash(*keys, nonce) { unimplemented!() }
#[verifier::external_body]
fn vec_filled_u64(x: u64, n: usize) -> (r: Vec<u64>) ensures r@.len() == n, forall|i: int| 0 <= i < n ==> r@[i] == x { unimplemented!() }
#[verifier::external_body]
fn vec_filled_usize(x: usize, n: usize) -> (r: Vec<usize>) ensures r@.len() == n, forall|i: int| 0 <= i < n ==> r@[i] == x { unimplemented!() }

/// slot e holds an endpoint already: its edge counter (e / 4) is below the counter of its direction ((e / 2) % 2)
pub open spec fn filled(e: int, nd0: int, nd1: int) -> bool { 0 <= e && e / 4 < (if (e / 2) % 2 == 0 { nd0 } else { nd1 }) }
/// a bucket head / a prev link is the sentinel or an earlier-or-equal filled slot of the right side (parity) and direction
pub open spec fn head_ok(h: int, b: int, side: int, nn: int, nd0: int, nd1: int) -> bool {
    h == nn || (0 <= h < nn && h % 2 == side && (h / 2) % 2 == b % 2 && filled(h, nd0, nd1))
}
pub open spec fn prev_ok(p: int, e: int, nn: int) -> bool { p == nn || (0 <= p < e && p % 4 == e % 4) }
pub open spec fn lists(headu: Seq<usize>, headv: Seq<usize>, prev: Seq<usize>, mask: u64, nn: int, nd0: int, nd1: int) -> bool {
    &&& headu.len() == mask + 1 && headv.len() == mask + 1 && prev.len() == nn
    &&& forall|b: int| 0 <= b <= mask ==> head_ok(#[trigger] headu[b] as int, b, 0, nn, nd0, nd1)
    &&& forall|b: int| 0 <= b <= mask ==> head_ok(#[trigger] headv[b] as int, b, 1, nn, nd0, nd1)
    &&& forall|e: int| 0 <= e < nn && filled(e, nd0, nd1) ==> prev_ok(#[trigger] prev[e] as int, e, nn)
}
proof fn lemma_bits(x: u64, d: u64, mask: u64)
    requires d <= 1, mask & 1 == 1
    ensures ((x << 1 | d) & mask) <= mask, ((x << 1 | d) & mask) % 2 == d
{
    assert(((x << 1u64 | d) & mask) <= mask) by(bit_vector);
    assert(((x << 1u64 | d) & mask) % 2 == d) by(bit_vector) requires d <= 1, mask & 1 == 1;
}
proof fn lemma_mask_odd(lz: u64) requires 1 <= lz <= 63 ensures (u64::MAX >> lz) & 1 == 1, (u64::MAX >> lz) < u64::MAX {
    assert((u64::MAX >> lz) & 1 == 1) by(bit_vector) requires 1 <= lz <= 63;
    assert((u64::MAX >> lz) < u64::MAX) by(bit_vector) requires 1 <= lz <= 63;
}
proof fn lemma_xor1(j: usize) requires j < 0x7fff_ffff_ffff_ffff ensures (j ^ 1usize) as int == (if j % 2 == 0 { j + 1 } else { j - 1 }) {
    let x = j as u64;
    assert((x ^ 1u64) == (if x % 2 == 0 { (x + 1) as u64 } else { (x - 1) as u64 })) by(bit_vector) requires x < 0x7fff_ffff_ffff_ffffu64;
    assert((j ^ 1usize) as u64 == x ^ 1u64) by(bit_vector) requires x == j as u64;
}

// ---------- what the two bucket lists mean ----------
pub open spec fn dirof(e: int) -> int { (e / 2) % 2 }
/// the bucket index the code computes for slot e: ((value << 1 | dir) & mask)
pub open spec fn xb(uvs: Seq<u64>, mask: u64, e: int) -> int { (((uvs[e] << 1u64) | (dirof(e) as u64)) & mask) as int }
/// e is a filled slot on `side` whose bucket is b
pub open spec fn mem(uvs: Seq<u64>, mask: u64, side: int, b: int, e: int, nd0: int, nd1: int) -> bool {
    0 <= e < uvs.len() && e % 2 == side && filled(e, nd0, nd1) && xb(uvs, mask, e) == b
}
/// heads are the largest member of their bucket, prev links the largest member below
pub open spec fn sem(uvs: Seq<u64>, headu: Seq<usize>, headv: Seq<usize>, prev: Seq<usize>, mask: u64, nn: int, nd0: int, nd1: int) -> bool {
    &&& uvs.len() == nn
    &&& forall|b: int| 0 <= b <= mask && headu[b] != nn ==> #[trigger] xb(uvs, mask, headu[b] as int) == b
    &&& forall|b: int| 0 <= b <= mask && headv[b] != nn ==> #[trigger] xb(uvs, mask, headv[b] as int) == b
    &&& forall|b: int, e: int| 0 <= b <= mask && #[trigger] mem(uvs, mask, 0, b, e, nd0, nd1) ==> headu[b] != nn && e <= headu[b]
    &&& forall|b: int, e: int| 0 <= b <= mask && #[trigger] mem(uvs, mask, 1, b, e, nd0, nd1) ==> headv[b] != nn && e <= headv[b]
    &&& forall|e: int| 0 <= e < nn && filled(e, nd0, nd1) && prev[e] != nn ==> #[trigger] xb(uvs, mask, prev[e] as int) == xb(uvs, mask, e)
    &&& forall|e: int, x: int| 0 <= e < nn && filled(e, nd0, nd1) && x < e && #[trigger] mem(uvs, mask, e % 2, xb(uvs, mask, e), x, nd0, nd1) ==> prev[e] != nn && x <= #[trigger] prev[e]
}
proof fn lemma_xb(uvs: Seq<u64>, mask: u64, e: int)
    requires mask & 1 == 1, e >= 0
    ensures 0 <= xb(uvs, mask, e) <= mask, xb(uvs, mask, e) % 2 == dirof(e)
{ lemma_bits(uvs[e], dirof(e) as u64, mask); }


/// arithmetic of the slot layout
proof fn lemma_slot(e: int, idx: int, ndd: int, dir: int)
    requires 0 <= e, 0 <= ndd, 0 <= dir <= 1, idx == 4 * ndd + 2 * dir
    ensures idx % 2 == 0, dirof(idx) == dir, idx / 4 == ndd, dirof(idx + 1) == dir, (idx + 1) / 4 == ndd, (idx + 1) % 2 == 1,
        (dirof(e) == dir && e / 4 < ndd) ==> e < idx,
        (dirof(e) == dir && e / 4 == ndd) ==> (e == idx || e == idx + 1),
        (dirof(e) == dir && e / 4 > ndd) ==> e > idx + 1,
{
    assert(idx % 2 == 0 && (idx / 2) % 2 == dir && idx / 4 == ndd && ((idx + 1) / 2) % 2 == dir && (idx + 1) / 4 == ndd && (idx + 1) % 2 == 1) by(nonlinear_arith) requires idx == 4 * ndd + 2 * dir, 0 <= dir <= 1, 0 <= ndd;
    assert(e == 4 * (e / 4) + 2 * ((e / 2) % 2) + e % 2 && 0 <= e % 2 <= 1) by(nonlinear_arith) requires 0 <= e;
}
/// inserting one edge (both endpoints, then the direction counter) keeps the meaning of the lists
proof fn lemma_insert_edge(uvs: Seq<u64>, hu: Seq<usize>, hv: Seq<usize>, pv: Seq<usize>, mask: u64, nn: int, nd0: int, nd1: int, dir: int, u: u64, v: u64)
    requires mask & 1 == 1, 0 <= nn < usize::MAX, 0 <= dir <= 1, 0 <= nd0, 0 <= nd1,
        lists(hu, hv, pv, mask, nn, nd0, nd1), sem(uvs, hu, hv, pv, mask, nn, nd0, nd1),
        4 * (if dir == 0 { nd0 } else { nd1 }) + 2 * dir + 1 < nn,
    ensures ({
        let idx = 4 * (if dir == 0 { nd0 } else { nd1 }) + 2 * dir;
        let ub = (((u << 1u64) | (dir as u64)) & mask) as int; let vb = (((v << 1u64) | (dir as u64)) & mask) as int;
        sem(uvs.update(idx, u).update(idx + 1, v), hu.update(ub, idx as usize), hv.update(vb, (idx + 1) as usize),
            pv.update(idx, hu[ub]).update(idx + 1, hv[vb]), mask, nn, if dir == 0 { nd0 + 1 } else { nd0 }, if dir == 1 { nd1 + 1 } else { nd1 }) })
{
    let ndd = if dir == 0 { nd0 } else { nd1 };
    let idx = 4 * ndd + 2 * dir;
    let ub = (((u << 1u64) | (dir as u64)) & mask) as int; let vb = (((v << 1u64) | (dir as u64)) & mask) as int;
    let uvs2 = uvs.update(idx, u).update(idx + 1, v);
    let hu2 = hu.update(ub, idx as usize); let hv2 = hv.update(vb, (idx + 1) as usize);
    let pv2 = pv.update(idx, hu[ub]).update(idx + 1, hv[vb]);
    let (nd0b, nd1b) = (if dir == 0 { nd0 + 1 } else { nd0 }, if dir == 1 { nd1 + 1 } else { nd1 });
    lemma_bits(u, dir as u64, mask); lemma_bits(v, dir as u64, mask);
    lemma_slot(0, idx, ndd, dir);
    assert(xb(uvs2, mask, idx) == ub && xb(uvs2, mask, idx + 1) == vb);
    assert(!filled(idx, nd0, nd1) && !filled(idx + 1, nd0, nd1) && filled(idx, nd0b, nd1b) && filled(idx + 1, nd0b, nd1b));
    // (A) slots other than the two new ones keep value, bucket and filled-ness
    assert forall|e: int| 0 <= e && e != idx && e != idx + 1 implies (#[trigger] filled(e, nd0b, nd1b) == filled(e, nd0, nd1)) && xb(uvs2, mask, e) == xb(uvs, mask, e) by {
        lemma_slot(e, idx, ndd, dir);
        if 0 <= e < nn { assert(uvs2[e] == uvs[e]); }
    }
    // (D) every old member of a bucket with the new edge's direction bit lies below idx
    assert forall|side: int, b: int, e: int| #[trigger] mem(uvs, mask, side, b, e, nd0, nd1) && b % 2 == dir implies e < idx by { lemma_xb(uvs, mask, e); lemma_slot(e, idx, ndd, dir); }
    // (C) members after the insertion
    assert forall|side: int, b: int, e: int| #[trigger] mem(uvs2, mask, side, b, e, nd0b, nd1b) implies
        (mem(uvs, mask, side, b, e, nd0, nd1) || (e == idx && side == 0 && b == ub) || (e == idx + 1 && side == 1 && b == vb)) by {
        if e != idx && e != idx + 1 { assert(filled(e, nd0b, nd1b) == filled(e, nd0, nd1)); assert(uvs2[e] == uvs[e]); }
    }
    assert forall|b: int| 0 <= b <= mask && hu2[b] != nn implies #[trigger] xb(uvs2, mask, hu2[b] as int) == b by {
        if b != ub { let h = hu[b] as int; assert(hu2[b] == hu[b]); assert(head_ok(h, b, 0, nn, nd0, nd1)); assert(h != idx && h != idx + 1); assert(filled(h, nd0b, nd1b) == filled(h, nd0, nd1)); assert(xb(uvs, mask, hu[b] as int) == b); }
    }
    assert forall|b: int| 0 <= b <= mask && hv2[b] != nn implies #[trigger] xb(uvs2, mask, hv2[b] as int) == b by {
        if b != vb { let h = hv[b] as int; assert(hv2[b] == hv[b]); assert(head_ok(h, b, 1, nn, nd0, nd1)); assert(h != idx && h != idx + 1); assert(filled(h, nd0b, nd1b) == filled(h, nd0, nd1)); assert(xb(uvs, mask, hv[b] as int) == b); }
    }
    assert forall|b: int, e: int| 0 <= b <= mask && #[trigger] mem(uvs2, mask, 0, b, e, nd0b, nd1b) implies hu2[b] != nn && e <= hu2[b] by {
        if e == idx { } else { assert(mem(uvs, mask, 0, b, e, nd0, nd1)); if b == ub { assert(e < idx); } else { assert(hu2[b] == hu[b]); } }
    }
    assert forall|b: int, e: int| 0 <= b <= mask && #[trigger] mem(uvs2, mask, 1, b, e, nd0b, nd1b) implies hv2[b] != nn && e <= hv2[b] by {
        if e == idx + 1 { } else { assert(mem(uvs, mask, 1, b, e, nd0, nd1)); if b == vb { assert(e < idx); } else { assert(hv2[b] == hv[b]); } }
    }
    assert forall|e: int| 0 <= e < nn && filled(e, nd0b, nd1b) && pv2[e] != nn implies #[trigger] xb(uvs2, mask, pv2[e] as int) == xb(uvs2, mask, e) by {
        if e == idx { let h = hu[ub] as int; assert(head_ok(h, ub, 0, nn, nd0, nd1)); assert(h != idx && h != idx + 1); assert(filled(h, nd0b, nd1b) == filled(h, nd0, nd1)); assert(xb(uvs, mask, hu[ub] as int) == ub); }
        else if e == idx + 1 { let h = hv[vb] as int; assert(head_ok(h, vb, 1, nn, nd0, nd1)); assert(h != idx && h != idx + 1); assert(filled(h, nd0b, nd1b) == filled(h, nd0, nd1)); assert(xb(uvs, mask, hv[vb] as int) == vb); }
        else { assert(filled(e, nd0b, nd1b) == filled(e, nd0, nd1)); assert(pv2[e] == pv[e]); let p = pv[e] as int; assert(prev_ok(p, e, nn));
               lemma_slot(p, idx, ndd, dir); lemma_slot(e, idx, ndd, dir);
               assert(p / 4 <= e / 4 && dirof(p) == dirof(e)) by(nonlinear_arith) requires 0 <= p < e, p % 4 == e % 4;
               assert(filled(p, nd0, nd1)); assert(p != idx && p != idx + 1); assert(filled(p, nd0b, nd1b) == filled(p, nd0, nd1));
               assert(xb(uvs, mask, pv[e] as int) == xb(uvs, mask, e)); }
    }
    assert forall|e: int, x: int| 0 <= e < nn && filled(e, nd0b, nd1b) && x < e && #[trigger] mem(uvs2, mask, e % 2, xb(uvs2, mask, e), x, nd0b, nd1b) implies pv2[e] != nn && x <= #[trigger] pv2[e] by {
        if e == idx { assert(mem(uvs, mask, 0, ub, x, nd0, nd1)); }
        else if e == idx + 1 { assert(x != idx + 1); if x == idx { assert(false); } assert(mem(uvs, mask, 1, vb, x, nd0, nd1)); }
        else {
            assert(filled(e, nd0b, nd1b) == filled(e, nd0, nd1)); assert(pv2[e] == pv[e]); assert(xb(uvs2, mask, e) == xb(uvs, mask, e));
            if x == idx || x == idx + 1 {
                // same bucket => same direction bit and same side => same residue class, so e (filled before) would lie below idx
                lemma_xb(uvs2, mask, x); lemma_xb(uvs, mask, e); lemma_slot(e, idx, ndd, dir);
                assert(false);
            }
            assert(mem(uvs, mask, e % 2, xb(uvs, mask, e), x, nd0, nd1));
        }
    }
}

// ---------- the walk ----------
pub open spec fn flip1(j: int) -> int { if j % 2 == 0 { j + 1 } else { j - 1 } }
/// the direction a partner must have: 1 when standing on a U endpoint, 0 on a V endpoint
pub open spec fn want(i: int) -> int { if i % 2 == 0 { 1 } else { 0 } }
pub open spec fn partner(uvs: Seq<u64>, i: int, e: int) -> bool { 0 <= e < uvs.len() && e % 2 == i % 2 && dirof(e) == want(i) && uvs[e] == uvs[i] }
/// j is THE partner of i (or j == i: there is none)
pub open spec fn uniq_d(uvs: Seq<u64>, i: int, j: int) -> bool {
    if j == i { forall|e: int| !#[trigger] partner(uvs, i, e) } else { partner(uvs, i, j) && forall|e: int| #[trigger] partner(uvs, i, e) ==> e == j }
}
/// endpoints the walk can stand on: a U endpoint of a direction-0 edge or a V endpoint of a direction-1 edge
pub open spec fn standing(i: int) -> bool { i % 4 == 0 || i % 4 == 3 }
pub open spec fn dwalk(uvs: Seq<u64>, path: Seq<int>, js: Seq<int>) -> bool {
    &&& path.len() >= 1 && js.len() == path.len() - 1 && path[0] == 0
    &&& forall|t: int| 0 <= t < path.len() ==> 0 <= #[trigger] path[t] < uvs.len() && standing(path[t])
    &&& forall|t: int| 0 < t < path.len() ==> #[trigger] path[t] != 0
    &&& forall|t: int| 0 <= t < js.len() ==> #[trigger] js[t] != path[t] && uniq_d(uvs, path[t], js[t]) && path[t + 1] == flip1(js[t])
}
/// what Ok means: the walk closes after exactly `size` steps and never stood on the same endpoint twice
pub open spec fn simple_dcycle(uvs: Seq<u64>, size: int) -> bool {
    exists|path: Seq<int>, js: Seq<int>| #[trigger] dwalk(uvs, path, js.drop_last()) && path.len() == size && js.len() == size
        && uniq_d(uvs, path.last(), js.last()) && js.last() != path.last() && flip1(js.last()) == 0 && path.no_duplicates()
}
/// two different partners of one endpoint: a branch
pub open spec fn two_partners(uvs: Seq<u64>, i: int, a: int, b: int) -> bool { 0 <= i < uvs.len() && standing(i) && a != b && partner(uvs, i, a) && partner(uvs, i, b) }
/// an endpoint the walk can stand on that has no partner
pub open spec fn no_partner(uvs: Seq<u64>, i: int) -> bool { 0 <= i < uvs.len() && standing(i) && uniq_d(uvs, i, i) }
/// the walk is deterministic: equal endpoints have equal futures
proof fn lemma_future(uvs: Seq<u64>, path: Seq<int>, js: Seq<int>, jlast: int, a: int, b: int, d: int)
    requires dwalk(uvs, path, js), uniq_d(uvs, path.last(), jlast), jlast != path.last(), flip1(jlast) == 0,
        0 <= a < b < path.len(), path[a] == path[b], 0 <= d, b + d < path.len(),
    ensures path[a + d] == path[b + d]
    decreases d
{
    if d > 0 {
        lemma_future(uvs, path, js, jlast, a, b, d - 1);
        let (x, y) = (a + d - 1, b + d - 1);
        assert(uniq_d(uvs, path[x], js[x]) && uniq_d(uvs, path[y], js[y]));
        assert(partner(uvs, path[x], js[x])); assert(partner(uvs, path[y], js[y]));
        assert(js[x] == js[y]);
    }
}
proof fn lemma_distinct(uvs: Seq<u64>, path: Seq<int>, js: Seq<int>, jlast: int)
    requires dwalk(uvs, path, js), uniq_d(uvs, path.last(), jlast), jlast != path.last(), flip1(jlast) == 0,
    ensures path.no_duplicates()
{
    let n = path.len() as int;
    assert forall|a: int, b: int| 0 <= a < n && 0 <= b < n && a != b implies path[a] != path[b] by {
        let (lo, hi) = if a < b { (a, b) } else { (b, a) };
        if path[lo] == path[hi] {
            let d = n - 1 - hi;
            lemma_future(uvs, path, js, jlast, lo, hi, d);
            // path[lo + d] == path[n - 1]: its partner is jlast, so its successor is endpoint 0
            let x = lo + d;
            assert(x < n - 1);
            assert(uniq_d(uvs, path[x], js[x])); assert(partner(uvs, path[x], js[x]));
            assert(js[x] == jlast);
            assert(path[x + 1] == 0);
        }
    }
}


// ---------- scanning one bucket ----------
/// the bucket the code looks into when standing on i
pub open spec fn tbucket(uvs: Seq<u64>, mask: u64, i: int) -> int { (((uvs[i] << 1u64) | (want(i) as u64)) & mask) as int }
/// e is a slot of i's side in that bucket above the cursor (any, once the cursor reached the sentinel): it has been compared with i
pub open spec fn scanned(uvs: Seq<u64>, mask: u64, i: int, k: int, nn: int, h: int, e: int) -> bool {
    mem(uvs, mask, i % 2, tbucket(uvs, mask, i), e, h, h) && (k == nn || e > k)
}
pub open spec fn sinv(uvs: Seq<u64>, mask: u64, i: int, k: int, j: int, nn: int, h: int) -> bool {
    &&& (k == nn || mem(uvs, mask, i % 2, tbucket(uvs, mask, i), k, h, h))
    &&& 0 <= j < nn
    &&& (j == i ==> forall|e: int| #[trigger] scanned(uvs, mask, i, k, nn, h, e) ==> uvs[e] != uvs[i])
    &&& (j != i ==> scanned(uvs, mask, i, k, nn, h, j) && uvs[j] == uvs[i] && forall|e: int| #[trigger] scanned(uvs, mask, i, k, nn, h, e) && e != j ==> uvs[e] != uvs[i])
}
proof fn lemma_scan_init(uvs: Seq<u64>, hu: Seq<usize>, hv: Seq<usize>, pv: Seq<usize>, mask: u64, nn: int, h: int, i: int)
    requires mask & 1 == 1, lists(hu, hv, pv, mask, nn, h, h), sem(uvs, hu, hv, pv, mask, nn, h, h), 0 <= i < nn,
    ensures ({ let tb = tbucket(uvs, mask, i); 0 <= tb <= mask && sinv(uvs, mask, i, (if i % 2 == 0 { hu[tb] } else { hv[tb] }) as int, i, nn, h) })
{
    lemma_bits(uvs[i], want(i) as u64, mask);
    let tb = tbucket(uvs, mask, i);
    let k = (if i % 2 == 0 { hu[tb] } else { hv[tb] }) as int;
    if i % 2 == 0 { assert(head_ok(hu[tb] as int, tb, 0, nn, h, h)); if k != nn { assert(xb(uvs, mask, hu[tb] as int) == tb); } }
    else { assert(head_ok(hv[tb] as int, tb, 1, nn, h, h)); if k != nn { assert(xb(uvs, mask, hv[tb] as int) == tb); } }
    assert forall|e: int| #[trigger] scanned(uvs, mask, i, k, nn, h, e) implies uvs[e] != uvs[i] by {
        assert(mem(uvs, mask, i % 2, tb, e, h, h));
        if i % 2 == 0 { assert(hu[tb] != nn && e <= hu[tb]); } else { assert(hv[tb] != nn && e <= hv[tb]); }
    }
}
proof fn lemma_scan_step(uvs: Seq<u64>, hu: Seq<usize>, hv: Seq<usize>, pv: Seq<usize>, mask: u64, nn: int, h: int, i: int, k: int, j: int)
    requires mask & 1 == 1, lists(hu, hv, pv, mask, nn, h, h), sem(uvs, hu, hv, pv, mask, nn, h, h), 0 <= i < nn, 0 <= k < nn,
        sinv(uvs, mask, i, k, j, nn, h), forall|e: int| 0 <= e < nn ==> #[trigger] filled(e, h, h),
        !(uvs[k] == uvs[i] && j != i), standing(i),
    ensures sinv(uvs, mask, i, pv[k] as int, if uvs[k] == uvs[i] { k } else { j }, nn, h), k != i,
{
    let tb = tbucket(uvs, mask, i);
    let k2 = pv[k] as int;
    let j2 = if uvs[k] == uvs[i] { k } else { j };
    assert(mem(uvs, mask, i % 2, tb, k, h, h));
    lemma_xb(uvs, mask, k); lemma_bits(uvs[i], want(i) as u64, mask);
    assert(dirof(i) != want(i)) by(nonlinear_arith) requires standing(i), 0 <= i;
    assert(k != i);
    assert(prev_ok(k2, k, nn));
    if k2 != nn {
        assert(xb(uvs, mask, pv[k] as int) == xb(uvs, mask, k));
        assert(k2 % 2 == k % 2) by(nonlinear_arith) requires 0 <= k2 < k, k2 % 4 == k % 4;
        assert(mem(uvs, mask, i % 2, tb, k2, h, h));
    }
    // scanned' == scanned + {k}
    assert forall|e: int| #[trigger] scanned(uvs, mask, i, k2, nn, h, e) implies (scanned(uvs, mask, i, k, nn, h, e) || e == k) by {
        if e < k { assert(mem(uvs, mask, k % 2, xb(uvs, mask, k), e, h, h)); assert(pv[k] != nn && e <= pv[k]); }
    }
    if j != i { assert(scanned(uvs, mask, i, k, nn, h, j)); assert(j > k); }
    assert(scanned(uvs, mask, i, k2, nn, h, k));
    if j2 != i {
        assert(scanned(uvs, mask, i, k2, nn, h, j2));
        assert forall|e: int| #[trigger] scanned(uvs, mask, i, k2, nn, h, e) && e != j2 implies uvs[e] != uvs[i] by { if e != k { assert(scanned(uvs, mask, i, k, nn, h, e)); } }
    } else {
        assert forall|e: int| #[trigger] scanned(uvs, mask, i, k2, nn, h, e) implies uvs[e] != uvs[i] by { if e != k { assert(scanned(uvs, mask, i, k, nn, h, e)); } }
    }
}
proof fn lemma_branch(uvs: Seq<u64>, mask: u64, nn: int, h: int, i: int, k: int, j: int)
    requires mask & 1 == 1, uvs.len() == nn, 0 <= i < nn, 0 <= k < nn, standing(i), sinv(uvs, mask, i, k, j, nn, h), j != i, uvs[k] == uvs[i],
    ensures two_partners(uvs, i, j, k)
{
    let tb = tbucket(uvs, mask, i);
    lemma_bits(uvs[i], want(i) as u64, mask);
    assert(mem(uvs, mask, i % 2, tb, k, h, h));
    assert(scanned(uvs, mask, i, k, nn, h, j));
    lemma_xb(uvs, mask, k); lemma_xb(uvs, mask, j);
    assert(partner(uvs, i, k) && partner(uvs, i, j) && j > k);
}
proof fn lemma_scan_done(uvs: Seq<u64>, mask: u64, nn: int, h: int, i: int, j: int)
    requires mask & 1 == 1, uvs.len() == nn, nn % 2 == 0, 0 <= i < nn, standing(i), sinv(uvs, mask, i, nn, j, nn, h), forall|e: int| 0 <= e < nn ==> #[trigger] filled(e, h, h),
    ensures uniq_d(uvs, i, j), j != i ==> standing(flip1(j)) && 0 <= flip1(j) < nn,
{
    let tb = tbucket(uvs, mask, i);
    lemma_bits(uvs[i], want(i) as u64, mask);
    assert forall|e: int| #[trigger] partner(uvs, i, e) implies scanned(uvs, mask, i, nn, nn, h, e) by {
        assert(filled(e, h, h));
        assert(xb(uvs, mask, e) == tb);
    }
    assert(!partner(uvs, i, i)) by { assert(dirof(i) != want(i)) by(nonlinear_arith) requires standing(i), 0 <= i; }
    if j != i {
        assert(scanned(uvs, mask, i, nn, nn, h, j));
        lemma_xb(uvs, mask, j);
        assert(dirof(j) == want(i));
        assert(partner(uvs, i, j));
        assert(standing(flip1(j)) && 0 <= flip1(j) < nn) by(nonlinear_arith) requires 0 <= j < nn, j % 2 == i % 2, (j / 2) % 2 == want(i), nn % 2 == 0, standing(i),
            want(i) == (if i % 2 == 0 { 1int } else { 0int }), flip1(j) == (if j % 2 == 0 { j + 1 } else { j - 1 });
    }
}

// ---------- the endpoints laid out in slots by direction rank ----------
pub open spec fn cnt_dir(nonces: Seq<u64>, n: int, d: int) -> int decreases n { if n <= 0 { 0 } else { cnt_dir(nonces, n - 1, d) + (if (nonces[n - 1] & 1) as int == d { 1int } else { 0int }) } }
pub open spec fn slots(p: CuckooParams, nonces: Seq<u64>, n: int) -> Seq<u64> decreases n {
    if n <= 0 { Seq::new((2 * nonces.len()) as nat, |e: int| 0u64) } else {
        let s = slots(p, nonces, n - 1); let d = (nonces[n - 1] & 1) as int; let idx = 4 * cnt_dir(nonces, n - 1, d) + 2 * d;
        let edge = sp_siphash(p.siphash_keys, nonces[n - 1]);
        s.update(idx, edge & p.node_mask).update(idx + 1, (edge >> 32u64) & p.node_mask) }
}
pub struct CuckaroodContext { pub params: CuckooParams }
impl CuckaroodContext {
//@ extract core/src/pow/cuckarood.rs :: impl PoWContext for CuckaroodContext::verify
//@   sigrewrite `fn verify(&self, proof: &Proof)` => `pub fn verify(&self, proof: &Proof)`
//@   rewrite `return Err(Error::Verification("wrong cycle length".to_owned()));` => `return Err(Error::WrongLen);`
//@   rewrite `return Err(Error::Verification("edges not balanced".to_owned()));` => `return Err(Error::NotBalanced);`
//@   rewrite `return Err(Error::Verification("edge too big".to_owned()));` => `return Err(Error::TooBig);`
//@   rewrite `return Err(Error::Verification("edges not ascending".to_owned()));` => `return Err(Error::NotAscending);`
//@   rewrite `return Err(Error::Verification("endpoints don't match up".to_owned()));` => `return Err(Error::Endpoints);`
//@   rewrite `return Err(Error::Verification("branch in cycle".to_owned()));` => `return Err(Error::Branch);`
//@   rewrite `return Err(Error::Verification("cycle dead ends".to_owned()));` => `return Err(Error::DeadEnd);`
//@   rewrite `return Err(Error::Verification("cycle too long".to_owned()));` => `return Err(Error::TooLong);` x?
//@   rewrite `Err(Error::Verification("cycle too short".to_owned()))` => `Err(Error::TooShort)`
//@   rewrite `let mut uvs = vec![0u64; 2 * size];` => `let mut uvs = vec_filled_u64(0u64, 2 * size);`
//@   rewrite `let mut ndir = vec![0usize; 2];` => `let mut ndir = vec_filled_usize(0usize, 2);`
//@   rewrite `let mut headu = vec![2 * size; 1 + mask as usize];` => `let mut headu = vec_filled_usize(2 * size, 1 + mask as usize);`
//@   rewrite `let mut headv = vec![2 * size; 1 + mask as usize];` => `let mut headv = vec_filled_usize(2 * size, 1 + mask as usize);`
//@   rewrite `let mut prev = vec![0usize; 2 * size];` => `let mut prev = vec_filled_usize(0usize, 2 * size);`
//@   rewrite `let mut n = 0;` => `let mut n: usize = 0;`
//@   rewrite `let mut i = 0;` => `let mut i: usize = 0;`
//@   before `let mut headu = vec_filled_usize(`:
//@+    proof { let x = size as u64; axiom_lz_pos(x); let lz: u64 = u64_leading_zeros(x) as u64; axiom_u64_leading_zeros(x);
//@+            assert(lz <= 63) by { if lz == 64 { assert(x == 0); } }
//@+            lemma_mask_odd(lz); }
//@   before `#1:for n in 0..size {`:
//@+    let ghost nn: int = 2 * size;
//@+    proof { assert(uvs@ =~= slots(self.params, nonces@, 0)); }
//@   loop 1:
//@+    invariant
//@+        nn == 2 * size, size == proof.nonces@.len(), nonces@ == proof.nonces@, 1 <= size <= 0x10_0000, mask < u64::MAX, mask & 1 == 1,
//@+        uvs@.len() == nn, ndir@.len() == 2, ndir@[0] <= size / 2, ndir@[1] <= size / 2, ndir@[0] + ndir@[1] == n,
//@+        lists(headu@, headv@, prev@, mask, nn, ndir@[0] as int, ndir@[1] as int),
//@+        sem(uvs@, headu@, headv@, prev@, mask, nn, ndir@[0] as int, ndir@[1] as int),
//@+        uvs@ == slots(self.params, nonces@, n as int), ndir@[0] == cnt_dir(nonces@, n as int, 0), ndir@[1] == cnt_dir(nonces@, n as int, 1),
//@+        forall|a: int| 0 <= a < n ==> #[trigger] nonces@[a] <= self.params.edge_mask,
//@+        forall|a: int| 1 <= a < n ==> nonces@[a - 1] < #[trigger] nonces@[a],
//@   after `let dir = (nonces[n] & 1) as usize;`:
//@+    proof { let x = nonces@[n as int]; assert((x & 1) <= 1) by(bit_vector); assert(cnt_dir(nonces@, n + 1, dir as int) == cnt_dir(nonces@, n as int, dir as int) + 1); }
//@   before `uvs[idx] = u;`:
//@+    let ghost (hu0, hv0, pv0, nd0, nd1, uvs0) = (headu@, headv@, prev@, ndir@[0] as int, ndir@[1] as int, uvs@);
//@+    proof { lemma_bits(u, dir as u64, mask); lemma_bits(v, dir as u64, mask);
//@+            assert(idx + 1 < nn) by(nonlinear_arith) requires idx == 4 * ndir@[dir as int] + 2 * dir, ndir@[dir as int] < size / 2, dir <= 1, nn == 2 * size;
//@+            assert(idx % 2 == 0 && (idx / 2) % 2 == dir && idx / 4 == ndir@[dir as int] && (idx + 1) / 4 == ndir@[dir as int] && ((idx + 1) / 2) % 2 == dir && (idx + 1) % 2 == 1)
//@+                by(nonlinear_arith) requires idx == 4 * ndir@[dir as int] + 2 * dir, dir <= 1; }
//@   before `xor0 ^= u;`:
//@+    proof {
//@+        lemma_insert_edge(uvs0, hu0, hv0, pv0, mask, nn, nd0, nd1, dir as int, u, v);
//@+        assert(uvs@ == uvs0.update(idx as int, u).update(idx + 1, v));
//@+        assert(headu@ == hu0.update(ubits as int, idx)); assert(headv@ == hv0.update(vbits as int, (idx + 1) as usize));
//@+        assert(prev@ == pv0.update(idx as int, hu0[ubits as int]).update(idx + 1, hv0[vbits as int]));
//@+        assert(uvs@ == slots(self.params, nonces@, n + 1));
//@+        let (nd0b, nd1b) = (if dir == 0 { nd0 + 1 } else { nd0 }, if dir == 1 { nd1 + 1 } else { nd1 });
//@+        assert forall|e: int| #[trigger] filled(e, nd0, nd1) implies filled(e, nd0b, nd1b) by { }
//@+        assert(filled(idx as int, nd0b, nd1b) && filled(idx + 1, nd0b, nd1b));
//@+        assert(!filled(idx as int, nd0, nd1) && !filled(idx + 1, nd0, nd1));
//@+        assert forall|b: int| 0 <= b <= mask implies head_ok(#[trigger] headu@[b] as int, b, 0, nn, nd0b, nd1b) by { if b != ubits { assert(headu@[b] == hu0[b]); assert(head_ok(hu0[b] as int, b, 0, nn, nd0, nd1)); } }
//@+        assert forall|b: int| 0 <= b <= mask implies head_ok(#[trigger] headv@[b] as int, b, 1, nn, nd0b, nd1b) by { if b != vbits { assert(headv@[b] == hv0[b]); assert(head_ok(hv0[b] as int, b, 1, nn, nd0, nd1)); } }
//@+        assert forall|e: int| 0 <= e < nn && filled(e, nd0b, nd1b) implies prev_ok(#[trigger] prev@[e] as int, e, nn) by {
//@+            if e == idx { assert(prev@[e] == hu0[ubits as int]); assert(head_ok(hu0[ubits as int] as int, ubits as int, 0, nn, nd0, nd1));
//@+                let h = hu0[ubits as int] as int; if h != nn { assert(h / 4 < ndir@[dir as int]); assert(h < idx && h % 4 == idx % 4) by(nonlinear_arith) requires h % 2 == 0, (h / 2) % 2 == dir, h / 4 < idx / 4, idx % 2 == 0, (idx / 2) % 2 == dir, 0 <= h, dir <= 1; } }
//@+            else if e == idx + 1 { assert(prev@[e] == hv0[vbits as int]); assert(head_ok(hv0[vbits as int] as int, vbits as int, 1, nn, nd0, nd1));
//@+                let h = hv0[vbits as int] as int; if h != nn { assert(h < idx + 1 && h % 4 == (idx + 1) % 4) by(nonlinear_arith) requires h % 2 == 1, (h / 2) % 2 == dir, h / 4 < (idx + 1) / 4, (idx + 1) % 2 == 1, ((idx + 1) / 2) % 2 == dir, 0 <= h, dir <= 1; } }
//@+            else { assert(prev@[e] == pv0[e]); assert(filled(e, nd0, nd1)) by(nonlinear_arith) requires filled(e, nd0b, nd1b), e != idx, e != idx + 1, idx == 4 * (if dir == 0 { nd0 } else { nd1 }) + 2 * dir, dir <= 1, 0 <= e, nd0b == (if dir == 0 { nd0 + 1 } else { nd0 }), nd1b == (if dir == 1 { nd1 + 1 } else { nd1 }); }
//@+        }
//@+    }
//@   before `let mut n: usize = 0;`:
//@+    let ghost mut path: Seq<int> = seq![0int];
//@+    let ghost mut js: Seq<int> = Seq::empty();
//@+    let ghost mut jlast: int = 0;
//@+    let ghost h = (size / 2) as int;
//@+    proof { assert(ndir@[0] == size / 2 && ndir@[1] == size / 2);
//@+            assert forall|e: int| 0 <= e < nn implies #[trigger] filled(e, (size / 2) as int, (size / 2) as int) by { } }
//@   loop 2:
//@+    invariant_except_break
//@+        n < size, dwalk(uvs@, path, js), path.len() == n + 1, path.last() == i,
//@+    invariant
//@+        nn == 2 * size, 1 <= size <= 0x10_0000, uvs@.len() == nn, mask < u64::MAX, mask & 1 == 1,
//@+        lists(headu@, headv@, prev@, mask, nn, (size / 2) as int, (size / 2) as int), size % 2 == 0,
//@+        i < nn, n <= size, h == size / 2, sem(uvs@, headu@, headv@, prev@, mask, nn, h, h),
//@+        forall|e: int| 0 <= e < nn ==> #[trigger] filled(e, h, h),
//@+        uvs@ == slots(self.params, proof.nonces@, size as int), size == proof.nonces@.len(),
//@+    ensures
//@+        dwalk(uvs@, path, js), path.len() == n, uniq_d(uvs@, path.last(), jlast), jlast != path.last(), flip1(jlast) == 0,
//@+    decreases size - n,
//@   after `j = i;`:
//@+    proof { lemma_bits(uvs@[i as int], 1, mask); lemma_bits(uvs@[i as int], 0, mask); lemma_scan_init(uvs@, headu@, headv@, prev@, mask, nn, h, i as int);
//@+            let x = i as u64; assert((x & 1 == 0) == (x % 2 == 0)) by(bit_vector); }
//@   before `k = prev[k];`:
//@+    proof { lemma_scan_step(uvs@, headu@, headv@, prev@, mask, nn, h, i as int, k as int, if uvs@[k as int] == uvs@[i as int] { i as int } else { j as int }); }
//@   loop 3:
//@+    invariant
//@+        nn == 2 * size, uvs@.len() == nn, prev@.len() == nn, i < nn, j < nn, k <= nn, mask & 1 == 1, h == size / 2,
//@+        forall|e: int| 0 <= e < nn ==> prev_ok(#[trigger] prev@[e] as int, e, nn),
//@+        lists(headu@, headv@, prev@, mask, nn, h, h), sem(uvs@, headu@, headv@, prev@, mask, nn, h, h), forall|e: int| 0 <= e < nn ==> #[trigger] filled(e, h, h),
//@+        sinv(uvs@, mask, i as int, k as int, j as int, nn, h), standing(i as int),
//@+        uvs@ == slots(self.params, proof.nonces@, size as int), size == proof.nonces@.len(),
//@+    decreases (if k == nn { 0int } else { k + 1 }),
//@   before `return Err(Error::Branch);`:
//@+    proof { lemma_branch(uvs@, mask, nn, h, i as int, k as int, j as int); }
//@   before `if j == i {`:
//@+    proof { lemma_scan_done(uvs@, mask, nn, h, i as int, j as int); if j == i { assert(no_partner(uvs@, i as int)); } }
//@   before `i = j ^ 1;`:
//@+    proof { lemma_xor1(j); jlast = j as int;
//@+            if flip1(j as int) != 0 { let p2 = path.push(flip1(j as int)); let j2 = js.push(j as int);
//@+                assert forall|t: int| 0 <= t < j2.len() implies #[trigger] j2[t] != p2[t] && uniq_d(uvs@, p2[t], j2[t]) && p2[t + 1] == flip1(j2[t]) by { if t < js.len() { assert(j2[t] == js[t] && p2[t] == path[t] && p2[t + 1] == path[t + 1]); } }
//@+                path = p2; js = j2; } }
//@   before `if n == size {`:
//@+    proof { if n == size { lemma_distinct(uvs@, path, js, jlast); let jsf = js.push(jlast); assert(jsf.drop_last() =~= js);
//@+                assert(dwalk(uvs@, path, jsf.drop_last()) && path.len() == size && jsf.len() == size && uniq_d(uvs@, path.last(), jsf.last()) && jsf.last() != path.last() && flip1(jsf.last()) == 0 && path.no_duplicates()); } }
//@   ensures:
//@+    r matches Err(Error::WrongLen) ==> proof.nonces@.len() != sp_proofsize(),
//@+    r matches Err(Error::TooBig) ==> exists|a: int| 0 <= a < proof.nonces@.len() && #[trigger] proof.nonces@[a] > self.params.edge_mask,
//@+    r matches Err(Error::NotAscending) ==> exists|a: int| 1 <= a < proof.nonces@.len() && proof.nonces@[a - 1] >= #[trigger] proof.nonces@[a],
//@+    r matches Err(Error::NotBalanced) ==> exists|m: int, d: int| 0 <= m <= proof.nonces@.len() && 0 <= d <= 1 && #[trigger] cnt_dir(proof.nonces@, m, d) > proof.nonces@.len() / 2,
//@+    r matches Err(Error::Branch) ==> exists|i: int, a: int, b: int| #[trigger] two_partners(slots(self.params, proof.nonces@, proof.nonces@.len() as int), i, a, b),
//@+    r matches Err(Error::DeadEnd) ==> exists|i: int| #[trigger] no_partner(slots(self.params, proof.nonces@, proof.nonces@.len() as int), i),
//@+    r.is_ok() ==> proof.nonces@.len() == sp_proofsize()
//@+        && (forall|a: int| 0 <= a < proof.nonces@.len() ==> #[trigger] proof.nonces@[a] <= self.params.edge_mask)
//@+        && (forall|a: int| 1 <= a < proof.nonces@.len() ==> proof.nonces@[a - 1] < #[trigger] proof.nonces@[a])
//@+        && cnt_dir(proof.nonces@, proof.nonces@.len() as int, 0) == cnt_dir(proof.nonces@, proof.nonces@.len() as int, 1)
//@+        && simple_dcycle(slots(self.params, proof.nonces@, proof.nonces@.len() as int), sp_proofsize() as int),
//@ end
}
//@ canary verify: r.is_err()
