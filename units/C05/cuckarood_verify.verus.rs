//@ assume: siphash_block is an uninterpreted function of (keys, nonce) -- SipHash-2-4 itself is outside; CuckooParams keeps its real fields; Proof is reduced to its nonce vector; global::proofsize() is an uninterpreted constant in 1..=2^20
//@ assume: T6 rewrites: `vec![x; n]` => helper vec_filled (n copies of x); every `Err(Error::Verification("<message>".to_owned()))` => `Err(Error::Verification)`; integer literal types made explicit
//@ assume: 64-bit target
//@ assume: assumed: u64::leading_zeros(x) >= 1 for x < 2^63 (std intrinsic; only used to show `1 + mask` cannot overflow)
//@ assume: decided here, for ANY proof and any siphash outputs: CuckaroodContext::verify (Cuckarood, the proof of work of header version 2) never indexes out of range, never overflows and ALWAYS TERMINATES -- both direction counters stay within size/2 so every slot index 4*ndir+2*dir(+1) is below 2*size; the two bucket lists only ever link a slot to an EARLIER slot of the same side and direction (so the inner `while` strictly descends), and the outer cycle walk takes at most `size` steps. The last point did NOT hold on the pinned tree (finding F11: a rho-shaped edge set makes the walk run forever; the obligations that failed were the overflow check on `n += 1` and the outer loop's `decreases`) and holds after the repair. NOT decided for this variant: that Ok implies a simple alternating cycle (the four other variants have that proof).
//@ assumed_items: 5
//@ fns: CuckaroodContext::verify
use vstd::std_specs::bits::*;
global size_of usize == 8;
pub enum Error { Verification }
#[verifier::external_body]
proof fn axiom_lz_pos(x: u64) requires x < 0x8000_0000_0000_0000u64 ensures u64_leading_zeros(x) >= 1 { }
pub struct Proof { pub nonces: Vec<u64> }
impl Proof { pub fn proof_size(&self) -> (r: usize) ensures r == self.nonces@.len() { self.nonces.len() } }
pub struct CuckooParams { pub proof_size: usize, pub num_edges: u64, pub siphash_keys: [u64; 4], pub edge_mask: u64, pub node_mask: u64 }
pub uninterp spec fn sp_proofsize() -> usize;
pub mod global { use super::*;
    #[verifier::external_body]
    pub fn proofsize() -> (r: usize) ensures r == sp_proofsize(), 1 <= r <= 0x10_0000 { unimplemented!() } }
pub uninterp spec fn sp_siphash(keys: [u64; 4], nonce: u64) -> u64;
#[verifier::external_body]
fn siphash_block(keys: &[u64; 4], nonce: u64, rot_e: u8, xor_all: bool) -> (r: u64) ensures r == sp_siphash(*keys, nonce) { unimplemented!() }
#[verifier::external_body]
fn vec_filled_u64(x: u64, n: usize) -> (r: Vec<u64>) ensures r@.len() == n, forall|i: int| 0 <= i < n ==> r@[i] == x { unimplemented!() }
#[verifier::external_body]
fn vec_filled_usize(x: usize, n: usize) -> (r: Vec<usize>) ensures r@.len() == n, forall|i: int| 0 <= i < n ==> r@[i] == x { unimplemented!() }

/// slot e holds an endpoint already: its edge counter (e / 4) is below the counter of its direction ((e / 2) % 2)
pub open spec fn filled(e: int, nd0: int, nd1: int) -> bool { 0 <= e && e / 4 < (if (e / 2) % 2 == 0 { nd0 } else { nd1 }) }
/// a bucket head / a prev link is the sentinel or an earlier-or-equal filled slot of the right side (parity) and direction
pub open spec fn head_ok(h: int, b: int, side: int, nn: int, nd0: int, nd1: int) -> bool {
    h == nn || (0 <= h < nn && h % 2 == side && (h / 2) % 2 == b % 2 && filled(h, nd0, nd1))
}
pub open spec fn prev_ok(p: int, e: int, nn: int) -> bool { p == nn || (0 <= p < e && p % 4 == e % 4) }
pub open spec fn lists(headu: Seq<usize>, headv: Seq<usize>, prev: Seq<usize>, mask: u64, nn: int, nd0: int, nd1: int) -> bool {
    &&& headu.len() == mask + 1 && headv.len() == mask + 1 && prev.len() == nn
    &&& forall|b: int| 0 <= b <= mask ==> head_ok(#[trigger] headu[b] as int, b, 0, nn, nd0, nd1)
    &&& forall|b: int| 0 <= b <= mask ==> head_ok(#[trigger] headv[b] as int, b, 1, nn, nd0, nd1)
    &&& forall|e: int| 0 <= e < nn && filled(e, nd0, nd1) ==> prev_ok(#[trigger] prev[e] as int, e, nn)
}
proof fn lemma_bits(x: u64, d: u64, mask: u64)
    requires d <= 1, mask & 1 == 1
    ensures ((x << 1 | d) & mask) <= mask, ((x << 1 | d) & mask) % 2 == d
{
    assert(((x << 1u64 | d) & mask) <= mask) by(bit_vector);
    assert(((x << 1u64 | d) & mask) % 2 == d) by(bit_vector) requires d <= 1, mask & 1 == 1;
}
proof fn lemma_mask_odd(lz: u64) requires 1 <= lz <= 63 ensures (u64::MAX >> lz) & 1 == 1, (u64::MAX >> lz) < u64::MAX {
    assert((u64::MAX >> lz) & 1 == 1) by(bit_vector) requires 1 <= lz <= 63;
    assert((u64::MAX >> lz) < u64::MAX) by(bit_vector) requires 1 <= lz <= 63;
}
proof fn lemma_xor1(j: usize) requires j < 0x7fff_ffff_ffff_ffff ensures (j ^ 1usize) as int == (if j % 2 == 0 { j + 1 } else { j - 1 }) {
    let x = j as u64;
    assert((x ^ 1u64) == (if x % 2 == 0 { (x + 1) as u64 } else { (x - 1) as u64 })) by(bit_vector) requires x < 0x7fff_ffff_ffff_ffffu64;
    assert((j ^ 1usize) as u64 == x ^ 1u64) by(bit_vector) requires x == j as u64;
}
pub struct CuckaroodContext { pub params: CuckooParams }
impl CuckaroodContext {
//@ extract core/src/pow/cuckarood.rs :: impl PoWContext for CuckaroodContext::verify
//@   sigrewrite `fn verify(&self, proof: &Proof)` => `pub fn verify(&self, proof: &Proof)`
//@   rewrite `return Err(Error::Verification("wrong cycle length".to_owned()));` => `return Err(Error::Verification);`
//@   rewrite `return Err(Error::Verification("edges not balanced".to_owned()));` => `return Err(Error::Verification);`
//@   rewrite `return Err(Error::Verification("edge too big".to_owned()));` => `return Err(Error::Verification);`
//@   rewrite `return Err(Error::Verification("edges not ascending".to_owned()));` => `return Err(Error::Verification);`
//@   rewrite `return Err(Error::Verification("endpoints don't match up".to_owned()));` => `return Err(Error::Verification);`
//@   rewrite `return Err(Error::Verification("branch in cycle".to_owned()));` => `return Err(Error::Verification);`
//@   rewrite `return Err(Error::Verification("cycle dead ends".to_owned()));` => `return Err(Error::Verification);`
//@   rewrite `return Err(Error::Verification("cycle too long".to_owned()));` => `return Err(Error::Verification);` x?
//@   rewrite `Err(Error::Verification("cycle too short".to_owned()))` => `Err(Error::Verification)`
//@   rewrite `let mut uvs = vec![0u64; 2 * size];` => `let mut uvs = vec_filled_u64(0u64, 2 * size);`
//@   rewrite `let mut ndir = vec![0usize; 2];` => `let mut ndir = vec_filled_usize(0usize, 2);`
//@   rewrite `let mut headu = vec![2 * size; 1 + mask as usize];` => `let mut headu = vec_filled_usize(2 * size, 1 + mask as usize);`
//@   rewrite `let mut headv = vec![2 * size; 1 + mask as usize];` => `let mut headv = vec_filled_usize(2 * size, 1 + mask as usize);`
//@   rewrite `let mut prev = vec![0usize; 2 * size];` => `let mut prev = vec_filled_usize(0usize, 2 * size);`
//@   rewrite `let mut n = 0;` => `let mut n: usize = 0;`
//@   rewrite `let mut i = 0;` => `let mut i: usize = 0;`
//@   before `let mut headu = vec_filled_usize(`:
//@+    proof { let x = size as u64; axiom_lz_pos(x); let lz: u64 = u64_leading_zeros(x) as u64; axiom_u64_leading_zeros(x);
//@+            assert(lz <= 63) by { if lz == 64 { assert(x == 0); } }
//@+            lemma_mask_odd(lz); }
//@   before `#1:for n in 0..size {`:
//@+    let ghost nn: int = 2 * size;
//@   loop 1:
//@+    invariant
//@+        nn == 2 * size, size == proof.nonces@.len(), nonces@ == proof.nonces@, 1 <= size <= 0x10_0000, mask < u64::MAX, mask & 1 == 1,
//@+        uvs@.len() == nn, ndir@.len() == 2, ndir@[0] <= size / 2, ndir@[1] <= size / 2, ndir@[0] + ndir@[1] == n,
//@+        lists(headu@, headv@, prev@, mask, nn, ndir@[0] as int, ndir@[1] as int),
//@   after `let dir = (nonces[n] & 1) as usize;`:
//@+    proof { let x = nonces@[n as int]; assert((x & 1) <= 1) by(bit_vector); }
//@   before `uvs[idx] = u;`:
//@+    let ghost (hu0, hv0, pv0, nd0, nd1) = (headu@, headv@, prev@, ndir@[0] as int, ndir@[1] as int);
//@+    proof { lemma_bits(u, dir as u64, mask); lemma_bits(v, dir as u64, mask);
//@+            assert(idx + 1 < nn) by(nonlinear_arith) requires idx == 4 * ndir@[dir as int] + 2 * dir, ndir@[dir as int] < size / 2, dir <= 1, nn == 2 * size;
//@+            assert(idx % 2 == 0 && (idx / 2) % 2 == dir && idx / 4 == ndir@[dir as int] && (idx + 1) / 4 == ndir@[dir as int] && ((idx + 1) / 2) % 2 == dir && (idx + 1) % 2 == 1)
//@+                by(nonlinear_arith) requires idx == 4 * ndir@[dir as int] + 2 * dir, dir <= 1; }
//@   before `xor0 ^= u;`:
//@+    proof {
//@+        let (nd0b, nd1b) = (if dir == 0 { nd0 + 1 } else { nd0 }, if dir == 1 { nd1 + 1 } else { nd1 });
//@+        assert forall|e: int| #[trigger] filled(e, nd0, nd1) implies filled(e, nd0b, nd1b) by { }
//@+        assert(filled(idx as int, nd0b, nd1b) && filled(idx + 1, nd0b, nd1b));
//@+        assert(!filled(idx as int, nd0, nd1) && !filled(idx + 1, nd0, nd1));
//@+        assert forall|b: int| 0 <= b <= mask implies head_ok(#[trigger] headu@[b] as int, b, 0, nn, nd0b, nd1b) by { if b != ubits { assert(headu@[b] == hu0[b]); assert(head_ok(hu0[b] as int, b, 0, nn, nd0, nd1)); } }
//@+        assert forall|b: int| 0 <= b <= mask implies head_ok(#[trigger] headv@[b] as int, b, 1, nn, nd0b, nd1b) by { if b != vbits { assert(headv@[b] == hv0[b]); assert(head_ok(hv0[b] as int, b, 1, nn, nd0, nd1)); } }
//@+        assert forall|e: int| 0 <= e < nn && filled(e, nd0b, nd1b) implies prev_ok(#[trigger] prev@[e] as int, e, nn) by {
//@+            if e == idx { assert(prev@[e] == hu0[ubits as int]); assert(head_ok(hu0[ubits as int] as int, ubits as int, 0, nn, nd0, nd1));
//@+                let h = hu0[ubits as int] as int; if h != nn { assert(h / 4 < ndir@[dir as int]); assert(h < idx && h % 4 == idx % 4) by(nonlinear_arith) requires h % 2 == 0, (h / 2) % 2 == dir, h / 4 < idx / 4, idx % 2 == 0, (idx / 2) % 2 == dir, 0 <= h, dir <= 1; } }
//@+            else if e == idx + 1 { assert(prev@[e] == hv0[vbits as int]); assert(head_ok(hv0[vbits as int] as int, vbits as int, 1, nn, nd0, nd1));
//@+                let h = hv0[vbits as int] as int; if h != nn { assert(h < idx + 1 && h % 4 == (idx + 1) % 4) by(nonlinear_arith) requires h % 2 == 1, (h / 2) % 2 == dir, h / 4 < (idx + 1) / 4, (idx + 1) % 2 == 1, ((idx + 1) / 2) % 2 == dir, 0 <= h, dir <= 1; } }
//@+            else { assert(prev@[e] == pv0[e]); assert(filled(e, nd0, nd1)) by(nonlinear_arith) requires filled(e, nd0b, nd1b), e != idx, e != idx + 1, idx == 4 * (if dir == 0 { nd0 } else { nd1 }) + 2 * dir, dir <= 1, 0 <= e, nd0b == (if dir == 0 { nd0 + 1 } else { nd0 }), nd1b == (if dir == 1 { nd1 + 1 } else { nd1 }); }
//@+        }
//@+    }
//@   before `let mut n: usize = 0;`:
//@+    proof { assert(ndir@[0] == size / 2 && ndir@[1] == size / 2);
//@+            assert forall|e: int| 0 <= e < nn implies #[trigger] filled(e, (size / 2) as int, (size / 2) as int) by { } }
//@   loop 2:
//@+    invariant_except_break
//@+        n < size,
//@+    invariant
//@+        nn == 2 * size, 1 <= size <= 0x10_0000, uvs@.len() == nn, mask < u64::MAX, mask & 1 == 1,
//@+        lists(headu@, headv@, prev@, mask, nn, (size / 2) as int, (size / 2) as int), size % 2 == 0,
//@+        i < nn, n <= size,
//@+    decreases size - n,
//@   after `j = i;`:
//@+    proof { lemma_bits(uvs@[i as int], 1, mask); lemma_bits(uvs@[i as int], 0, mask); }
//@   loop 3:
//@+    invariant
//@+        nn == 2 * size, uvs@.len() == nn, prev@.len() == nn, i < nn, j < nn, k <= nn,
//@+        forall|e: int| 0 <= e < nn ==> prev_ok(#[trigger] prev@[e] as int, e, nn),
//@+    decreases (if k == nn { 0int } else { k + 1 }),
//@   before `i = j ^ 1;`:
//@+    proof { lemma_xor1(j); }
//@ end
}
//@ canary verify: r.is_err()
