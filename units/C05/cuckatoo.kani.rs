//@ crate: grin_core
//@ target: core/src/pow/cuckatoo.rs
//@ assume: siphash24 is replaced by a table of fresh nondeterministic words, two per queried nonce (u then v; nonces are strictly ascending so each is queried once): a sound over-approximation of 'all header seeds' -- every graph on the chosen edges
//@ assume: global::proofsize stubbed to the cycle length L of the harness; BOUNDED stand-in: L in {4} quick, {6, 8} thorough (mainnet L = 42 is NOT proved); node_bits = 3 so that node collisions are frequent
//@ assume: cycle lengths 6 and 8 were dropped from this bounded stand-in once the unbounded Verus unit cuckatoo_verify existed (they only ever ended in the memory cap)
//@ harness c05_cuckatoo_cycle_4 kind=bounded tier=thorough optional=1 fns=CuckatooContext::verify_impl,CuckooParams::sipnode bound=cycle_length_4,_edge_bits_2..=3_node_mask_7
use crate::verif_kani_support::*;

static mut PS: usize = 0;
fn stub_proofsize() -> usize {
	unsafe { PS }
}
static mut EDGES: [u64; 16] = [0; 16];
static mut CALLS: usize = 0;
fn stub_siphash24(_v: &[u64; 4], _nonce: u64) -> u64 {
	unsafe {
		let i = CALLS;
		CALLS += 1;
		EDGES[i % 16]
	}
}

/// Graph definition (Cuckatoo: bipartite u/v; nodes come in pairs differing in their last bit,
/// and the cycle alternates between the two nodes of a pair): endpoint 2i is the u-node of edge
/// i, endpoint 2i+1 its v-node; two endpoints meet iff they are on the same side and their node
/// values are partners (equal up to the last bit, and different).  The L edges form one simple
/// cycle through all of them iff every endpoint has exactly one same-side endpoint in its pair,
/// that endpoint is its partner (not an identical node), and walking from edge 0 returns to the
/// start after exactly L steps.
fn is_single_cycle(ep: &[u64], l: usize) -> bool {
	let mut i = 0;
	while i < 2 * l {
		let mut c = 0;
		let mut k = 0;
		while k < 2 * l {
			if (k & 1) == (i & 1) && (ep[k] >> 1) == (ep[i] >> 1) {
				c += 1;
			}
			k += 1;
		}
		if c != 2 {
			return false;
		}
		i += 1;
	}
	let mut cur = 0usize;
	let mut steps = 0usize;
	loop {
		// the unique other endpoint at the same node
		let mut other = cur;
		let mut k = 0;
		while k < 2 * l {
			if k != cur && (k & 1) == (cur & 1) && (ep[k] >> 1) == (ep[cur] >> 1) {
				other = k;
			}
			k += 1;
		}
		if ep[other] == ep[cur] {
			return false; // identical node, not the partner: the cycle dead-ends
		}
		cur = other ^ 1; // cross that edge
		steps += 1;
		if cur == 0 || steps > l {
			break;
		}
	}
	cur == 0 && steps == l
}

macro_rules! cuckatoo_cycle {
	($name:ident, $l:expr, $unw:expr) => {
		#[kani::proof]
		#[kani::unwind($unw)]
		#[kani::stub(alloc::fmt::format, stub_format)]
		#[kani::stub(crate::global::proofsize, stub_proofsize)]
		#[kani::stub(crate::pow::siphash::siphash24, stub_siphash24)]
		fn $name() {
			const L: usize = $l;
			unsafe {
				PS = L;
				CALLS = 0;
			}
			let params = CuckooParams::new(5, 3, L).unwrap();
			let raw: [u64; L] = kani::any();
			let words: [u64; 2 * L] = kani::any();
			let mut nonces = Vec::with_capacity(L);
			let mut ep = [0u64; 2 * L];
			let mut ok_shape = true;
			let mut i = 0;
			while i < L {
				kani::assume(raw[i] < 64); // small nonce domain: still covers above-mask (>31) and non-ascending tuples
				nonces.push(raw[i]);
				unsafe {
					EDGES[2 * i] = words[2 * i];
					EDGES[2 * i + 1] = words[2 * i + 1];
				}
				ep[2 * i] = words[2 * i] & params.node_mask;
				ep[2 * i + 1] = words[2 * i + 1] & params.node_mask;
				if raw[i] > params.edge_mask {
					ok_shape = false;
				}
				if i > 0 && raw[i] <= raw[i - 1] {
					ok_shape = false;
				}
				i += 1;
			}
			let proof = Proof { edge_bits: 5, nonces };
			// verify_impl only reads `params`; the solver graph is not needed (and never dropped)
			let mut m = core::mem::MaybeUninit::<CuckatooContext>::uninit();
			let accepted = unsafe {
				core::ptr::addr_of_mut!((*m.as_mut_ptr()).params).write(params);
				let ctx: &CuckatooContext = &*m.as_ptr();
				ctx.verify_impl(&proof).is_ok()
			};
			let expected = ok_shape && is_single_cycle(&ep, L);
			assert!(accepted == expected, "C05: Cuckatoo accepts exactly the simple L-cycles with ascending in-range nonces");
		}
	};
}
cuckatoo_cycle!(c05_cuckatoo_cycle_4, 4, 10);
