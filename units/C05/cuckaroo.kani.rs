//@ crate: grin_core
//@ target: core/src/pow/cuckaroo.rs
//@ assume: siphash_block is replaced by a table of fresh nondeterministic words, one per queried nonce (nonces are strictly ascending so each is queried once): a sound over-approximation of 'all header seeds' -- every graph on the chosen edges
//@ assume: global::proofsize stubbed to the cycle length L of the harness; BOUNDED stand-in: L in {4} quick, {6, 8} thorough (mainnet L = 42 is NOT proved); node_bits = 3 so that node collisions are frequent
//@ assume: cycle lengths 6 and 8 were dropped from this bounded stand-in once the unbounded Verus unit cuckaroo_verify existed (they only ever ended in the memory cap)
//@ harness c05_cuckaroo_cycle_4 kind=bounded tier=thorough optional=1 fns=CuckarooContext::verify bound=cycle_length_4,_edge_bits_2..=3_node_mask_7
use crate::verif_kani_support::*;

static mut PS: usize = 0;
fn stub_proofsize() -> usize {
	unsafe { PS }
}
static mut EDGES: [u64; 8] = [0; 8];
static mut CALLS: usize = 0;
fn stub_siphash_block(_v: &[u64; 4], _nonce: u64, _rot_e: u8, _xor_all: bool) -> u64 {
	unsafe {
		let i = CALLS;
		CALLS += 1;
		EDGES[i % 8]
	}
}

/// Graph definition (Cuckaroo: bipartite u/v, undirected): endpoint 2i is the u-node of edge i,
/// endpoint 2i+1 its v-node; two endpoints meet iff they are on the same side and carry the same
/// node value.  The L edges form one simple cycle through all of them iff every endpoint meets
/// exactly one other endpoint and walking from edge 0 returns to the start after exactly L steps.
fn is_single_cycle(ep: &[u64], l: usize) -> bool {
	let mut i = 0;
	while i < 2 * l {
		let mut c = 0;
		let mut k = 0;
		while k < 2 * l {
			if (k & 1) == (i & 1) && ep[k] == ep[i] {
				c += 1;
			}
			k += 1;
		}
		if c != 2 {
			return false;
		}
		i += 1;
	}
	let mut cur = 0usize;
	let mut steps = 0usize;
	loop {
		// the unique other endpoint at the same node
		let mut other = cur;
		let mut k = 0;
		while k < 2 * l {
			if k != cur && (k & 1) == (cur & 1) && ep[k] == ep[cur] {
				other = k;
			}
			k += 1;
		}
		cur = other ^ 1; // cross that edge
		steps += 1;
		if cur == 0 || steps > l {
			break;
		}
	}
	cur == 0 && steps == l
}

macro_rules! cuckaroo_cycle {
	($name:ident, $l:expr, $unw:expr) => {
		#[kani::proof]
		#[kani::unwind($unw)]
		#[kani::stub(alloc::fmt::format, stub_format)]
		#[kani::stub(crate::global::proofsize, stub_proofsize)]
		#[kani::stub(crate::pow::siphash::siphash_block, stub_siphash_block)]
		fn $name() {
			const L: usize = $l;
			unsafe {
				PS = L;
				CALLS = 0;
			}
			let ctx = CuckarooContext { params: CuckooParams::new(5, 3, L).unwrap() };
			let raw: [u64; L] = kani::any();
			let words: [u64; L] = kani::any();
			let mut nonces = Vec::with_capacity(L);
			let mut ep = [0u64; 2 * L];
			let mut ok_shape = true;
			let mut i = 0;
			while i < L {
				kani::assume(raw[i] < 64); // small nonce domain: still covers above-mask (>31) and non-ascending tuples
				nonces.push(raw[i]);
				unsafe {
					EDGES[i] = words[i];
				}
				ep[2 * i] = words[i] & ctx.params.node_mask;
				ep[2 * i + 1] = (words[i] >> 32) & ctx.params.node_mask;
				if raw[i] > ctx.params.edge_mask {
					ok_shape = false;
				}
				if i > 0 && raw[i] <= raw[i - 1] {
					ok_shape = false;
				}
				i += 1;
			}
			let proof = Proof { edge_bits: 5, nonces };
			let accepted = ctx.verify(&proof).is_ok();
			let expected = ok_shape && is_single_cycle(&ep, L);
			assert!(accepted == expected, "C05: Cuckaroo accepts exactly the simple L-cycles with ascending in-range nonces");
		}
	};
}
cuckaroo_cycle!(c05_cuckaroo_cycle_4, 4, 10);
