//@ crate: grin_core
//@ target: core/src/pow/types.rs
//@ assume: KReader/KWriter model BinReader/BinWriter over byte slices; global::get_chain_type stubbed (proof size 42 = Mainnet/Testnet/UserTesting, 8 = AutomatedTesting), one harness per (edge_bits, proof size)
//@ assume: edge_bits enumerated concretely (symbolic edge_bits makes the buffer length symbolic and exhausts CBMC memory); the union of harnesses covers edge_bits 1..=63 in the thorough tier, a representative subset in quick
//@ assume: for packed lengths WITH padding bits the combined statement 'accepted => re-encodes identically' exhausts CBMC memory (late error path + re-encoding); it is split into: non-zero padding refused (padding harness, all byte strings), decode(encode(p)) == p (round trip, all nonce vectors), and the combined statement only for lengths without padding
//@ assume: proof size 5 is NOT a shipped parameter: it is used (global::proofsize stubbed) because 5*edge_bits leaves 1..7 padding bits like 42*edge_bits does, while CBMC exhausts memory on 42 nonces (those harnesses stay in the thorough tier and are reported undecided when they do not fit); proof size 8 (AutomatedTesting) never has padding
//@ repeat EB in 16,32
//@ harness c05_proof_canonical_5_{EB} kind=bounded tier=quick fns=Proof::read,Proof::write,Proof::pack_nonces,Proof::pack_len,pow::types::pack_bits,pow::types::extract_bits,pow::types::read_number bound=proof_size_5_(code_is_generic_in_the_size),_all_byte_strings_of_the_packed_length
//@ end
//@ repeat EB in 13,14,15,16,29,31,32,33,61,63
//@ harness c05_proof_padding_5_{EB} kind=bounded tier=quick fns=Proof::read,pow::types::read_number,pow::types::extract_bits bound=proof_size_5,_all_byte_strings_of_the_packed_length
//@ harness c05_proof_roundtrip_5_{EB} kind=bounded tier=quick fns=Proof::read,Proof::write,Proof::pack_nonces,pow::types::pack_bits,pow::types::read_number bound=proof_size_5,_all_nonce_vectors_below_2^edge_bits
//@ end
//@ repeat EB in 8,9,13,16,29,31,32,33,61,63
//@ harness c05_proof_canonical_8_{EB} kind=complete tier=quick fns=Proof::read,Proof::write bound=-
//@ end
//@ repeat EB in 8,9,13,16,29,31,32,33,61,63
//@ harness c05_proof_canonical_42_{EB} kind=complete tier=thorough optional=1 fns=Proof::read,Proof::write bound=-
//@ harness c05_proof_roundtrip_42_{EB} kind=complete tier=thorough optional=1 fns=Proof::read,Proof::write bound=-
//@ end
//@ repeat EB in 1,2,3,4,5,6,7,10,11,12,14,15,17,18,19,20,21,22,23,24,25,26,27,28,30,34,35,36,37,38,39,40,41,42,43,44,45,46,47,48,49,50,51,52,53,54,55,56,57,58,59,60,62
//@ harness c05_proof_canonical_8_{EB} kind=complete tier=thorough fns=Proof::read,Proof::write bound=-
//@ end
//@ harness c05_proof_edge_bits_range kind=complete tier=thorough optional=1 fns=Proof::read bound=-
use crate::ser::SerializationMode;
use crate::verif_kani_support::*;

static mut PS: usize = 0;
fn stub_proofsize() -> usize {
	unsafe { PS }
}

macro_rules! proof_canonical {
	($name:ident, $eb:expr, $ps:expr, $ct:expr, $unw:expr) => {
		/// Every byte string of the right length starting with this edge_bits byte: whatever
		/// `read` accepts re-encodes to exactly the same bytes, so non-zero padding bits are
		/// refused (they would not be reproduced) and every nonce fits in edge_bits bits.
		#[kani::proof]
		#[kani::unwind($unw)]
		#[kani::stub(alloc::fmt::format, stub_format)]
		#[kani::stub(crate::global::proofsize, stub_proofsize)]
		fn $name() {
			unsafe {
				PS = $ps;
			}
			const LEN: usize = 1 + ($eb * $ps + 7) / 8;
			const USED: usize = ($eb * $ps) % 8;
			let mut buf: [u8; LEN] = kani::any();
			buf[0] = $eb as u8;
			if USED != 0 {
				// strings with non-zero padding are handled by the proof_padding harness (refused);
				// here the padding is cleared so that the late error path is not explored together
				// with the re-encoding (CBMC exhausts memory on that combination)
				buf[LEN - 1] &= (1u8 << USED) - 1;
			}
			let mut r = KReader::<LEN>::full(buf, kani::any());
			match Proof::read(&mut r) {
				Ok(p) => {
					assert!(LEN >= 9, "C05: a proof of fewer than 8 packed bytes is refused");
					assert!(p.edge_bits == $eb as u8 && p.nonces.len() == $ps);
					let mut i = 0;
					while i < $ps {
						assert!(p.nonces[i] >> $eb == 0, "C05: nonce within edge_bits bits");
						i += 1;
					}
					let mut w = KWriter::<LEN>::new(kani::any(), SerializationMode::Full);
					assert!(p.write(&mut w).is_ok() && w.pos == LEN);
					let mut i = 0;
					while i < LEN {
						assert!(w.buf[i] == buf[i], "C05: proof re-encodes bit-exactly (non-zero padding refused)");
						i += 1;
					}
				}
				Err(_) => {}
			}
		}
	};
}
macro_rules! proof_padding {
	($name:ident, $eb:expr, $ps:expr, $unw:expr) => {
		/// Non-zero padding bits are refused: for every byte string of the packed length, if any
		/// bit above proof_size*edge_bits in the last byte is set, `read` returns an error.
		#[kani::proof]
		#[kani::unwind($unw)]
		#[kani::stub(alloc::fmt::format, stub_format)]
		#[kani::stub(crate::global::proofsize, stub_proofsize)]
		fn $name() {
			unsafe {
				PS = $ps;
			}
			const LEN: usize = 1 + ($eb * $ps + 7) / 8;
			const USED: usize = ($eb * $ps) % 8; // used bits in the last byte (0 = no padding)
			let mut buf: [u8; LEN] = kani::any();
			buf[0] = $eb as u8;
			let mut r = KReader::<LEN>::full(buf, kani::any());
			let res = Proof::read(&mut r);
			if USED != 0 && (buf[LEN - 1] >> USED) != 0 {
				assert!(res.is_err(), "C05: non-zero padding bits are refused");
			}
		}
	};
}
macro_rules! proof_roundtrip {
	($name:ident, $eb:expr, $ps:expr, $ct:expr, $unw:expr) => {
		/// Every nonce vector below 2^edge_bits: decode(encode(p)) == p.
		#[kani::proof]
		#[kani::unwind($unw)]
		#[kani::stub(alloc::fmt::format, stub_format)]
		#[kani::stub(crate::global::proofsize, stub_proofsize)]
		fn $name() {
			unsafe {
				PS = $ps;
			}
			const LEN: usize = 1 + ($eb * $ps + 7) / 8;
			let raw: [u64; $ps] = kani::any();
			let mut nonces = Vec::with_capacity($ps);
			let mut i = 0;
			while i < $ps {
				kani::assume(raw[i] >> $eb == 0);
				nonces.push(raw[i]);
				i += 1;
			}
			let p = Proof { edge_bits: $eb as u8, nonces };
			let mut w = KWriter::<LEN>::new(kani::any(), SerializationMode::Full);
			assert!(p.write(&mut w).is_ok() && w.pos == LEN);
			let mut r = KReader::<LEN>::full(w.buf, kani::any());
			let back = Proof::read(&mut r);
			if LEN >= 9 {
				assert!(back == Ok(p), "C05: decode(encode(proof)) == proof");
			} else {
				assert!(back.is_err());
			}
		}
	};
}
//@ repeat EB in 1..=63
proof_canonical!(c05_proof_canonical_8_{EB}, {EB}, 8, 0, {=({EB}*8+7)/8+12});
//@ end
//@ repeat EB in 8,9,13,16,29,31,32,33,61,63
proof_canonical!(c05_proof_canonical_42_{EB}, {EB}, 42, 3, {=({EB}*42+7)/8+45});
proof_roundtrip!(c05_proof_roundtrip_42_{EB}, {EB}, 42, 3, {=({EB}*42+7)/8+45+340}); // + 42 nonces * 8 bytes compared by memcmp in `back == Ok(p)`
//@ end
//@ repeat EB in 16,32
proof_canonical!(c05_proof_canonical_5_{EB}, {EB}, 5, 3, {=({EB}*5+7)/8+36});
//@ end
//@ repeat EB in 13,14,15,16,29,31,32,33,61,63
proof_roundtrip!(c05_proof_roundtrip_5_{EB}, {EB}, 5, 3, {=({EB}*5+7)/8+36});
proof_padding!(c05_proof_padding_5_{EB}, {EB}, 5, {=({EB}*5+7)/8+36});
//@ end

/// edge_bits 0 and 64..=255 are refused before anything else is read (edge_bits enumerated
/// concretely: a symbolic value makes the buffer length symbolic).
#[kani::proof]
#[kani::unwind(200)]
#[kani::stub(alloc::fmt::format, stub_format)]
#[kani::stub(crate::global::get_chain_type, stub_get_chain_type)]
fn c05_proof_edge_bits_range() {
	init_globals();
	let body: [u8; 15] = kani::any();
	let ver: u32 = kani::any();
	let mut eb: u16 = 0;
	while eb <= 255 {
		let mut buf = [0u8; 16];
		buf[0] = eb as u8;
		buf[1..16].copy_from_slice(&body);
		let mut r = KReader::<16>::full(buf, ver);
		assert!(Proof::read(&mut r).is_err(), "C05: edge_bits outside 1..=63 refused");
		assert!(r.pos == 1);
		eb = if eb == 0 { 64 } else { eb + 1 };
	}
}
