//@ assume: the Reader is abstract (ghost `remaining()` byte count): read_u64 consumes 8 bytes or fails, Hash::read consumes 32 bytes or fails
//@ assume: T6 rewrites: `Vec::with_capacity(` => `vec_with_capacity_checked(Ghost(reader.remaining()), ` (precondition = the C11 allocation bound, 32 bytes per element), `std::cmp::min` => local min, `for _ in 0..path_len {` => named range loop with spliced invariant
//@ assume: decided here, UNBOUNDED in path_len and input length: MerkleProof::read never panics, pre-allocates within the bound for every declared length, returns exactly path_len hashes on success and consumes 16 + 32*path_len bytes (so a declared length beyond the input fails)
//@ assume: 64-bit target
//@ assumed_items: 3
//@ fns: MerkleProof::read
global size_of usize == 8;

pub enum SerError { IOErr, TooLargeReadErr, CorruptedData }
pub mod ser { pub use super::SerError as Error; }

pub trait Reader {
    spec fn remaining(&self) -> nat;
    fn read_u64(&mut self) -> (r: Result<u64, SerError>)
        ensures r.is_ok() ==> old(self).remaining() >= 8 && final(self).remaining() == old(self).remaining() - 8,
                r.is_err() ==> final(self).remaining() <= old(self).remaining();
}
#[verifier::external_body]
pub struct Hash { _p: u8 }
impl Hash {
    #[verifier::external_body]
    pub fn read<R: Reader>(reader: &mut R) -> (r: Result<Hash, SerError>)
        ensures r.is_ok() ==> old(reader).remaining() >= 32 && final(reader).remaining() == old(reader).remaining() - 32,
                r.is_err() ==> final(reader).remaining() <= old(reader).remaining(),
    { unimplemented!() }
}
fn min(a: u64, b: u64) -> (r: u64) ensures r == if a <= b { a } else { b } { if a <= b { a } else { b } }

#[verifier::external_body]
fn vec_with_capacity_checked(remaining: Ghost<nat>, cap: usize) -> (r: Vec<Hash>)
    requires 32 * cap <= 100_000 + 64 * remaining@,
    ensures r@.len() == 0
{ Vec::with_capacity(cap) }

//@ extract core/src/core/merkle_proof.rs :: struct MerkleProof
//@ end

pub trait Readable: Sized {
    fn read<R: Reader>(reader: &mut R) -> (r: Result<Self, SerError>);
}

//@ extract core/src/core/merkle_proof.rs :: impl Readable for MerkleProof::read
//@   sigrewrite `fn read<R: Reader>(reader: &mut R) -> Result<MerkleProof, ser::Error>` => `fn read_merkle_proof<R: Reader>(reader: &mut R) -> Result<MerkleProof, ser::Error>`
//@   rewrite `Vec::with_capacity(` => `vec_with_capacity_checked(Ghost(reader.remaining()), `
//@   rewrite `std::cmp::min(` => `min(` x?
//@   rewrite `for _ in 0..path_len {` => `for i in 0..path_len {`
//@   ensures:
//@+    r matches Ok(p) ==> 32 * p.path@.len() + 16 == old(reader).remaining() - final(reader).remaining(),
//@   loop 1:
//@+    invariant
//@+        path@.len() == i,
//@+        reader.remaining() + 32 * i + 16 == old(reader).remaining(),
//@ end
//@ canary read: r.is_err()
