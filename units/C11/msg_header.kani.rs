//@ crate: grin_p2p
//@ target: p2p/src/msg.rs
//@ assume: KReader/KWriter model BinReader/BinWriter over byte slices; global::get_chain_type stubbed to an arbitrary chain type fixed per harness (all four explored)
//@ assume: decided here: header-level refusal (magic, per-type length limit, unknown type limit) and header round trip; Codec buffering, socket-level handshake refusals and timeouts are outside (DESIGN 6 C19)
//@ harness c19_header_limits kind=complete tier=quick fns=MsgHeaderWrapper::read,msg::max_msg_size,msg::default_max_msg_size,msg::max_block_size,msg::magic,Type::from_u8 bound=-
//@ harness c19_header_roundtrip kind=complete tier=quick fns=MsgHeader::new,MsgHeader::write,MsgHeaderWrapper::read bound=-
use crate::core::verif_kani_support::{KReader, KWriter};
use crate::core::ser::SerializationMode;

use crate::core::verif_kani_support::{init_globals, stub_format, stub_get_chain_type, CHAIN_TYPE_IDX};
fn init_ct() -> u8 {
	init_globals();
	unsafe { CHAIN_TYPE_IDX }
}
/// the published limits, written independently of max_msg_size
fn table(t: u8, ct: u8) -> Option<u64> {
	let mbs: u64 = if ct < 2 { 250 / 21 * 708 } else { 40_000 / 21 * 708 };
	Some(match t {
		0 => 0,
		1 => 128,
		2 => 88,
		3 => 16,
		4 => 16,
		5 => 4,
		6 => 4 + 19 * 256,
		7 => 1 + 32 * 20,
		8 => 365,
		9 => 2 + 365 * 512,
		10 => 32,
		11 => mbs,
		12 => 32,
		13 => mbs / 10,
		14 => mbs,
		15 => mbs,
		16 => 40,
		17 => 64,
		18 => 64,
		19 => 32,
		20 => 32,
		21 | 23 | 25 | 27 => 41,
		22 | 24 | 26 | 28 => 2 * mbs,
		_ => return None,
	})
}

/// Every 11-byte header x chain type x protocol version: wrong magic is refused having read only
/// the magic; a known type is accepted only with msg_len <= 4 * limit(type); an unknown type
/// only with msg_len <= 4 * default limit; nothing else is accepted.
#[kani::proof]
#[kani::unwind(13)]
#[kani::stub(alloc::fmt::format, stub_format)]
#[kani::stub(crate::core::global::get_chain_type, stub_get_chain_type)]
fn c19_header_limits() {
	let ct = init_ct();
	let buf: [u8; 11] = kani::any();
	let mut r = KReader::<11>::full(buf, kani::any());
	let m = magic();
	assert!(m == if ct == 2 { [83, 59] } else if ct == 3 { [97, 61] } else { [73, 43] });
	let mut lenb = [0u8; 8];
	lenb.copy_from_slice(&buf[3..11]);
	let announced = u64::from_be_bytes(lenb);
	let mbs: u64 = if ct < 2 { 250 / 21 * 708 } else { 40_000 / 21 * 708 };
	match MsgHeaderWrapper::read(&mut r) {
		Ok(MsgHeaderWrapper::Known(h)) => {
			assert!(buf[0] == m[0] && buf[1] == m[1], "C19: wrong magic refused");
			assert!(h.msg_type as u8 == buf[2] && h.msg_len == announced);
			let lim = table(buf[2], ct);
			assert!(lim.is_some());
			assert!(h.msg_len <= 4 * lim.unwrap(), "C19: announced length within 4x the type's limit");
			assert!(r.pos == 11);
		}
		Ok(MsgHeaderWrapper::Unknown(len, t)) => {
			assert!(buf[0] == m[0] && buf[1] == m[1], "C19: wrong magic refused");
			assert!(t == buf[2] && len == announced);
			assert!(table(t, ct).is_none(), "C19: only unknown types are skipped");
			assert!(len <= 4 * mbs, "C19: unknown type bounded by the default limit");
		}
		Err(_) => {
			if buf[0] != m[0] {
				assert!(r.pos == 1, "C19: wrong magic refused without reading the length");
			} else if buf[1] != m[1] {
				assert!(r.pos == 2, "C19: wrong magic refused without reading the length");
			} else {
				let lim = table(buf[2], ct).unwrap_or(mbs);
				assert!(announced > 4 * lim, "C19: a header within limits is not refused");
			}
		}
	}
}

#[kani::proof]
#[kani::unwind(13)]
#[kani::stub(alloc::fmt::format, stub_format)]
#[kani::stub(crate::core::global::get_chain_type, stub_get_chain_type)]
fn c19_header_roundtrip() {
	let ct = init_ct();
	let t: u8 = kani::any();
	kani::assume(t <= 28);
	let ty = Type::from_u8(t).unwrap();
	let len: u64 = kani::any();
	let h = MsgHeader::new(ty, len);
	let ver: u32 = kani::any();
	let mut w = KWriter::<11>::new(ver, SerializationMode::Full);
	assert!(h.write(&mut w).is_ok() && w.pos == 11);
	let mut r = KReader::<11>::full(w.buf, ver);
	match MsgHeaderWrapper::read(&mut r) {
		Ok(MsgHeaderWrapper::Known(h2)) => {
			assert!(h2.msg_type == ty && h2.msg_len == len && h2.magic == h.magic);
		}
		Ok(MsgHeaderWrapper::Unknown(..)) => assert!(false, "known type decoded as unknown"),
		Err(_) => assert!(len > 4 * table(t, ct).unwrap()),
	}
}
