//@ crate: grin_core
//@ target: core/src/core/pmmr/segment.rs
//@ profile: release-arith
//@ assume: Kani checks arithmetic overflow with debug semantics and stops a path at a wrap; a wrap at a site listed under wraps_known is recorded (evidence: arithmetic_wraps), any other wrap is replayed natively with wrapping arithmetic -- a panic there is a violation, otherwise the harness is undecided
//@ wraps_known: attempt to multiply with overflow @ core::pmmr::segment::SegmentIdentifier::leaf_offset
//@ assume: mmr_size >= 1 (the archive header's MMR sizes; mmr_size = 0 makes `mmr_size - 1` wrap)
//@ assume: HashWriter::finalize / into_hash stubbed to a constant digest: hash values reach control flow only in the final root comparison, whose two outcomes both return; Blake2b::update stubbed to a no-op
//@ assume: prunable path (bitmap = Some) not covered: croaring::Bitmap is C code behind FFI
//@ repeat S in 1..=2
//@ repeat H in 0..=2
//@ harness seg_validate_nopanic_{S}_h{H} kind=bounded tier=quick fns=Segment::root,Segment::validate,Segment::first_unpruned_parent,Segment::get_hash,SegmentProof::validate,SegmentProof::reconstruct_root,SegmentIdentifier::segment_pos_range,SegmentIdentifier::segment_unpruned_size,SegmentIdentifier::full_segment,SegmentIdentifier::leaf_offset,SegmentIdentifier::segment_capacity bound=mmr_size_1..=2_and_4_quick_(4_=_the_smallest_MMR_with_a_peak_to_the_right_of_a_segment)_/_3,_5..=8_thorough_(best_effort)_(one_harness_per_size_and_height);_<=2_hashes,_<=2_leaves,_<=2_proof_hashes_with_arbitrary_positions;_identifiers_height_0..=2,_idx_0..=(size>>height)+2,_plus_(63,2),(64,1),(255,u64::MAX);_bitmap=None
//@ end
//@ end
//@ repeat S in 4..=4
//@ repeat H in 0..=2
//@ harness seg_validate_nopanic_{S}_h{H} kind=bounded tier=quick fns=Segment::root,Segment::validate,Segment::first_unpruned_parent,Segment::get_hash,SegmentProof::validate,SegmentProof::reconstruct_root,SegmentIdentifier::segment_pos_range,SegmentIdentifier::segment_unpruned_size,SegmentIdentifier::full_segment,SegmentIdentifier::leaf_offset,SegmentIdentifier::segment_capacity bound=mmr_size_1..=2_and_4_quick_(4_=_the_smallest_MMR_with_a_peak_to_the_right_of_a_segment)_/_3,_5..=8_thorough_(best_effort)_(one_harness_per_size_and_height);_<=2_hashes,_<=2_leaves,_<=2_proof_hashes_with_arbitrary_positions;_identifiers_height_0..=2,_idx_0..=(size>>height)+2,_plus_(63,2),(64,1),(255,u64::MAX);_bitmap=None
//@ end
//@ end
//@ repeat S in 3..=3
//@ repeat H in 0..=2
//@ harness seg_validate_nopanic_{S}_h{H} kind=bounded tier=thorough optional=1 fns=Segment::root,Segment::validate bound=mmr_size_{S}
//@ end
//@ end
//@ repeat S in 5..=8
//@ repeat H in 0..=2
//@ harness seg_validate_nopanic_{S}_h{H} kind=bounded tier=thorough optional=1 fns=Segment::root,Segment::validate bound=mmr_size_{S}
//@ end
//@ end
//@ harness seg_read_nopanic_alloc kind=complete tier=quick fns=Segment::read,SegmentProof::read,SegmentIdentifier::read,read_segment_item_count,read_segment_positions,read_segment_items bound=-
use crate::verif_kani_support::*;

#[derive(Clone, Debug)]
struct KLeaf(u8);
impl PMMRIndexHashable for KLeaf {
	fn hash_with_index(&self, _index: u64) -> Hash {
		khash()
	}
}
impl Readable for KLeaf {
	fn read<R: Reader>(reader: &mut R) -> Result<Self, Error> {
		Ok(KLeaf(reader.read_u8()?))
	}
}

// Hash values influence control flow only through the final `root == mmr_root` test (both
// outcomes return without panicking; `get_hash` looks hashes up by position), so a constant
// digest loses no panic path and keeps the SAT problem small.
fn stub_finalize(_w: crate::core::hash::HashWriter, output: &mut [u8]) {
	if output.len() == 32 {
		output.copy_from_slice(&[0u8; 32]);
	}
}
fn stub_into_hash(_w: crate::core::hash::HashWriter) -> Hash {
	khash()
}
fn khash() -> Hash {
	crate::core::hash::ZERO_HASH
}
fn stub_update(_s: &mut blake2::blake2b::Blake2b, _data: &[u8]) {}

fn any_vec_u64_2() -> Vec<u64> {
	let n: u8 = kani::any();
	match n {
		0 => vec![],
		1 => vec![kani::any()],
		_ => vec![kani::any(), kani::any()],
	}
}
fn hashes_n(n: usize) -> Vec<Hash> {
	match n {
		0 => vec![],
		1 => vec![khash()],
		_ => vec![khash(), khash()],
	}
}

fn any_segment(height: u8, idx: u64) -> Segment<KLeaf> {
	let identifier = SegmentIdentifier { height, idx };
	let hash_pos = any_vec_u64_2();
	let hashes = hashes_n(hash_pos.len());
	let leaf_pos = any_vec_u64_2();
	let leaf_data = match leaf_pos.len() {
		0 => vec![],
		1 => vec![KLeaf(kani::any())],
		_ => vec![KLeaf(kani::any()), KLeaf(kani::any())],
	};
	let np: u8 = kani::any();
	Segment { identifier, hash_pos, hashes, leaf_pos, leaf_data, proof: SegmentProof { hashes: hashes_n(np as usize) } }
}

macro_rules! seg_validate {
	($name:ident, $size:expr, $h:expr) => {
		#[kani::proof]
		#[kani::unwind(34)]
		#[kani::stub(alloc::fmt::format, stub_format)]
		#[kani::stub(crate::core::hash::HashWriter::finalize, stub_finalize)]
		#[kani::stub(crate::core::hash::HashWriter::into_hash, stub_into_hash)]
		#[kani::stub(blake2_rfc::blake2b::Blake2b::update, stub_update)]
		fn $name() {
			let root = khash();
			let mut idx: u64 = 0;
			while idx <= ($size >> $h) + 2 {
				let seg = any_segment($h, idx);
				let _ = seg.validate($size, None, root);
				idx += 1;
			}
			if $h == 0 {
				// identifiers whose leaf offset wraps around 2^64 or whose height exceeds 63
				let seg = any_segment(63, 2);
				let _ = seg.validate($size, None, root);
				let seg = any_segment(64, 1);
				let _ = seg.validate($size, None, root);
				let seg = any_segment(255, u64::MAX);
				let _ = seg.validate($size, None, root);
			}
		}
	};
}
//@ repeat S in 1..=8
//@ repeat H in 0..=2
seg_validate!(seg_validate_nopanic_{S}_h{H}, {S}, {H});
//@ end
//@ end

/// Segment::<KLeaf>::read on every byte string of length 0..=50 (identifier, the three counts and up to two positions; the unbounded statement is the Verus unit C11/segment_read): no panic, bounded allocation,
/// every count loop ends at EOF.
#[kani::proof]
#[kani::unwind(7)]
#[kani::stub(alloc::fmt::format, stub_format)]
#[kani::stub(std::vec::Vec::with_capacity, checked_with_capacity)]
fn seg_read_nopanic_alloc() {
	let mut r = KReader::<50>::any();
	let res = Segment::<KLeaf>::read(&mut r);
	if let Ok(s) = res {
		assert!(s.hash_pos.len() == s.hashes.len() && s.leaf_pos.len() == s.leaf_data.len());
		assert!(s.hash_pos.len() * 40 + s.leaf_pos.len() * 9 + s.proof.hashes.len() * 32 + 33 == r.pos);
	}
}
