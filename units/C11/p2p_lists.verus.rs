//@ assume: the Reader is abstract (ghost remaining-bytes count); Hash::read consumes 32 bytes or fails, PeerAddr::read consumes at least 7 bytes or fails (7 for IPv4, 19 for IPv6)
//@ assume: T6 rewrites: `Vec::with_capacity(` => checked helper carrying the C11 allocation bound for the element size (32 bytes per hash, 32 bytes per PeerAddr); `for _ in 0..N {` => named range loops with spliced invariants; `vec![]` => Vec::new()
//@ assume: decided here: Locator::read and PeerAddrs::read never panic, refuse counts above MAX_LOCATORS / MAX_PEER_ADDRS before allocating, pre-allocate within the bound, return exactly the declared number of items and make progress on every item
//@ assume: 64-bit target
//@ assumed_items: 6
//@ fns: Locator::read, PeerAddrs::read
global size_of usize == 8;
pub enum SerError { IOErr, TooLargeReadErr, CorruptedData }
pub mod ser { pub use super::SerError as Error; }
pub trait Reader {
    spec fn remaining(&self) -> nat;
    fn read_u8(&mut self) -> (r: Result<u8, SerError>)
        ensures r.is_ok() ==> old(self).remaining() >= 1 && final(self).remaining() == old(self).remaining() - 1,
                r.is_err() ==> final(self).remaining() <= old(self).remaining();
    fn read_u32(&mut self) -> (r: Result<u32, SerError>)
        ensures r.is_ok() ==> old(self).remaining() >= 4 && final(self).remaining() == old(self).remaining() - 4,
                r.is_err() ==> final(self).remaining() <= old(self).remaining();
}
//@ extract p2p/src/types.rs :: const MAX_LOCATORS
//@ end
//@ extract p2p/src/types.rs :: const MAX_PEER_ADDRS
//@ end
#[verifier::external_body]
pub struct Hash { _p: u8 }
impl Hash {
    #[verifier::external_body]
    pub fn read<R: Reader>(reader: &mut R) -> (r: Result<Hash, SerError>)
        ensures r.is_ok() ==> old(reader).remaining() >= 32 && final(reader).remaining() == old(reader).remaining() - 32,
                r.is_err() ==> final(reader).remaining() <= old(reader).remaining(),
    { unimplemented!() }
}
#[verifier::external_body]
pub struct PeerAddr { _p: u8 }
impl PeerAddr {
    #[verifier::external_body]
    pub fn read<R: Reader>(reader: &mut R) -> (r: Result<PeerAddr, SerError>)
        ensures r.is_ok() ==> old(reader).remaining() >= 7 && final(reader).remaining() + 7 <= old(reader).remaining(),
                r.is_err() ==> final(reader).remaining() <= old(reader).remaining(),
    { unimplemented!() }
}
pub struct Locator { pub hashes: Vec<Hash> }
pub struct PeerAddrs { pub peers: Vec<PeerAddr> }

#[verifier::external_body]
fn with_capacity_hash(remaining: Ghost<nat>, cap: usize) -> (r: Vec<Hash>)
    requires 32 * cap <= 100_000 + 64 * remaining@,
    ensures r@.len() == 0
{ Vec::with_capacity(cap) }
#[verifier::external_body]
fn with_capacity_addr(remaining: Ghost<nat>, cap: usize) -> (r: Vec<PeerAddr>)
    requires 32 * cap <= 100_000 + 64 * remaining@,
    ensures r@.len() == 0
{ Vec::with_capacity(cap) }

//@ extract p2p/src/msg.rs :: impl Readable for Locator::read
//@   sigrewrite `fn read<R: Reader>(reader: &mut R) -> Result<Locator, ser::Error>` => `fn read_locator<R: Reader>(reader: &mut R) -> Result<Locator, ser::Error>`
//@   rewrite `Vec::with_capacity(` => `with_capacity_hash(Ghost(reader.remaining()), `
//@   rewrite `for _ in 0..len {` => `for i in 0..len {`
//@   ensures:
//@+    r matches Ok(l) ==> l.hashes@.len() <= 20 && 1 + 32 * l.hashes@.len() == old(reader).remaining() - final(reader).remaining(),
//@   loop 1:
//@+    invariant
//@+        hashes@.len() == i,
//@+        reader.remaining() + 32 * i + 1 == old(reader).remaining(),
//@ end

//@ extract p2p/src/msg.rs :: impl Readable for PeerAddrs::read
//@   sigrewrite `fn read<R: Reader>(reader: &mut R) -> Result<PeerAddrs, ser::Error>` => `fn read_peer_addrs<R: Reader>(reader: &mut R) -> Result<PeerAddrs, ser::Error>`
//@   rewrite `return Ok(PeerAddrs { peers: vec![] });` => `return Ok(PeerAddrs { peers: Vec::new() });`
//@   rewrite `Vec::with_capacity(` => `with_capacity_addr(Ghost(reader.remaining()), `
//@   rewrite `for _ in 0..peer_count {` => `for i in 0..peer_count {`
//@   ensures:
//@+    r matches Ok(p) ==> p.peers@.len() <= 256 && 4 + 7 * p.peers@.len() <= old(reader).remaining() - final(reader).remaining(),
//@   loop 1:
//@+    invariant
//@+        peers@.len() == i,
//@+        reader.remaining() + 7 * i + 4 <= old(reader).remaining(),
//@ end
//@ canary read: r.is_err()
