//@ assume: the Reader is abstract and TOTAL (every read method returns a value or an error; read_bytes_len_prefix's own bound is the Kani unit C11/ser_prims); ProtocolVersion::read, Difficulty::read, PeerAddr::read, Hash::read are total (decided in C10/C11 units of their own); String::from_utf8 is std (total: Ok or Err); Capabilities::from_bits_truncate is total (bitflags)
//@ assume: T6: `ser_multiread!(reader, read_u32, read_u64)` => `(reader.read_u32()?, reader.read_u64()?)` (the macro's expansion); `.map_err(|_| ser::Error::CorruptedData)?` after from_utf8 => `?` against the abstract from_utf8 that already returns the final error; T5: `impl Readable for X` => inherent
//@ assume: decided here (C11, 'every message body type ... yields a value or an error'): Hand::read and Shake::read -- decoded inline by the listener / connector before any handshake check -- consist ONLY of total reader calls and total std calls: no indexing, slicing, truncation, unwrap or arithmetic that could panic, for any byte string and any user agent. A variant that post-processes a field with a partial operation the unit has no contract for is UNDECIDED (exit 2), not passed.
//@ assumed_items: 11
//@ fns: Hand::read, Shake::read
pub mod ser { pub enum Error { IOErr, CorruptedData, TooLargeReadErr } }
pub trait Reader {
    fn read_u32(&mut self) -> Result<u32, ser::Error>;
    fn read_u64(&mut self) -> Result<u64, ser::Error>;
    fn read_bytes_len_prefix(&mut self) -> Result<Vec<u8>, ser::Error>;
}
#[verifier::external_body]
pub struct ProtocolVersion { _p: u8 }
#[verifier::external_body]
pub struct Difficulty { _p: u8 }
#[verifier::external_body]
pub struct PeerAddr { _p: u8 }
#[verifier::external_body]
pub struct Hash { _p: u8 }
#[verifier::external_body]
pub struct Capabilities { _p: u8 }
impl ProtocolVersion { #[verifier::external_body] pub fn read<R: Reader>(reader: &mut R) -> (r: Result<ProtocolVersion, ser::Error>) { unimplemented!() } }
impl Difficulty { #[verifier::external_body] pub fn read<R: Reader>(reader: &mut R) -> (r: Result<Difficulty, ser::Error>) { unimplemented!() } }
impl PeerAddr { #[verifier::external_body] pub fn read<R: Reader>(reader: &mut R) -> (r: Result<PeerAddr, ser::Error>) { unimplemented!() } }
impl Hash { #[verifier::external_body] pub fn read<R: Reader>(reader: &mut R) -> (r: Result<Hash, ser::Error>) { unimplemented!() } }
impl Capabilities { #[verifier::external_body] pub fn from_bits_truncate(bits: u32) -> (r: Capabilities) { unimplemented!() } }
pub struct Utf8;
impl Utf8 {
    /// String::from_utf8 + the error mapping of the real text
    #[verifier::external_body]
    pub fn from_utf8(v: Vec<u8>) -> (r: Result<String, ser::Error>) { unimplemented!() }
}
//@ extract p2p/src/msg.rs :: struct Hand
//@   strip_attrs
//@ end
//@ extract p2p/src/msg.rs :: struct Shake
//@   strip_attrs
//@ end
impl Hand {
//@ extract p2p/src/msg.rs :: impl Readable for Hand::read
//@   rewrite `ser_multiread!(reader, read_u32, read_u64)` => `(reader.read_u32()?, reader.read_u64()?)`
//@   rewrite `String::from_utf8(ua).map_err(|_| ser::Error::CorruptedData)?` => `Utf8::from_utf8(ua)?` x?
//@ end
}
impl Shake {
//@ extract p2p/src/msg.rs :: impl Readable for Shake::read
//@   rewrite `String::from_utf8(ua).map_err(|_| ser::Error::CorruptedData)?` => `Utf8::from_utf8(ua)?` x?
//@ end
}
