//@ crate: grin_util
//@ target: util/src/hex.rs
//@ profile: release-arith
//@ assume: strings explored: every valid UTF-8 string of at most 3 bytes made of ASCII bytes and at most one 2-byte character (the shapes that decide char-boundary behaviour); longer strings repeat the same per-pair step
//@ harness from_hex_nopanic_ascii kind=bounded tier=thorough fns=util::from_hex bound=all_ASCII_strings_of_length<=2
//@ harness from_hex_nopanic_ascii3 kind=bounded tier=thorough fns=util::from_hex bound=all_ASCII_strings_of_length<=3
//@ harness from_hex_nopanic_2byte kind=bounded tier=thorough fns=util::from_hex bound=strings_a+2-byte-char_(a_ASCII)
//@ harness from_hex_nopanic_2byte4 kind=bounded tier=thorough fns=util::from_hex bound=strings_a+2-byte-char+b_(a,b_ASCII)
fn stub_format(_args: core::fmt::Arguments<'_>) -> String {
	String::new()
}

#[kani::proof]
#[kani::unwind(6)]
#[kani::stub(alloc::fmt::format, stub_format)]
fn from_hex_nopanic_ascii() {
	let b: [u8; 3] = kani::any();
	let len: usize = kani::any();
	kani::assume(len <= 2);
	kani::assume(b[0] < 128 && b[1] < 128 && b[2] < 128);
	let s = unsafe { std::str::from_utf8_unchecked(&b[..len]) };
	let _ = from_hex(s);
}

#[kani::proof]
#[kani::unwind(6)]
#[kani::stub(alloc::fmt::format, stub_format)]
fn from_hex_nopanic_ascii3() {
	let b: [u8; 3] = kani::any();
	kani::assume(b[0] < 128 && b[1] < 128 && b[2] < 128);
	let s = unsafe { std::str::from_utf8_unchecked(&b[..3]) };
	let _ = from_hex(s);
}

#[kani::proof]
#[kani::unwind(6)]
#[kani::stub(alloc::fmt::format, stub_format)]
fn from_hex_nopanic_2byte4() {
	let a: u8 = kani::any();
	let c: u8 = kani::any();
	let b1: u8 = kani::any();
	let b2: u8 = kani::any();
	kani::assume(a < 128 && c < 128);
	kani::assume(b1 >= 0xC2 && b1 <= 0xDF && b2 >= 0x80 && b2 <= 0xBF);
	let buf: [u8; 4] = [a, b1, b2, c];
	let s = unsafe { std::str::from_utf8_unchecked(&buf[..4]) };
	let _ = from_hex(s);
}

#[kani::proof]
#[kani::unwind(6)]
#[kani::stub(alloc::fmt::format, stub_format)]
fn from_hex_nopanic_2byte() {
	let a: u8 = kani::any();
	let c: u8 = kani::any();
	let b1: u8 = kani::any();
	let b2: u8 = kani::any();
	kani::assume(a < 128 && c < 128);
	kani::assume(b1 >= 0xC2 && b1 <= 0xDF && b2 >= 0x80 && b2 <= 0xBF);
	let buf: [u8; 3] = [a, b1, b2];
	let s = unsafe { std::str::from_utf8_unchecked(&buf[..3]) };
	let _ = from_hex(s);
}
