//@ crate: grin_core
//@ target: core/src/pow/types.rs
//@ profile: release-arith
//@ assume: KReader models BinReader over a byte slice (symbolic protocol version, full deserialisation mode); global::proofsize stubbed per harness (8 = AutomatedTesting, 42 = Mainnet/Testnet/UserTesting)
//@ assume: decided here (C11, 'no input makes a decoder panic', the PoW proof inside every Header / Headers / Block / CompactBlock body): for the edge_bits values whose packed proof is SHORTER than 8 bytes (edge_bits 1..=7 with 8 nonces, edge_bits 1 with 42 nonces) and ALL byte strings of that packed length, Proof::read returns an error without panicking -- read_number's `bits.len() - 8` relies on the caller refusing them. Larger edge_bits: C05/proof_ser
//@ repeat EB in 1,4,7
//@ harness c11_proof_short_8_{EB} kind=complete tier=quick fns=Proof::read,pow::types::read_number,pow::types::extract_bits bound=-
//@ end
//@ harness c11_proof_short_42_1 kind=complete tier=quick fns=Proof::read,pow::types::read_number,pow::types::extract_bits bound=-
use crate::verif_kani_support::*;

static mut PS: usize = 0;
fn stub_proofsize() -> usize {
	unsafe { PS }
}
// Stubs are not applied when a counterexample is played back natively: there the real chain type is set
// (and the real global::proofsize() answers 8 / 42 from it); under verification the setter is a no-op.
fn stub_set_chain_type(_t: crate::global::ChainTypes) {}

macro_rules! proof_short {
	($name:ident, $eb:expr, $ps:expr, $unw:expr) => {
		#[kani::proof]
		#[kani::unwind($unw)]
		#[kani::stub(alloc::fmt::format, stub_format)]
		#[kani::stub(crate::global::proofsize, stub_proofsize)]
		#[kani::stub(crate::global::set_local_chain_type, stub_set_chain_type)]
		fn $name() {
			unsafe {
				PS = $ps;
			}
			crate::global::set_local_chain_type(if $ps == 8 {
				crate::global::ChainTypes::AutomatedTesting
			} else {
				crate::global::ChainTypes::Mainnet
			});
			const PACKED: usize = ($eb * $ps + 7) / 8;
			const LEN: usize = 1 + PACKED;
			let mut buf: [u8; LEN] = kani::any();
			buf[0] = $eb as u8;
			let mut r = KReader::<LEN>::full(buf, kani::any());
			let res = Proof::read(&mut r);
			assert!(PACKED >= 8 || res.is_err(), "C11: a proof packed into fewer than 8 bytes is refused, not indexed");
		}
	};
}
//@ repeat EB in 1,4,7
proof_short!(c11_proof_short_8_{EB}, {EB}, 8, {=({EB}*8+7)/8+12});
//@ end
proof_short!(c11_proof_short_42_1, 1, 42, 52);
