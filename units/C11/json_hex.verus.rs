//@ assume: util::from_hex is abstract: it returns Ok(bytes) or Err for ANY string (its own no-panic proof is the Kani unit C11/util_hex); from_slice / from_bytes (copy at most SIZE bytes through `min`) are abstract and total; the secp crate's `RangeProof::deserialize` (serde visitor writing `ret[i]` into a [u8; MAX_PROOF_SIZE] for every byte) is abstract with the precondition TRANSCRIBED from its source (grin_secp256k1zkp-0.7.15 src/pedersen.rs visit_seq): at most MAX_PROOF_SIZE = 675 bytes; serde's String::deserialize is abstract (Ok(any string) or Err)
//@ assume: T6: `.map_err(|e| Error::Transaction(format!(..)))?` => `?` against the abstract from_hex that already returns the final error; `.map_err(de::Error::custom)` => `.map_err_custom()` (re-words the error only); in rangeproof_from_hex `String::deserialize(deserializer).and_then(|string| from_hex(&string).map_err(Error::custom))?` => `hex_string_bytes(deserializer)?` (Ok(ANY byte vector) or Err), `val.into_deserializer()` => `val`, `Error::custom("..")` => custom_err(); `Result::unwrap` keeps vstd's precondition is_ok (an unwrap of an Err is the panic)
//@ assume: decided here (C11, 'any decoder reachable from ... the API ... yields a value or an error: it never panics' -- the JSON decoders of Transaction.offset, Identifier and Output.proof used by the foreign JSON-RPC push_transaction): BlindingFactor::from_hex, Identifier::from_hex and IdentifierVisitor::visit_str return Err on a string that is not valid hex instead of unwrapping; rangeproof_from_hex never hands the secp visitor more than MAX_PROOF_SIZE bytes
//@ assumed_items: 7
//@ fns: BlindingFactor::from_hex, Identifier::from_hex, IdentifierVisitor::visit_str, secp_ser::rangeproof_from_hex
#[derive(Debug)]
pub enum Error { Transaction, Other }
pub mod util {
    use super::*;
    #[verifier::external_body]
    pub fn from_hex(hex: &str) -> (r: Result<Vec<u8>, Error>) { unimplemented!() }
}
pub struct BlindingFactor { pub _p: u8 }
pub struct Identifier { pub _p: u8 }
pub struct DeError { pub _p: u8 }
pub trait MapErrCustom<T> { fn map_err_custom(self) -> Result<T, DeError>; }
impl<T> MapErrCustom<T> for Result<T, Error> {
    #[verifier::external_body]
    fn map_err_custom(self) -> (r: Result<T, DeError>) ensures r.is_ok() == self.is_ok() { unimplemented!() }
}
impl BlindingFactor {
    #[verifier::external_body]
    pub fn from_slice(data: &[u8]) -> BlindingFactor { unimplemented!() }
//@ extract keychain/src/types.rs :: impl BlindingFactor::from_hex
//@   rewrite `.map_err(|e| Error::Transaction(format!("invalid hex: {}", e)))?` => `?` x?
//@ end
}
impl Identifier {
    #[verifier::external_body]
    pub fn from_bytes(bytes: &[u8]) -> Identifier { unimplemented!() }
//@ extract keychain/src/types.rs :: impl Identifier::from_hex
//@   rewrite `.map_err(|e| Error::Transaction(format!("invalid hex: {}", e)))?` => `?` x?
//@ end
}
pub struct IdentifierVisitor;
impl IdentifierVisitor {
//@ extract keychain/src/types.rs :: impl Visitor for IdentifierVisitor::visit_str
//@   sigrewrite `fn visit_str<E>(self, s: &str) -> Result<Self::Value, E>` => `fn visit_str(self, s: &str) -> Result<Identifier, DeError>`
//@   sigrewrite `\twhere\n\t\tE: de::Error,\n` => ``
//@   rewrite `.map_err(de::Error::custom)` => `.map_err_custom()` x?
//@ end
}
pub const MAX_PROOF_SIZE: usize = 675;
pub struct RangeProof { pub plen: usize }
impl RangeProof {
    /// the secp crate's serde visitor: `ret[i] = val` for every byte into a [u8; MAX_PROOF_SIZE]
    #[verifier::external_body]
    pub fn deserialize(val: Vec<u8>) -> (r: Result<RangeProof, DeError>) requires val@.len() <= MAX_PROOF_SIZE { unimplemented!() }
}
pub struct Deser { pub _p: u8 }
#[verifier::external_body]
pub fn hex_string_bytes(d: Deser) -> (r: Result<Vec<u8>, DeError>) { unimplemented!() }
#[verifier::external_body]
pub fn custom_err() -> DeError { unimplemented!() }
//@ extract core/src/libtx/secp_ser.rs :: fn rangeproof_from_hex
//@   sigrewrite `pub fn rangeproof_from_hex<'de, D>(deserializer: D) -> Result<RangeProof, D::Error>` => `pub fn rangeproof_from_hex(deserializer: Deser) -> Result<RangeProof, DeError>`
//@   sigrewrite `where\n\tD: Deserializer<'de>,\n` => ``
//@   rewrite `\tuse serde::de::{Error, IntoDeserializer};\n` => ``
//@   rewrite `String::deserialize(deserializer)\n\t\t.and_then(|string| from_hex(&string).map_err(Error::custom))?` => `hex_string_bytes(deserializer)?`
//@   rewrite `Error::custom("rangeproof too long")` => `custom_err()` x?
//@   rewrite `val.into_deserializer()` => `val`
//@ end
//@ canary rangeproof_from_hex: r.is_err()
