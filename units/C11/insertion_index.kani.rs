//@ crate: grin_core
//@ target: core/src/core/pmmr/pmmr.rs
//@ assume: none beyond Kani/CBMC themselves: a loop-free harness over every u64 (the function is `2 * n - popcount(n)`); this is the fact the Verus unit C11/bitmap_segment assumes as ax_i2p_increasing
//@ harness c11_insertion_index_increasing kind=complete tier=quick fns=pmmr::insertion_to_pmmr_index bound=-

#[kani::proof]
fn c11_insertion_index_increasing() {
	let n: u64 = kani::any();
	// below 2^63 the doubling cannot wrap (no arithmetic check may fire either)
	kani::assume(n < 0x7fff_ffff_ffff_ffff);
	assert!(
		insertion_to_pmmr_index(n) < insertion_to_pmmr_index(n + 1),
		"C11: leaf positions are strictly increasing in the insertion index"
	);
}
