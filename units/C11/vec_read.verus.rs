//@ assume: element decoder T::read is abstract with the progress contract every real element type satisfies: on success it consumed at least one byte (all wire types start with at least one byte), on failure it did not un-read
//@ assume: T6 rewrites: the end-of-input arm `Err(Error::IOErr(ref _d, ref kind)) if *kind == io::ErrorKind::UnexpectedEof` => `Err(e) if is_eof(&e)` (same test through a helper); `decreases reader.remaining()` spliced on the loop
//@ assume: decided here, UNBOUNDED in the input: the greedy `Vec<T>::read` loop terminates (never iterates without consuming input), never panics, and the number of decoded elements is at most the number of bytes consumed
//@ assumed_items: 0
//@ fns: Vec<T>::read
pub enum Error { IOErrEof, IOErrOther, CorruptedData, TooLargeReadErr }
pub trait Reader {
    spec fn remaining(&self) -> nat;
}
pub trait Readable: Sized {
    fn read<R: Reader>(reader: &mut R) -> (r: Result<Self, Error>)
        ensures r.is_ok() ==> final(reader).remaining() < old(reader).remaining(),
                r.is_err() ==> final(reader).remaining() <= old(reader).remaining();
}
fn is_eof(e: &Error) -> (r: bool)
    ensures r == (*e matches Error::IOErrEof)
{ match e { Error::IOErrEof => true, _ => false } }

//@ extract core/src/ser.rs :: impl Readable for Vec::read
//@   sigrewrite `fn read<R: Reader>(reader: &mut R) -> Result<Vec<T>, Error>` => `fn read_vec<T: Readable, R: Reader>(reader: &mut R) -> Result<Vec<T>, Error>`
//@   rewrite `Err(Error::IOErr(ref _d, ref kind)) if *kind == io::ErrorKind::UnexpectedEof =>` => `Err(e) if is_eof(&e) =>`
//@   ensures:
//@+    r matches Ok(v) ==> v@.len() + final(reader).remaining() <= old(reader).remaining(),
//@   loop 1:
//@+    invariant
//@+        buf@.len() + reader.remaining() <= old(reader).remaining(),
//@+    decreases reader.remaining()
//@ end
//@ canary read: r.is_err()
