//@ crate: grin_core
//@ target: core/src/core/merkle_proof.rs
//@ profile: release-arith
//@ assume: Kani checks arithmetic overflow with debug semantics and stops a path at a wrap; a wrap at a site listed under wraps_known is recorded (evidence: arithmetic_wraps), any other wrap is replayed natively with wrapping arithmetic -- a panic there is a violation, otherwise the harness is undecided
//@ assume: KReader (units/_shared/grin_core.support.rs) models BinReader over a byte slice: big-endian, EOF => Err, reads > 100_000 bytes refused; BinReader/BufReader are verified against this behaviour in C11/readers
//@ assume: alloc::fmt::format stubbed to String::new() (error message text is not part of any contract)
//@ assume: allocation bound: one with_capacity request may not exceed 100_000 + 64 * input_len bytes (the precise reading of "a small multiple of the input length")
//@ harness mp_read_nopanic_alloc kind=complete tier=quick fns=MerkleProof::read,Hash::read bound=-
//@ harness mp_from_hex_nopanic kind=modular tier=quick fns=MerkleProof::from_hex,ser::deserialize_default,BinReader::read_u64,BinReader::read_fixed_bytes bound=decoded_bytes_of_length_0..=48_(16-byte_header_+_one_hash);_util::from_hex_replaced_by_its_contract
use crate::verif_kani_support::*;

/// MerkleProof::read on every byte string of length 0..=80 (16-byte header + up to 2 hashes):
/// no panic, bounded allocation, the count loop ends at EOF (unwinding assertions on).
#[kani::proof]
#[kani::unwind(5)]
#[kani::stub(alloc::fmt::format, stub_format)]
#[kani::stub(std::vec::Vec::with_capacity, checked_with_capacity)]
fn mp_read_nopanic_alloc() {
	let mut r = KReader::<80>::any();
	let res = MerkleProof::read(&mut r);
	if let Ok(p) = res {
		// progress / proportionality: every decoded path element consumed 32 input bytes
		assert!(p.path.len() * 32 + 16 == r.pos);
	}
	kani::cover!(r.pos == 80);
}

/// Contract of util::from_hex as seen by its callers (it is verified separately in
/// C11/util_hex): any byte vector, or an error.  Bytes: every string of length 0..=48.
fn from_hex_contract(_hex: &str) -> Result<Vec<u8>, String> {
	if kani::any() {
		return Err(String::new());
	}
	let buf: [u8; 48] = kani::any();
	let len: usize = kani::any();
	kani::assume(len <= 48);
	unsafe {
		INPUT_LEN = len;
	}
	Ok(buf[..len].to_vec())
}

/// MerkleProof::from_hex (API input) for every hex string: modular in util::from_hex.
#[kani::proof]
#[kani::unwind(4)]
#[kani::stub(alloc::fmt::format, stub_format)]
#[kani::stub(grin_util::from_hex, from_hex_contract)]
#[kani::stub(std::vec::Vec::with_capacity, checked_with_capacity)]
fn mp_from_hex_nopanic() {
	let r = MerkleProof::from_hex("");
	kani::cover!(r.is_ok());
	kani::cover!(r.is_err());
}
