//@ crate: grin_core
//@ target: core/src/ser.rs
//@ profile: release-arith
//@ assume: Kani checks arithmetic overflow with debug semantics and stops a path at a wrap; a wrap at a site listed under wraps_known is recorded (evidence: arithmetic_wraps), any other wrap is replayed natively with wrapping arithmetic -- a panic there is a violation, otherwise the harness is undecided
//@ assume: KReader models BinReader over a byte slice; BinReader itself is exercised over &[u8] in binreader_fixed_bytes
//@ harness rangeproof_read_nopanic kind=complete tier=quick fns=RangeProof::read,Reader::read_fixed_bytes bound=-
//@ harness commit_sig_read_nopanic kind=complete tier=quick fns=Commitment::read,Signature::read bound=-
//@ harness binreader_fixed_bytes kind=complete tier=quick fns=BinReader::read_fixed_bytes,BinReader::read_u64,BinReader::read_bytes_len_prefix,ser::map_io_err bound=source_slices_of_length_0..=24_(the_>100_000_refusal_is_independent_of_the_source)
//@ harness read_multi_count kind=complete tier=quick fns=ser::read_multi,IteratingReader::next bound=-
use crate::verif_kani_support::*;

/// RangeProof::read on every byte string of length 0..=700 (8-byte length prefix + up to 692
/// payload bytes): never panics; consumes 8 + min(len, 675) bytes when it succeeds.
#[kani::proof]
#[kani::unwind(4)]
#[kani::stub(alloc::fmt::format, stub_format)]
fn rangeproof_read_nopanic() {
	let mut r = KReader::<700>::any();
	let declared = if r.len >= 8 {
		let mut a = [0u8; 8];
		a.copy_from_slice(&r.buf[0..8]);
		u64::from_be_bytes(a)
	} else {
		0
	};
	if let Ok(p) = RangeProof::read(&mut r) {
		assert!(p.plen == 675);
		assert!(r.pos as u64 == 8 + core::cmp::min(declared, 675));
	}
}

#[kani::proof]
#[kani::unwind(4)]
#[kani::stub(alloc::fmt::format, stub_format)]
fn commit_sig_read_nopanic() {
	let mut r = KReader::<100>::any();
	let start = r.pos;
	if Commitment::read(&mut r).is_ok() {
		assert!(r.pos == start + 33);
	}
	let mid = r.pos;
	if Signature::read(&mut r).is_ok() {
		assert!(r.pos == mid + 64);
	}
}

/// The real BinReader over a byte slice: a read of more than 100_000 bytes is refused before
/// any allocation, shorter reads either deliver exactly `len` bytes or fail at EOF.
#[kani::proof]
#[kani::unwind(26)]
#[kani::stub(alloc::fmt::format, stub_format)]
fn binreader_fixed_bytes() {
	let data: [u8; 24] = kani::any();
	let n: usize = kani::any();
	kani::assume(n <= 24);
	let mut src: &[u8] = &data[..n];
	let mut br = BinReader::new(&mut src, ProtocolVersion(kani::any()), DeserializationMode::default());
	let len: usize = kani::any();
	match br.read_fixed_bytes(len) {
		Ok(v) => {
			assert!(len <= 100_000 && v.len() == len && len <= n);
		}
		Err(Error::TooLargeReadErr) => assert!(len > 100_000),
		Err(_) => assert!(len > n && len <= 100_000),
	}
}

/// read_multi: a count above 1_000_000 is refused outright; otherwise success needs the
/// declared number of items to be present (8 bytes each here) -- never a panic, and the loop
/// stops at the first failed item.
#[kani::proof]
#[kani::unwind(7)]
#[kani::stub(alloc::fmt::format, stub_format)]
fn read_multi_count() {
	let mut r = KReader::<40>::any();
	let avail = r.len;
	let count: u64 = kani::any();
	let res: Result<Vec<u64>, Error> = read_multi(&mut r, count);
	match res {
		Ok(v) => {
			assert!(count <= 1_000_000 && v.len() as u64 == count && count * 8 <= avail as u64);
			assert!(r.pos as u64 == count * 8);
		}
		Err(Error::TooLargeReadErr) => assert!(count > 1_000_000),
		Err(_) => assert!(count * 8 > avail as u64),
	}
}
