//@ assume: BitVec / BitmapChunk / SegmentProof are abstract; BitmapBlock::try_n_chunks is verified on an abstract BitVec length; pmmr::insertion_to_pmmr_index is abstract with the uninterpreted result sp_i2p(n) and the ASSUMED fact (ax_i2p_increasing: PROVED for all 2^64 inputs by the loop-free Kani harness c11_insertion_index_increasing in C11/insertion_index, on the real function, wrapping arithmetic) that it is strictly increasing below 2^63; u64::checked_shl(rhs) is None exactly when rhs >= 64 (std); slice::split_last => split_last_of (the last element and the prefix)
//@ assume: T6: `assert!(c)` / `assert_eq!(a, b)` => kassert(c) / kassert(a == b), a function that REQUIRES its argument (so every assert of the real text is a proof obligation: the panic it guards cannot happen); `for &pos in &v {` => index loop over v; the second loop of into_segment (copying the set bits of each block into the chunks: iterator adapters over a BitVec) is DROPPED from the verified text and replaced by fill_chunks (it contains no assert and only indexes through get_mut / `i % LEN_BITS`)
//@ assume: decided here (C11, 'state segments ... yields a value or an error: it never panics', p2p/src/protocol.rs calls into_segment() on every decoded OutputBitmapSegment): BitmapSegment::validate_blocks accepts only identifiers and block lists for which EVERY leaf insertion index offset..offset+n_chunks-1 is below 2^63; into_segment on ANY field values (it re-validates) then hands Segment::from_parts equally long leaf_pos / leaf_data with strictly increasing positions, so none of from_parts' asserts can fire; arithmetic is checked against overflow as well (stronger than the shipped wrapping semantics)
//@ assumed_items: 6
//@ fns: BitmapSegment::max_chunks, BitmapSegment::leaf_offset, BitmapSegment::n_chunks, BitmapSegment::validate_blocks, BitmapSegment::into_segment, BitmapBlock::try_n_chunks, Segment::from_parts
pub mod ser { pub enum Error { TooLargeReadErr, CorruptedData } }
pub fn kassert(c: bool) requires c { }
pub assume_specification[u64::checked_shl](x: u64, rhs: u32) -> (r: Option<u64>)
    ensures rhs >= 64 ==> r is None, rhs < 64 ==> r == Some(((x as nat * vstd::arithmetic::power2::pow2(rhs as nat)) % 0x1_0000_0000_0000_0000) as u64);
pub assume_specification[usize::checked_shl](x: usize, rhs: u32) -> (r: Option<usize>)
    ensures rhs >= 64 ==> r is None, rhs < 64 ==> r == Some(((x as nat * vstd::arithmetic::power2::pow2(rhs as nat)) % 0x1_0000_0000_0000_0000) as usize);
#[derive(Clone, Copy)]
pub struct SegmentIdentifier { pub height: u8, pub idx: u64 }
pub struct BitVec { pub n: usize }
impl BitVec { pub fn len(&self) -> (r: usize) ensures r == self.n { self.n } }
pub struct BitmapChunk { pub _p: u8 }
impl BitmapChunk {
    pub const LEN_BITS: usize = 1024;
    pub fn new() -> BitmapChunk { BitmapChunk { _p: 0 } }
}
pub struct SegmentProof { pub _p: u8 }
pub struct Hash { pub _p: u8 }
pub struct BitmapBlock { pub inner: BitVec }
impl BitmapBlock {
    pub const NBITS: u32 = 1 << 16;
    pub const NCHUNKS: usize = 64;
//@ extract chain/src/txhashset/bitmap_accumulator.rs :: impl BitmapBlock::try_n_chunks
//@   ensures:
//@+    r matches Ok(n) ==> n <= 64 && n * 1024 == self.inner.n,
//@ end
}
pub uninterp spec fn sp_i2p(n: u64) -> u64;
pub mod pmmr {
    use super::*;
    #[verifier::external_body]
    pub fn insertion_to_pmmr_index(nleaf0: u64) -> (r: u64) ensures r == sp_i2p(nleaf0) { unimplemented!() }
}
#[verifier::external_body]
pub proof fn ax_i2p_increasing()
    ensures forall|n: u64| n < 0x7fff_ffff_ffff_ffff ==> sp_i2p(n) < #[trigger] sp_i2p((n + 1) as u64) { }
pub proof fn lemma_i2p_mono(a: u64, b: u64)
    requires a < b, b <= 0x7fff_ffff_ffff_ffff
    ensures sp_i2p(a) < sp_i2p(b)
    decreases b - a
{
    ax_i2p_increasing();
    if a + 1 < b { lemma_i2p_mono(a, (b - 1) as u64); }
    assert(sp_i2p((b - 1) as u64) < sp_i2p((((b - 1) as u64) + 1) as u64));
}
pub open spec fn sp_incr(s: Seq<u64>) -> bool { forall|i: int, j: int| 0 <= i < j < s.len() ==> s[i] < s[j] }
#[verifier::external_body]
pub fn split_last_of(blocks: &[BitmapBlock]) -> (r: Option<(&BitmapBlock, &[BitmapBlock])>)
    ensures blocks@.len() == 0 ==> r is None,
            blocks@.len() > 0 ==> (r matches Some(p) && *p.0 == blocks@.last() && p.1@ == blocks@.drop_last()) { unimplemented!() }
pub struct Segment { pub identifier: SegmentIdentifier, pub hash_pos: Vec<u64>, pub hashes: Vec<Hash>, pub leaf_pos: Vec<u64>, pub leaf_data: Vec<BitmapChunk>, pub proof: SegmentProof }
impl Segment {
//@ extract core/src/core/pmmr/segment.rs :: impl Segment::from_parts
//@   sigrewrite `leaf_data: Vec<T>,` => `leaf_data: Vec<BitmapChunk>,`
//@   rewrite `assert_eq!(hash_pos.len(), hashes.len());` => `kassert(hash_pos.len() == hashes.len());`
//@   rewrite `assert_eq!(leaf_pos.len(), leaf_data.len());` => `kassert(leaf_pos.len() == leaf_data.len());`
//@   rewrite `assert!(last == 0 || pos > last);` => `kassert(last == 0 || pos > last);` x2
//@   rewrite `let mut last = 0;` => `let mut last: u64 = 0;`
//@   rewrite `for &pos in &hash_pos {` => `for k in 0..hash_pos.len() { let pos = hash_pos[k];`
//@   rewrite `for &pos in &leaf_pos {` => `for k in 0..leaf_pos.len() { let pos = leaf_pos[k];`
//@   requires:
//@+    hash_pos@.len() == hashes@.len(), leaf_pos@.len() == leaf_data@.len(),
//@+    sp_incr(hash_pos@), sp_incr(leaf_pos@),
//@   loop 1:
//@+    invariant sp_incr(hash_pos@), k > 0 ==> last == hash_pos@[k - 1], k == 0 ==> last == 0,
//@   loop 2:
//@+    invariant sp_incr(leaf_pos@), k > 0 ==> last == leaf_pos@[k - 1], k == 0 ==> last == 0,
//@   ensures:
//@+    r.leaf_pos@ == leaf_pos@, r.identifier == identifier,
//@ end
}
/// stands in for the DROPPED second loop of into_segment
#[verifier::external_body]
fn fill_chunks(chunks: &mut Vec<BitmapChunk>, blocks: Vec<BitmapBlock>) -> (r: Result<(), ser::Error>)
    ensures final(chunks)@.len() == old(chunks)@.len() { unimplemented!() }
pub open spec fn sp_chunks_of(b: BitmapBlock) -> int { b.inner.n as int / 1024 }
pub struct BitmapSegment { pub identifier: SegmentIdentifier, pub blocks: Vec<BitmapBlock>, pub proof: SegmentProof }
/// the leaf insertion indices of an accepted segment all have an MMR position: offset + n - 1 < 2^63
pub open spec fn sp_fits(identifier: SegmentIdentifier, n: usize) -> bool {
    identifier.height <= 13 && n >= 1 && n <= vstd::arithmetic::power2::pow2(identifier.height as nat)
    && vstd::arithmetic::power2::pow2(identifier.height as nat) * identifier.idx + (n - 1) <= 0x7fff_ffff_ffff_ffff
}
impl BitmapSegment {
    pub const MAX_SEGMENT_HEIGHT: u8 = 13;
//@ extract chain/src/txhashset/bitmap_accumulator.rs :: impl BitmapSegment::max_chunks
//@   at_start:
//@+    proof { if identifier.height < 14 { vstd::arithmetic::power2::lemma_pow2_strictly_increases(identifier.height as nat, 14); } vstd::arithmetic::power2::lemma2_to64(); }
//@   ensures:
//@+    r matches Ok(n) ==> identifier.height <= 13 && n == vstd::arithmetic::power2::pow2(identifier.height as nat),
//@ end
//@ extract chain/src/txhashset/bitmap_accumulator.rs :: impl BitmapSegment::leaf_offset
//@   at_start:
//@+    proof { if identifier.height < 64 { vstd::arithmetic::power2::lemma_pow2_strictly_increases(identifier.height as nat, 64); } vstd::arithmetic::power2::lemma2_to64(); }
//@   ensures:
//@+    r matches Ok(o) ==> identifier.height < 64 && o == vstd::arithmetic::power2::pow2(identifier.height as nat) * identifier.idx,
//@ end
//@ extract chain/src/txhashset/bitmap_accumulator.rs :: impl BitmapSegment::n_chunks
//@   rewrite `blocks.split_last()` => `split_last_of(blocks)`
//@   rewrite `for block in full_blocks {` => `for block in it: full_blocks.iter() {`
//@   rewrite `\t\tfull_blocks\n\t\t\t.len()\n\t\t\t.checked_mul(BitmapBlock::NCHUNKS)\n\t\t\t.and_then(|n| n.checked_add(last_chunks))\n\t\t\t.ok_or(ser::Error::TooLargeReadErr)` => `\t\tmatch full_blocks.len().checked_mul(BitmapBlock::NCHUNKS) { Some(n) => n.checked_add(last_chunks).ok_or(ser::Error::TooLargeReadErr), None => Err(ser::Error::TooLargeReadErr) }` x?
//@   ensures:
//@+    r matches Ok(n) ==> n >= 1,
//@ end
//@ extract chain/src/txhashset/bitmap_accumulator.rs :: impl BitmapSegment::validate_blocks
//@   ensures:
//@+    r matches Ok(n) ==> sp_fits(*identifier, n),
//@ end
//@ extract chain/src/txhashset/bitmap_accumulator.rs :: impl BitmapSegment::into_segment
//@   sigrewrite `Result<Segment<BitmapChunk>, ser::Error>` => `Result<Segment, ser::Error>`
//@   after `leaf_pos.push(pmmr::insertion_to_pmmr_index(insertion_idx));`:
//@+    proof {
//@+        assert forall|a: int, b: int| 0 <= a < b < leaf_pos@.len() implies leaf_pos@[a] < leaf_pos@[b] by {
//@+            if b == i as int { lemma_i2p_mono((offset + a) as u64, (offset + i) as u64); }
//@+        }
//@+    }
//@   rewrite `\t\tfor (block_idx, block) in blocks.into_iter().enumerate() {\n\t\t\tblock.try_n_chunks()?;\n\t\t\tlet offset = block_idx * BitmapBlock::NCHUNKS;\n\t\t\tfor (i, _) in block.inner.iter().enumerate().filter(|&(_, v)| v) {\n\t\t\t\tchunks\n\t\t\t\t\t.get_mut(offset + i / BitmapChunk::LEN_BITS)\n\t\t\t\t\t.ok_or(ser::Error::CorruptedData)?\n\t\t\t\t\t.0\n\t\t\t\t\t.set(i % BitmapChunk::LEN_BITS, true);\n\t\t\t}\n\t\t}\n` => `\t\tfill_chunks(&mut chunks, blocks)?;\n`
//@   loop 1:
//@+    invariant sp_fits(identifier, n_chunks), offset == vstd::arithmetic::power2::pow2(identifier.height as nat) * identifier.idx,
//@+        leaf_pos@.len() == i, chunks@.len() == i,
//@+        forall|k: int| 0 <= k < i ==> leaf_pos@[k] == sp_i2p((offset + k) as u64),
//@+        sp_incr(leaf_pos@),
//@ end
}
//@ canary validate_blocks: r.is_err()
