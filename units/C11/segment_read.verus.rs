//@ assume: the Reader is abstract (trait with a ghost `remaining()` byte count): read_u64 either fails or consumes exactly 8 bytes -- the behaviour proved for KReader-style readers and exercised for BinReader in C11/ser_prims
//@ assume: T6 rewrites: `Vec::with_capacity(E)` => `vec_with_capacity_checked(E, reader.remaining())` whose precondition is the C11 allocation bound (8*E <= 100_000 + 64*remaining); `min` from std::cmp => local min; `for _ in 0..count` kept (Verus range loops) with spliced invariants
//@ assume: decided here, UNBOUNDED in the declared count and in the input length: the segment count/position readers never panic, never pre-allocate beyond the bound, return exactly `count` positions / items on success, consume 8 bytes per position and at least one byte per item (progress: a count larger than the remaining input fails)
//@ assume: 64-bit target
//@ assumed_items: 2
//@ fns: segment::read_segment_item_count, segment::read_segment_positions, segment::read_segment_items
global size_of usize == 8;

pub enum Error { IOErr, TooLargeReadErr, SortError, CorruptedData }

pub trait Reader {
    spec fn remaining(&self) -> nat;
    fn read_u64(&mut self) -> (r: Result<u64, Error>)
        ensures r.is_ok() ==> old(self).remaining() >= 8 && final(self).remaining() == old(self).remaining() - 8,
                r.is_err() ==> final(self).remaining() <= old(self).remaining();
}

//@ extract core/src/core/pmmr/segment.rs :: const MAX_SEGMENT_READ_ITEMS
//@ end
//@ extract? core/src/core/pmmr/segment.rs :: const SEGMENT_READ_PREALLOC_ITEMS
//@ end

fn min(a: u64, b: u64) -> (r: u64) ensures r == if a <= b { a } else { b } { if a <= b { a } else { b } }

/// Vec::with_capacity carrying the over-allocation obligation of C11
#[verifier::external_body]
fn vec_with_capacity_checked(remaining: Ghost<nat>, cap: usize) -> (r: Vec<u64>)
    requires 8 * cap <= 100_000 + 64 * remaining@,
    ensures r@.len() == 0
{ Vec::with_capacity(cap) }

/// element decoders: succeed having consumed at least one byte, or fail (every wire element type)
pub trait Readable: Sized {
    fn read<R: Reader>(reader: &mut R) -> (r: Result<Self, Error>)
        ensures r.is_ok() ==> final(reader).remaining() < old(reader).remaining(),
                r.is_err() ==> final(reader).remaining() <= old(reader).remaining();
}
#[verifier::external_body]
fn vec_with_capacity_checked_t<T>(remaining: Ghost<nat>, cap: usize) -> (r: Vec<T>)
    requires cap <= 1024,   // at most SEGMENT_READ_PREALLOC_ITEMS slots are reserved before any item is read
    ensures r@.len() == 0
{ Vec::with_capacity(cap) }

//@ extract core/src/core/pmmr/segment.rs :: fn read_segment_item_count
//@   ensures:
//@+    r matches Ok(c) ==> c <= 1_000_000 && final(reader).remaining() == old(reader).remaining() - 8,
//@ end

//@ extract core/src/core/pmmr/segment.rs :: fn read_segment_positions
//@   rewrite `Vec::with_capacity(` => `vec_with_capacity_checked(Ghost(reader.remaining()), `
//@   rewrite `for _ in 0..count {` => `for i in 0..count {`
//@   requires:
//@+    count <= 1_000_000,
//@   ensures:
//@+    r matches Ok(v) ==> v@.len() == count && final(reader).remaining() == old(reader).remaining() - 8 * count,
//@+    r.is_ok() ==> old(reader).remaining() >= 8 * count,
//@+    // canonical form (C10): the decoded positions are STRICTLY increasing -- an unsorted list or a duplicate entry is refused, not accepted
//@+    r matches Ok(v) ==> forall|a: int, b: int| 0 <= a < b < v@.len() ==> v@[a] < v@[b],
//@   loop 1:
//@+    invariant
//@+        positions@.len() == i,
//@+        reader.remaining() + 8 * i == old(reader).remaining(),
//@+        forall|a: int, b: int| 0 <= a < b < positions@.len() ==> positions@[a] < positions@[b],
//@+        i > 0 ==> positions@[i - 1] + 1 == last_pos,
//@+        i == 0 ==> last_pos == 0,
//@ end
//@ canary read_segment_positions: r.is_err()

//@ extract core/src/core/pmmr/segment.rs :: fn read_segment_items
//@   rewrite `Vec::with_capacity(` => `vec_with_capacity_checked_t(Ghost(reader.remaining()), `
//@   rewrite `for _ in 0..count {` => `for i in 0..count {`
//@   requires:
//@+    count <= 1_000_000,
//@   ensures:
//@+    r matches Ok(v) ==> v@.len() == count && final(reader).remaining() + count <= old(reader).remaining(),
//@   loop 1:
//@+    invariant
//@+        items@.len() == i,
//@+        reader.remaining() + i <= old(reader).remaining(),
//@ end
