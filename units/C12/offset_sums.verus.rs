//@ assume: libsecp256k1 (FFI) is abstract: Secp256k1::blind_sum(pos, neg) fails with InvalidSecretKey exactly when the keys cancel (sp_cancels -- the only way a reduced scalar sum of valid keys is not a valid key; grin_secp256k1zkp pedersen.rs blind_sum ends in SecretKey::from_slice) and otherwise returns sp_sum(pos, neg); BlindingFactor::secret_key returns sp_bf_key(b); zero / from_secret_key are uninterpreted; BlindingFactor equality is structural
//@ assume: T5: one Error type for secp::Error / committed::Error / transaction::Error (so `e.into()` => `e`); `static_secp_instance()` + `.lock()` => secp_instance(); `x.into_iter().filter(f).filter_map(g).collect::<Vec<_>>()` => abstract BfIter / KeyIter stand-ins whose contracts say exactly: filter keeps the elements with f in order, filter_map the `Some` results of g in order; ALL closures are the REAL closure texts, verified as lifted functions (T7); `vec![x]` => vec1(x)
//@ assume: decided here (C12, 'whose offset is the sum of their offsets' / 'de-aggregating a known subset returns the remainder', for zero and non-zero offsets): committed::sum_kernel_offsets(pos, neg) NEVER fails: it returns zero when no positive operand contributes a key or when the contributing keys cancel, and otherwise from_secret_key(secp's sum of exactly the non-zero operands' keys, in order); the offset block of transaction::deaggregate (lifted; its free variables mk_tx, tx = the aggregate of the known transactions, kernel_offsets = [tx.offset] are parameters) likewise NEVER fails and returns zero when nothing contributes or the keys cancel (the remainder's offset is zero), otherwise from_secret_key(sum(mk offset's key) - (known offsets' keys))
//@ assumed_items: 12
//@ fns: committed::sum_kernel_offsets, committed::to_secrets, 2 closures in to_secrets, offset block of transaction::deaggregate, 4 closures in that block
#[verifier::external_body]
pub struct Secp256k1 { _p: u8 }
#[derive(Clone, Copy, PartialEq, Eq)]
pub struct SecretKey { pub k: u64 }
#[derive(Clone, Copy, PartialEq, Eq, Structural)]
pub struct BlindingFactor { pub b: u64 }
#[derive(Clone, Copy, PartialEq, Eq)]
pub enum Error { InvalidSecretKey, IncapableContext, Other }
pub mod secp { pub use super::{Error, Secp256k1}; }
pub struct Transaction { pub offset: BlindingFactor }
pub uninterp spec fn sp_cancels(pos: Seq<SecretKey>, neg: Seq<SecretKey>) -> bool;
pub uninterp spec fn sp_sum(pos: Seq<SecretKey>, neg: Seq<SecretKey>) -> SecretKey;
pub uninterp spec fn sp_bf_key(b: BlindingFactor) -> Result<SecretKey, Error>;
pub uninterp spec fn sp_from_sk(k: SecretKey) -> BlindingFactor;
pub open spec fn sp_zero() -> BlindingFactor { BlindingFactor { b: 0 } }
impl Secp256k1 {
    #[verifier::external_body]
    pub fn blind_sum(&self, pos: Vec<SecretKey>, neg: Vec<SecretKey>) -> (r: Result<SecretKey, Error>)
        ensures r == (if sp_cancels(pos@, neg@) { Err::<SecretKey, Error>(Error::InvalidSecretKey) } else { Ok::<SecretKey, Error>(sp_sum(pos@, neg@)) }) { unimplemented!() }
}
#[verifier::external_body]
fn secp_instance() -> Secp256k1 { unimplemented!() }
/// what the two closures must compute
pub open spec fn sp_keep(b: BlindingFactor) -> bool { b != sp_zero() }
pub open spec fn sp_key_opt(b: BlindingFactor) -> Option<SecretKey> { match sp_bf_key(b) { Ok(k) => Some(k), Err(_) => None } }
/// the keys handed to secp: non-zero operands that convert, in order
pub open spec fn keys_of(s: Seq<BlindingFactor>) -> Seq<SecretKey> decreases s.len() {
    if s.len() == 0 { Seq::empty() } else { let r = keys_of(s.drop_last()); if sp_keep(s.last()) { match sp_key_opt(s.last()) { Some(k) => r.push(k), None => r } } else { r } }
}
/// the value both functions must return for the key lists (p, n)
pub open spec fn sum_or_zero(p: Seq<SecretKey>, n: Seq<SecretKey>) -> BlindingFactor {
    if sp_cancels(p, n) { sp_zero() } else { sp_from_sk(sp_sum(p, n)) }
}
pub struct BfIter { pub items: Ghost<Seq<BlindingFactor>>, pub filtered: Ghost<bool> }
pub struct KeyIter { pub items: Ghost<Seq<SecretKey>> }
pub struct NonZero {}
pub struct KeyOf<'a> { pub secp: &'a Secp256k1 }
#[verifier::external_body]
fn vec1(a: BlindingFactor) -> (r: Vec<BlindingFactor>) ensures r@ == seq![a] { unimplemented!() }
#[verifier::external_body]
fn bf_iter(v: Vec<BlindingFactor>) -> (r: BfIter) ensures r.items@ == v@, !r.filtered@ { unimplemented!() }
impl BfIter {
    #[verifier::external_body]
    pub fn filter(self, f: NonZero) -> (r: BfIter) requires !self.filtered@ ensures r.items@ == self.items@, r.filtered@ { unimplemented!() }
    /// filter_map after the filter: the keys of the kept elements
    #[verifier::external_body]
    pub fn filter_map(self, g: KeyOf) -> (r: KeyIter) requires self.filtered@ ensures r.items@ == keys_of(self.items@) { unimplemented!() }
}
impl KeyIter { #[verifier::external_body] pub fn collect(self) -> (r: Vec<SecretKey>) ensures r@ == self.items@ { unimplemented!() } }
impl BlindingFactor {
    #[verifier::external_body]
    pub fn zero() -> (r: BlindingFactor) ensures r == sp_zero() { unimplemented!() }
    #[verifier::external_body]
    pub fn from_secret_key(k: SecretKey) -> (r: BlindingFactor) ensures r == sp_from_sk(k) { unimplemented!() }
    #[verifier::external_body]
    pub fn secret_key(&self, secp: &Secp256k1) -> (r: Result<SecretKey, Error>) ensures r == sp_bf_key(*self) { unimplemented!() }
    /// BlindingFactor::split, contract proved in C20/bf_split: self - blind_1 through secp, failing when a conversion or the sum fails
    #[verifier::external_body]
    pub fn split(&self, blind_1: &BlindingFactor, secp: &Secp256k1) -> (r: Result<BlindingFactor, Error>)
        ensures r == (match sp_bf_key(*self) { Err(e) => Err::<BlindingFactor, Error>(e), Ok(k) => match sp_bf_key(*blind_1) { Err(e) => Err::<BlindingFactor, Error>(e),
            Ok(k1) => if sp_cancels(seq![k], seq![k1]) { Err::<BlindingFactor, Error>(Error::InvalidSecretKey) } else { Ok::<BlindingFactor, Error>(sp_from_sk(sp_sum(seq![k], seq![k1]))) } } }) { unimplemented!() }
}
//@ extract core/src/core/committed.rs :: fn to_secrets
//@   eclosure 1 replaced_by `NonZero {}`
//@   eclosure 2 replaced_by `KeyOf { secp }`
//@   rewrite `bf.into_iter()` => `bf_iter(bf)`
//@   rewrite `.collect::<Vec<_>>()` => `.collect()`
//@   ensures:
//@+    r@ == keys_of(bf@),
//@ end
//@ extract core/src/core/committed.rs :: fn to_secrets
//@   eclosure 1 lifted_as `fn ts_keep(x: &BlindingFactor) -> bool`
//@   ensures:
//@+    r == sp_keep(*x),
//@ end
//@ extract core/src/core/committed.rs :: fn to_secrets
//@   eclosure 2 lifted_as `fn ts_key_of(x: BlindingFactor, secp: &Secp256k1) -> Option<SecretKey>`
//@   ensures:
//@+    r == sp_key_opt(x),
//@ end
//@ extract core/src/core/committed.rs :: fn sum_kernel_offsets
//@   rewrite `let secp = static_secp_instance();\n\tlet secp = secp.lock();` => `let secp = secp_instance();`
//@   rewrite `e.into()` => `e` x?
//@   ensures:
//@+    r == Ok::<BlindingFactor, Error>(if keys_of(positive@).len() == 0 && keys_of(negative@).len() == 0 { sp_zero() } else { sum_or_zero(keys_of(positive@), keys_of(negative@)) }),
//@ end
//@ extract core/src/core/transaction.rs :: fn deaggregate
//@   block `let total_kernel_offset = ` lifted_ok_as `fn deagg_offset(mk_tx: &Transaction, tx: &Transaction, kernel_offsets: Vec<BlindingFactor>) -> Result<BlindingFactor, Error>`
//@   rewrite `let secp = static_secp_instance();\n\t\tlet secp = secp.lock();` => `let secp = secp_instance();`
//@   rewrite `|x| *x != BlindingFactor::zero()` => `NonZero {}` x2
//@   rewrite `|x| x.secret_key(&secp).ok()` => `KeyOf { secp: &secp }` x2
//@   rewrite `vec![mk_tx.offset]\n\t\t\t.into_iter()` => `bf_iter(vec1(mk_tx.offset))`
//@   rewrite `kernel_offsets\n\t\t\t.into_iter()` => `bf_iter(kernel_offsets)`
//@   rewrite `.collect::<Vec<_>>()` => `.collect()` x2
//@   rewrite `let positive_key = ` => `let positive_key: Vec<SecretKey> = `
//@   rewrite `let negative_keys = ` => `let negative_keys: Vec<SecretKey> = `
//@   rewrite `e.into()` => `e` x?
//@   requires:
//@+    kernel_offsets@ == seq![tx.offset],
//@   ensures:
//@+    r == Ok::<BlindingFactor, Error>({ let p = keys_of(seq![mk_tx.offset]); let n = keys_of(seq![tx.offset]);
//@+            if p.len() == 0 && n.len() == 0 { sp_zero() } else { sum_or_zero(p, n) } }),
//@ end
//@ extract? core/src/core/transaction.rs :: fn deaggregate
//@   eclosure 1 lifted_as `fn dg_keep1(x: &BlindingFactor) -> bool`
//@   ensures:
//@+    r == sp_keep(*x),
//@ end
//@ extract? core/src/core/transaction.rs :: fn deaggregate
//@   eclosure 2 lifted_as `fn dg_key1(x: BlindingFactor, secp: &Secp256k1) -> Option<SecretKey>`
//@   ensures:
//@+    r == sp_key_opt(x),
//@ end
//@ extract? core/src/core/transaction.rs :: fn deaggregate
//@   eclosure 3 lifted_as `fn dg_keep2(x: &BlindingFactor) -> bool`
//@   ensures:
//@+    r == sp_keep(*x),
//@ end
//@ extract? core/src/core/transaction.rs :: fn deaggregate
//@   eclosure 4 lifted_as `fn dg_key2(x: BlindingFactor, secp: &Secp256k1) -> Option<SecretKey>`
//@   ensures:
//@+    r == sp_key_opt(x),
//@ end
//@ canary sum_kernel_offsets: r.is_err()
