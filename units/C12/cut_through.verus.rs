//@ assume: elements are abstract: T6/T5: the bound `AsRef<Commitment> + Ord` => trait El with a ghost commitment key (an int; Commitment's Ord is the byte-wise order, a total order) -- full equality of elements is Verus structural equality
//@ assume: T6 rewrites: `X.sort_unstable_by_key(|x| *x.as_ref())` => sort_by_key (result sorted by key, a permutation); `a.as_ref().cmp(&b.as_ref())` => cmp_key (Ordering of the keys); `X.sort_unstable()` => sort_ord (a permutation, marks the slice Ord-sorted); `X.windows(2).any(|pair| pair[0] == pair[1])` on an Ord-sorted slice => adjacent_dup (true iff two equal elements exist); slice::swap via assume_specification; split_at_mut from vstd
//@ assume: decided here, for slices of ANY length: cut_through never indexes out of bounds or underflows (`idx - ncut`); on Ok the returned inputs + inputs_cut are a permutation of the given inputs (same for outputs) -- nothing is lost, created or duplicated --, the two cut slices have the same length and pair up by commitment, NO commitment remains on both sides (cut-through is complete), neither remaining side contains a duplicate; and it fails ONLY when a duplicate remains after the cut
//@ assume: 64-bit target
//@ assumed_items: 6
//@ fns: transaction::cut_through
use std::cmp::Ordering;
use vstd::multiset::*;
use vstd::seq_lib::*;
global size_of usize == 8;
#[derive(Debug)]
pub enum Error { CutThrough, Other(String) }
pub trait El: Sized {
    spec fn key(&self) -> int;
}
pub assume_specification<T> [<[T]>::swap] (s: &mut [T], a: usize, b: usize)
    requires a < old(s)@.len(), b < old(s)@.len()
    ensures final(s)@ == old(s)@.update(a as int, old(s)@[b as int]).update(b as int, old(s)@[a as int]);

pub open spec fn key_sorted<T: El>(s: Seq<T>) -> bool { forall|i: int, j: int| 0 <= i <= j < s.len() ==> s[i].key() <= s[j].key() }
pub open spec fn no_dup<T>(s: Seq<T>) -> bool { forall|i: int, j: int| 0 <= i < j < s.len() ==> s[i] != s[j] }
pub uninterp spec fn ord_sorted<T>(s: Seq<T>) -> bool;

#[verifier::external_body]
fn sort_by_key<T: El>(s: &mut [T])
    ensures key_sorted(final(s)@), final(s)@.to_multiset() == old(s)@.to_multiset(), final(s)@.len() == old(s)@.len() { unimplemented!() }
#[verifier::external_body]
fn sort_ord<T: El>(s: &mut [T])
    ensures ord_sorted(final(s)@), final(s)@.to_multiset() == old(s)@.to_multiset(), final(s)@.len() == old(s)@.len() { unimplemented!() }
#[verifier::external_body]
fn adjacent_dup<T: El>(s: &[T]) -> (r: bool) requires ord_sorted(s@) ensures r == !no_dup(s@) { unimplemented!() }
#[verifier::external_body]
fn adjacent_dup_key<T: El>(s: &[T]) -> (r: bool) requires key_sorted(s@) ensures r == (exists|i: int| 0 <= i < s@.len() - 1 && (#[trigger] s@[i]).key() == s@[i + 1].key()) { unimplemented!() }
#[verifier::external_body]
fn cmp_key<T: El, U: El>(a: &T, b: &U) -> (r: Ordering)
    ensures (r == Ordering::Less) == (a.key() < b.key()), (r == Ordering::Equal) == (a.key() == b.key()), (r == Ordering::Greater) == (a.key() > b.key()) { unimplemented!() }

proof fn lemma_swap_multiset<T>(s: Seq<T>, a: int, b: int)
    requires 0 <= a < s.len(), 0 <= b < s.len()
    ensures s.update(a, s[b]).update(b, s[a]).to_multiset() == s.to_multiset()
{
    broadcast use vstd::seq_lib::group_to_multiset_ensures;
    let s1 = s.update(a, s[b]);
    let s2 = s1.update(b, s[a]);
    if a == b { assert(s2 =~= s); }
    else {
        assert(s1.to_multiset() =~= s.to_multiset().insert(s[b]).remove(s[a]));
        assert(s1[b] == s[b]);
        assert(s2.to_multiset() =~= s1.to_multiset().insert(s[a]).remove(s[b]));
        assert(s2.to_multiset() =~= s.to_multiset());
    }
}

/// what "exactly the matched spend pairs were removed" means, over the four result sequences
pub open spec fn has_key<T: El>(s: Seq<T>, k: int) -> bool { exists|b: int| 0 <= b < s.len() && (#[trigger] s[b]).key() == k }
pub open spec fn decomposition<T: El, U: El>(ins: Seq<T>, outs: Seq<U>, ki: Seq<T>, ci: Seq<T>, ko: Seq<U>, co: Seq<U>) -> bool {
    &&& ki.to_multiset().add(ci.to_multiset()) == ins.to_multiset()       // nothing lost, created or duplicated
    &&& ko.to_multiset().add(co.to_multiset()) == outs.to_multiset()
    &&& ci.len() == co.len()
    &&& forall|a: int| 0 <= a < ci.len() ==> has_key(co, (#[trigger] ci[a]).key())   // every cut input has a cut output with its commitment
    &&& forall|b: int| 0 <= b < co.len() ==> has_key(ci, (#[trigger] co[b]).key())   // and vice versa
    &&& forall|a: int| 0 <= a < ki.len() ==> !has_key(ko, (#[trigger] ki[a]).key())  // cut-through is complete: no commitment remains on both sides
}

proof fn lemma_rotate_multiset<T>(r: Seq<T>)
    requires r.len() >= 1
    ensures r.subrange(1, r.len() as int).push(r[0]).to_multiset() == r.to_multiset()
{
    broadcast use vstd::seq_lib::group_to_multiset_ensures;
    let tail = r.subrange(1, r.len() as int);
    let h = seq![r[0]];
    assert(r =~= h + tail);
    assert(tail.push(r[0]) =~= tail + h);
    lemma_multiset_commutative(h, tail);
    lemma_multiset_commutative(tail, h);
    assert(h.to_multiset().add(tail.to_multiset()) =~= tail.to_multiset().add(h.to_multiset()));
}
proof fn lemma_contains_via_multiset<T>(a: Seq<T>, b: Seq<T>, x: T)
    requires a.to_multiset() == b.to_multiset(), a.contains(x)
    ensures b.contains(x)
{
    broadcast use vstd::seq_lib::group_to_multiset_ensures;
    assert(a.to_multiset().count(x) > 0);
    assert(b.to_multiset().count(x) > 0);
}

/// slice::swap plus the multiset fact (verified, not assumed)
fn swap_m<T>(s: &mut [T], a: usize, b: usize)
    requires a < old(s)@.len(), b < old(s)@.len()
    ensures final(s)@ == old(s)@.update(a as int, old(s)@[b as int]).update(b as int, old(s)@[a as int]),
            final(s)@.to_multiset() == old(s)@.to_multiset(), final(s)@.len() == old(s)@.len(),
            final(s)@[a as int] == old(s)@[b as int], final(s)@[b as int] == old(s)@[a as int],
            forall|k: int| 0 <= k < old(s)@.len() && k != a && k != b ==> final(s)@[k] == old(s)@[k],
{
    s.swap(a, b);
    proof { lemma_swap_multiset(old(s)@, a as int, b as int); }
}

/// the merge state: `ins`/`outs` are the slices as they stand, i/j the read indices, c the number of cut pairs,
/// kin/kout the elements kept so far (in order), cin/cout the elements cut so far (in order of cutting)
pub open spec fn state_ok<T: El, U: El>(in0: Seq<T>, out0: Seq<U>, ins: Seq<T>, outs: Seq<U>, i: int, j: int, c: int,
                                      kin: Seq<T>, kout: Seq<U>, cin: Seq<T>, cout: Seq<U>) -> bool {
    &&& key_sorted(in0) && key_sorted(out0)
    &&& ins.len() == in0.len() && outs.len() == out0.len()
    &&& 0 <= c <= i <= in0.len() && c <= j <= out0.len()
    &&& ins.to_multiset() == in0.to_multiset() && outs.to_multiset() == out0.to_multiset()
    &&& forall|k: int| i <= k < in0.len() ==> ins[k] == in0[k]
    &&& forall|k: int| j <= k < out0.len() ==> outs[k] == out0[k]
    &&& kin.len() == i - c && kout.len() == j - c
    &&& forall|k: int| 0 <= k < i - c ==> ins[k] == kin[k]
    &&& forall|k: int| 0 <= k < j - c ==> outs[k] == kout[k]
    &&& cin.len() == c && cout.len() == c
    &&& ins.subrange(i - c, i).to_multiset() == cin.to_multiset()
    &&& outs.subrange(j - c, j).to_multiset() == cout.to_multiset()
    &&& forall|k: int| 0 <= k < c ==> (#[trigger] cin[k]).key() == cout[k].key()
    &&& (j < out0.len() ==> forall|a: int| 0 <= a < kin.len() ==> (#[trigger] kin[a]).key() < out0[j].key())
    &&& (i < in0.len() ==> forall|b: int| 0 <= b < kout.len() ==> (#[trigger] kout[b]).key() < in0[i].key())
    &&& forall|a: int, b: int| 0 <= a < kin.len() && 0 <= b < kout.len() ==> (#[trigger] kin[a]).key() != (#[trigger] kout[b]).key()
}

proof fn lemma_region_after_swap<T>(s: Seq<T>, a: int, i: int)
    requires 0 <= a <= i < s.len()
    ensures ({ let s2 = s.update(a, s[i]).update(i, s[a]); s2.subrange(a + 1, i + 1).to_multiset() == s.subrange(a, i).to_multiset() })
{
    broadcast use vstd::seq_lib::group_to_multiset_ensures;
    let s2 = s.update(a, s[i]).update(i, s[a]);
    let r = s.subrange(a, i);
    let r2 = s2.subrange(a + 1, i + 1);
    if a == i { assert(r =~= Seq::<T>::empty()); assert(r2 =~= Seq::<T>::empty()); }
    else {
        assert(r2 =~= r.subrange(1, r.len() as int).push(r[0]));
        lemma_rotate_multiset(r);
    }
}

proof fn lemma_keep_in<T: El, U: El>(in0: Seq<T>, out0: Seq<U>, ins: Seq<T>, outs: Seq<U>, i: int, j: int, c: int,
                                     kin: Seq<T>, kout: Seq<U>, cin: Seq<T>, cout: Seq<U>)
    requires state_ok(in0, out0, ins, outs, i, j, c, kin, kout, cin, cout), i < in0.len(),
             j < out0.len() ==> in0[i].key() < out0[j].key(),
    ensures state_ok(in0, out0, ins.update(i - c, ins[i]).update(i, ins[i - c]), outs, i + 1, j, c, kin.push(ins[i]), kout, cin, cout)
{
    broadcast use vstd::seq_lib::group_to_multiset_ensures;
    let a = i - c;
    let s2 = ins.update(a, ins[i]).update(i, ins[a]);
    let kin2 = kin.push(ins[i]);
    lemma_swap_multiset(ins, a, i);
    lemma_region_after_swap(ins, a, i);
    assert(s2[a] == ins[i]);
    assert forall|k: int| 0 <= k < (i + 1) - c implies s2[k] == kin2[k] by { if k < a { assert(s2[k] == ins[k]); } }
    assert forall|k: int| i + 1 <= k < in0.len() implies s2[k] == in0[k] by { assert(s2[k] == ins[k]); }
    assert(ins[i] == in0[i]);
    if j < out0.len() {
        assert forall|x: int| 0 <= x < kin2.len() implies (#[trigger] kin2[x]).key() < out0[j].key() by { if x < kin.len() { assert(kin2[x] == kin[x]); } }
    }
    if i + 1 < in0.len() {
        assert forall|b: int| 0 <= b < kout.len() implies (#[trigger] kout[b]).key() < in0[i + 1].key() by { assert(in0[i].key() <= in0[i + 1].key()); }
    }
    assert forall|x: int, b: int| 0 <= x < kin2.len() && 0 <= b < kout.len() implies (#[trigger] kin2[x]).key() != (#[trigger] kout[b]).key() by {
        if x < kin.len() { assert(kin2[x] == kin[x]); } else { assert(kout[b].key() < in0[i].key()); }
    }
}

proof fn lemma_keep_out<T: El, U: El>(in0: Seq<T>, out0: Seq<U>, ins: Seq<T>, outs: Seq<U>, i: int, j: int, c: int,
                                      kin: Seq<T>, kout: Seq<U>, cin: Seq<T>, cout: Seq<U>)
    requires state_ok(in0, out0, ins, outs, i, j, c, kin, kout, cin, cout), j < out0.len(),
             i < in0.len() ==> in0[i].key() > out0[j].key(),
    ensures state_ok(in0, out0, ins, outs.update(j - c, outs[j]).update(j, outs[j - c]), i, j + 1, c, kin, kout.push(outs[j]), cin, cout)
{
    broadcast use vstd::seq_lib::group_to_multiset_ensures;
    let a = j - c;
    let s2 = outs.update(a, outs[j]).update(j, outs[a]);
    let kout2 = kout.push(outs[j]);
    lemma_swap_multiset(outs, a, j);
    lemma_region_after_swap(outs, a, j);
    assert(s2[a] == outs[j]);
    assert forall|k: int| 0 <= k < (j + 1) - c implies s2[k] == kout2[k] by { if k < a { assert(s2[k] == outs[k]); } }
    assert forall|k: int| j + 1 <= k < out0.len() implies s2[k] == out0[k] by { assert(s2[k] == outs[k]); }
    assert(outs[j] == out0[j]);
    if i < in0.len() {
        assert forall|x: int| 0 <= x < kout2.len() implies (#[trigger] kout2[x]).key() < in0[i].key() by { if x < kout.len() { assert(kout2[x] == kout[x]); } }
    }
    if j + 1 < out0.len() {
        assert forall|x: int| 0 <= x < kin.len() implies (#[trigger] kin[x]).key() < out0[j + 1].key() by { assert(out0[j].key() <= out0[j + 1].key()); }
    }
    assert forall|x: int, b: int| 0 <= x < kin.len() && 0 <= b < kout2.len() implies (#[trigger] kin[x]).key() != (#[trigger] kout2[b]).key() by {
        if b < kout.len() { assert(kout2[b] == kout[b]); } else { assert(kin[x].key() < out0[j].key()); }
    }
}

proof fn lemma_cut<T: El, U: El>(in0: Seq<T>, out0: Seq<U>, ins: Seq<T>, outs: Seq<U>, i: int, j: int, c: int,
                                 kin: Seq<T>, kout: Seq<U>, cin: Seq<T>, cout: Seq<U>)
    requires state_ok(in0, out0, ins, outs, i, j, c, kin, kout, cin, cout), i < in0.len(), j < out0.len(), in0[i].key() == out0[j].key(),
    ensures state_ok(in0, out0, ins, outs, i + 1, j + 1, c + 1, kin, kout, cin.push(ins[i]), cout.push(outs[j]))
{
    broadcast use vstd::seq_lib::group_to_multiset_ensures;
    assert(ins.subrange(i - c, i + 1) =~= ins.subrange(i - c, i).push(ins[i]));
    assert(outs.subrange(j - c, j + 1) =~= outs.subrange(j - c, j).push(outs[j]));
    let cin2 = cin.push(ins[i]); let cout2 = cout.push(outs[j]);
    assert forall|k: int| 0 <= k < c + 1 implies (#[trigger] cin2[k]).key() == cout2[k].key() by { if k < c { assert(cin2[k] == cin[k]); assert(cout2[k] == cout[k]); } }
    if j + 1 < out0.len() {
        assert forall|x: int| 0 <= x < kin.len() implies (#[trigger] kin[x]).key() < out0[j + 1].key() by { assert(out0[j].key() <= out0[j + 1].key()); }
    }
    if i + 1 < in0.len() {
        assert forall|b: int| 0 <= b < kout.len() implies (#[trigger] kout[b]).key() < in0[i + 1].key() by { assert(in0[i].key() <= in0[i + 1].key()); }
    }
}

proof fn lemma_final<T: El, U: El>(in0: Seq<T>, out0: Seq<U>, ins: Seq<T>, outs: Seq<U>, c: int, kin: Seq<T>, kout: Seq<U>, cin: Seq<T>, cout: Seq<U>)
    requires state_ok(in0, out0, ins, outs, in0.len() as int, out0.len() as int, c, kin, kout, cin, cout)
    ensures decomposition(in0, out0, ins.subrange(0, ins.len() - c), ins.subrange(ins.len() - c, ins.len() as int),
                          outs.subrange(0, outs.len() - c), outs.subrange(outs.len() - c, outs.len() as int))
{
    let n = ins.len() as int; let m = outs.len() as int;
    let ki = ins.subrange(0, n - c); let ci = ins.subrange(n - c, n);
    let ko = outs.subrange(0, m - c); let co = outs.subrange(m - c, m);
    assert(ins =~= ki + ci); assert(outs =~= ko + co);
    lemma_multiset_commutative(ki, ci); lemma_multiset_commutative(ko, co);
    assert(ki =~= kin); assert(ko =~= kout);
    assert forall|a: int| 0 <= a < ci.len() implies has_key(co, (#[trigger] ci[a]).key()) by {
        assert(ci.contains(ci[a]));
        lemma_contains_via_multiset(ci, cin, ci[a]);
        let k = choose|k: int| 0 <= k < cin.len() && cin[k] == ci[a];
        assert(cin[k].key() == cout[k].key());
        assert(cout.contains(cout[k]));
        lemma_contains_via_multiset(cout, co, cout[k]);
        let b = choose|b: int| 0 <= b < co.len() && co[b] == cout[k];
        assert(co[b].key() == ci[a].key());
    }
    assert forall|b: int| 0 <= b < co.len() implies has_key(ci, (#[trigger] co[b]).key()) by {
        assert(co.contains(co[b]));
        lemma_contains_via_multiset(co, cout, co[b]);
        let k = choose|k: int| 0 <= k < cout.len() && cout[k] == co[b];
        assert(cin[k].key() == cout[k].key());
        assert(cin.contains(cin[k]));
        lemma_contains_via_multiset(cin, ci, cin[k]);
        let a = choose|a: int| 0 <= a < ci.len() && ci[a] == cin[k];
        assert(ci[a].key() == co[b].key());
    }
    assert forall|a: int| 0 <= a < ki.len() implies !has_key(ko, (#[trigger] ki[a]).key()) by {
        assert(ki[a] == kin[a]);
        if has_key(ko, ki[a].key()) {
            let b = choose|b: int| 0 <= b < ko.len() && (#[trigger] ko[b]).key() == ki[a].key();
            assert(ko[b] == kout[b]);
            assert(kin[a].key() != kout[b].key());
        }
    }
}

proof fn lemma_has_key_perm<T: El>(s: Seq<T>, t: Seq<T>, k: int)
    requires s.to_multiset() == t.to_multiset(), has_key(s, k)
    ensures has_key(t, k)
{
    let b = choose|b: int| 0 <= b < s.len() && (#[trigger] s[b]).key() == k;
    assert(s.contains(s[b]));
    lemma_contains_via_multiset(s, t, s[b]);
    let b2 = choose|b2: int| 0 <= b2 < t.len() && t[b2] == s[b];
    assert(t[b2].key() == k);
}

proof fn lemma_perm_decomposition<T: El, U: El>(in_a: Seq<T>, out_a: Seq<U>, in_b: Seq<T>, out_b: Seq<U>,
        ki: Seq<T>, ci: Seq<T>, ko: Seq<U>, co: Seq<U>, ki2: Seq<T>, ci2: Seq<T>, ko2: Seq<U>, co2: Seq<U>)
    requires decomposition(in_a, out_a, ki, ci, ko, co),
             in_a.to_multiset() == in_b.to_multiset(), out_a.to_multiset() == out_b.to_multiset(),
             ki2.to_multiset() == ki.to_multiset(), ci2.to_multiset() == ci.to_multiset(),
             ko2.to_multiset() == ko.to_multiset(), co2.to_multiset() == co.to_multiset(),
    ensures decomposition(in_b, out_b, ki2, ci2, ko2, co2)
{
    ci2.to_multiset_ensures(); ci.to_multiset_ensures(); co2.to_multiset_ensures(); co.to_multiset_ensures();
    assert(ci2.len() == ci.len() && co2.len() == co.len());
    assert forall|a: int| 0 <= a < ci2.len() implies has_key(co2, (#[trigger] ci2[a]).key()) by {
        assert(ci2.contains(ci2[a])); lemma_contains_via_multiset(ci2, ci, ci2[a]);
        let a0 = choose|a0: int| 0 <= a0 < ci.len() && ci[a0] == ci2[a];
        assert(has_key(co, ci[a0].key()));
        lemma_has_key_perm(co, co2, ci[a0].key());
    }
    assert forall|b: int| 0 <= b < co2.len() implies has_key(ci2, (#[trigger] co2[b]).key()) by {
        assert(co2.contains(co2[b])); lemma_contains_via_multiset(co2, co, co2[b]);
        let b0 = choose|b0: int| 0 <= b0 < co.len() && co[b0] == co2[b];
        assert(has_key(ci, co[b0].key()));
        lemma_has_key_perm(ci, ci2, co[b0].key());
    }
    assert forall|a: int| 0 <= a < ki2.len() implies !has_key(ko2, (#[trigger] ki2[a]).key()) by {
        assert(ki2.contains(ki2[a])); lemma_contains_via_multiset(ki2, ki, ki2[a]);
        let a0 = choose|a0: int| 0 <= a0 < ki.len() && ki[a0] == ki2[a];
        if has_key(ko2, ki2[a].key()) {
            lemma_has_key_perm(ko2, ko, ki2[a].key());
            assert(has_key(ko, ki[a0].key()));
        }
    }
}

//@ extract core/src/core/transaction.rs :: fn cut_through
//@   sigrewrite `T: AsRef<Commitment> + Ord,` => `T: El,`
//@   sigrewrite `U: AsRef<Commitment> + Ord,` => `U: El,`
//@   rewrite `inputs.sort_unstable_by_key(|x| *x.as_ref());` => `sort_by_key(inputs);`
//@   rewrite `outputs.sort_unstable_by_key(|x| *x.as_ref());` => `sort_by_key(outputs);`
//@   rewrite `match inputs[inputs_idx]\n\t\t\t.as_ref()\n\t\t\t.cmp(&outputs[outputs_idx].as_ref())\n\t\t{` => `match cmp_key(&inputs[inputs_idx], &outputs[outputs_idx]) {`
//@   rewrite `\tinputs.sort_unstable();` => `\tsort_ord(inputs);`
//@   rewrite `\toutputs.sort_unstable();` => `\tsort_ord(outputs);`
//@   rewrite `\tinputs_cut.sort_unstable();` => `\tsort_ord(inputs_cut);`
//@   rewrite `\toutputs_cut.sort_unstable();` => `\tsort_ord(outputs_cut);`
//@   rewrite `inputs.windows(2).any(|pair| pair[0] == pair[1])` => `adjacent_dup(inputs)`
//@   rewrite `outputs.windows(2).any(|pair| pair[0] == pair[1])` => `adjacent_dup(outputs)`
//@   rewrite `inputs.windows(2).any(|pair| pair[0].as_ref() == pair[1].as_ref())` => `adjacent_dup_key(inputs)` x?
//@   rewrite `outputs.windows(2).any(|pair| pair[0].as_ref() == pair[1].as_ref())` => `adjacent_dup_key(outputs)` x?
//@   rewrite `inputs.swap(` => `swap_m(inputs, ` x2
//@   rewrite `outputs.swap(` => `swap_m(outputs, ` x2
//@   rewrite `let mut inputs_idx = 0;` => `let mut inputs_idx: usize = 0;`
//@   rewrite `let mut outputs_idx = 0;` => `let mut outputs_idx: usize = 0;`
//@   rewrite `let mut ncut = 0;` => `let mut ncut: usize = 0;`
//@   before `sort_by_key(inputs);`:
//@+    let ghost in_orig = inputs@;
//@+    let ghost out_orig = outputs@;
//@   before `let mut inputs_idx: usize = 0;`:
//@+    let ghost in0 = inputs@;
//@+    let ghost out0 = outputs@;
//@+    let ghost mut kin: Seq<T> = Seq::empty();
//@+    let ghost mut kout: Seq<U> = Seq::empty();
//@+    let ghost mut cin: Seq<T> = Seq::empty();
//@+    let ghost mut cout: Seq<U> = Seq::empty();
//@+    proof { broadcast use vstd::seq_lib::group_to_multiset_ensures;
//@+        assert(inputs@.subrange(0, 0) =~= Seq::<T>::empty()); assert(outputs@.subrange(0, 0) =~= Seq::<U>::empty()); }
//@   loop 1:
//@+    invariant
//@+        state_ok(in0, out0, inputs@, outputs@, inputs_idx as int, outputs_idx as int, ncut as int, kin, kout, cin, cout),
//@+    decreases in0.len() - inputs_idx + out0.len() - outputs_idx,
//@   after `Ordering::Less => {`:
//@+    proof {
//@+        broadcast use vstd::seq_lib::group_to_multiset_ensures;
//@+        lemma_keep_in(in0, out0, inputs@, outputs@, inputs_idx as int, outputs_idx as int, ncut as int, kin, kout, cin, cout);
//@+        kin = kin.push(inputs@[inputs_idx as int]);
//@+    }
//@   after `Ordering::Greater => {`:
//@+    proof {
//@+        broadcast use vstd::seq_lib::group_to_multiset_ensures;
//@+        lemma_keep_out(in0, out0, inputs@, outputs@, inputs_idx as int, outputs_idx as int, ncut as int, kin, kout, cin, cout);
//@+        kout = kout.push(outputs@[outputs_idx as int]);
//@+    }
//@   after `Ordering::Equal => {`:
//@+    proof {
//@+        broadcast use vstd::seq_lib::group_to_multiset_ensures;
//@+        lemma_cut(in0, out0, inputs@, outputs@, inputs_idx as int, outputs_idx as int, ncut as int, kin, kout, cin, cout);
//@+        cin = cin.push(inputs@[inputs_idx as int]);
//@+        cout = cout.push(outputs@[outputs_idx as int]);
//@+    }
//@   loop 2:
//@+    invariant
//@+        state_ok(in0, out0, inputs@, outputs@, inputs_idx as int, outputs_idx as int, ncut as int, kin, kout, cin, cout),
//@+        inputs_idx < in0.len() ==> outputs_idx == out0.len(),
//@+    decreases in0.len() - inputs_idx,
//@   after `while inputs_idx < inputs.len() {`:
//@+    proof {
//@+        broadcast use vstd::seq_lib::group_to_multiset_ensures;
//@+        lemma_keep_in(in0, out0, inputs@, outputs@, inputs_idx as int, outputs_idx as int, ncut as int, kin, kout, cin, cout);
//@+        kin = kin.push(inputs@[inputs_idx as int]);
//@+    }
//@   loop 3:
//@+    invariant
//@+        state_ok(in0, out0, inputs@, outputs@, inputs_idx as int, outputs_idx as int, ncut as int, kin, kout, cin, cout),
//@+        inputs_idx == in0.len(),
//@+    decreases out0.len() - outputs_idx,
//@   after `while outputs_idx < outputs.len() {`:
//@+    proof {
//@+        broadcast use vstd::seq_lib::group_to_multiset_ensures;
//@+        lemma_keep_out(in0, out0, inputs@, outputs@, inputs_idx as int, outputs_idx as int, ncut as int, kin, kout, cin, cout);
//@+        kout = kout.push(outputs@[outputs_idx as int]);
//@+    }
//@   before `let (inputs, inputs_cut) = inputs.split_at_mut(inputs.len() - ncut);`:
//@+    proof { lemma_final(in0, out0, inputs@, outputs@, ncut as int, kin, kout, cin, cout); }
//@+    let ghost in_all = inputs@;
//@+    let ghost out_all = outputs@;
//@   after `\tsort_ord(outputs_cut);`:
//@+    proof {
//@+        lemma_perm_decomposition(in0, out0, in_orig, out_orig,
//@+            in_all.subrange(0, in_all.len() - ncut), in_all.subrange(in_all.len() - ncut, in_all.len() as int),
//@+            out_all.subrange(0, out_all.len() - ncut), out_all.subrange(out_all.len() - ncut, out_all.len() as int),
//@+            inputs@, inputs_cut@, outputs@, outputs_cut@);
//@+    }
//@   ensures:
//@+    r matches Ok(t) ==> decomposition(old(inputs)@, old(outputs)@, t.0@, t.2@, t.1@, t.3@) && no_dup(t.0@) && no_dup(t.1@),
//@+    r.is_err() ==> exists|ki: Seq<T>, ci: Seq<T>, ko: Seq<U>, co: Seq<U>| #[trigger] decomposition(old(inputs)@, old(outputs)@, ki, ci, ko, co) && (!no_dup(ki) || !no_dup(ko)),
//@ end
//@ canary cut_through: r.is_err()
