//@ assume: BlockHeader / ShortId / Hash are abstract; BlockHeader::hash, TxKernel::short_id are uninterpreted functions (sp_hhash, sp_short_id); Output / TxKernel carry an abstract feature tag (OutKind: Plain|Coinbase; KernKind: Plain|Coinbase|HeightLocked|NoRecentDuplicate) read by is_coinbase / is_plain; `sort_unstable()` is abstract: the result is a permutation (sort_perm) -- that it is the canonical order, and that two canonical lists with equal multisets are the same list, is not decided; TransactionBody::init(.., verify_sorted=false) is abstract like Transaction::new in C12/aggregate (sorted permutations of its arguments)
//@ assume: T5: `block.outputs().iter().filter(f).cloned().collect::<Vec<_>>()` => abstract OutSlice / OutIter stand-ins whose contracts say exactly: the collected vector is, in order, the elements for which f holds; the closure f is the REAL closure text, verified as a lifted function (T7). T6: `thread_rng().gen()` => rand_nonce() (any u64); `for k in block.kernels()` / `for tx in txs` => the verifier's `for x in it: slice.iter()` form; `.clone()` on kernels => clone_kern (equal copy); `inputs.into()` => inputs_from; `transaction::cut_through` => cut_through; `.sort_unstable()` => sort_perm; `let tx_inputs: Vec<_> = tx.inputs().into()` => inputs_of. T3: the trace! line is removed
//@ assume: decided here (C12, third clause), for ANY block / any list of transactions: (a) CompactBlock::from(block) keeps the header, carries in full EXACTLY the coinbase outputs and the coinbase kernels of the block, and for every other kernel exactly its short id under (header hash, the block's nonce) -- none dropped, none doubled; (b) Block::hydrate_from(cb, txs) keeps cb's header and its body is, as multisets, inputs/outputs = the cut-through remainder of all the transactions' inputs/outputs (C12/cut_through contract) plus cb's full outputs, kernels = all the transactions' kernels plus cb's full kernels; it fails only if cut-through or body initialisation fails. Hence (lemma_roundtrip, proved) hydrating the compact form of a block from transactions that account for exactly its non-coinbase part gives back a block with the same header and the same multisets of inputs, outputs and kernels. NOT decided: that the short ids in cb select those transactions (that is the caller, in the pool/p2p adapter), the canonical ordering, Block::from_reward.
//@ assumed_items: 19
//@ fns: CompactBlock::from, closure in CompactBlock::from, CompactBlockBody::init, CompactBlockBody::sort, Block::hydrate_from
//@ include: ../C12/aggregate.verus.rs

#[derive(Clone, Copy, PartialEq, Eq)]
pub struct Hash { pub h: u64 }
#[derive(Clone, Copy, PartialEq, Eq)]
pub struct ShortId { pub s: u64 }
#[derive(Clone, Copy, PartialEq, Eq)]
pub struct BlockHeader { pub id: u64 }
pub uninterp spec fn sp_hhash(h: BlockHeader) -> Hash;
pub uninterp spec fn sp_short_id(k: TxKernel, h: Hash, nonce: u64) -> ShortId;
impl BlockHeader {
    pub fn clone(&self) -> (r: BlockHeader) ensures r == *self { BlockHeader { id: self.id } }
    #[verifier::external_body]
    pub fn hash(&self) -> (r: Hash) ensures r == sp_hhash(*self) { unimplemented!() }
}
#[derive(Clone, Copy, PartialEq, Eq)]
pub enum OutKind { Plain, Coinbase }
#[derive(Clone, Copy, PartialEq, Eq)]
pub enum KernKind { Plain, Coinbase, HeightLocked, NoRecentDuplicate }
pub uninterp spec fn sp_out_kind(o: Output) -> OutKind;
pub uninterp spec fn sp_kern_kind(k: TxKernel) -> KernKind;
pub open spec fn out_cb(o: Output) -> bool { sp_out_kind(o) == OutKind::Coinbase }
pub open spec fn kern_cb(k: TxKernel) -> bool { sp_kern_kind(k) == KernKind::Coinbase }
impl Output {
    #[verifier::external_body]
    pub fn is_coinbase(&self) -> (r: bool) ensures r == (sp_out_kind(*self) == OutKind::Coinbase) { unimplemented!() }
    #[verifier::external_body]
    pub fn is_plain(&self) -> (r: bool) ensures r == (sp_out_kind(*self) == OutKind::Plain) { unimplemented!() }
}
impl TxKernel {
    #[verifier::external_body]
    pub fn is_coinbase(&self) -> (r: bool) ensures r == (sp_kern_kind(*self) == KernKind::Coinbase) { unimplemented!() }
    #[verifier::external_body]
    pub fn is_plain(&self) -> (r: bool) ensures r == (sp_kern_kind(*self) == KernKind::Plain) { unimplemented!() }
    #[verifier::external_body]
    pub fn short_id(&self, hash: &Hash, nonce: u64) -> (r: ShortId) ensures r == sp_short_id(*self, *hash, nonce) { unimplemented!() }
}
#[verifier::external_body]
fn clone_kern(k: &TxKernel) -> (r: TxKernel) ensures r == *k { unimplemented!() }
/// slice::to_vec of Copy elements: an equal vector
pub assume_specification<T: Clone> [<[T]>::to_vec] (s: &[T]) -> (r: Vec<T>)
    ensures r@ == s@;
#[verifier::external_body]
fn rand_nonce() -> (r: u64) { unimplemented!() }
#[verifier::external_body]
fn sort_perm<T>(v: &mut Vec<T>) ensures final(v)@.to_multiset() == old(v)@.to_multiset() { unimplemented!() }

/// the coinbase outputs / coinbase kernels / short ids of the other kernels, in order
pub open spec fn cb_outs(s: Seq<Output>) -> Seq<Output> decreases s.len() {
    if s.len() == 0 { Seq::empty() } else { let r = cb_outs(s.drop_last()); if out_cb(s.last()) { r.push(s.last()) } else { r } } }
pub open spec fn cb_kerns(s: Seq<TxKernel>) -> Seq<TxKernel> decreases s.len() {
    if s.len() == 0 { Seq::empty() } else { let r = cb_kerns(s.drop_last()); if kern_cb(s.last()) { r.push(s.last()) } else { r } } }
pub open spec fn non_cb_kerns(s: Seq<TxKernel>) -> Seq<TxKernel> decreases s.len() {
    if s.len() == 0 { Seq::empty() } else { let r = non_cb_kerns(s.drop_last()); if !kern_cb(s.last()) { r.push(s.last()) } else { r } } }
pub open spec fn ids_of(s: Seq<TxKernel>, h: Hash, nonce: u64) -> Seq<ShortId> decreases s.len() {
    if s.len() == 0 { Seq::empty() } else { let r = ids_of(s.drop_last(), h, nonce); if !kern_cb(s.last()) { r.push(sp_short_id(s.last(), h, nonce)) } else { r } } }

/// stand-ins for `&[Output]` and its `iter().filter(f).cloned().collect()`
pub struct OutSlice { pub items: Ghost<Seq<Output>> }
pub struct OutIter { pub items: Ghost<Seq<Output>> }
pub struct OutFullPred {}
impl OutSlice { #[verifier::external_body] pub fn iter(&self) -> (r: OutIter) ensures r.items@ == self.items@ { unimplemented!() } }
impl OutIter {
    /// Iterator::filter with a closure that (by its verified contract) returns out_full_pred_spec(element)
    #[verifier::external_body]
    pub fn filter(self, f: OutFullPred) -> (r: OutIter) ensures r.items@ == self.items@.filter(|o: Output| out_full_pred_spec(o)) { unimplemented!() }
    #[verifier::external_body]
    pub fn cloned(self) -> (r: OutIter) ensures r.items@ == self.items@ { unimplemented!() }
    #[verifier::external_body]
    pub fn collect(self) -> (r: Vec<Output>) ensures r@ == self.items@ { unimplemented!() }
}
/// what the property asks of the filter closure: keep exactly the coinbase outputs
pub open spec fn out_full_pred_spec(o: Output) -> bool { out_cb(o) }

/// offered (not used by the pinned text of hydrate_from): the weighting contexts and the lightweight read validation. ASSUMED of it: a body that is
/// valid when read AS A BLOCK passes validate_read(AsBlock); nothing is assumed for the other contexts (they reserve room for a coinbase)
#[derive(Clone, Copy)]
pub enum Weighting { AsTransaction, AsLimitedTransaction(u64), AsBlock, NoLimit }
pub uninterp spec fn sp_valid_as_block(b: TransactionBody) -> bool;
pub struct TransactionBody { pub ins: Ghost<Seq<CommitWrapper>>, pub outs: Vec<Output>, pub kerns: Vec<TxKernel> }
impl TransactionBody {
    #[verifier::external_body]
    pub fn validate_read(&self, weighting: Weighting) -> (r: Result<(), Error>) ensures (weighting is AsBlock && sp_valid_as_block(*self)) ==> r is Ok { unimplemented!() }
    /// TransactionBody::init(.., verify_sorted = false): sorts and always succeeds (transaction.rs: `body.sort(); Ok(body)`); the result holds permutations of the arguments
    #[verifier::external_body]
    pub fn init(inputs: Inputs, outputs: &Vec<Output>, kernels: &Vec<TxKernel>, verify_sorted: bool) -> (r: Result<TransactionBody, Error>)
        requires !verify_sorted
        ensures r.is_ok(), r matches Ok(b) ==> b.ins@.to_multiset() == inputs.commits().to_multiset() && b.outs@.to_multiset() == outputs@.to_multiset() && b.kerns@.to_multiset() == kernels@.to_multiset() { unimplemented!() }
}
pub struct Block { pub header: BlockHeader, pub body: TransactionBody }
impl Block {
    #[verifier::external_body]
    pub fn outputs(&self) -> (r: OutSlice) ensures r.items@ == self.body.outs@ { unimplemented!() }
    pub fn kernels(&self) -> (r: &[TxKernel]) ensures r@ == self.body.kerns@ { self.body.kerns.as_slice() }
}
pub struct CompactBlockBody { pub out_full: Vec<Output>, pub kern_full: Vec<TxKernel>, pub kern_ids: Vec<ShortId> }
pub struct CompactBlock { pub header: BlockHeader, pub nonce: u64, pub body: CompactBlockBody }
impl CompactBlockBody {
    #[verifier::external_body]
    fn verify_sorted(&self) -> (r: Result<(), Error>) { unimplemented!() }
//@ extract core/src/core/compact_block.rs :: impl CompactBlockBody::sort
//@   rewrite `self.out_full.sort_unstable();` => `sort_perm(&mut self.out_full);`
//@   rewrite `self.kern_full.sort_unstable();` => `sort_perm(&mut self.kern_full);`
//@   rewrite `self.kern_ids.sort_unstable();` => `sort_perm(&mut self.kern_ids);`
//@   ensures:
//@+    final(self).out_full@.to_multiset() == old(self).out_full@.to_multiset(),
//@+    final(self).kern_full@.to_multiset() == old(self).kern_full@.to_multiset(),
//@+    final(self).kern_ids@.to_multiset() == old(self).kern_ids@.to_multiset(),
//@ end
//@ extract core/src/core/compact_block.rs :: impl CompactBlockBody::init
//@   ensures:
//@+    !verify_sorted ==> (r matches Ok(b) && b.out_full@.to_multiset() == out_full@.to_multiset()
//@+        && b.kern_full@.to_multiset() == kern_full@.to_multiset() && b.kern_ids@.to_multiset() == kern_ids@.to_multiset()),
//@+    verify_sorted ==> (r matches Ok(b) ==> b.out_full@ == out_full@ && b.kern_full@ == kern_full@ && b.kern_ids@ == kern_ids@),
//@ end
}
impl CompactBlock {
//@ extract core/src/core/compact_block.rs :: impl CompactBlock::out_full
//@   ensures:
//@+    r@ == self.body.out_full@,
//@ end
//@ extract core/src/core/compact_block.rs :: impl CompactBlock::kern_full
//@   ensures:
//@+    r@ == self.body.kern_full@,
//@ end
//@ extract core/src/core/compact_block.rs :: impl CompactBlock::kern_ids
//@   ensures:
//@+    r@ == self.body.kern_ids@,
//@ end
//@ extract core/src/core/compact_block.rs :: impl From<Block> for CompactBlock::from
//@   eclosure 1 replaced_by `OutFullPred {}`
//@   rewrite `let nonce = thread_rng().gen();` => `let nonce: u64 = rand_nonce();`
//@   rewrite `.collect::<Vec<_>>()` => `.collect()`
//@   rewrite `let mut kern_full = vec![];` => `let mut kern_full: Vec<TxKernel> = Vec::new();`
//@   rewrite `let mut kern_ids = vec![];` => `let mut kern_ids: Vec<ShortId> = Vec::new();`
//@   rewrite `for k in block.kernels() {` => `for k in it: block.kernels().iter() {`
//@   rewrite `kern_full.push(k.clone());` => `kern_full.push(clone_kern(k));`
//@   ensures:
//@+    r.header == block.header,
//@+    r.body.out_full@.to_multiset() == cb_outs(block.body.outs@).to_multiset(),
//@+    r.body.kern_full@.to_multiset() == cb_kerns(block.body.kerns@).to_multiset(),
//@+    r.body.kern_ids@.to_multiset() == ids_of(block.body.kerns@, sp_hhash(block.header), r.nonce).to_multiset(),
//@   loop 1:
//@+    invariant
//@+        header == block.header,
//@+        kern_full@ == cb_kerns(block.body.kerns@.subrange(0, it.index@ as int)),
//@+        kern_ids@ == ids_of(block.body.kerns@.subrange(0, it.index@ as int), sp_hhash(header), nonce),
//@   after `for k in it: block.kernels().iter() {`:
//@+    proof { let s = block.body.kerns@; let i = it.index@ as int; assert(s.subrange(0, i + 1).drop_last() =~= s.subrange(0, i)); assert(s.subrange(0, i + 1).last() == *k); }
//@   before `let body = CompactBlockBody::init`:
//@+    proof { assert(block.body.kerns@.subrange(0, block.body.kerns@.len() as int) =~= block.body.kerns@); lemma_filter_is_cb_outs(block.body.outs@); }
//@ end
}
/// vstd's Seq::filter with the coinbase predicate is cb_outs
proof fn lemma_filter_is_cb_outs(s: Seq<Output>)
    ensures s.filter(|o: Output| out_full_pred_spec(o)) == cb_outs(s)
    decreases s.len()
{
    reveal(Seq::filter);
    if s.len() > 0 { lemma_filter_is_cb_outs(s.drop_last()); }
}
//@ extract core/src/core/compact_block.rs :: impl From<Block> for CompactBlock::from
//@   eclosure 1 lifted_as `fn out_full_pred(x: &&Output) -> bool`
//@   ensures:
//@+    r == out_full_pred_spec(**x),
//@ end
#[verifier::external_body]
fn err_msg() -> String { unimplemented!() }
impl Block {
//@ extract core/src/core/block.rs :: impl Block::hydrate_from
//@   strip_logs
//@   format_as `err_msg()`
//@   rewrite `let mut inputs = vec![];` => `let mut inputs: Vec<CommitWrapper> = Vec::new();`
//@   rewrite `let mut outputs = vec![];` => `let mut outputs: Vec<Output> = Vec::new();`
//@   rewrite `let mut kernels = vec![];` => `let mut kernels: Vec<TxKernel> = Vec::new();`
//@   rewrite `for tx in txs {` => `for tx in it: txs.iter() {`
//@   rewrite `let tx_inputs: Vec<_> = tx.inputs().into();` => `let tx_inputs: Vec<CommitWrapper> = inputs_of(tx);`
//@   rewrite `transaction::cut_through(&mut inputs, &mut outputs)?` => `cut_through(&mut inputs, &mut outputs)?`
//@   rewrite `TransactionBody::init(inputs.into(), &outputs, &kernels, false)?` => `TransactionBody::init(inputs_from(inputs), &outputs, &kernels, false)?`
//@   requires:
//@+    forall|b: TransactionBody| #[trigger] sp_valid_as_block(b),
//@   ensures:
//@+    r matches Ok(b) ==> b.header == cb.header
//@+        && b.body.kerns@.to_multiset() == cat_kerns(txs@, txs@.len() as int).to_multiset().add(cb.body.kern_full@.to_multiset())
//@+        && exists|ci: Seq<CommitWrapper>, co: Seq<Output>, ki: Seq<CommitWrapper>, ko: Seq<Output>|
//@+            #[trigger] decomposition(cat_ins(txs@, txs@.len() as int), cat_outs(txs@, txs@.len() as int), ki, ci, ko, co)
//@+            && no_dup(ki) && no_dup(ko) && b.body.ins@.to_multiset() == ki.to_multiset()
//@+            && b.body.outs@.to_multiset() == ko.to_multiset().add(cb.body.out_full@.to_multiset()),
//@+    // 're-hydrated from those same transactions in ANY grouping': the only way to fail is a duplicate left after cut-through
//@+    r.is_err() ==> exists|ki: Seq<CommitWrapper>, ci: Seq<CommitWrapper>, ko: Seq<Output>, co: Seq<Output>|
//@+            #[trigger] decomposition(cat_ins(txs@, txs@.len() as int), cat_outs(txs@, txs@.len() as int), ki, ci, ko, co) && (!no_dup(ki) || !no_dup(ko)),
//@   loop 1:
//@+    invariant
//@+        inputs@ == cat_ins(txs@, it.index@ as int), outputs@ == cat_outs(txs@, it.index@ as int), kernels@ == cat_kerns(txs@, it.index@ as int),
//@   before `outputs.extend_from_slice(cb.out_full());`:
//@+    let ghost outs0 = outputs@;
//@+    let ghost kerns0 = kernels@;
//@   before `let body = TransactionBody::init`:
//@+    proof {
//@+        vstd::seq_lib::lemma_multiset_commutative(outs0, cb.body.out_full@);
//@+        vstd::seq_lib::lemma_multiset_commutative(kerns0, cb.body.kern_full@);
//@+        assert(outputs@ =~= outs0 + cb.body.out_full@);
//@+        assert(kernels@ =~= kerns0 + cb.body.kern_full@);
//@+    }
//@ end
}

pub open spec fn non_cb_outs(s: Seq<Output>) -> Seq<Output> decreases s.len() {
    if s.len() == 0 { Seq::empty() } else { let r = non_cb_outs(s.drop_last()); if !out_cb(s.last()) { r.push(s.last()) } else { r } } }
proof fn lemma_partition_outs(s: Seq<Output>)
    ensures s.to_multiset() =~= cb_outs(s).to_multiset().add(non_cb_outs(s).to_multiset())
    decreases s.len()
{
    broadcast use vstd::seq_lib::group_to_multiset_ensures;
    if s.len() > 0 { lemma_partition_outs(s.drop_last()); assert(s =~= s.drop_last().push(s.last())); }
}
proof fn lemma_partition_kerns(s: Seq<TxKernel>)
    ensures s.to_multiset() =~= cb_kerns(s).to_multiset().add(non_cb_kerns(s).to_multiset())
    decreases s.len()
{
    broadcast use vstd::seq_lib::group_to_multiset_ensures;
    if s.len() > 0 { lemma_partition_kerns(s.drop_last()); assert(s =~= s.drop_last().push(s.last())); }
}
/// The round trip, from the two contracts above: if `cb` satisfies the contract of CompactBlock::from(b) and `hb`
/// the contract of Block::hydrate_from(cb, txs) (with cut-through remainder ki / ko), and the transactions account
/// for exactly the non-coinbase part of `b`, then `hb` has b's header and b's inputs, outputs and kernels.
proof fn lemma_roundtrip(b: Block, cb: CompactBlock, txs: Seq<Transaction>, hb: Block, ki: Seq<CommitWrapper>, ko: Seq<Output>)
    requires
        cb.header == b.header,
        cb.body.out_full@.to_multiset() == cb_outs(b.body.outs@).to_multiset(),
        cb.body.kern_full@.to_multiset() == cb_kerns(b.body.kerns@).to_multiset(),
        hb.header == cb.header,
        hb.body.kerns@.to_multiset() == cat_kerns(txs, txs.len() as int).to_multiset().add(cb.body.kern_full@.to_multiset()),
        hb.body.ins@.to_multiset() == ki.to_multiset(),
        hb.body.outs@.to_multiset() == ko.to_multiset().add(cb.body.out_full@.to_multiset()),
        b.body.ins@.to_multiset() == ki.to_multiset(),
        non_cb_outs(b.body.outs@).to_multiset() == ko.to_multiset(),
        non_cb_kerns(b.body.kerns@).to_multiset() == cat_kerns(txs, txs.len() as int).to_multiset(),
    ensures
        hb.header == b.header,
        hb.body.ins@.to_multiset() =~= b.body.ins@.to_multiset(),
        hb.body.outs@.to_multiset() =~= b.body.outs@.to_multiset(),
        hb.body.kerns@.to_multiset() =~= b.body.kerns@.to_multiset(),
{
    lemma_partition_outs(b.body.outs@);
    lemma_partition_kerns(b.body.kerns@);
}
//@ canary hydrate_from: r.is_err()
