//@ assume: Output / TxKernel / Input / Hash / BlindingFactor are opaque values; transaction::aggregate is an uninterpreted function of the transaction list (its real contract: C12/aggregate); committed::sum_kernel_offsets(positive, negative) is an uninterpreted function (C12/offset_sums); consensus::header_version is an uninterpreted function of the height (C04/consensus); the clock (Utc::now) and chrono conversions are abstract; `..Default::default()` takes the remaining header / proof-of-work fields from an uninterpreted default value
//@ assume: T6: `a + b` on Difficulty => `a.add(b)` with the real `add` extracted as an inherent method (Verus: a trait-method impl cannot carry a precondition); `self.outputs.binary_search(&output)` / `self.kernels.binary_search(&kernel)` => bsearch_out / bsearch_kern (ASSUMED, for a list kept in the type's order: Ok iff an equal element is present, Err(e) with e <= len otherwise -- the insertion point); `vec![a, b]` => a two-element vector; `vec![]` => Vec::new(); `x.clone()` on Copy values; `DateTime::<Utc>::from_timestamp` => DateTime::from_timestamp; `Error::Other("..".into())` => Error::Other; T5: a by-value `mut self` parameter => `self` copied into a local `this` (Verus does not take `mut self`); `agg_tx.into()` => body_of(agg_tx) (From<Transaction> for TransactionBody is `tx.body`)
//@ assume: range (precondition): prev.height < u64::MAX and the total difficulty sum fits in u64 (Difficulty::add is plain u64 addition)
//@ assume: decided here (C12 'a block built from transactions', C14 'the set offered for mining assembles into a block'): TransactionBody::with_output / with_kernel keep every existing entry and add the given one unless an equal one is already present (as multisets), touching nothing else; Block::from_reward builds the block whose body is EXACTLY aggregate(txs) with the reward output and the reward kernel added, whose header has height prev + 1, the version scheduled for THAT height, prev's hash as previous hash, total kernel offset = sum_kernel_offsets([aggregate's offset, prev's total], []) and total difficulty = the given difficulty + prev's total
//@ assumed_items: 9
//@ fns: TransactionBody::replace_kernel, TransactionBody::replace_inputs, Transaction::replace_kernel, TransactionBody::with_output, TransactionBody::with_kernel, Transaction::with_output, Transaction::with_kernel, Block::from_reward
#[derive(Clone, Copy, PartialEq, Eq)]
pub struct Hash { pub v: u64 }
#[derive(Clone, Copy, PartialEq, Eq)]
pub struct BlindingFactor { pub v: u64 }
#[derive(Clone, Copy, PartialEq, Eq)]
pub struct Output { pub v: u64 }
#[derive(Clone, Copy, PartialEq, Eq)]
pub struct TxKernel { pub v: u64 }
#[derive(Clone, Copy, PartialEq, Eq)]
pub struct Input { pub v: u64 }
#[derive(Clone, Copy, PartialEq, Eq)]
pub struct HeaderVersion { pub v: u16 }
#[derive(Clone, Copy, PartialEq, Eq)]
pub struct Difficulty { pub num: u64 }
impl Difficulty {
//@ extract core/src/pow/types.rs :: impl Add<Difficulty> for Difficulty::add
//@   requires:
//@+    self.num + other.num <= u64::MAX,
//@   ensures:
//@+    r.num == self.num + other.num,
//@ end
}
pub enum Error { Other, Agg, Secp }
#[verifier::external_body]
pub fn bsearch_out(v: &Vec<Output>, x: &Output) -> (r: Result<usize, usize>) ensures r is Ok <==> v@.contains(*x), r matches Err(e) ==> e <= v@.len() { unimplemented!() }
#[verifier::external_body]
pub fn bsearch_kern(v: &Vec<TxKernel>, x: &TxKernel) -> (r: Result<usize, usize>) ensures r is Ok <==> v@.contains(*x), r matches Err(e) ==> e <= v@.len() { unimplemented!() }
pub struct TransactionBody { pub inputs: Vec<Input>, pub outputs: Vec<Output>, pub kernels: Vec<TxKernel> }
pub struct Transaction { pub offset: BlindingFactor, pub body: TransactionBody }
pub fn body_of(tx: Transaction) -> (r: TransactionBody) ensures r == tx.body { tx.body }
pub uninterp spec fn sp_agg(txs: Seq<Transaction>) -> Result<Transaction, Error>;
pub uninterp spec fn sp_offset_sum(pos: Seq<BlindingFactor>, neg: Seq<BlindingFactor>) -> Result<BlindingFactor, Error>;
pub uninterp spec fn sp_version(height: u64) -> HeaderVersion;
pub mod transaction { use super::*;
    #[verifier::external_body]
    pub fn aggregate(txs: &[Transaction]) -> (r: Result<Transaction, Error>) ensures r == sp_agg(txs@) { unimplemented!() } }
pub mod committed { use super::*;
    #[verifier::external_body]
    pub fn sum_kernel_offsets(positive: Vec<BlindingFactor>, negative: Vec<BlindingFactor>) -> (r: Result<BlindingFactor, Error>) ensures r == sp_offset_sum(positive@, negative@) { unimplemented!() } }
pub mod consensus { use super::*;
    #[verifier::external_body]
    pub fn header_version(height: u64) -> (r: HeaderVersion) ensures r == sp_version(height) { unimplemented!() } }
#[derive(Clone, Copy)]
pub struct NaiveDateTime { pub secs: i64 }
#[derive(Clone, Copy)]
pub struct DateTime { pub secs: i64 }
pub struct Utc {}
#[allow(non_upper_case_globals)]
pub const Utc: Utc = Utc {};
impl Utc {
    #[verifier::external_body]
    pub fn now() -> (r: DateTime) { unimplemented!() }
}
impl DateTime {
    pub fn timestamp(&self) -> (r: i64) ensures r == self.secs { self.secs }
    pub fn naive_utc(&self) -> (r: NaiveDateTime) ensures r.secs == self.secs { NaiveDateTime { secs: self.secs } }
    #[verifier::external_body]
    pub fn from_timestamp(secs: i64, nsecs: u32) -> (r: Option<DateTime>) ensures r matches Some(d) ==> d.secs == secs { unimplemented!() }
    pub fn from_naive_utc_and_offset(n: NaiveDateTime, o: Utc) -> (r: DateTime) ensures r.secs == n.secs { DateTime { secs: n.secs } }
}
pub struct Proof { pub v: u64 }
pub struct ProofOfWork { pub total_difficulty: Difficulty, pub secondary_scaling: u32, pub nonce: u64, pub proof: Proof }
pub struct BlockHeader {
    pub version: HeaderVersion, pub height: u64, pub timestamp: DateTime, pub prev_hash: Hash, pub prev_root: Hash, pub output_root: Hash, pub range_proof_root: Hash,
    pub kernel_root: Hash, pub total_kernel_offset: BlindingFactor, pub output_mmr_size: u64, pub kernel_mmr_size: u64, pub pow: ProofOfWork, pub id: Hash,
}
impl Default for ProofOfWork { #[verifier::external_body] fn default() -> (r: ProofOfWork) { unimplemented!() } }
impl Default for BlockHeader { #[verifier::external_body] fn default() -> (r: BlockHeader) { unimplemented!() } }
impl BlockHeader { pub fn hash(&self) -> (r: Hash) ensures r == self.id { self.id } }
pub struct Block { pub header: BlockHeader, pub body: TransactionBody }
pub open spec fn ms_add<T>(old: Seq<T>, new: Seq<T>, x: T) -> bool {
    if old.contains(x) { new == old } else { new.to_multiset() == old.to_multiset().insert(x) && new.len() == old.len() + 1 }
}
impl TransactionBody {
//@ extract core/src/core/transaction.rs :: impl TransactionBody::with_output
//@   sigrewrite `(mut self, ` => `(self, `
//@   rewrite `self.outputs.binary_search(&output)` => `bsearch_out(&this.outputs, &output)`
//@   rewrite `self.outputs.insert(e, output)` => `this.outputs.insert(e, output)`
//@   rewrite `\t\tself\n` => `\t\tthis\n`
//@   at_start:
//@+    let mut this = self;
//@   ensures:
//@+    r.inputs == self.inputs, r.kernels == self.kernels, ms_add(self.outputs@, r.outputs@, output),
//@   before `this.outputs.insert(e, output)`:
//@+    proof { assert(this.outputs@.insert(e as int, output).to_multiset() =~= this.outputs@.to_multiset().insert(output)) by { vstd::seq_lib::to_multiset_insert(this.outputs@, e as int, output); } }
//@ end
//@ extract core/src/core/transaction.rs :: impl TransactionBody::with_kernel
//@   sigrewrite `(mut self, ` => `(self, `
//@   rewrite `self.kernels.binary_search(&kernel)` => `bsearch_kern(&this.kernels, &kernel)`
//@   rewrite `self.kernels.insert(e, kernel)` => `this.kernels.insert(e, kernel)`
//@   rewrite `\t\tself\n` => `\t\tthis\n`
//@   at_start:
//@+    let mut this = self;
//@   ensures:
//@+    r.inputs == self.inputs, r.outputs == self.outputs, ms_add(self.kernels@, r.kernels@, kernel),
//@   before `this.kernels.insert(e, kernel)`:
//@+    proof { assert(this.kernels@.insert(e as int, kernel).to_multiset() =~= this.kernels@.to_multiset().insert(kernel)) by { vstd::seq_lib::to_multiset_insert(this.kernels@, e as int, kernel); } }
//@ end
//@ extract core/src/core/transaction.rs :: impl TransactionBody::replace_kernel
//@   sigrewrite `(mut self, ` => `(self, `
//@   rewrite `self.kernels.clear();` => `this.kernels.clear();`
//@   rewrite `self.kernels.push(kernel);` => `this.kernels.push(kernel);`
//@   rewrite `\t\tself\n` => `\t\tthis\n`
//@   at_start:
//@+    let mut this = self;
//@   ensures:
//@+    r.inputs == self.inputs, r.outputs == self.outputs, r.kernels@ =~= seq![kernel],
//@ end
//@ extract core/src/core/transaction.rs :: impl TransactionBody::replace_inputs
//@   sigrewrite `(mut self, inputs: Inputs)` => `(self, inputs: Vec<Input>)`
//@   rewrite `self.inputs = inputs;` => `this.inputs = inputs;`
//@   rewrite `\t\tself\n` => `\t\tthis\n`
//@   at_start:
//@+    let mut this = self;
//@   ensures:
//@+    r.inputs == inputs, r.outputs == self.outputs, r.kernels == self.kernels,
//@ end
}
impl Transaction {
//@ extract core/src/core/transaction.rs :: impl Transaction::replace_kernel
//@   ensures:
//@+    r.offset == self.offset, r.body.inputs == self.body.inputs, r.body.outputs == self.body.outputs, r.body.kernels@ =~= seq![kernel],
//@ end
//@ extract core/src/core/transaction.rs :: impl Transaction::with_output
//@   ensures:
//@+    r.offset == self.offset, r.body.inputs == self.body.inputs, r.body.kernels == self.body.kernels, ms_add(self.body.outputs@, r.body.outputs@, output),
//@ end
//@ extract core/src/core/transaction.rs :: impl Transaction::with_kernel
//@   ensures:
//@+    r.offset == self.offset, r.body.inputs == self.body.inputs, r.body.outputs == self.body.outputs, ms_add(self.body.kernels@, r.body.kernels@, kernel),
//@ end
}
impl Block {
//@ extract core/src/core/block.rs :: impl Block::from_reward
//@   rewrite `vec![agg_tx.offset.clone(), prev.total_kernel_offset.clone()]` => `{ let mut v2: Vec<BlindingFactor> = Vec::new(); v2.push(agg_tx.offset); v2.push(prev.total_kernel_offset); proof { assert(v2@ =~= seq![agg_tx.offset, prev.total_kernel_offset]); } v2 }`
//@   rewrite `vec![],` => `Vec::new(),`
//@   rewrite `DateTime::<Utc>::from_timestamp(` => `DateTime::from_timestamp(`
//@   rewrite `Error::Other("Converting Utc::now() into timestamp".into())` => `Error::Other`
//@   rewrite `body: agg_tx.into(),` => `body: body_of(agg_tx),`
//@   rewrite `difficulty + prev.pow.total_difficulty` => `difficulty.add(prev.pow.total_difficulty)`
//@   requires:
//@+    prev.height < u64::MAX, difficulty.num + prev.pow.total_difficulty.num <= u64::MAX,
//@   ensures:
//@+    r matches Ok(b) ==> sp_agg(txs@) is Ok,
//@+    r matches Ok(b) ==> b.body.inputs == sp_agg(txs@)->Ok_0.body.inputs && ms_add(sp_agg(txs@)->Ok_0.body.outputs@, b.body.outputs@, reward_out) && ms_add(sp_agg(txs@)->Ok_0.body.kernels@, b.body.kernels@, reward_kern),
//@+    r matches Ok(b) ==> Ok::<BlindingFactor, Error>(b.header.total_kernel_offset) == sp_offset_sum(seq![sp_agg(txs@)->Ok_0.offset, prev.total_kernel_offset], Seq::<BlindingFactor>::empty()),
//@+    r matches Ok(b) ==> b.header.height == prev.height + 1 && b.header.version == sp_version((prev.height + 1) as u64) && b.header.prev_hash == prev.id,
//@+    r matches Ok(b) ==> b.header.pow.total_difficulty.num == difficulty.num + prev.pow.total_difficulty.num,
//@+    sp_agg(txs@) is Err ==> r is Err,
//@ end
}
//@ canary from_reward: r is Err
//@ canary add: r.num == 0
