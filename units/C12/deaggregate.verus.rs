//@ assume: equality of the abstract Input / Output / TxKernel values stands for the real PartialEq (`contains` => `has`: true iff an equal element is in the list); a kernel's excess and an input's / output's commitment are uninterpreted functions of the element (two different kernels may share an excess); Transaction::new sorts (a permutation), `sort_unstable` likewise
//@ assume: T6: the block computing `total_kernel_offset` (static_secp_instance, two iterator pipelines that drop zero offsets, secp blind_sum) => offset_difference(&mk_tx, &tx), ASSUMED to return the group difference sp_offset_diff(mk offset, the known aggregate's offset) or an error -- the block itself (its two pipelines, their closures and the handling of a cancelling sum) is verified as a lifted function in C12/offset_sums; `vec![]` => Vec::new(); `let v: Vec<_> = t.inputs().into()` => inputs_of(&t); by-value `for x in vec` => slice iterator + copy; `X.contains(&y)` => `X.has(&y)`; `Inputs::from(inputs.as_slice())` => inputs_from
//@ assume: decided here (C12, 'de-aggregating a known subset returns the remainder'), for ANY multi-kernel transaction and ANY list of known transactions: transaction::deaggregate(mk_tx, txs) aggregates txs with the real transaction::aggregate (C12/aggregate, included and re-verified) and returns a transaction whose inputs / outputs / kernels are EXACTLY the elements of mk_tx that do not occur (as whole elements, not merely by commitment or excess) among the aggregate's inputs / outputs / kernels, each once, and whose offset is mk_tx's offset minus the aggregate's. That this equals 'the remainder' presupposes the stated condition (no cross-spends between the known subset and the rest). Validity of the result is not decided.
//@ assumed_items: 10
//@ fns: transaction::deaggregate
//@ include: ../C12/aggregate.verus.rs

#[derive(Clone, Copy, PartialEq, Eq)]
pub struct Commitment { pub c: u64 }
pub uninterp spec fn sp_excess(k: TxKernel) -> Commitment;
pub uninterp spec fn sp_out_commit(o: Output) -> Commitment;
pub uninterp spec fn sp_in_commit(i: CommitWrapper) -> Commitment;
impl TxKernel { #[verifier::external_body] pub fn excess(&self) -> (r: Commitment) ensures r == sp_excess(*self) { unimplemented!() } }
impl Output { #[verifier::external_body] pub fn commitment(&self) -> (r: Commitment) ensures r == sp_out_commit(*self) { unimplemented!() } }
impl CommitWrapper { #[verifier::external_body] pub fn commitment(&self) -> (r: Commitment) ensures r == sp_in_commit(*self) { unimplemented!() } }
impl Transaction {
    #[verifier::external_body]
    pub fn kernels_committed(&self) -> (r: Vec<Commitment>) ensures r@ == self.kerns@.map_values(|k: TxKernel| sp_excess(k)) { unimplemented!() }
    #[verifier::external_body]
    pub fn outputs_committed(&self) -> (r: Vec<Commitment>) ensures r@ == self.outs@.map_values(|o: Output| sp_out_commit(o)) { unimplemented!() }
    #[verifier::external_body]
    pub fn inputs_committed(&self) -> (r: Vec<Commitment>) ensures r@ == self.ins@.map_values(|i: CommitWrapper| sp_in_commit(i)) { unimplemented!() }
}
/// `slice.contains(&x)` / `vec.contains(&x)`
pub trait Has<T> {
    spec fn items(&self) -> Seq<T>;
    fn has(&self, x: &T) -> (r: bool) ensures r == self.items().contains(*x);
}
impl<T> Has<T> for Vec<T> {
    open spec fn items(&self) -> Seq<T> { self@ }
    #[verifier::external_body]
    fn has(&self, x: &T) -> (r: bool) { unimplemented!() }
}
impl<T> Has<T> for [T] {
    open spec fn items(&self) -> Seq<T> { self@ }
    #[verifier::external_body]
    fn has(&self, x: &T) -> (r: bool) { unimplemented!() }
}
pub uninterp spec fn sp_offset_diff(a: BlindingFactor, b: BlindingFactor) -> BlindingFactor;
#[verifier::external_body]
fn offset_difference(mk_tx: &Transaction, tx: &Transaction) -> (r: Result<BlindingFactor, Error>)
    ensures r matches Ok(d) ==> d == sp_offset_diff(mk_tx.offset, tx.offset) { unimplemented!() }
#[verifier::external_body]
fn sort_perm<T>(v: &mut Vec<T>) ensures final(v)@.to_multiset() == old(v)@.to_multiset() { unimplemented!() }

/// what transaction::aggregate(txs) returned (its postcondition, C12/aggregate)
pub open spec fn is_agg(txs: Seq<Transaction>, t: Transaction) -> bool {
    &&& txs.len() == 0 ==> t.ins@.len() == 0 && t.outs@.len() == 0 && t.kerns@.len() == 0
    &&& txs.len() == 1 ==> t == txs[0]
    &&& txs.len() >= 2 ==> (t.kerns@.to_multiset() == cat_kerns(txs, txs.len() as int).to_multiset()
        && t.offset == sp_sum_offsets(offsets(txs, txs.len() as int))
        && exists|ci: Seq<CommitWrapper>, co: Seq<Output>, ki: Seq<CommitWrapper>, ko: Seq<Output>|
            #[trigger] decomposition(cat_ins(txs, txs.len() as int), cat_outs(txs, txs.len() as int), ki, ci, ko, co)
            && no_dup(ki) && no_dup(ko) && t.ins@.to_multiset() == ki.to_multiset() && t.outs@.to_multiset() == ko.to_multiset())
}
/// s is, each once, exactly the elements of `all` that are not in `known`
pub open spec fn minus<T>(s: Seq<T>, all: Seq<T>, known: Seq<T>) -> bool {
    no_dup(s) && forall|x: T| #[trigger] s.contains(x) <==> (all.contains(x) && !known.contains(x))
}
pub open spec fn remainder(mk: Transaction, agg: Transaction, t: Transaction) -> bool {
    minus(t.ins@, mk.ins@, agg.ins@) && minus(t.outs@, mk.outs@, agg.outs@) && minus(t.kerns@, mk.kerns@, agg.kerns@)
    && t.offset == sp_offset_diff(mk.offset, agg.offset)
}
/// the filtering loops: after looking at the first n elements of `all`
pub open spec fn minus_upto<T>(s: Seq<T>, all: Seq<T>, n: int, known: Seq<T>) -> bool {
    no_dup(s) && forall|x: T| #[trigger] s.contains(x) <==> (all.take(n).contains(x) && !known.contains(x))
}
proof fn lemma_minus_step<T>(s: Seq<T>, all: Seq<T>, n: int, known: Seq<T>, push: bool)
    requires minus_upto(s, all, n, known), 0 <= n < all.len(),
        push == (!known.contains(all[n]) && !s.contains(all[n])),
    ensures minus_upto(if push { s.push(all[n]) } else { s }, all, n + 1, known)
{
    let x0 = all[n];
    let s2 = if push { s.push(x0) } else { s };
    let a0 = all.take(n); let a1 = all.take(n + 1);
    assert(a1 =~= a0.push(x0));
    assert forall|x: T| #[trigger] s2.contains(x) <==> (a1.contains(x) && !known.contains(x)) by {
        if s2.contains(x) {
            let k = choose|k: int| 0 <= k < s2.len() && s2[k] == x;
            if k < s.len() { assert(s[k] == x); assert(s.contains(x)); assert(a0.contains(x)); let q = choose|q: int| 0 <= q < a0.len() && a0[q] == x; assert(a1[q] == x); }
            else { assert(x == x0); assert(a1[n] == x0); }
        }
        if a1.contains(x) && !known.contains(x) {
            let q = choose|q: int| 0 <= q < a1.len() && a1[q] == x;
            if q < n { assert(a0[q] == x); assert(a0.contains(x)); assert(s.contains(x)); let k = choose|k: int| 0 <= k < s.len() && s[k] == x; assert(s2[k] == x); }
            else { assert(x == x0); if push { assert(s2[s.len() as int] == x0); } else { assert(s.contains(x0)); let k = choose|k: int| 0 <= k < s.len() && s[k] == x0; assert(s2[k] == x0); } }
        }
    }
    if push { assert(no_dup(s2)) by { assert forall|i: int, j: int| 0 <= i < j < s2.len() implies s2[i] != s2[j] by { if j == s.len() { if s2[i] == x0 { assert(s[i] == x0); assert(s.contains(x0)); } } else { assert(s2[i] == s[i] && s2[j] == s[j]); } } } }
}
proof fn lemma_minus_perm<T>(s: Seq<T>, s2: Seq<T>, all: Seq<T>, known: Seq<T>)
    requires minus(s, all, known), s.to_multiset() == s2.to_multiset()
    ensures minus(s2, all, known)
{
    broadcast use vstd::seq_lib::group_to_multiset_ensures;
    assert forall|x: T| #[trigger] s2.contains(x) <==> (all.contains(x) && !known.contains(x)) by {
        if s2.contains(x) { lemma_contains_via_multiset(s2, s, x); }
        if s.contains(x) { lemma_contains_via_multiset(s, s2, x); }
    }
    assert(no_dup(s2)) by {
        assert forall|i: int, j: int| 0 <= i < j < s2.len() implies s2[i] != s2[j] by {
            if s2[i] == s2[j] {
                let x = s2[i];
                // x occurs at least twice in s2, hence in s
                s2.to_multiset_ensures();
                assert(s2.to_multiset().count(x) >= 2) by { lemma_count_two(s2, i, j); }
                lemma_nodup_count(s, x);
            }
        }
    }
}
proof fn lemma_minus_perm_all<T>(s: Seq<T>, all: Seq<T>, known: Seq<T>)
    requires minus(s, all, known)
    ensures forall|s2: Seq<T>| #[trigger] s2.to_multiset() == s.to_multiset() ==> minus(s2, all, known)
{
    assert forall|s2: Seq<T>| #[trigger] s2.to_multiset() == s.to_multiset() implies minus(s2, all, known) by { lemma_minus_perm(s, s2, all, known); }
}
proof fn lemma_count_two<T>(s: Seq<T>, i: int, j: int)
    requires 0 <= i < j < s.len(), s[i] == s[j]
    ensures s.to_multiset().count(s[i]) >= 2
    decreases s.len()
{
    broadcast use vstd::seq_lib::group_to_multiset_ensures;
    let x = s[i];
    let t = s.drop_last();
    assert(s =~= t.push(s.last()));
    if j == s.len() - 1 {
        assert(t[i] == x); assert(t.contains(x));
        assert(t.to_multiset().count(x) >= 1);
    } else {
        lemma_count_two(t, i, j);
    }
}
proof fn lemma_nodup_count<T>(s: Seq<T>, x: T)
    requires no_dup(s)
    ensures s.to_multiset().count(x) <= 1
    decreases s.len()
{
    broadcast use vstd::seq_lib::group_to_multiset_ensures;
    if s.len() > 0 {
        let t = s.drop_last();
        assert(s =~= t.push(s.last()));
        lemma_nodup_count(t, x);
        if s.last() == x && t.to_multiset().count(x) >= 1 {
            assert(t.contains(x));
            let k = choose|k: int| 0 <= k < t.len() && t[k] == x;
            assert(s[k] == s[s.len() - 1]);
        }
    }
}

//@ extract core/src/core/transaction.rs :: fn deaggregate
//@   rewrite `let mut inputs: Vec<CommitWrapper> = vec![];` => `let mut inputs: Vec<CommitWrapper> = Vec::new();`
//@   rewrite `let mut outputs: Vec<Output> = vec![];` => `let mut outputs: Vec<Output> = Vec::new();`
//@   rewrite `let mut kernels: Vec<TxKernel> = vec![];` => `let mut kernels: Vec<TxKernel> = Vec::new();`
//@   rewrite `let mut kernel_offsets = vec![];` => `let mut kernel_offsets: Vec<BlindingFactor> = Vec::new();` x?
//@   rewrite `let mk_inputs: Vec<_> = mk_tx.inputs().into();` => `let mk_inputs: Vec<CommitWrapper> = inputs_of(&mk_tx);`
//@   rewrite `for mk_input in mk_inputs {` => `for mk_input_ref in it1: mk_inputs.iter() { let mk_input = *mk_input_ref;`
//@   rewrite `let tx_inputs: Vec<_> = tx.inputs().into();` => `let tx_inputs: Vec<CommitWrapper> = inputs_of(&tx);`
//@   rewrite `for mk_output in mk_tx.outputs() {` => `for mk_output in it2: mk_tx.outputs().iter() {`
//@   rewrite `for mk_kernel in mk_tx.kernels() {` => `for mk_kernel in it3: mk_tx.kernels().iter() {`
//@   rewrite `.contains(` => `.has(` x6
//@   block `let total_kernel_offset = ` replaced_by `offset_difference(&mk_tx, &tx)?`
//@   rewrite `inputs.sort_unstable();` => `sort_perm(&mut inputs);`
//@   rewrite `outputs.sort_unstable();` => `sort_perm(&mut outputs);`
//@   rewrite `kernels.sort_unstable();` => `sort_perm(&mut kernels);`
//@   rewrite `Transaction::new(Inputs::from(inputs.as_slice()), &outputs, &kernels)` => `Transaction::new(inputs_from(inputs.as_slice()), outputs.as_slice(), &kernels)`
//@   ensures:
//@+    r matches Ok(t) ==> exists|agg: Transaction| #[trigger] is_agg(txs@, agg) && remainder(mk_tx, agg, t),
//@   loop 1:
//@+    invariant
//@+        mk_inputs@ == mk_tx.ins@, minus_upto(inputs@, mk_tx.ins@, it1.index@ as int, tx.ins@),
//@   after `for mk_input_ref in it1: mk_inputs.iter() { let mk_input = *mk_input_ref;`:
//@+    proof { let n = it1.index@ as int; assert(mk_input == mk_tx.ins@[n]);
//@+            lemma_minus_step(inputs@, mk_tx.ins@, n, tx.ins@, !tx.ins@.contains(mk_input) && !inputs@.contains(mk_input)); }
//@   loop 2:
//@+    invariant
//@+        minus_upto(outputs@, mk_tx.outs@, it2.index@ as int, tx.outs@),
//@   after `for mk_output in it2: mk_tx.outputs().iter() {`:
//@+    proof { let n = it2.index@ as int; assert(*mk_output == mk_tx.outs@[n]);
//@+            lemma_minus_step(outputs@, mk_tx.outs@, n, tx.outs@, !tx.outs@.contains(*mk_output) && !outputs@.contains(*mk_output)); }
//@   loop 3:
//@+    invariant
//@+        minus_upto(kernels@, mk_tx.kerns@, it3.index@ as int, tx.kerns@),
//@   after `for mk_kernel in it3: mk_tx.kernels().iter() {`:
//@+    proof { let n = it3.index@ as int; assert(*mk_kernel == mk_tx.kerns@[n]);
//@+            lemma_minus_step(kernels@, mk_tx.kerns@, n, tx.kerns@, !tx.kerns@.contains(*mk_kernel) && !kernels@.contains(*mk_kernel)); }
//@   before `// now compute the total kernel offset`:
//@+    proof { assert(mk_tx.ins@.take(mk_tx.ins@.len() as int) =~= mk_tx.ins@); assert(mk_tx.outs@.take(mk_tx.outs@.len() as int) =~= mk_tx.outs@); assert(mk_tx.kerns@.take(mk_tx.kerns@.len() as int) =~= mk_tx.kerns@);
//@+            assert(minus(inputs@, mk_tx.ins@, tx.ins@) && minus(outputs@, mk_tx.outs@, tx.outs@) && minus(kernels@, mk_tx.kerns@, tx.kerns@));
//@+            lemma_minus_perm_all(inputs@, mk_tx.ins@, tx.ins@); lemma_minus_perm_all(outputs@, mk_tx.outs@, tx.outs@); lemma_minus_perm_all(kernels@, mk_tx.kerns@, tx.kerns@); }
//@+    let ghost (in_f, out_f, kern_f) = (inputs@, outputs@, kernels@);
//@   before `	Ok(\n`:
//@+    proof { assert(inputs@.to_multiset() == in_f.to_multiset() && outputs@.to_multiset() == out_f.to_multiset() && kernels@.to_multiset() == kern_f.to_multiset()); assert(is_agg(txs@, tx)); }
//@ end
//@ canary deaggregate: r.is_err()
