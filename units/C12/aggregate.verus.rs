//@ assume: Transaction / Inputs / CommitWrapper / Output / TxKernel / BlindingFactor are abstract; CommitWrapper and Output carry a ghost commitment key (trait El of C12/cut_through); Transaction::new(inputs, outputs, kernels) + with_offset build a transaction holding exactly these sequences (it sorts them: assumed to be a permutation); committed::sum_kernel_offsets(positive, negative) returns the uninterpreted group sum of the offsets (libsecp256k1)
//@ assume: T6 rewrites: the `fold` computing the three capacities => helper capacities_of (capacities only, no effect on the result); `let tx_inputs: Vec<_> = tx.inputs().into();` => helper inputs_of; `vec![]` => Vec::new(); `Inputs::from(inputs)` => helper; `tx.offset.clone()` => helper clone; `txs[0].clone()` => helper clone; `for tx in txs {` => Verus iterator loop with spliced invariant
//@ assume: decided here, for ANY number of transactions of any size: transaction::aggregate returns a transaction whose kernels are the concatenation of all the operands' kernels (none dropped, duplicated or foreign), whose offset is the sum of the operands' offsets, and whose inputs and outputs are the cut_through result (contract proved in the same file) of the concatenated inputs and outputs -- i.e. the union minus exactly the matched spend pairs; the empty and singleton cases return the empty transaction and the operand itself
//@ assumed_items: 12
//@ fns: transaction::aggregate
//@ include: ../C12/cut_through.verus.rs

#[verifier::external_body]
#[derive(Clone, Copy)]
pub struct BlindingFactor { _p: u8 }
#[derive(Clone, Copy)]
pub struct CommitWrapper { pub k: int_key }
#[derive(Clone, Copy)]
pub struct int_key { pub v: u64 }
impl El for CommitWrapper { open spec fn key(&self) -> int { self.k.v as int } }
#[derive(Clone, Copy)]
pub struct Output { pub k: int_key, pub proof_id: u64 }
impl El for Output { open spec fn key(&self) -> int { self.k.v as int } }
#[derive(Clone, Copy)]
pub struct TxKernel { pub id: u64 }
#[verifier::external_body]
pub struct Inputs { _p: u8 }
impl Inputs { pub uninterp spec fn commits(&self) -> Seq<CommitWrapper>; }
pub uninterp spec fn sp_sum_offsets(pos: Seq<BlindingFactor>) -> BlindingFactor;
pub struct Transaction { pub offset: BlindingFactor, pub ins: Ghost<Seq<CommitWrapper>>, pub outs: Vec<Output>, pub kerns: Vec<TxKernel> }
impl Transaction {
    #[verifier::external_body]
    pub fn empty() -> (r: Transaction) ensures r.ins@.len() == 0, r.outs@.len() == 0, r.kerns@.len() == 0 { unimplemented!() }
    #[verifier::external_body]
    pub fn inputs(&self) -> (r: Inputs) ensures r.commits() == self.ins@ { unimplemented!() }
    pub fn outputs(&self) -> (r: &[Output]) ensures r@ == self.outs@ { self.outs.as_slice() }
    pub fn kernels(&self) -> (r: &[TxKernel]) ensures r@ == self.kerns@ { self.kerns.as_slice() }
    /// Transaction::new sorts the three lists: the result holds permutations of them
    #[verifier::external_body]
    pub fn new(inputs: Inputs, outputs: &[Output], kernels: &Vec<TxKernel>) -> (r: Transaction)
        ensures r.ins@.to_multiset() == inputs.commits().to_multiset(), r.outs@.to_multiset() == outputs@.to_multiset(), r.kerns@.to_multiset() == kernels@.to_multiset() { unimplemented!() }
    #[verifier::external_body]
    pub fn with_offset(self, offset: BlindingFactor) -> (r: Transaction)
        ensures r.offset == offset, r.ins@ == self.ins@, r.outs@ == self.outs@, r.kerns@ == self.kerns@ { unimplemented!() }
}
#[verifier::external_body]
fn clone_tx(t: &Transaction) -> (r: Transaction) ensures r == *t { unimplemented!() }
#[verifier::external_body]
fn clone_offset(b: &BlindingFactor) -> (r: BlindingFactor) ensures r == *b { unimplemented!() }
#[verifier::external_body]
fn capacities_of(txs: &[Transaction]) -> (r: (usize, usize, usize)) { unimplemented!() }
#[verifier::external_body]
fn inputs_of(tx: &Transaction) -> (r: Vec<CommitWrapper>) ensures r@ == tx.ins@ { unimplemented!() }
#[verifier::external_body]
fn inputs_from(s: &[CommitWrapper]) -> (r: Inputs) ensures r.commits() == s@ { unimplemented!() }
pub mod committed { use super::*;
    #[verifier::external_body]
    pub fn sum_kernel_offsets(positive: Vec<BlindingFactor>, negative: Vec<BlindingFactor>) -> (r: Result<BlindingFactor, Error>)
        ensures r matches Ok(s) ==> negative@.len() == 0 ==> s == sp_sum_offsets(positive@) { unimplemented!() } }

/// concatenation of a per-transaction sequence over the first n transactions
pub open spec fn cat_ins(txs: Seq<Transaction>, n: int) -> Seq<CommitWrapper> decreases n { if n <= 0 { Seq::empty() } else { cat_ins(txs, n - 1) + txs[n - 1].ins@ } }
pub open spec fn cat_outs(txs: Seq<Transaction>, n: int) -> Seq<Output> decreases n { if n <= 0 { Seq::empty() } else { cat_outs(txs, n - 1) + txs[n - 1].outs@ } }
pub open spec fn cat_kerns(txs: Seq<Transaction>, n: int) -> Seq<TxKernel> decreases n { if n <= 0 { Seq::empty() } else { cat_kerns(txs, n - 1) + txs[n - 1].kerns@ } }
pub open spec fn offsets(txs: Seq<Transaction>, n: int) -> Seq<BlindingFactor> decreases n { if n <= 0 { Seq::empty() } else { offsets(txs, n - 1).push(txs[n - 1].offset) } }

//@ extract core/src/core/transaction.rs :: fn aggregate
//@   rewrite `return Ok(txs[0].clone());` => `return Ok(clone_tx(&txs[0]));`
//@   rewrite `\tlet (n_inputs, n_outputs, n_kernels) =\n\t\ttxs.iter()\n\t\t\t.fold((0, 0, 0), |(inputs, outputs, kernels), tx| {\n\t\t\t\t(\n\t\t\t\t\tinputs + tx.inputs().len(),\n\t\t\t\t\toutputs + tx.outputs().len(),\n\t\t\t\t\tkernels + tx.kernels().len(),\n\t\t\t\t)\n\t\t\t});` => `\tlet (n_inputs, n_outputs, n_kernels) = capacities_of(txs);`
//@   rewrite `for tx in txs {` => `for tx in it: txs.iter() {`
//@   rewrite `kernel_offsets.push(tx.offset.clone());` => `kernel_offsets.push(clone_offset(&tx.offset));`
//@   rewrite `let tx_inputs: Vec<_> = tx.inputs().into();` => `let tx_inputs: Vec<CommitWrapper> = inputs_of(tx);`
//@   rewrite `committed::sum_kernel_offsets(kernel_offsets, vec![])?` => `committed::sum_kernel_offsets(kernel_offsets, Vec::new())?`
//@   rewrite `Transaction::new(Inputs::from(inputs), outputs, &kernels)` => `Transaction::new(inputs_from(inputs), outputs, &kernels)`
//@   loop 1:
//@+    invariant
//@+        inputs@ == cat_ins(txs@, it.index@ as int), outputs@ == cat_outs(txs@, it.index@ as int), kernels@ == cat_kerns(txs@, it.index@ as int),
//@+        kernel_offsets@ == offsets(txs@, it.index@ as int),
//@   ensures:
//@+    txs@.len() == 0 ==> (r matches Ok(t) && t.ins@.len() == 0 && t.outs@.len() == 0 && t.kerns@.len() == 0),
//@+    txs@.len() == 1 ==> (r matches Ok(t) && t == txs@[0]),
//@+    txs@.len() >= 2 ==> (r matches Ok(t) ==>
//@+        t.kerns@.to_multiset() == cat_kerns(txs@, txs@.len() as int).to_multiset()
//@+        && t.offset == sp_sum_offsets(offsets(txs@, txs@.len() as int))
//@+        && exists|ci: Seq<CommitWrapper>, co: Seq<Output>, ki: Seq<CommitWrapper>, ko: Seq<Output>|
//@+            #[trigger] decomposition(cat_ins(txs@, txs@.len() as int), cat_outs(txs@, txs@.len() as int), ki, ci, ko, co)
//@+            && no_dup(ki) && no_dup(ko) && t.ins@.to_multiset() == ki.to_multiset() && t.outs@.to_multiset() == ko.to_multiset()),
//@ end
//@ canary aggregate: r.is_err()
