//@ assume: std::fs (OpenOptions, File::set_len / write_all / sync_all / metadata) and memmap are abstract. The file on disk is ghost state carried by the `path` field (`DiskFile`: byte length, a step automaton, a synced flag); T6 re-addresses each I/O expression to a helper with an assumed contract that also gets `&mut self.path`: the two `OpenOptions::new()...open(&self.path)?` chains => `open_rw(&mut self.path)?` / `open_append(&mut self.path)?`; `file.set_len(N)?` => `file.set_len(N, &mut self.path)?`; `self.file.as_mut().unwrap().write_all(&self.buffer[..])?` => `file_write_all(&mut self.file, &self.buffer, &mut self.path)?`; `self.file.as_mut().unwrap().sync_all()?` => `file_sync_all(&mut self.file, &mut self.path)?`; `self.file.as_ref().unwrap().metadata()?.len()` => `file_len(&self.file, &self.path)?`; `Some(unsafe { memmap::Mmap::map(..)? })` => `Some(mmap_of(&self.file)?)`; the nested size-file block => `self.size_file_flush()?`. offset_and_size / size_in_elmts are abstract readings of the (size-file or fixed-size) layout: `sp_end(size_info, pos)` = bytes up to and including element pos, `sp_elems(size_info, bytes)` = elements in a file of that many bytes.
//@ assume: what stays the real text: the ORDER of the steps, the `if self.buffer_start_pos_bak > 0` / `if self.buffer_start_pos == 0` decisions and what is truncated to, every `?` exit, the resetting of buffer_start_pos_bak, the clearing of the buffer and the new buffer_start_pos. The unsafe Mmap::map is outside.
//@ assume: decided here (C09 'AppendOnlyFile::flush (truncate then append then fsync)', C08 flush): flush first flushes the nested size file; then IF AND ONLY IF a rewind is pending (buffer_start_pos_bak > 0) it truncates the file to the end of element buffer_start_pos - 1 (to 0 when buffer_start_pos is 0); then appends exactly the buffer; then fsyncs -- in this order on every path, never a write after the fsync -- and returns Ok only after the fsync, with an empty buffer, no pending rewind and buffer_start_pos re-read from the file; on every earlier exit nothing is out of order. Byte length on disk after Ok == (the truncation point if rewound, else the old length) + buffer length.
//@ assumed_items: 13
//@ fns: AppendOnlyFile::flush
pub mod io {
    pub struct Error { pub k: u8 }
    pub type Result<T> = std::result::Result<T, Error>;
}
#[verifier::external_body]
pub struct ExtFile { _p: u8 }
#[verifier::external_body]
pub struct ExtMmap { _p: u8 }
#[verifier::external_body]
pub struct ExtSizeFile { _p: u8 }
pub enum SizeInfo { FixedSize(u16), VariableSize(ExtSizeFile) }
/// 0 nothing done, 1 truncated, 2 buffer appended, 3 fsynced; 99 out of order
pub open spec fn nx(s: int, e: int) -> int { if s == 0 && e == 1 { 1 } else if (s == 0 || s == 1) && e == 2 { 2 } else if s == 2 && e == 3 { 3 } else { 99 } }
pub struct DiskFile { pub bytes: Ghost<nat>, pub stage: Ghost<int>, pub truncated_to: Ghost<Option<nat>> }
pub uninterp spec fn sp_end(s: SizeInfo, pos: u64) -> nat;
pub uninterp spec fn sp_elems(s: SizeInfo, bytes: nat) -> u64;
pub uninterp spec fn sp_sf_flushed(s: SizeInfo) -> SizeInfo;
#[verifier::external_body]
pub fn open_rw(p: &mut DiskFile) -> (r: io::Result<ExtFile>) ensures *final(p) == *old(p) { unimplemented!() }
#[verifier::external_body]
pub fn open_append(p: &mut DiskFile) -> (r: io::Result<ExtFile>) ensures *final(p) == *old(p) { unimplemented!() }
impl ExtFile {
    #[verifier::external_body]
    pub fn set_len(&self, n: u64, p: &mut DiskFile) -> (r: io::Result<()>)
        ensures r.is_ok() ==> final(p).bytes@ == n as nat && final(p).stage@ == nx(old(p).stage@, 1) && final(p).truncated_to@ == Some(n as nat),
            r.is_err() ==> *final(p) == *old(p) { unimplemented!() }
}
#[verifier::external_body]
pub fn file_write_all(f: &mut Option<ExtFile>, buf: &Vec<u8>, p: &mut DiskFile) -> (r: io::Result<()>)
    ensures r.is_ok() ==> final(p).bytes@ == old(p).bytes@ + buf@.len() && final(p).stage@ == nx(old(p).stage@, 2) && final(p).truncated_to@ == old(p).truncated_to@,
        r.is_err() ==> final(p).stage@ == old(p).stage@ { unimplemented!() }
#[verifier::external_body]
pub fn file_sync_all(f: &mut Option<ExtFile>, p: &mut DiskFile) -> (r: io::Result<()>)
    ensures r.is_ok() ==> final(p).bytes@ == old(p).bytes@ && final(p).stage@ == nx(old(p).stage@, 3) && final(p).truncated_to@ == old(p).truncated_to@,
        r.is_err() ==> *final(p) == *old(p) { unimplemented!() }
#[verifier::external_body]
pub fn file_len(f: &Option<ExtFile>, p: &DiskFile) -> (r: io::Result<u64>) { unimplemented!() }
#[verifier::external_body]
pub fn mmap_of(f: &Option<ExtFile>) -> (r: io::Result<ExtMmap>) { unimplemented!() }

pub struct AppendOnlyFile {
    pub path: DiskFile,
    pub file: Option<ExtFile>,
    pub size_info: SizeInfo,
    pub mmap: Option<ExtMmap>,
    pub buffer: Vec<u8>,
    pub buffer_start_pos: u64,
    pub buffer_start_pos_bak: u64,
}
impl AppendOnlyFile {
    #[verifier::external_body]
    fn size_file_flush(&mut self) -> (r: io::Result<()>)
        ensures final(self).path == old(self).path, final(self).buffer == old(self).buffer, final(self).buffer_start_pos == old(self).buffer_start_pos,
            final(self).buffer_start_pos_bak == old(self).buffer_start_pos_bak, final(self).size_info == sp_sf_flushed(old(self).size_info) { unimplemented!() }
    #[verifier::external_body]
    fn offset_and_size(&self, pos: u64) -> (r: io::Result<(u64, u16)>)
        ensures r matches Ok(os) ==> os.0 + os.1 == sp_end(self.size_info, pos) && os.0 + os.1 <= u64::MAX { unimplemented!() }
    #[verifier::external_body]
    fn size_in_elmts(&self) -> (r: io::Result<u64>) ensures r matches Ok(n) ==> n == sp_elems(self.size_info, self.path.bytes@) { unimplemented!() }
//@ extract store/src/types.rs :: impl AppendOnlyFile::flush
//@   rewrite `\t\tif let SizeInfo::VariableSize(ref mut size_file) = &mut self.size_info {\n\t\t\t// Flush the associated size_file if we have one.\n\t\t\tsize_file.flush()?\n\t\t}` => `\t\tself.size_file_flush()?;`
//@   rewrite `OpenOptions::new()\n\t\t\t\t\t.read(true)\n\t\t\t\t\t.create(true)\n\t\t\t\t\t.write(true)\n\t\t\t\t\t.open(&self.path)?` => `open_rw(&mut self.path)?`
//@   rewrite `OpenOptions::new()\n\t\t\t\t.read(true)\n\t\t\t\t.create(true)\n\t\t\t\t.append(true)\n\t\t\t\t.open(&self.path)?` => `open_append(&mut self.path)?`
//@   rewrite `file.set_len(0)?` => `file.set_len(0, &mut self.path)?` x?
//@   rewrite `file.set_len(offset + size as u64)?` => `file.set_len(offset + size as u64, &mut self.path)?` x?
//@   rewrite `self.file.as_mut().unwrap().write_all(&self.buffer[..])?` => `file_write_all(&mut self.file, &self.buffer, &mut self.path)?` x?
//@   rewrite `self.file.as_mut().unwrap().sync_all()?` => `file_sync_all(&mut self.file, &mut self.path)?` x?
//@   rewrite `self.file.as_ref().unwrap().metadata()?.len()` => `file_len(&self.file, &self.path)?` x?
//@   rewrite `Some(unsafe { memmap::Mmap::map(&self.file.as_ref().unwrap())? })` => `Some(mmap_of(&self.file)?)` x?
//@   requires:
//@+    old(self).path.stage@ == 0, old(self).path.truncated_to@ is None,
//@   ensures:
//@+    final(self).path.stage@ != 99,
//@+    r.is_ok() ==> final(self).path.stage@ == 3
//@+        && final(self).buffer@.len() == 0 && final(self).buffer_start_pos_bak == 0
//@+        && final(self).buffer_start_pos == sp_elems(final(self).size_info, final(self).path.bytes@)
//@+        // truncated iff a rewind was pending, and to the end of the last kept element
//@+        && (old(self).buffer_start_pos_bak > 0 ==> final(self).path.truncated_to@ == Some(if old(self).buffer_start_pos == 0 { 0nat } else { sp_end(sp_sf_flushed(old(self).size_info), (old(self).buffer_start_pos - 1) as u64) }))
//@+        && (old(self).buffer_start_pos_bak == 0 ==> final(self).path.truncated_to@ is None)
//@+        && final(self).path.bytes@ == (match final(self).path.truncated_to@ { Some(n) => n, None => old(self).path.bytes@ }) + old(self).buffer@.len(),
//@ end
}
//@ canary flush: r.is_err()
