//@ assume: pmmr::insertion_to_pmmr_index(n) == sp_leaf_pos(n) and pmmr::bintree_rightmost are abstract here (both PROVED against the explicit tree in C07/pmmr_arith); ReadonlyPMMR::at(&backend, size).get_data(pos) is an uninterpreted reading sp_data(backend, size, pos) of the header MMR files; Hash equality is equality of an underlying id
//@ assume: T5: `impl PMMRHandle<BlockHeader>` => abstract handle with the same two fields; T6: `Error::Other("..".to_string())` => `Error::Other(msg())`; log macros removed (T3)
//@ assume: decided here (C09, start-up: 'PMMRHandle::init_head (header MMR vs header_head consistency)'): init_head returns Ok ONLY IF the header MMR, read at its current size, holds at height head.height an entry whose hash is the stored header head's hash, and then sets the handle's size to the MMR size with exactly head.height + 1 leaves (insertion_to_pmmr_index(height + 1)); on any inconsistency it returns Err and leaves the size untouched, so Chain::init fails instead of continuing on an inconsistent header MMR; get_header_hash_by_height refuses heights at or beyond the size and reads the leaf at insertion_to_pmmr_index(height); head_hash reads the rightmost leaf below the size and refuses an empty MMR.
//@ assumed_items: 4
//@ fns: PMMRHandle::init_head, PMMRHandle::get_header_hash_by_height, PMMRHandle::head_hash
//@ import: use vstd::std_specs::cmp::PartialEqSpecImpl;
#[derive(Clone, Copy)]
pub struct Hash { pub v: u64 }
impl PartialEqSpecImpl for Hash { open spec fn obeys_eq_spec() -> bool { true } open spec fn eq_spec(&self, other: &Hash) -> bool { self.v == other.v } }
impl PartialEq for Hash { fn eq(&self, other: &Hash) -> (r: bool) { self.v == other.v } }
pub enum Error { InvalidHeaderHeight(u64), Other(String) }
#[verifier::external_body]
pub fn msg() -> (r: String) { unimplemented!() }
pub struct Tip { pub height: u64, pub last_block_h: Hash }
impl Tip {
    pub fn hash(&self) -> (r: Hash) ensures r == self.last_block_h { self.last_block_h }
}
pub struct Entry { pub h: Hash }
impl Entry {
    pub fn hash(&self) -> (r: Hash) ensures r == self.h { self.h }
}
pub uninterp spec fn sp_leaf_pos(n: u64) -> u64;
pub uninterp spec fn sp_rightmost(pos0: u64) -> u64;
pub mod pmmr {
    use super::*;
    /// proved in C07/pmmr_arith (for n < 2^63: no overflow)
    #[verifier::external_body]
    pub fn insertion_to_pmmr_index(n: u64) -> (r: u64) requires n < 0x8000_0000_0000_0000 ensures r == sp_leaf_pos(n) { unimplemented!() }
    #[verifier::external_body]
    pub fn bintree_rightmost(pos0: u64) -> (r: u64) ensures r == sp_rightmost(pos0) { unimplemented!() }
}
pub struct PMMRBackend { pub _p: u8 }
pub uninterp spec fn sp_data(b: PMMRBackend, size: u64, pos: u64) -> Option<Entry>;
pub struct ReadonlyPMMR<'a> { pub b: &'a PMMRBackend, pub size: u64 }
impl<'a> ReadonlyPMMR<'a> {
    pub fn at(b: &'a PMMRBackend, size: u64) -> (r: ReadonlyPMMR<'a>) ensures r.b == b, r.size == size { ReadonlyPMMR { b, size } }
    #[verifier::external_body]
    pub fn get_data(&self, pos: u64) -> (r: Option<Entry>) ensures r == sp_data(*self.b, self.size, pos) { unimplemented!() }
}
pub struct PMMRHandle { pub backend: PMMRBackend, pub size: u64 }
impl PMMRHandle {
//@ extract chain/src/txhashset/txhashset.rs :: impl PMMRHandle<BlockHeader>::get_header_hash_by_height
//@   rewrite `"get header hash by height".to_string()` => `msg()` x?
//@   requires:
//@+    height < 0x8000_0000_0000_0000,
//@   ensures:
//@+    r matches Ok(h) ==> height < self.size && sp_data(self.backend, self.size, sp_leaf_pos(height)) == Some(Entry { h }),
//@ end
//@ extract chain/src/txhashset/txhashset.rs :: impl PMMRHandle<BlockHeader>::head_hash
//@   rewrite `"MMR empty, no head".to_string()` => `msg()` x?
//@   rewrite `"failed to find head hash".to_string()` => `msg()` x?
//@   ensures:
//@+    r matches Ok(h) ==> self.size > 0 && sp_data(self.backend, self.size, sp_rightmost((self.size - 1) as u64)) == Some(Entry { h }),
//@ end
//@ extract chain/src/txhashset/txhashset.rs :: impl PMMRHandle<BlockHeader>::init_head
//@   strip_logs
//@   rewrite `"header PMMR inconsistent".to_string()` => `msg()` x?
//@   requires:
//@+    head.height < 0x7fff_ffff_ffff_ffff,
//@   ensures:
//@+    final(self).backend == old(self).backend,
//@+    r.is_ok() ==> old(self).size > 0 && head.height < old(self).size
//@+        && (sp_data(old(self).backend, old(self).size, sp_leaf_pos(head.height)) is Some) && sp_data(old(self).backend, old(self).size, sp_leaf_pos(head.height))->Some_0.h.v == head.last_block_h.v
//@+        && final(self).size == sp_leaf_pos((head.height + 1) as u64),
//@+    r.is_err() ==> final(self).size == old(self).size,
//@ end
}
//@ canary init_head: r.is_err()
