//@ assume: ChainStore / Batch / PMMRHandle / TxHashSet / ExtensionPair are abstract (ghost fields: the stored body head, the list of deleted blocks); every store accessor is abstract with an uninterpreted meaning (get_block_header(h) == sp_hdr(h), pibd_head == sp_pibd_tip()); rewind_and_apply_fork / validate_roots / validate_kernel_sums / apply_block / apply_header are uninterpreted "this step succeeded" predicates (under contract in C02/C04/C15 units); txhashset::extending / header_extending are abstract over an environment value (T7): Ok(v) only if the closure returned Ok(v) -- the predicate the lifted closure proves --, stored heads and the deletion list of the outer batch untouched (proved for the real extending in C06/extending)
//@ assume: T7: closures 3 and 4 (the start-up validation and the fall-back rewind) are lifted to named functions and verified; closures 1, 2, 5 (genesis header, header-MMR rewind, genesis block application) are replaced by opaque environments; T6: `&|_| Ok(())` => `&allow_all()`; `(sums, genesis as &dyn Committed).verify_kernel_sums(` => `verify_genesis_sums(sums, genesis, `; `"chain init load head".to_owned()` => `msg()`; log macros removed (T3). Control flow, the recovery loop and every store write are the real text. Termination of the recovery loop is not proved (it walks back along stored prev links).
//@ assume: decided here (C09, 'on restart the chain opens ... its head is a block of the previously accepted chain (the old head or an ancestor), and the reopened state passes validation', as a contract on the start-up function Chain::init runs): setup_head commits a body head H only if EITHER the txhashset was rewound to H's header and its roots validated against that header inside an extension that succeeded (or state download is in progress and the extension to the PIBD header succeeded), OR no head was stored and the genesis block was saved, applied and made the head; every time that check FAILS the loop falls back to the previous header (a successful rewind to it is required), deletes one block, saves the previous header's tip as the body head and tries again -- so the committed head is the stored head or one of its ancestors n steps back with exactly n blocks deleted; nothing is committed on an error. What a crash leaves on disk, LMDB's atomic commit and the file-level recovery are NOT decided here.
//@ assumed_items: 38
//@ fns: chain::setup_head, chain::setup_head (start-up validation closure), chain::setup_head (fall-back rewind closure)
#[verifier::external_body]
#[derive(Clone, Copy)]
pub struct Hash { _p: u8 }
#[derive(Clone, Copy)]
pub struct BlockHeader { pub height: u64, pub prev_hash: Hash, pub id: Hash }
#[derive(Clone, Copy)]
pub struct Tip { pub height: u64, pub last_block_h: Hash, pub prev_block_h: Hash }
pub struct Block { pub header: BlockHeader, pub nkernels: usize }
pub enum StoreError { NotFoundErr(String), Other }
use StoreError::NotFoundErr;
pub enum Error { StoreErr(StoreError, String), Other }
#[verifier::external_body]
pub fn msg() -> (r: String) { unimplemented!() }
#[verifier::external_body]
pub struct Allowed { _p: u8 }
#[verifier::external_body]
pub fn allow_all() -> (r: Allowed) { unimplemented!() }
#[verifier::external_body]
#[derive(Clone, Copy)]
pub struct Commitment { _p: u8 }
#[derive(Clone, Copy)]
pub struct BlockSums { pub utxo_sum: Commitment, pub kernel_sum: Commitment }
impl BlockSums {
    #[verifier::external_body]
    pub fn default() -> (r: BlockSums) { unimplemented!() }
}
#[verifier::external_body]
pub struct Kernels { _p: u8 }
impl Kernels {
    #[verifier::external_body]
    pub fn is_empty(&self) -> (r: bool) { unimplemented!() }
}
pub uninterp spec fn sp_hdr(h: Hash) -> BlockHeader;
pub uninterp spec fn sp_pibd_tip() -> Tip;
impl BlockHeader {
    #[verifier::external_body]
    pub fn hash(&self) -> (r: Hash) ensures r == self.id { unimplemented!() }
    #[verifier::external_body]
    pub fn overage(&self) -> (r: i64) { unimplemented!() }
    #[verifier::external_body]
    pub fn total_kernel_offset(&self) -> (r: u64) { unimplemented!() }
}
impl Block {
    #[verifier::external_body]
    pub fn hash(&self) -> (r: Hash) ensures r == self.header.id { unimplemented!() }
    #[verifier::external_body]
    pub fn kernels(&self) -> (r: &Kernels) { unimplemented!() }
}
impl Tip {
    pub open spec fn sp_from_header(h: BlockHeader) -> Tip { Tip { height: h.height, last_block_h: h.id, prev_block_h: h.prev_hash } }
    #[verifier::external_body]
    pub fn from_header(h: &BlockHeader) -> (r: Tip) ensures r == Tip::sp_from_header(*h) { unimplemented!() }
    #[verifier::external_body]
    pub fn hash(&self) -> (r: Hash) ensures r == self.last_block_h { unimplemented!() }
}
#[verifier::external_body]
pub fn verify_genesis_sums(sums: BlockSums, genesis: &Block, overage: i64, offset: u64) -> (r: Result<(Commitment, Commitment), Error>) { unimplemented!() }

/// the tip n steps back from t along the stored prev links
pub open spec fn sp_back(t: Tip, n: nat) -> Tip decreases n {
    if n == 0 { t } else { Tip::sp_from_header(sp_hdr(sp_back(t, (n - 1) as nat).prev_block_h)) }
}
pub uninterp spec fn sp_fork_applied(h: BlockHeader) -> bool;   // the extension was rewound / re-applied to exactly h
pub uninterp spec fn sp_roots_valid(h: BlockHeader) -> bool;     // the extension's roots match h
pub uninterp spec fn sp_genesis_applied(g: Block) -> bool;
/// state download is ahead of the body head and we are not resetting it
pub open spec fn sp_pibd_ahead(t: Tip, resetting: bool) -> bool { sp_hdr(sp_pibd_tip().last_block_h).height > sp_hdr(t.last_block_h).height && !resetting }
/// what the start-up validation closure establishes
pub open spec fn sp_start_ok(header: BlockHeader, pibd: bool) -> bool { pibd || (sp_fork_applied(header) && sp_roots_valid(header)) }
/// the state a body head may be committed with
pub open spec fn sp_head_ok(t: Tip, resetting: bool) -> bool {
    if sp_pibd_ahead(t, resetting) { true } else { sp_fork_applied(sp_hdr(t.last_block_h)) && sp_roots_valid(sp_hdr(t.last_block_h)) }
}
/// outcome of the final LMDB commit: which body head and how many deletions it made durable
pub uninterp spec fn sp_committed(body_head: Option<Tip>, ndeleted: nat, genesis_saved: bool) -> bool;

pub struct Batch { pub body_head: Ghost<Option<Tip>>, pub deleted: Ghost<Seq<Hash>>, pub genesis_saved: Ghost<bool>, pub _p: u8 }
pub open spec fn sp_same(a: Batch, b: Batch) -> bool { a.body_head@ == b.body_head@ && a.deleted@ == b.deleted@ && a.genesis_saved@ == b.genesis_saved@ }
impl Batch {
    #[verifier::external_body]
    pub fn get_block_header(&self, h: &Hash) -> (r: Result<BlockHeader, Error>) ensures r matches Ok(x) ==> x == sp_hdr(*h) { unimplemented!() }
    #[verifier::external_body]
    pub fn save_block_header(&mut self, h: &BlockHeader) -> (r: Result<(), Error>) ensures sp_same(*final(self), *old(self)) { unimplemented!() }
    #[verifier::external_body]
    pub fn header_head(&self) -> (r: Result<Tip, Error>) { unimplemented!() }
    #[verifier::external_body]
    pub fn save_header_head(&mut self, t: &Tip) -> (r: Result<(), Error>) ensures sp_same(*final(self), *old(self)) { unimplemented!() }
    #[verifier::external_body]
    pub fn head(&self) -> (r: Result<Tip, StoreError>)
        ensures r matches Ok(t) ==> self.body_head@ == Some(t), (r matches Err(e) && e is NotFoundErr) ==> self.body_head@ is None { unimplemented!() }
    #[verifier::external_body]
    pub fn get_block_sums(&self, h: &Hash) -> (r: Result<BlockSums, Error>) { unimplemented!() }
    #[verifier::external_body]
    pub fn save_block_sums(&mut self, h: &Hash, s: BlockSums) -> (r: Result<(), Error>) ensures sp_same(*final(self), *old(self)) { unimplemented!() }
    #[verifier::external_body]
    pub fn delete_block(&mut self, h: &Hash) -> (r: Result<(), Error>)
        ensures final(self).deleted@ == old(self).deleted@.push(*h), final(self).body_head@ == old(self).body_head@, final(self).genesis_saved@ == old(self).genesis_saved@ { unimplemented!() }
    #[verifier::external_body]
    pub fn save_body_head(&mut self, t: &Tip) -> (r: Result<(), Error>)
        ensures r.is_ok() ==> final(self).body_head@ == Some(*t), r.is_err() ==> final(self).body_head@ == old(self).body_head@,
            final(self).deleted@ == old(self).deleted@, final(self).genesis_saved@ == old(self).genesis_saved@ { unimplemented!() }
    #[verifier::external_body]
    pub fn save_block(&mut self, b: &Block) -> (r: Result<(), Error>)
        ensures r.is_ok() ==> final(self).genesis_saved@, final(self).body_head@ == old(self).body_head@, final(self).deleted@ == old(self).deleted@ { unimplemented!() }
    #[verifier::external_body]
    pub fn save_spent_index(&mut self, h: &Hash, v: &Vec<u64>) -> (r: Result<(), Error>) ensures sp_same(*final(self), *old(self)) { unimplemented!() }
    #[verifier::external_body]
    pub fn commit(self) -> (r: Result<(), Error>) ensures r.is_ok() ==> sp_committed(self.body_head@, self.deleted@.len(), self.genesis_saved@) { unimplemented!() }
}
pub mod store {
    use super::*;
    pub struct ChainStore { pub _p: u8 }
    impl ChainStore {
        #[verifier::external_body]
        pub fn batch(&self) -> (r: Result<Batch, Error>) ensures r matches Ok(b) ==> b.deleted@.len() == 0 && !b.genesis_saved@ { unimplemented!() }
        #[verifier::external_body]
        pub fn pibd_head(&self) -> (r: Result<Tip, Error>) ensures r matches Ok(t) ==> t == sp_pibd_tip() { unimplemented!() }
    }
}
pub struct Extension { pub _p: u8 }
pub struct HeaderExtension { pub _p: u8 }
pub struct ExtensionPair { pub header_extension: HeaderExtension, pub extension: Extension }
impl Extension {
    #[verifier::external_body]
    pub fn validate_roots(&self, h: &BlockHeader) -> (r: Result<(), Error>) ensures r.is_ok() ==> sp_roots_valid(*h) { unimplemented!() }
    #[verifier::external_body]
    pub fn validate_kernel_sums(&self, g: &BlockHeader, h: &BlockHeader) -> (r: Result<(Commitment, Commitment), Error>) { unimplemented!() }
}
pub mod pipe {
    use super::*;
    #[verifier::external_body]
    pub fn rewind_and_apply_fork(h: &BlockHeader, ext: &mut ExtensionPair, batch: &mut Batch, allowed: &Allowed) -> (r: Result<BlockHeader, Error>)
        ensures r.is_ok() ==> sp_fork_applied(*h), sp_same(*final(batch), *old(batch)) { unimplemented!() }
}

//@ extract chain/src/chain.rs :: fn setup_head
//@   strip_logs
//@   closure 3 lifted_as `fn sh_validate(ext: &mut ExtensionPair, batch: &mut Batch, pibd_in_progress: bool, header: BlockHeader, genesis: &Block) -> Result<(), Error>`
//@   rewrite `&|_| Ok(())` => `&allow_all()` x?
//@   ensures:
//@+    r.is_ok() ==> sp_start_ok(header, pibd_in_progress),
//@+    sp_same(*final(batch), *old(batch)),
//@ end
//@ extract chain/src/chain.rs :: fn setup_head
//@   strip_logs
//@   closure 4 lifted_as `fn sh_fallback(ext: &mut ExtensionPair, batch: &mut Batch, prev_header: BlockHeader) -> Result<BlockHeader, Error>`
//@   rewrite `&|_| Ok(())` => `&allow_all()` x?
//@   ensures:
//@+    r.is_ok() ==> sp_fork_applied(prev_header),
//@+    sp_same(*final(batch), *old(batch)),
//@ end

pub mod txhashset {
    use super::*;
    pub struct PMMRHandle { pub size: u64 }
    impl PMMRHandle {
        #[verifier::external_body]
        pub fn init_head(&mut self, t: &Tip) -> (r: Result<(), Error>) { unimplemented!() }
        #[verifier::external_body]
        pub fn head_hash(&self) -> (r: Result<Hash, Error>) { unimplemented!() }
    }
    #[verifier::external_body]
    pub struct TxHashSet { _p: u8 }
    /// an environment standing for a closure: what the closure establishes when it returns Ok
    pub trait ExtEnv { type Out; spec fn sp_ok(&self) -> bool; }
    /// txhashset::extending, abstract (real function under contract in C06/extending): Ok only if the closure returned Ok
    #[verifier::external_body]
    pub fn extending<E: ExtEnv>(header_pmmr: &mut PMMRHandle, trees: &mut TxHashSet, batch: &mut Batch, env: E) -> (r: Result<E::Out, Error>)
        ensures r.is_ok() ==> env.sp_ok(), sp_same(*final(batch), *old(batch)) { unimplemented!() }
    #[verifier::external_body]
    pub fn header_extending<E>(header_pmmr: &mut PMMRHandle, batch: &mut Batch, env: E) -> (r: Result<(), Error>)
        ensures sp_same(*final(batch), *old(batch)) { unimplemented!() }
}
use txhashset::ExtEnv;
pub struct GenesisHeaderEnv;
pub struct HeaderRewindEnv;
pub struct ValidateEnv { pub pibd_in_progress: bool, pub header: BlockHeader }
impl ExtEnv for ValidateEnv { type Out = (); open spec fn sp_ok(&self) -> bool { sp_start_ok(self.header, self.pibd_in_progress) } }
pub struct FallbackEnv { pub prev_header: BlockHeader }
impl ExtEnv for FallbackEnv { type Out = BlockHeader; open spec fn sp_ok(&self) -> bool { sp_fork_applied(self.prev_header) } }
pub struct GenesisEnv<'a> { pub genesis: &'a Block }
impl<'a> ExtEnv for GenesisEnv<'a> { type Out = (); open spec fn sp_ok(&self) -> bool { sp_genesis_applied(*self.genesis) } }

//@ extract chain/src/chain.rs :: fn setup_head
//@   strip_logs
//@   attr: #[verifier::exec_allows_no_decreases_clause]
//@   sigrewrite `header_pmmr: &mut txhashset::PMMRHandle<BlockHeader>,` => `header_pmmr: &mut txhashset::PMMRHandle,`
//@   closure 1 replaced_by `GenesisHeaderEnv`
//@   closure 2 replaced_by `HeaderRewindEnv`
//@   closure 3 replaced_by `ValidateEnv { pibd_in_progress, header }`
//@   closure 4 replaced_by `FallbackEnv { prev_header }`
//@   closure 5 replaced_by `GenesisEnv { genesis }`
//@   rewrite `(sums, genesis as &dyn Committed).verify_kernel_sums(` => `verify_genesis_sums(sums, genesis, ` x?
//@   rewrite `"chain init load head".to_owned()` => `msg()` x?
//@   after `head = h;`:
//@+    let ghost head0 = head;
//@+    let ghost mut nback: nat = 0;
//@   before `head = Tip::from_header(&prev_header);`:
//@+    proof { nback = nback + 1; }
//@   loop 1:
//@+    invariant
//@+        batch.body_head@ == Some(head),
//@+        head == sp_back(head0, nback),
//@+        batch.deleted@.len() == nback,
//@+        !batch.genesis_saved@,
//@+    ensures
//@+        batch.body_head@ == Some(head), head == sp_back(head0, nback), batch.deleted@.len() == nback, !batch.genesis_saved@,
//@+        sp_head_ok(head, resetting_pibd),
//@   ensures:
//@+    // whatever is committed: a validated stored head or one of its ancestors (n steps back, n blocks deleted), or a freshly applied genesis
//@+    r.is_ok() ==> exists|bh: Option<Tip>, nd: nat, gs: bool| #[trigger] sp_committed(bh, nd, gs) && (
//@+        (bh matches Some(t) && !gs && sp_head_ok(t, resetting_pibd) && exists|t0: Tip| t == #[trigger] sp_back(t0, nd))
//@+        || (gs && nd == 0 && bh == Some(Tip::sp_from_header(genesis.header)) && sp_genesis_applied(*genesis))),
//@ end
//@ canary setup_head: r.is_err()
