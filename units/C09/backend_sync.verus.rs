//@ assume: DataFile / LeafSet / PruneList are abstract with two uninterpreted readings each, `pending()` (what reads through this instance see) and `flushed()` (what is durable on disk); assumed contracts: flush() returning Ok makes flushed == pending (AppendOnlyFile::flush: truncate, append, fsync; LeafSet/PruneList::flush: through save_via_temp_file, whose step order is proved in C09/save_via_temp) and changes neither on Err beyond what the OS guarantees (nothing assumed); replace_with_tmp() swaps in the compacted copy (proved in C08/replace_with_tmp). std::result::Result::and is specified by its documented meaning (assume_specification).
//@ assume: T6: the trailing `.map_err(|e| { io::Error::new(.., format!(..)) })` of sync is re-addressed to `.map_err_io(..)` over the closure replaced by a unit value (the closure only re-words the error); PruneList::new(Some(self.data_dir.join(PMMR_PRUN_FILE)), bitmap) => PruneList::new_at(&self.data_dir, bitmap); log macros removed (T3). In check_compact the four closures that compute WHICH positions to drop (map_vec! bodies and the leaf filter) are replaced by opaque values and the macro / iterator expressions around them by abstract helpers (`map_vec!(pos_to_rm, ..)` => shifted_hash_positions(..) etc.): what is removed is NOT decided here, only the order of the durable steps; `assert!(self.prunable, ..)` => check_prunable.
//@ assume: decided here (C09, durable write order at the MMR back end): PMMRBackend::sync returns Ok ONLY IF the hash file, the data file, the leaf set (prunable back ends) and the prune list were ALL flushed successfully -- txhashset::extending treats an Ok sync as 'the MMR files are on disk' before the enclosing LMDB batch commits; check_compact writes BOTH compacted temp copies (hash file, data file) BEFORE it replaces either live file -- all the failure-prone bulk writing is over before the first swap --, then replaces the hash file, then the data file, THEN rebuilds the prune list from the old roots plus the removed leaves and flushes it, THEN flushes the leaf set, in this order, and returns Ok(true) only if every step succeeded. Whether that order is itself crash-safe (a kill between the file swap and the prune-list flush) is NOT decided.
//@ assumed_items: 23
//@ fns: PMMRBackend::sync, PMMRBackend::sync_leaf_set, PMMRBackend::check_compact
pub mod io {
    pub struct Error { pub k: u8 }
    pub type Result<T> = std::result::Result<T, Error>;
}
pub assume_specification<T, E, U>[ Result::<T, E>::and::<U> ](this: Result<T, E>, res: Result<U, E>) -> (r: Result<U, E>)
    ensures r == (match this { Ok(_) => res, Err(e) => Err::<U, E>(e) });
pub trait MapErrIo<T> { fn map_err_io(self, f: ()) -> (r: io::Result<T>); }
impl<T> MapErrIo<T> for io::Result<T> {
    #[verifier::external_body]
    fn map_err_io(self, f: ()) -> (r: io::Result<T>) ensures r.is_ok() == self.is_ok(), self matches Ok(v) ==> r == Ok::<T, io::Error>(v) { unimplemented!() }
}
#[verifier::external_body]
pub struct DataFile { _p: u8 }
#[verifier::external_body]
pub struct LeafSet { _p: u8 }
#[verifier::external_body]
pub struct PruneList { _p: u8 }
#[verifier::external_body]
pub struct Bitmap { _p: u8 }
#[verifier::external_body]
pub struct PathBuf { _p: u8 }
pub uninterp spec fn sp_bits(b: Bitmap) -> Set<int>;
pub uninterp spec fn sp_leaves_removed(b: PMMRBackend, cutoff_pos: u64, rewind_rm_pos: Bitmap) -> Bitmap;
#[verifier::external_body]
pub fn check_prunable(p: bool) { unimplemented!() }
#[verifier::external_body]
pub fn shifted_hash_positions(b: &Bitmap) -> (r: Vec<u64>) { unimplemented!() }
#[verifier::external_body]
pub fn leaf_positions_of(b: &Bitmap) -> (r: Vec<u64>) { unimplemented!() }
#[verifier::external_body]
pub fn shifted_leaf_positions(v: &Vec<u64>) -> (r: Vec<u64>) { unimplemented!() }
impl Bitmap {
    #[verifier::external_body]
    pub fn or_inplace(&mut self, o: &Bitmap) ensures sp_bits(*final(self)) == sp_bits(*old(self)).union(sp_bits(*o)) { unimplemented!() }
}
impl DataFile {
    pub uninterp spec fn pending(&self) -> Seq<int>;
    pub uninterp spec fn flushed(&self) -> Seq<int>;
    pub uninterp spec fn tmp(&self) -> Seq<int>;       // the compacted copy written by write_tmp_pruned
    #[verifier::external_body]
    pub fn flush(&mut self) -> (r: io::Result<()>) ensures r.is_ok() ==> final(self).flushed() == old(self).pending() && final(self).pending() == old(self).pending() { unimplemented!() }
    #[verifier::external_body]
    pub fn replace_with_tmp(&mut self) -> (r: io::Result<()>) ensures r.is_ok() ==> final(self).flushed() == old(self).tmp() && final(self).pending() == old(self).tmp() { unimplemented!() }
    #[verifier::external_body]
    pub fn write_tmp_pruned(&mut self, pos: &Vec<u64>) -> (r: io::Result<()>) ensures final(self).flushed() == old(self).flushed(), final(self).pending() == old(self).pending() { unimplemented!() }
}
impl LeafSet {
    pub uninterp spec fn pending(&self) -> Set<int>;
    pub uninterp spec fn flushed(&self) -> Set<int>;
    #[verifier::external_body]
    pub fn flush(&mut self) -> (r: io::Result<()>) ensures r.is_ok() ==> final(self).flushed() == old(self).pending() && final(self).pending() == old(self).pending() { unimplemented!() }
    /// offered (not used by the pinned text)
    #[verifier::external_body]
    pub fn len(&self) -> (r: usize) { unimplemented!() }
}
impl PruneList {
    pub uninterp spec fn pending(&self) -> Set<int>;
    pub uninterp spec fn flushed(&self) -> Set<int>;
    #[verifier::external_body]
    pub fn flush(&mut self) -> (r: io::Result<()>) ensures r.is_ok() ==> final(self).flushed() == old(self).pending() && final(self).pending() == old(self).pending() { unimplemented!() }
    #[verifier::external_body]
    pub fn bitmap(&self) -> (r: Bitmap) ensures sp_bits(r) == self.pending() { unimplemented!() }
    #[verifier::external_body]
    pub fn new_at(dir: &PathBuf, bitmap: Bitmap) -> (r: PruneList) ensures r.pending() == sp_bits(bitmap) { unimplemented!() }
}
//@ extract store/src/pmmr.rs :: struct PMMRBackend
//@   rewrite `pub struct PMMRBackend<T: PMMRable> {` => `pub struct PMMRBackend {\n\t/// ghost step counter of a compaction: 0 start, 1 hash temp copy written, 2 data temp copy written, 3 hash file replaced, 4 data file replaced, 5 prune list flushed, 6 leaf set flushed\n\tpub step: Ghost<int>,`
//@   rewrite `DataFile<Hash>` => `DataFile`
//@   rewrite `DataFile<T::E>` => `DataFile`
//@   pub_fields
//@ end
impl PMMRBackend {
    /// offered (not used by the pinned text of sync)
    #[verifier::external_body]
    pub fn unpruned_size(&self) -> (r: u64) { unimplemented!() }
    #[verifier::external_body]
    fn clean_rewind_files(&self) -> (r: io::Result<u32>) { unimplemented!() }
    /// the (leaves removed, positions to remove) selection: decided in C08/pos_to_rm
    #[verifier::external_body]
    fn pos_to_rm(&self, cutoff_pos: u64, rewind_rm_pos: &Bitmap) -> (r: (Bitmap, Bitmap)) ensures r.0 == sp_leaves_removed(*self, cutoff_pos, *rewind_rm_pos) { unimplemented!() }
//@ extract store/src/pmmr.rs :: impl PMMRBackend::sync_leaf_set
//@   ensures:
//@+    final(self).hash_file == old(self).hash_file, final(self).data_file == old(self).data_file, final(self).prune_list == old(self).prune_list, final(self).prunable == old(self).prunable,
//@+    r.is_ok() && old(self).prunable ==> final(self).leaf_set.flushed() == old(self).leaf_set.pending() && final(self).leaf_set.pending() == old(self).leaf_set.pending(),
//@+    !old(self).prunable ==> final(self).leaf_set == old(self).leaf_set,
//@ end
//@ extract store/src/pmmr.rs :: impl PMMRBackend::sync
//@   closure 1 replaced_by `()`
//@   rewrite `.map_err(` => `.map_err_io(` x?
//@   ensures:
//@+    // Ok means: everything this back end holds is on disk
//@+    r.is_ok() ==> final(self).hash_file.flushed() == old(self).hash_file.pending()
//@+        && final(self).data_file.flushed() == old(self).data_file.pending()
//@+        && (old(self).prunable ==> final(self).leaf_set.flushed() == old(self).leaf_set.pending())
//@+        && final(self).prune_list.flushed() == old(self).prune_list.pending(),
//@ end
//@ extract store/src/pmmr.rs :: impl PMMRBackend::check_compact
//@   strip_logs
//@   closure 1 replaced_by `()`
//@   closure 2 replaced_by `()`
//@   eclosure 1 replaced_by `()`
//@   eclosure 2 replaced_by `()`
//@   rewrite `assert!(self.prunable, "Trying to compact a non-prunable PMMR");` => `check_prunable(self.prunable);` x?
//@   rewrite `map_vec!(pos_to_rm, ())` => `shifted_hash_positions(&pos_to_rm)` x?
//@   rewrite `map_vec!(leaf_pos_to_rm, ())` => `shifted_leaf_positions(&leaf_pos_to_rm)` x?
//@   rewrite `pos_to_rm\n\t\t\t\t.iter()\n\t\t\t\t.map(())\n\t\t\t\t.filter(())\n\t\t\t\t.collect::<Vec<_>>()` => `leaf_positions_of(&pos_to_rm)` x?
//@   rewrite `PruneList::new(Some(self.data_dir.join(PMMR_PRUN_FILE)), bitmap)` => `PruneList::new_at(&self.data_dir, bitmap)` x?
//@   after? `self.hash_file.write_tmp_pruned(&pos_to_rm)?;`:
//@+    proof { assert(self.step@ == 0); } self.step = Ghost(1);
//@   after? `self.data_file.write_tmp_pruned(&pos_to_rm)?;`:
//@+    proof { assert(self.step@ == 1); } self.step = Ghost(2);
//@   after? `self.hash_file.replace_with_tmp()?;`:
//@+    proof { assert(self.step@ == 2); } self.step = Ghost(3);
//@   after? `self.data_file.replace_with_tmp()?;`:
//@+    proof { assert(self.step@ == 3); } self.step = Ghost(4);
//@   after? `self.prune_list.flush()?;`:
//@+    proof { assert(self.step@ == 4); } self.step = Ghost(5);
//@   after? `self.leaf_set.flush()?;`:
//@+    proof { assert(self.step@ == 5); } self.step = Ghost(6);
//@   requires:
//@+    old(self).step@ == 0,
//@   ensures:
//@+    r.is_ok() ==> final(self).step@ == 6
//@+        // the new prune list = old roots + the leaves removed by this compaction, and it is on disk
//@+        && final(self).prune_list.flushed() == old(self).prune_list.pending().union(sp_bits(sp_leaves_removed(*old(self), cutoff_pos, *rewind_rm_pos)))
//@+        && final(self).leaf_set.flushed() == old(self).leaf_set.pending(),
//@ end
}
//@ canary sync: r.is_err()
