//@ assume: DataFile / LeafSet / PruneList are abstract with two uninterpreted readings each, `pending()` (what reads through this instance see) and `flushed()` (what is durable on disk); assumed contracts: flush() returning Ok makes flushed == pending (AppendOnlyFile::flush: truncate, append, fsync; LeafSet/PruneList::flush: through save_via_temp_file, whose step order is proved in C09/save_via_temp) and changes neither on Err beyond what the OS guarantees (nothing assumed); replace_with_tmp() swaps in the compacted copy (proved in C08/replace_with_tmp). std::result::Result::and is specified by its documented meaning (assume_specification).
//@ assume: T6: the trailing `.map_err(|e| { io::Error::new(.., format!(..)) })` of sync is re-addressed to `.map_err_io(..)` over the closure replaced by a unit value (the closure only re-words the error); PruneList::new(Some(self.data_dir.join(PMMR_PRUN_FILE)), bitmap) => PruneList::new_at(&self.data_dir, bitmap); log macros removed (T3). The tail of check_compact (from the replacement of the two files to the end) is lifted as a function of `self` and the removed-leaves bitmap (`tail` directive); its first half (computing what to remove and writing the two temp files) is iterator / macro code outside the subset and is NOT decided.
//@ assume: decided here (C09, durable write order at the MMR back end): PMMRBackend::sync returns Ok ONLY IF the hash file, the data file, the leaf set (prunable back ends) and the prune list were ALL flushed successfully -- txhashset::extending treats an Ok sync as 'the MMR files are on disk' before the enclosing LMDB batch commits; the tail of check_compact replaces the hash file and the data file by their compacted copies, THEN rebuilds the prune list from the old roots plus the removed leaves and flushes it, THEN flushes the leaf set, in this order, and returns Ok(true) only if every step succeeded. Whether that order is itself crash-safe (a kill between the file swap and the prune-list flush) is NOT decided.
//@ assumed_items: 15
//@ fns: PMMRBackend::sync, PMMRBackend::sync_leaf_set, PMMRBackend::check_compact (tail)
pub mod io {
    pub struct Error { pub k: u8 }
    pub type Result<T> = std::result::Result<T, Error>;
}
pub assume_specification<T, E, U>[ Result::<T, E>::and::<U> ](this: Result<T, E>, res: Result<U, E>) -> (r: Result<U, E>)
    ensures r == (match this { Ok(_) => res, Err(e) => Err::<U, E>(e) });
pub trait MapErrIo<T> { fn map_err_io(self, f: ()) -> (r: io::Result<T>); }
impl<T> MapErrIo<T> for io::Result<T> {
    #[verifier::external_body]
    fn map_err_io(self, f: ()) -> (r: io::Result<T>) ensures r.is_ok() == self.is_ok(), self matches Ok(v) ==> r == Ok::<T, io::Error>(v) { unimplemented!() }
}
#[verifier::external_body]
pub struct DataFile { _p: u8 }
#[verifier::external_body]
pub struct LeafSet { _p: u8 }
#[verifier::external_body]
pub struct PruneList { _p: u8 }
#[verifier::external_body]
pub struct Bitmap { _p: u8 }
#[verifier::external_body]
pub struct PathBuf { _p: u8 }
pub uninterp spec fn sp_bits(b: Bitmap) -> Set<int>;
impl Bitmap {
    #[verifier::external_body]
    pub fn or_inplace(&mut self, o: &Bitmap) ensures sp_bits(*final(self)) == sp_bits(*old(self)).union(sp_bits(*o)) { unimplemented!() }
}
impl DataFile {
    pub uninterp spec fn pending(&self) -> Seq<int>;
    pub uninterp spec fn flushed(&self) -> Seq<int>;
    pub uninterp spec fn tmp(&self) -> Seq<int>;       // the compacted copy written by write_tmp_pruned
    #[verifier::external_body]
    pub fn flush(&mut self) -> (r: io::Result<()>) ensures r.is_ok() ==> final(self).flushed() == old(self).pending() && final(self).pending() == old(self).pending() { unimplemented!() }
    #[verifier::external_body]
    pub fn replace_with_tmp(&mut self) -> (r: io::Result<()>) ensures r.is_ok() ==> final(self).flushed() == old(self).tmp() && final(self).pending() == old(self).tmp() { unimplemented!() }
}
impl LeafSet {
    pub uninterp spec fn pending(&self) -> Set<int>;
    pub uninterp spec fn flushed(&self) -> Set<int>;
    #[verifier::external_body]
    pub fn flush(&mut self) -> (r: io::Result<()>) ensures r.is_ok() ==> final(self).flushed() == old(self).pending() && final(self).pending() == old(self).pending() { unimplemented!() }
}
impl PruneList {
    pub uninterp spec fn pending(&self) -> Set<int>;
    pub uninterp spec fn flushed(&self) -> Set<int>;
    #[verifier::external_body]
    pub fn flush(&mut self) -> (r: io::Result<()>) ensures r.is_ok() ==> final(self).flushed() == old(self).pending() && final(self).pending() == old(self).pending() { unimplemented!() }
    #[verifier::external_body]
    pub fn bitmap(&self) -> (r: Bitmap) ensures sp_bits(r) == self.pending() { unimplemented!() }
    #[verifier::external_body]
    pub fn new_at(dir: &PathBuf, bitmap: Bitmap) -> (r: PruneList) ensures r.pending() == sp_bits(bitmap) { unimplemented!() }
}
pub struct PMMRBackend { pub data_dir: PathBuf, pub prunable: bool, pub hash_file: DataFile, pub data_file: DataFile, pub leaf_set: LeafSet, pub prune_list: PruneList,
    /// ghost step counter of the compaction tail: 0 start, 1 hash file replaced, 2 data file replaced, 3 prune list flushed, 4 leaf set flushed
    pub step: Ghost<int> }
impl PMMRBackend {
    #[verifier::external_body]
    fn clean_rewind_files(&self) -> (r: io::Result<u32>) { unimplemented!() }
//@ extract store/src/pmmr.rs :: impl PMMRBackend::sync_leaf_set
//@   ensures:
//@+    final(self).hash_file == old(self).hash_file, final(self).data_file == old(self).data_file, final(self).prune_list == old(self).prune_list, final(self).prunable == old(self).prunable,
//@+    r.is_ok() && old(self).prunable ==> final(self).leaf_set.flushed() == old(self).leaf_set.pending() && final(self).leaf_set.pending() == old(self).leaf_set.pending(),
//@+    !old(self).prunable ==> final(self).leaf_set == old(self).leaf_set,
//@ end
//@ extract store/src/pmmr.rs :: impl PMMRBackend::sync
//@   closure 1 replaced_by `()`
//@   rewrite `.map_err(` => `.map_err_io(` x?
//@   ensures:
//@+    // Ok means: everything this back end holds is on disk
//@+    r.is_ok() ==> final(self).hash_file.flushed() == old(self).hash_file.pending()
//@+        && final(self).data_file.flushed() == old(self).data_file.pending()
//@+        && (old(self).prunable ==> final(self).leaf_set.flushed() == old(self).leaf_set.pending())
//@+        && final(self).prune_list.flushed() == old(self).prune_list.pending(),
//@ end
//@ extract store/src/pmmr.rs :: impl PMMRBackend::check_compact
//@   strip_logs
//@   tail `// Replace hash and data files with compact copies.` lifted_as `fn check_compact_tail(&mut self, leaves_removed: Bitmap) -> io::Result<bool>`
//@   rewrite `PruneList::new(Some(self.data_dir.join(PMMR_PRUN_FILE)), bitmap)` => `PruneList::new_at(&self.data_dir, bitmap)` x?
//@   after? `self.hash_file.replace_with_tmp()?;`:
//@+    proof { assert(self.step@ == 0); } self.step = Ghost(1);
//@   after? `self.data_file.replace_with_tmp()?;`:
//@+    proof { assert(self.step@ == 1); } self.step = Ghost(2);
//@   after? `self.prune_list.flush()?;`:
//@+    proof { assert(self.step@ == 2); } self.step = Ghost(3);
//@   after? `self.leaf_set.flush()?;`:
//@+    proof { assert(self.step@ == 3); } self.step = Ghost(4);
//@   requires:
//@+    old(self).step@ == 0,
//@   ensures:
//@+    r.is_ok() ==> final(self).step@ == 4
//@+        && final(self).hash_file.flushed() == old(self).hash_file.tmp() && final(self).data_file.flushed() == old(self).data_file.tmp()
//@+        // the new prune list = old roots + the leaves removed by this compaction, and it is on disk
//@+        && final(self).prune_list.flushed() == old(self).prune_list.pending().union(sp_bits(leaves_removed))
//@+        && final(self).leaf_set.flushed() == old(self).leaf_set.pending(),
//@ end
}
//@ canary sync: r.is_err()
