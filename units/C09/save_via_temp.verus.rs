//@ assume: std::fs / std::path are abstract. The file system is a ghost STEP AUTOMATON threaded through the function as an extra `fs: &mut Fs` parameter (T6: each std::fs call is re-addressed to a method of that object with an assumed contract: `temp_path.exists()` => `fs.exists(temp_path)`, `remove_file(&temp_path)` => `fs.remove_file(&temp_path)`, `File::create(&temp_path)` => `fs.create(&temp_path)`, `temp_file.sync_all()` => `fs.sync_all(&temp_file)`, `rename(&temp_path, &original)` => `fs.rename(&temp_path, &original)`); steps: 1 remove(temp), 2 create(temp), 3 the caller's writer ran on the temp file, 4 fsync of the file handle (the arbitrary writer closure may do anything to the handle's ghost identity, so the fsync step does not check WHICH handle -- the temp file's is the only one in scope), 5 rename(temp -> original), 9 anything that touches the ORIGINAL path other than that rename. The path arithmetic (`as_ref`, `to_os_string`, `push`, `Path::new`) runs on abstract Path / OsStr values whose only property is: temp path != original path (the suffix is non-empty: the function's own assert!, rewritten to a precondition-free stand-in `check_nonempty`).
//@ assume: T5: generic parameters `P: AsRef<Path>`, `E: AsRef<OsStr>` => `&Path`, `&OsStr`. The ORDER of the statements, the `?` exits and the writer call are the real text.
//@ assume: decided here (C09, 'no half-replaced file is ever observed', for every file written through save_via_temp_file: the leaf set and the prune list): on EVERY exit the events since entry are a prefix of [remove(temp)?, create(temp), writer, fsync(temp), rename(temp -> original)] -- the original path is touched by nothing but the final rename, the rename comes only after the fsync of the temp file, the fsync only after the writer returned Ok -- and Ok is returned only after the whole sequence. That rename(2) is atomic and fsync durable is the operating system's contract (assumed).
//@ assumed_items: 16
//@ fns: store::save_via_temp_file
pub mod io { pub struct Error { pub k: u8 } }
#[verifier::external_body]
pub struct OsStr { _p: u8 }
#[verifier::external_body]
pub struct OsString { _p: u8 }
#[verifier::external_body]
pub struct Path { _p: u8 }
pub uninterp spec fn sp_pid(p: &Path) -> int;         // identity of a path
pub uninterp spec fn sp_os_pid(p: &OsString) -> int;   // identity of the path an OsString spells
impl OsStr {
    #[verifier::external_body]
    pub fn as_ref(&self) -> (r: &OsStr) ensures r == self { unimplemented!() }
    #[verifier::external_body]
    pub fn is_empty(&self) -> (r: bool) { unimplemented!() }
    #[verifier::external_body]
    pub fn to_os_string(&self) -> (r: OsString) ensures sp_os_pid(&r) == sp_os_str_pid(self) { unimplemented!() }
}
pub uninterp spec fn sp_os_str_pid(p: &OsStr) -> int;
/// the path spelled by `base` followed by the (non-empty) suffix
pub uninterp spec fn sp_suffixed(base: int, suffix: int) -> int;
impl OsString {
    /// pushing a NON-EMPTY suffix spells a different path
    #[verifier::external_body]
    pub fn push(&mut self, s: &OsStr) ensures sp_os_pid(final(self)) == sp_suffixed(sp_os_pid(old(self)), sp_os_str_pid(s)), sp_os_pid(final(self)) != sp_os_pid(old(self)) { unimplemented!() }
}
impl Path {
    #[verifier::external_body]
    pub fn as_ref(&self) -> (r: &Path) ensures r == self { unimplemented!() }
    #[verifier::external_body]
    pub fn as_os_str(&self) -> (r: &OsStr) ensures sp_os_str_pid(r) == sp_pid(self) { unimplemented!() }
    #[verifier::external_body]
    pub fn new(s: &OsString) -> (r: &Path) ensures sp_pid(r) == sp_os_pid(s) { unimplemented!() }
}
/// the function's own `assert!(!temp_suffix.is_empty())` (a panic on an empty suffix, not a property of the file system)
#[verifier::external_body]
pub fn check_nonempty(s: &OsStr) { unimplemented!() }
pub struct File { pub pid: Ghost<int> }
pub struct Fs { pub stage: Ghost<int>, pub tmp: Ghost<int>, pub orig: Ghost<int> }
/// the step automaton: 0 start, 1 stale temp removed, 2 temp created, 3 writer returned Ok, 4 temp fsynced, 5 renamed over the original; 99 = out of order
pub open spec fn next(s: int, e: int) -> int {
    if s == 0 && e == 1 { 1 } else if (s == 0 || s == 1) && e == 2 { 2 } else if s == 2 && e == 3 { 3 } else if s == 3 && e == 4 { 4 } else if s == 4 && e == 5 { 5 } else { 99 }
}
pub open spec fn ev(fs: Fs, pid: int, e: int) -> int { if pid == fs.tmp@ { e } else { 9 } }
impl Fs {
    #[verifier::external_body]
    pub fn exists(&self, p: &Path) -> (r: bool) { unimplemented!() }
    #[verifier::external_body]
    pub fn remove_file(&mut self, p: &&Path) -> (r: Result<(), io::Error>)
        ensures final(self).tmp == old(self).tmp, final(self).orig == old(self).orig,
            r.is_ok() ==> final(self).stage@ == next(old(self).stage@, ev(*old(self), sp_pid(*p), 1)),
            r.is_err() ==> final(self).stage@ == old(self).stage@ { unimplemented!() }
    #[verifier::external_body]
    pub fn create(&mut self, p: &&Path) -> (r: Result<File, io::Error>)
        ensures final(self).tmp == old(self).tmp, final(self).orig == old(self).orig,
            r matches Ok(f) ==> f.pid@ == sp_pid(*p) && final(self).stage@ == next(old(self).stage@, ev(*old(self), sp_pid(*p), 2)),
            r.is_err() ==> final(self).stage@ == old(self).stage@ { unimplemented!() }
    #[verifier::external_body]
    pub fn sync_all(&mut self, f: &File) -> (r: Result<(), io::Error>)
        ensures final(self).tmp == old(self).tmp, final(self).orig == old(self).orig,
            r.is_ok() ==> final(self).stage@ == next(old(self).stage@, 4),
            r.is_err() ==> final(self).stage@ == old(self).stage@ { unimplemented!() }
    #[verifier::external_body]
    pub fn rename(&mut self, from: &&Path, to: &&Path) -> (r: Result<(), io::Error>)
        ensures final(self).tmp == old(self).tmp, final(self).orig == old(self).orig,
            r.is_ok() ==> final(self).stage@ == next(old(self).stage@, if sp_pid(*from) == old(self).tmp@ && sp_pid(*to) == old(self).orig@ { 5 } else { 9 }),
            r.is_err() ==> final(self).stage@ == old(self).stage@ { unimplemented!() }
}

//@ extract store/src/lib.rs :: fn save_via_temp_file
//@   sigrewrite `pub fn save_via_temp_file<F, P, E>(path: P, temp_suffix: E, mut writer: F) -> Result<(), io::Error>` => `pub fn save_via_temp_file<F>(path: &Path, temp_suffix: &OsStr, mut writer: F, fs: &mut Fs) -> Result<(), io::Error>`
//@   sigrewrite `\tP: AsRef<Path>,\n\tE: AsRef<OsStr>,\n` => ``
//@   rewrite `assert!(!temp_suffix.is_empty());` => `check_nonempty(temp_suffix);` x?
//@   rewrite `temp_path.exists()` => `fs.exists(temp_path)` x?
//@   rewrite `remove_file(` => `fs.remove_file(` x?
//@   rewrite `File::create(` => `fs.create(` x?
//@   rewrite `temp_file.sync_all()` => `fs.sync_all(&temp_file)` x?
//@   rewrite `rename(` => `fs.rename(` x?
//@   after `writer(&mut temp_file)?;`:
//@+    fs.stage = Ghost(next(fs.stage@, 3)); // ghost event: the caller's writer returned Ok
//@   requires:
//@+    old(fs).orig@ == sp_pid(path), old(fs).stage@ == 0,
//@+    old(fs).tmp@ == sp_suffixed(sp_pid(path), sp_os_str_pid(temp_suffix)),
//@+    forall|f: &mut File| writer.requires((f,)),
//@   ensures:
//@+    // on every exit the steps taken so far are in order and nothing but the final rename touched the original path
//@+    final(fs).stage@ != 99,
//@+    r.is_ok() ==> final(fs).stage@ == 5,
//@ end
//@ canary save_via_temp_file: r.is_err()
