//@ crate: grin_core
//@ target: core/src/core/transaction.rs
//@ assume: commitments range over 8 distinct values (33-byte commitments differing in their last byte): enough to realise every equality/order pattern among <= 6 elements
//@ assume: bounded stand-in: <= 3 inputs and <= 3 outputs; the unbounded statement (any slice length) is not proved
//@ harness c12_cut_through_exact kind=bounded tier=thorough fns=transaction::cut_through bound=<=3_inputs,_<=3_outputs,_8_commitment_values
//@ harness c12_cut_through_exact_2x2 kind=bounded tier=quick fns=transaction::cut_through bound=<=2_inputs,_<=2_outputs,_4_commitment_values
use util::secp::pedersen::Commitment;

#[derive(Clone, Copy, PartialEq, Eq, PartialOrd, Ord, Debug)]
struct KC(Commitment);
impl AsRef<Commitment> for KC {
	fn as_ref(&self) -> &Commitment {
		&self.0
	}
}
fn kc(x: u8) -> KC {
	let mut b = [0u8; 33];
	b[32] = x;
	KC(Commitment(b))
}
fn val(k: &KC) -> u8 {
	(k.0).0[32]
}
fn count(xs: &[KC], v: u8) -> usize {
	let mut n = 0;
	let mut i = 0;
	while i < xs.len() {
		if val(&xs[i]) == v {
			n += 1;
		}
		i += 1;
	}
	n
}
fn sorted_strict(xs: &[KC]) -> bool {
	let mut i = 1;
	while i < xs.len() {
		if !(val(&xs[i - 1]) < val(&xs[i])) {
			return false;
		}
		i += 1;
	}
	true
}
fn sorted(xs: &[KC]) -> bool {
	let mut i = 1;
	while i < xs.len() {
		if !(val(&xs[i - 1]) <= val(&xs[i])) {
			return false;
		}
		i += 1;
	}
	true
}

/// cut_through removes EXACTLY the matched spend pairs: per commitment value v with cin copies
/// among the inputs and cout among the outputs, min(cin, cout) pairs are cut and the rest stays;
/// the call fails iff some value would remain more than once on either side.
#[kani::proof]
#[kani::unwind(36)]
fn c12_cut_through_exact() {
	let iv: [u8; 3] = kani::any();
	let ov: [u8; 3] = kani::any();
	let ni: usize = kani::any();
	let no: usize = kani::any();
	kani::assume(ni <= 3 && no <= 3);
	kani::assume(iv[0] < 8 && iv[1] < 8 && iv[2] < 8 && ov[0] < 8 && ov[1] < 8 && ov[2] < 8);
	let mut ins = [kc(iv[0]), kc(iv[1]), kc(iv[2])];
	let mut outs = [kc(ov[0]), kc(ov[1]), kc(ov[2])];
	let ins0 = ins;
	let outs0 = outs;
	let res = cut_through(&mut ins[..ni], &mut outs[..no]);
	let mut expect_ok = true;
	let mut v: u8 = 0;
	while v < 8 {
		let cin = count(&ins0[..ni], v);
		let cout = count(&outs0[..no], v);
		let cut = if cin < cout { cin } else { cout };
		if cin - cut > 1 || cout - cut > 1 {
			expect_ok = false;
		}
		v += 1;
	}
	match res {
		Ok((i, o, ic, oc)) => {
			assert!(expect_ok, "C12: cut_through must fail when a duplicate remains");
			assert!(ic.len() == oc.len());
			assert!(sorted_strict(i) && sorted_strict(o) && sorted(ic) && sorted(oc));
			let mut v: u8 = 0;
			while v < 8 {
				let cin = count(&ins0[..ni], v);
				let cout = count(&outs0[..no], v);
				let cut = if cin < cout { cin } else { cout };
				assert!(count(ic, v) == cut && count(oc, v) == cut, "C12: exactly the matched pairs are cut");
				assert!(count(i, v) == cin - cut, "C12: unmatched inputs are all kept");
				assert!(count(o, v) == cout - cut, "C12: unmatched outputs are all kept");
				v += 1;
			}
		}
		Err(_) => assert!(!expect_ok, "C12: cut_through of a duplicate-free remainder must succeed"),
	}
}

/// the same contract on the smaller domain used by the quick tier
#[kani::proof]
#[kani::unwind(36)]
fn c12_cut_through_exact_2x2() {
	let iv: [u8; 2] = kani::any();
	let ov: [u8; 2] = kani::any();
	let ni: usize = kani::any();
	let no: usize = kani::any();
	kani::assume(ni <= 2 && no <= 2);
	kani::assume(iv[0] < 4 && iv[1] < 4 && ov[0] < 4 && ov[1] < 4);
	let mut ins = [kc(iv[0]), kc(iv[1])];
	let mut outs = [kc(ov[0]), kc(ov[1])];
	let ins0 = ins;
	let outs0 = outs;
	let res = cut_through(&mut ins[..ni], &mut outs[..no]);
	let mut expect_ok = true;
	let mut v: u8 = 0;
	while v < 4 {
		let cin = count(&ins0[..ni], v);
		let cout = count(&outs0[..no], v);
		let cut = if cin < cout { cin } else { cout };
		if cin - cut > 1 || cout - cut > 1 {
			expect_ok = false;
		}
		v += 1;
	}
	match res {
		Ok((i, o, ic, oc)) => {
			assert!(expect_ok, "C12: cut_through must fail when a duplicate remains");
			assert!(ic.len() == oc.len());
			assert!(sorted_strict(i) && sorted_strict(o) && sorted(ic) && sorted(oc));
			let mut v: u8 = 0;
			while v < 4 {
				let cin = count(&ins0[..ni], v);
				let cout = count(&outs0[..no], v);
				let cut = if cin < cout { cin } else { cout };
				assert!(count(ic, v) == cut && count(oc, v) == cut, "C12: exactly the matched pairs are cut");
				assert!(count(i, v) == cin - cut, "C12: unmatched inputs are all kept");
				assert!(count(o, v) == cout - cut, "C12: unmatched outputs are all kept");
				v += 1;
			}
		}
		Err(_) => assert!(!expect_ok, "C12: cut_through of a duplicate-free remainder must succeed"),
	}
}
