"""Verus engine: rebuild a single-file Verus crate on every run from (a) the unit's hand-written
prelude (spec functions, lemmas, assumed external contracts -- the trusted text) and (b) the
*text of the real functions* copied from /repo's working tree, with contract clauses spliced
in.  The complete list of transformations applied to copied text is T1..T6 of DESIGN.md 2.2;
every one is driven by an explicit directive in the unit file, so the unit file documents
exactly what differs between the verified text and the code that runs.

Unit file format (units/<prop>/<unit>.verus.rs): ordinary Verus source (inside verus!{}),
with directives:

  //@ assume: <text>                    recorded in evidence (trusted base)
  //@ assumed_items: N                  declared number of external_body / assume_specification /
                                        assume( / admit( occurrences in the generated file
  //@ fns: a,b,c                        names reported as "functions under contract"
  //@ extract <repo path> :: <anchor>   replaced by the transformed text of the real item
  //@   requires: / ensures: / decreases: / recommends:     followed by //@+ continuation lines
  //@   result: NAME                    name of the result binder (default r)
  //@   loop N:                         clauses inserted after the N-th loop header (1-based); `loop N?:` = optional (dropped if absent)
  //@   at_start:                       proof text inserted right after the body's opening brace
  //@   before `ANCHOR`:                proof text inserted before the unique occurrence of ANCHOR
  //@                                   (`*ANCHOR` = every occurrence, `#K:ANCHOR` = the K-th occurrence)
  //@   after `ANCHOR`:                 ... after the end of the line containing ANCHOR
  //@   rewrite `OLD` => `NEW` [xK]     literal T6 rewrite, must match exactly K (default 1) times
  //@   strip_logs                      T3
  //@   attr: TEXT                      attribute line put in front of the item
  //@   open / closed / verbatim        spec-visibility helpers: verbatim = copy item unchanged
  //@ end
  //@ canary <fn>: <clause>             extra (false) ensures clause; the canary file must FAIL
  //@ applies_if: <path> :: <anchor> :: `TEXT`   shape-specific unit: skipped unless the item contains TEXT
  //@ applies_unless: <path> :: <anchor> :: `TEXT`   shape-specific unit: skipped if the item contains TEXT
"""
import json
import os
import re

from common import VERIF, Unit, log, new_scratch, run, sha256_text, REPO
from rsrc import LostAnchor, Source, mask, match_brace

HEADER = """// GENERATED on every run by /verif/lib/verus_engine.py from /repo's working tree. Do not edit.
#![allow(unused_imports, unused_variables, unused_mut, dead_code, unused_parens, non_snake_case, unused_assignments)]
use vstd::prelude::*;
verus! {
"""
FOOTER = "\n} // verus!\nfn main() {}\n"

REFUTATION_PATTERNS = [
    "postcondition not satisfied", "precondition not satisfied", "assertion failed",
    "invariant not satisfied", "possible arithmetic underflow/overflow", "possible division by zero",
    "decreases not satisfied", "possible bit shift underflow/overflow", "recommendation not met",
    "loop invariant", "could not prove termination", "possible truncation", "unreachable",
    "failed this postcondition", "assertion not satisfied", "index out of bounds",
    "may be out of bounds", "not satisfied", "unable to prove post-condition of closure",
    "unable to prove pre-condition of closure",
]
RESOURCE_PATTERNS = ["rlimit", "resource limit", "timed out", "timeout", "out of memory"]

_LOG_MACROS = ("debug!", "trace!", "error!", "info!", "warn!")


class Extract:
    def __init__(self, path, anchor):
        self.path = path
        self.anchor = anchor
        self.result = "r"
        self.clauses = {}  # requires/ensures/decreases/recommends -> text
        self.loops = {}
        self.optional_loops = set()  # n -> text
        self.at_start = []  # lines inserted right after the opening brace of the body
        self.before = []  # (anchor, text)
        self.after = []
        self.rewrites = []  # (old, new, count)
        self.strip_logs = False
        self.attrs = []
        self.verbatim = False
        self.pub_fields = False
        self.optional = False
        self.strip_attrs = False
        self.sig_rewrites = []
        self.lift_expr = False  # the lifted closure is expression-bodied (`eclosure`)
        self.lift = None  # (n, signature): this extract is the body of the n-th closure of the anchor item, lifted to a named fn
        self.closure_repl = []  # (n, text): the n-th closure expression of the item is replaced by text (its body is verified by a lifted extract)


def _parse_unit(text, base_dir=None):
    """Split unit text into segments: ('text', str) | ('extract', Extract).  Also returns meta.
    `//@ include: <path relative to the unit>` splices another unit (its prelude and extracted
    functions are generated and verified again here, so callers see proved contracts, not copies)."""
    meta = {"assume": [], "assumed_items": None, "fns": [], "canaries": [], "imports": []}
    segs = []
    lines = text.split("\n")
    i = 0
    buf = []
    while i < len(lines):
        ln = lines[i]
        m = re.match(r"\s*//@ extract(\??) (\S+) :: (.+?)\s*$", ln)
        if m:
            if buf:
                segs.append(("text", "\n".join(buf)))
                buf = []
            ex = Extract(m.group(2), m.group(3))
            ex.optional = bool(m.group(1))  # `extract?`: skipped silently when the item no longer exists
            i += 1
            cur = None  # (kind, key)
            while i < len(lines) and not re.match(r"\s*//@ end\s*$", lines[i]):
                l2 = lines[i]
                mc = re.match(r"\s*//@\+ ?(.*)$", l2)
                if mc and cur:
                    kind, key = cur
                    if kind == "clause":
                        ex.clauses[key] = ex.clauses.get(key, "") + mc.group(1) + "\n"
                    elif kind == "loop":
                        ex.loops[key] = ex.loops.get(key, "") + mc.group(1) + "\n"
                    elif kind == "at_start":
                        ex.at_start.append(mc.group(1))
                    elif kind == "before":
                        ex.before[-1][1].append(mc.group(1))
                    elif kind == "after":
                        ex.after[-1][1].append(mc.group(1))
                    i += 1
                    continue
                md = re.match(r"\s*//@\s+(\w+[*?]?)(.*)$", l2)
                if not md:
                    if l2.strip() == "" or l2.strip().startswith("//"):
                        i += 1
                        continue
                    raise ValueError("bad line inside extract block: %r" % l2)
                k, rest = md.group(1), md.group(2).strip()
                if k in ("requires", "ensures", "decreases", "recommends"):
                    cur = ("clause", k)
                    ex.clauses.setdefault(k, "")
                elif k == "result":
                    ex.result = rest.lstrip(":").strip()
                    cur = None
                elif k == "loop":
                    spec = rest.rstrip(":").strip()
                    n = int(spec.rstrip("?"))
                    if spec.endswith("?"):  # `loop N?:` -- the contract is dropped (not a lost anchor) when the function has fewer loops
                        ex.optional_loops.add(n)
                    cur = ("loop", n)
                elif k == "at_start":
                    cur = ("at_start", None)
                elif k in ("before", "after", "before*", "after*", "before?", "after?"):
                    ma = re.match(r"`(.*)`\s*:?\s*$", rest)
                    if not ma:
                        raise ValueError("bad %s directive: %r" % (k, l2))
                    anc = ma.group(1).replace("\\n", "\n").replace("\\t", "\t")
                    if k.endswith("*"):
                        anc = "*" + anc  # leading `*`: splice at EVERY occurrence (at least one)
                    if k.endswith("?"):
                        # leading `?`: an EXIT ASSERTION that only exists while this exit is textually there; when the
                        # anchor is gone the splice is dropped and the function's postconditions alone decide the new text
                        anc = "?" + anc
                    (ex.before if k.startswith("before") else ex.after).append((anc, []))
                    cur = (k.rstrip("*?"), None)
                elif k == "rewrite" or k == "sigrewrite":
                    ma = re.match(r"`(.*)` => `(.*)`(?:\s+x(\d+|\?))?\s*$", rest)
                    if not ma:
                        raise ValueError("bad rewrite directive: %r" % l2)
                    unesc = lambda t: t.replace("\\n", "\n").replace("\\t", "\t")
                    (ex.rewrites if k == "rewrite" else ex.sig_rewrites).append(
                        (unesc(ma.group(1)), unesc(ma.group(2)), -1 if ma.group(3) == "?" else int(ma.group(3) or 1)))
                    cur = None
                elif k in ("closure", "eclosure"):
                    # closure N: N-th block-bodied closure `|a| { .. }`; eclosure N: N-th expression-bodied closure `|a| expr`
                    ma = re.match(r"(\d+)\s+(lifted_as|replaced_by)\s+`(.*)`\s*$", rest)
                    if not ma:
                        raise ValueError("bad closure directive: %r" % l2)
                    if ma.group(2) == "lifted_as":
                        ex.lift = (int(ma.group(1)), ma.group(3))
                        ex.lift_expr = (k == "eclosure")
                    else:
                        ex.closure_repl.append((int(ma.group(1)), ma.group(3), k == "eclosure"))
                    cur = None
                elif k == "block":
                    # block `ANCHOR` lifted_ok_as `sig`: the brace block that follows ANCHOR (e.g. `let x = `) becomes the
                    # function `sig { let __blk = <block text>; Ok(__blk) }`, so `?` / `return Err(..)` inside keep their meaning
                    ma = re.match(r"`(.*)`\s+(lifted_ok_as|replaced_by)\s+`(.*)`\s*$", rest)
                    if not ma:
                        raise ValueError("bad block directive: %r" % l2)
                    if ma.group(2) == "lifted_ok_as":
                        ex.lift_block = (ma.group(1), ma.group(3))
                    else:  # the block is verified separately (lifted in another extract); here it is replaced by a call
                        ex.block_repl = (ma.group(1), ma.group(3))
                    cur = None
                elif k == "tail":
                    # tail `ANCHOR` lifted_as `sig`: the statements of the function from ANCHOR (the start of a statement at the
                    # top level of the body) to the function's end become the body of the function `sig`
                    ma = re.match(r"`(.*)`\s+lifted_as\s+`(.*)`\s*$", rest)
                    if not ma:
                        raise ValueError("bad tail directive: %r" % l2)
                    ex.lift_tail = (ma.group(1), ma.group(2))
                    cur = None
                elif k == "strip_logs":
                    ex.strip_logs = True
                    cur = None
                elif k == "expand_macro":
                    # expand_macro NAME: every `NAME!(arg)` of the item is replaced by the body of the single-arm
                    # `macro_rules! NAME { ($x:expr) => { BODY }; }` found in the item's own source file, with $x := arg
                    ex.expand_macros = getattr(ex, "expand_macros", []) + [rest.strip()]
                    cur = None
                elif k == "expand_ser_macros":
                    # mechanical expansion of ser_multiread!/ser_multiwrite! (core/src/macros.rs), whatever their arguments
                    ex.expand_ser_macros = True
                    cur = None
                elif k == "format_as":
                    # format_as `expr`: every format!(..) in the item (message payloads of error values) becomes expr
                    ma = re.match(r"`(.*)`\s*$", rest)
                    if not ma:
                        raise ValueError("bad format_as directive: %r" % l2)
                    ex.format_as = ma.group(1)
                    cur = None
                elif k == "attr":
                    ex.attrs.append(rest.lstrip(":").strip())
                    cur = None
                elif k == "verbatim":
                    ex.verbatim = True
                    cur = None
                elif k == "pub_fields":
                    ex.pub_fields = True
                    cur = None
                elif k == "strip_attrs":
                    ex.strip_attrs = True
                    cur = None
                else:
                    raise ValueError("unknown extract directive %r" % l2)
                i += 1
            i += 1  # skip end
            segs.append(("extract", ex))
            continue
        m = re.match(r"\s*//@ include:\s*(\S+)\s*$", ln)
        if m:
            if buf:
                segs.append(("text", "\n".join(buf)))
                buf = []
            ipath = os.path.normpath(os.path.join(base_dir or ".", m.group(1)))
            imeta, isegs = _parse_unit(open(ipath).read(), os.path.dirname(ipath))
            segs += isegs
            for a in imeta["assume"]:
                if a not in meta["assume"]:
                    meta["assume"].append(a)
            for im in imeta["imports"]:
                if im not in meta["imports"]:
                    meta["imports"].append(im)
            meta["included_assumed_items"] = meta.get("included_assumed_items", 0) + (imeta["assumed_items"] or 0) + imeta.get("included_assumed_items", 0)
            i += 1
            continue
        m = re.match(r"\s*//@ (\w+):\s*(.*)$", ln)
        if m and m.group(1) in ("assume", "assumed_items", "fns", "import"):
            k, v = m.group(1), m.group(2).strip()
            if k == "assume":
                meta["assume"].append(v)
            elif k == "assumed_items":
                meta["assumed_items"] = int(v)
            elif k == "fns":
                meta["fns"] += [x.strip() for x in v.split(",") if x.strip()]
            elif k == "import":
                if v not in meta["imports"]:
                    meta["imports"].append(v)
            i += 1
            continue
        m = re.match(r"\s*//@ canary (\S+?):\s*(.*)$", ln)
        if m:
            meta["canaries"].append((m.group(1), m.group(2)))
            i += 1
            continue
        buf.append(ln)
        i += 1
    if buf:
        segs.append(("text", "\n".join(buf)))
    return meta, segs


def _strip_log_macros(text):
    msk = mask(text)
    out = []
    i = 0
    n = len(text)
    while i < n:
        hit = None
        for mac in _LOG_MACROS:
            if msk.startswith(mac, i) and (i == 0 or not (msk[i - 1].isalnum() or msk[i - 1] == "_")):
                hit = mac
                break
        if hit:
            j = i + len(hit)
            while j < n and msk[j] in " \t\n":
                j += 1
            if j < n and msk[j] == "(":
                depth = 0
                k = j
                while k < n:
                    if msk[k] == "(":
                        depth += 1
                    elif msk[k] == ")":
                        depth -= 1
                        if depth == 0:
                            break
                    k += 1
                k += 1
                while k < n and msk[k] in " \t":
                    k += 1
                if k < n and msk[k] == ";":
                    k += 1
                out.append("/* T3: log macro removed */")
                i = k
                continue
        out.append(text[i])
        i += 1
    return "".join(out)


def _split_top(s):
    """split s at top-level commas (nesting in ([{ respected; s is masked-safe enough for macro argument lists)"""
    parts, depth, cur = [], 0, []
    for ch in s:
        if ch in "([{":
            depth += 1
        elif ch in ")]}":
            depth -= 1
        if ch == "," and depth == 0:
            parts.append("".join(cur).strip())
            cur = []
        else:
            cur.append(ch)
    if "".join(cur).strip():
        parts.append("".join(cur).strip())
    return parts


def _expand_local_macro(text, name, src_text):
    """single-arm macro_rules with one `$v:expr` metavariable, defined in the same file"""
    m = re.search(r"macro_rules!\s*%s\s*\{" % re.escape(name), src_text)
    if not m:
        raise LostAnchor("macro_rules! %s not found in the source file" % name)
    msk = mask(src_text)
    i = m.end() - 1
    j = match_brace(msk, i)
    arm = src_text[i + 1:j]
    am = re.match(r"\s*\(\s*\$(\w+)\s*:\s*expr\s*\)\s*=>\s*\{", arm)
    if not am:
        raise LostAnchor("macro_rules! %s is not a single-arm ($x:expr) macro" % name)
    var = am.group(1)
    amsk = mask(arm)
    bo = am.end() - 1
    bc = match_brace(amsk, bo)
    body = arm[bo + 1:bc].strip()
    out, k, n, cnt = [], 0, len(text), 0
    tm = mask(text)
    call = name + "!"
    while k < n:
        if tm.startswith(call, k) and (k == 0 or not (tm[k - 1].isalnum() or tm[k - 1] == "_")):
            q = k + len(call)
            while q < n and tm[q] in " \t\n":
                q += 1
            if q < n and tm[q] == "(":
                depth, e = 0, q
                while e < n:
                    if tm[e] == "(":
                        depth += 1
                    elif tm[e] == ")":
                        depth -= 1
                        if depth == 0:
                            break
                    e += 1
                arg = text[q + 1:e]
                out.append("(" + body.replace("$" + var, "(" + arg + ")") + ")")
                cnt += 1
                k = e + 1
                continue
        out.append(text[k])
        k += 1
    return "".join(out), cnt


def _expand_ser_macros(text):
    """ser_multiread!(r, a, b(x)) => (r.a()?, r.b(x)?) ; ser_multiwrite!(w, [f, v], [g, u]) => w.f(v)?; w.g(u)?  (macro_rules in
    core/src/macros.rs); returns (text, count)"""
    out, i, n, cnt = [], 0, len(text), 0
    msk = mask(text)
    while i < n:
        hit = None
        for name in ("ser_multiread!", "ser_multiwrite!"):
            if msk.startswith(name, i) and (i == 0 or not (msk[i - 1].isalnum() or msk[i - 1] == "_")):
                hit = name
        if hit:
            j = i + len(hit)
            while j < n and msk[j] in " \t\n":
                j += 1
            if j < n and msk[j] == "(":
                depth, k = 0, j
                while k < n:
                    if msk[k] == "(":
                        depth += 1
                    elif msk[k] == ")":
                        depth -= 1
                        if depth == 0:
                            break
                    k += 1
                args = _split_top(text[j + 1:k])
                rw = args[0]
                if hit == "ser_multiread!":
                    calls = []
                    for a in args[1:]:
                        calls.append("%s.%s?" % (rw, a if a.endswith(")") else a + "()"))
                    out.append("(" + ", ".join(calls) + ")")
                else:
                    calls = []
                    for a in args[1:]:
                        inner = a.strip()
                        assert inner.startswith("[") and inner.endswith("]"), inner
                        fv = _split_top(inner[1:-1])
                        calls.append("%s.%s(%s)?" % (rw, fv[0], ", ".join(fv[1:])))
                    out.append("; ".join(calls))
                cnt += 1
                i = k + 1
                continue
        out.append(text[i])
        i += 1
    return "".join(out), cnt


def _replace_format_macros(text, repl):
    """every `format!( .. )` (an error-message payload) becomes `repl`; returns (text, count)"""
    msk = mask(text)
    out, i, n, cnt = [], 0, len(text), 0
    while i < n:
        if msk.startswith("format!", i) and (i == 0 or not (msk[i - 1].isalnum() or msk[i - 1] == "_")):
            j = i + len("format!")
            while j < n and msk[j] in " \t\n":
                j += 1
            if j < n and msk[j] == "(":
                depth, k = 0, j
                while k < n:
                    if msk[k] == "(":
                        depth += 1
                    elif msk[k] == ")":
                        depth -= 1
                        if depth == 0:
                            break
                    k += 1
                out.append(repl)
                cnt += 1
                i = k + 1
                continue
        out.append(text[i])
        i += 1
    return "".join(out), cnt


def _find_loops(msk_body):
    """indices of `{` opening the body of each while/loop/for in textual order"""
    res = []
    for m in re.finditer(r"\b(while|loop|for)\b", msk_body):
        # skip `for` in `impl X for Y` / HRTB: inside fn bodies not expected
        k = m.end()
        par = 0
        while k < len(msk_body):
            ch = msk_body[k]
            if ch in "([":
                par += 1
            elif ch in ")]":
                par -= 1
            elif ch == "{" and par == 0:
                break
            elif ch == ";" and par == 0:
                k = -1
                break
            k += 1
        if k > 0 and k < len(msk_body):
            res.append(k)
    return res


def _find_closures(text):
    """(start, body_open, body_close) of each block-bodied closure `|args| { .. }` in textual order"""
    msk = mask(text)
    res = []
    for m in re.finditer(r"\|[A-Za-z0-9_,&:() ]*\|\s*\{", msk):
        bo = m.end() - 1
        depth = 0
        k = bo
        while k < len(msk):
            if msk[k] == "{":
                depth += 1
            elif msk[k] == "}":
                depth -= 1
                if depth == 0:
                    break
            k += 1
        res.append((m.start(), bo, k))
    return res


def _find_expr_closures(text):
    """(start, expr_start, expr_end_exclusive) of each expression-bodied closure `|args| expr` that is an
    argument or the right-hand side of `=` (so `a || b` is never taken for one); expr ends at the closing
    bracket of the enclosing call or at a `,` / `;` at its own nesting depth"""
    msk = mask(text)
    res = []
    for m in re.finditer(r"\|[A-Za-z0-9_,&:()<> ]*\|\s*(?!\{)(?=\S)", msk):
        j = m.start() - 1
        while j >= 0 and msk[j] in " \t\n":
            j -= 1
        if j < 0 or msk[j] not in "(,=":
            continue
        k, depth = m.end(), 0
        while k < len(msk):
            c = msk[k]
            if c in "([{":
                depth += 1
            elif c in ")]}":
                if depth == 0:
                    break
                depth -= 1
            elif c in ",;" and depth == 0:
                break
            k += 1
        e = k
        while e > m.end() and text[e - 1] in " \t\n":
            e -= 1
        res.append((m.start(), m.end(), e))
    return res


def _block_after(ex, text, anc):
    """(open, close) offsets of the brace block that directly follows the unique anchor text"""
    if text.count(anc) != 1:
        raise LostAnchor("%s: block anchor %r occurs %d times, expected 1" % (ex.anchor, anc, text.count(anc)))
    msk = mask(text)
    bo = msk.find("{", text.index(anc) + len(anc))
    if bo < 0 or msk[text.index(anc) + len(anc):bo].strip():
        raise LostAnchor("%s: no brace block right after %r" % (ex.anchor, anc))
    depth, k = 0, bo
    while k < len(msk):
        if msk[k] == "{":
            depth += 1
        elif msk[k] == "}":
            depth -= 1
            if depth == 0:
                break
        k += 1
    return bo, k


def transform(ex, src):
    """Apply T1..T6 to the item named by ex.anchor in Source src.  Returns (text, record)."""
    it = src.find(ex.anchor)
    orig = src.text(it)
    record = {"path": ex.path, "item": ex.anchor,
              "lines": [src.line_of(it.start), src.line_of(it.body_close)],
              "sha256": sha256_text(orig), "transformations": []}
    text = orig
    if getattr(ex, "lift_tail", None):
        anc, lsig = ex.lift_tail
        if text.count(anc) != 1:
            raise LostAnchor("%s: tail anchor %r occurs %d times, expected 1" % (ex.anchor, anc, text.count(anc)))
        at = text.index(anc)
        record["lines"] = [src.line_of(it.start + at), src.line_of(it.body_close)]
        record["sha256"] = sha256_text(text[at:])
        record["transformations"].append("T7 the function's statements from %r to its end lifted to `%s { .. }`; free variables become parameters" % (anc, lsig))
        text = lsig + " {\n\t\t" + text[at:]
    if getattr(ex, "block_repl", None):
        anc, rep = ex.block_repl
        bo, k = _block_after(ex, text, anc)
        record["transformations"].append("T7 block after %r (verified separately as a lifted function) replaced by %r" % (anc, rep))
        text = text[:bo] + rep + text[k + 1:]
    if getattr(ex, "lift_block", None):
        anc, lsig = ex.lift_block
        bo, k = _block_after(ex, text, anc)
        record["lines"] = [src.line_of(it.start + bo), src.line_of(it.start + k)]
        record["sha256"] = sha256_text(text[bo:k + 1])
        record["transformations"].append("T7 block after %r lifted to `%s { let __blk = <block>; Ok(__blk) }`; free variables become parameters" % (anc, lsig))
        text = lsig + " {\n\t\tlet __blk = " + text[bo:k + 1] + ";\n\t\tOk(__blk)\n\t}"
    elif ex.lift:
        # T7: the n-th closure of the item becomes a named function with the given signature; its body text is unchanged
        n, lsig = ex.lift
        cl = _find_expr_closures(text) if ex.lift_expr else _find_closures(text)
        if n < 1 or n > len(cl):
            raise LostAnchor("%s: closure %d not found (%d closures)" % (ex.anchor, n, len(cl)))
        st, bo, bc = cl[n - 1]
        if ex.lift_expr:  # (start, expr start, expr end exclusive): the body is the expression, wrapped in braces
            record["lines"] = [src.line_of(it.start + st), src.line_of(it.start + bc)]
            record["sha256"] = sha256_text(text[st:bc])
            record["transformations"].append("T7 expression closure %d (%s) lifted to `%s { <expr> }`; captured variables become parameters" % (n, text[st:bo].strip(), lsig))
            text = lsig + " {\n\t\t" + text[bo:bc] + "\n\t}"
        else:
            record["lines"] = [src.line_of(it.start + st), src.line_of(it.start + bc)]
            record["sha256"] = sha256_text(text[st:bc + 1])
            record["transformations"].append("T7 closure %d (%s) lifted to `%s`; captured variables become parameters" % (n, text[st:bo].strip(), lsig))
            text = lsig + " " + text[bo:bc + 1]
    elif ex.closure_repl:
        cl_b, cl_e = _find_closures(text), _find_expr_closures(text)
        spans = []
        for n, rep, is_expr in ex.closure_repl:
            cl = cl_e if is_expr else cl_b
            if n < 1 or n > len(cl):
                raise LostAnchor("%s: closure %d not found (%d closures)" % (ex.anchor, n, len(cl)))
            st, bo, bc = cl[n - 1]
            spans.append((st, bc - 1 if is_expr else bc, n, rep))
        for st, bc, n, rep in sorted(spans, key=lambda x: -x[0]):
            # `{name?fallback}`: a captured variable the enclosing function may no longer declare (a change
            # that stops using it); the fallback keeps the text well-formed so the lifted closure's contract
            # is still decided instead of ending in a front-end error
            def _cap(mo):
                nm, fb = mo.group(1), mo.group(2)
                declared = re.search(r"\blet\s+(mut\s+)?%s\b" % re.escape(nm), text[:st]) or \
                    re.search(r"[(,]\s*(mut\s+)?%s\s*:" % re.escape(nm), text[:st])
                return nm if declared else fb
            rep2 = re.sub(r"\{(\w+)\?([^{}]*)\}", _cap, rep)
            text = text[:st] + rep2 + text[bc + 1:]
            record["transformations"].append("T7 closure %d replaced by %r (its body is verified separately as a lifted function)" % (n, rep2))
    if ex.verbatim or it.kind != "fn":
        text = re.sub(r"\bpub\s*\(\s*crate\s*\)", "pub", text)
        for old, new, cnt in ex.rewrites:
            if text.count(old) != cnt:
                raise LostAnchor("%s: rewrite anchor %r occurs %d times, expected %d" %
                                 (ex.anchor, old, text.count(old), cnt))
            text = text.replace(old, new)
            record["transformations"].append("T6 %r => %r x%d" % (old, new, cnt))
        if ex.strip_attrs:
            # drop attribute lines (serde etc.) and doc comments inside a data type definition
            text = "\n".join(l for l in text.split("\n") if not l.strip().startswith("#[") and not l.strip().startswith("///"))
            record["transformations"].append("T5 attribute/doc lines inside the item removed")
        if ex.pub_fields:
            text = re.sub(r"(?m)^(\s+)(?!pub\b)([a-z_][A-Za-z0-9_]*\s*:)", r"\1pub \2", text)
            record["transformations"].append("T5 all fields made pub")
        return "".join(a + "\n" for a in ex.attrs) + text, record
    if ex.strip_logs:
        t2 = _strip_log_macros(text)
        if t2 != text:
            record["transformations"].append("T3 log macros removed: %d" % t2.count("/* T3:"))
        text = t2
    for mname in getattr(ex, "expand_macros", []):
        text, nm = _expand_local_macro(text, mname, src.src)
        if ex.strip_logs:
            text = _strip_log_macros(text)
        record["transformations"].append("T6 %s!(..) expanded per its macro_rules definition in the same file: %d" % (mname, nm))
    if getattr(ex, "expand_ser_macros", False):
        text, nm = _expand_ser_macros(text)
        if nm:
            record["transformations"].append("T6 ser_multiread!/ser_multiwrite! expanded per their macro_rules definition: %d" % nm)
    if getattr(ex, "format_as", None):
        text, nf = _replace_format_macros(text, ex.format_as)
        if nf:
            record["transformations"].append("T3 format!(..) message payloads replaced by %r: %d" % (ex.format_as, nf))
    for old, new, cnt in ex.rewrites:
        if cnt == -1:  # optional rewrite (`x?`): applied wherever the pattern occurs, possibly nowhere
            if old in text:
                record["transformations"].append("T6 %r => %r x%d (optional)" % (old, new, text.count(old)))
                text = text.replace(old, new)
            continue
        have = text.count(old)
        if have != cnt:
            # The adaptation applies wherever its pattern occurs.  A pattern that is gone (or occurs more
            # often) is NOT a lost anchor: the function text is still the real one, Verus decides it as it
            # stands -- a removed check then fails its postcondition instead of hiding behind exit 2.
            record["transformations"].append("T6 %r => %r x%d (unit expected x%d)" % (old, new, have, cnt))
            record.setdefault("rewrite_drift", []).append("%r: expected %d, found %d" % (old, cnt, have))
            text = text.replace(old, new)
            continue
        text = text.replace(old, new)
        record["transformations"].append("T6 %r => %r x%d" % (old, new, cnt))
    msk = mask(text)
    # locate body open: first `{` at paren depth 0 after `fn`
    k = msk.index("fn")
    par = 0
    while True:
        ch = msk[k]
        if ch in "([":
            par += 1
        elif ch in ")]":
            par -= 1
        elif ch == "{" and par == 0:
            break
        k += 1
    body_open = k
    sig = text[:body_open]
    body = text[body_open:]
    sig = re.sub(r"\bpub\s*\(\s*crate\s*\)", "pub", sig)
    for old, new, cnt in ex.sig_rewrites:
        if cnt == -1:  # optional (`x?`): a parameter the function may no longer take
            if old in sig:
                sig = sig.replace(old, new)
                record["transformations"].append("T5 signature %r => %r (optional)" % (old, new))
            continue
        if sig.count(old) != cnt:
            raise LostAnchor("%s: sig rewrite anchor %r occurs %d times" % (ex.anchor, old, sig.count(old)))
        sig = sig.replace(old, new)
        record["transformations"].append("T5 signature %r => %r" % (old, new))
    # T1: name the result
    smsk = mask(sig)
    par = 0
    arrow = -1
    seen_params = False
    for idx in range(len(smsk) - 1):
        ch = smsk[idx]
        if ch in "([<":
            par += 1 if ch != "<" else 0
        elif ch in ")]":
            par -= 1
            if par == 0:
                seen_params = True
        if par == 0 and smsk[idx:idx + 2] == "->":
            arrow = idx
            if seen_params:
                break  # the return arrow is the first one after the parameter list (later ones belong to `where` bounds)
    where = re.search(r"\bwhere\b", smsk[arrow:] if arrow >= 0 else smsk)
    if arrow >= 0:
        wpos = arrow + where.start() if where else len(sig)
        rty = sig[arrow + 2:wpos].strip()
        sig = sig[:arrow] + "-> (%s: %s)" % (ex.result, rty) + ("\n" + sig[wpos:] if where else "\n")
        record["transformations"].append("T1 result named %s" % ex.result)
    clauses = ""
    for kname in ("requires", "recommends", "ensures", "decreases"):
        if ex.clauses.get(kname, "").strip():
            clauses += "    %s\n%s" % (kname, "".join("        " + l + "\n" for l in ex.clauses[kname].rstrip("\n").split("\n")))
    # T2 loops, T4 proof insertion: operate on body
    bmsk = mask(body)
    inserts = []
    if ex.loops:
        lp = _find_loops(bmsk)
        for n, txt in ex.loops.items():
            if n > len(lp) and n in ex.optional_loops:
                record["transformations"].append("T2 optional loop contract %d dropped: the function has %d loops" % (n, len(lp)))
                continue
            if n < 1 or n > len(lp):
                raise LostAnchor("%s: loop %d not found (%d loops)" % (ex.anchor, n, len(lp)))
            inserts.append((lp[n - 1], "\n" + "".join("        " + l + "\n" for l in txt.rstrip("\n").split("\n")) + "    "))
        record["transformations"].append("T2 loop contracts on loops %s" % sorted(ex.loops))
    def _occurrences(anc):
        if anc.startswith("?"):
            a = anc[1:]
            if body.count(a) != 1:
                record.setdefault("dropped_optional_splices", []).append(a)
                return []
            return [body.index(a)]
        if anc.startswith("*"):
            a = anc[1:]
            if body.count(a) < 1:
                raise LostAnchor("%s: proof anchor %r occurs 0 times" % (ex.anchor, a))
            res, start = [], 0
            while True:
                k = body.find(a, start)
                if k < 0:
                    break
                res.append(k)
                start = k + len(a)
            return res
        mo = re.match(r"#(\d+):", anc)
        if mo:  # `#K:TEXT` = the K-th occurrence (1-based) of TEXT
            a, k, start, pos = anc[mo.end():], int(mo.group(1)), 0, -1
            for _ in range(k):
                pos = body.find(a, start)
                if pos < 0:
                    raise LostAnchor("%s: proof anchor %r has fewer than %d occurrences" % (ex.anchor, a, k))
                start = pos + len(a)
            return [pos]
        if body.count(anc) != 1:
            raise LostAnchor("%s: proof anchor %r occurs %d times" % (ex.anchor, anc, body.count(anc)))
        return [body.index(anc)]
    for anc, lines in ex.before:
        for idx in _occurrences(anc):
            ls = body.rfind("\n", 0, idx) + 1
            inserts.append((ls, "".join("        " + l + "\n" for l in lines)))
    for anc, lines in ex.after:
        for idx in _occurrences(anc):
            le = body.find("\n", idx)
            le = len(body) if le < 0 else le + 1
            inserts.append((le, "".join("        " + l + "\n" for l in lines)))
    if ex.at_start:
        inserts.append((1, "\n" + "".join("        " + l + "\n" for l in ex.at_start)))
        record["transformations"].append("T4 proof block at function start")
    if ex.before or ex.after:
        record["transformations"].append("T4 proof blocks: %d" % (len(ex.before) + len(ex.after)))
    for idx, txt in sorted(inserts, key=lambda x: -x[0]):
        body = body[:idx] + txt + body[idx:]
    out = "".join(a + "\n" for a in ex.attrs) + sig.rstrip() + "\n" + clauses + body
    return out, record


ASSUMPTION_RE = re.compile(r"external_body|assume_specification|\bassume\s*\(|\badmit\s*\(|external_fn_specification|external_type_specification|#\[verifier::external\]")


def generate(unit_path, repo=REPO, canary=None, auto_consts=()):
    text = open(unit_path).read()
    meta, segs = _parse_unit(text, os.path.dirname(os.path.realpath(unit_path)))
    if meta["assumed_items"] is not None:
        meta["assumed_items"] += meta.get("included_assumed_items", 0)
    out = [HEADER]
    for imp in meta["imports"]:
        out.append(imp + "\n")
    records = []
    linemap = []  # (start_line, end_line, label)
    cur_line = HEADER.count("\n") + len(meta["imports"]) + 1
    sources = {}
    for kind, seg in segs:
        if kind == "text":
            t = seg + "\n"
        else:
            ex = seg
            p = os.path.join(repo, ex.path)
            if not os.path.exists(p):
                raise LostAnchor("source file %s missing" % ex.path)
            if p not in sources:
                sources[p] = Source(p)
            _lname = re.search(r"\bfn\s+(\w+)", ex.lift[1]).group(1) if ex.lift and re.search(r"\bfn\s+(\w+)", ex.lift[1]) else None
            if canary and ((not ex.lift and canary[0] == ex.anchor.split("::")[-1].replace("fn ", "").strip())
                           or (ex.lift and canary[0] == _lname)):
                ex.clauses["ensures"] = ex.clauses.get("ensures", "") + canary[1].rstrip(",") + ",\n"
            if ex.optional:
                try:
                    sources[p].find(ex.anchor)
                except LostAnchor:
                    continue
            try:
                t, rec = transform(ex, sources[p])
            except LostAnchor:
                # `extract?` of a lifted closure: the closure is gone (the enclosing function was rewritten);
                # nothing to verify for it -- the enclosing function's own extract decides the new text
                if ex.optional and ex.lift:
                    continue
                raise
            t = ("// ---- extracted from %s :: %s (lines %d-%d, sha256 %s)\n" %
                 (ex.path, ex.anchor, rec["lines"][0], rec["lines"][1], rec["sha256"][:16])) + t + "\n"
            records.append(rec)
            linemap.append((cur_line, cur_line + t.count("\n"), ex.anchor))
        out.append(t)
        cur_line += t.count("\n")
    # constants of the unit's own source files that the extracted text refers to but the unit does not
    # provide (a change introduced a named constant): extracted verbatim, on demand (see run_unit)
    for cname in auto_consts:
        for p, src in sources.items():
            try:
                it = src.find("const " + cname)
            except LostAnchor:
                continue
            t = "// ---- auto-extracted constant from %s (line %d)\n%s\n" % (os.path.relpath(p, repo), src.line_of(it.start), re.sub(r"\bpub\s*\(\s*crate\s*\)", "pub", src.text(it)))
            if not t.rstrip().endswith(";"):
                t = t.rstrip() + ";\n"
            out.append(t)
            records.append({"path": os.path.relpath(p, repo), "item": "const " + cname, "lines": [src.line_of(it.start), src.line_of(it.body_close)],
                            "sha256": sha256_text(src.text(it)), "transformations": ["auto-extracted verbatim because the extracted text refers to it"]})
            break
    out.append(FOOTER)
    gen = "".join(out)
    return gen, meta, records, linemap


def parse_errors(stderr, linemap, gen_lines):
    """Return list of {msg, line, fn, clause, kind: refutation|resource|other}"""
    errs = []
    blocks = re.split(r"\n(?=error)", "\n" + stderr)
    for b in blocks:
        m = re.match(r"error(\[E\d+\])?: (.*)", b.strip())
        if not m:
            continue
        msg = m.group(2).strip()
        if msg.startswith("aborting due to") or msg.startswith("could not compile"):
            continue
        ml = re.findall(r"--> [^:\n]+:(\d+):(\d+)", b)
        line = int(ml[0][0]) if ml else 0
        fn = "?"
        lines_all = [int(x[0]) for x in ml]
        # the function is the one containing the LAST span of the primary error that lies inside an
        # extracted item: Verus points first at the violated clause (possibly a callee's) and then at
        # the place in the body being verified
        body_lines = [int(x[0]) for x in re.findall(r"--> [^:\n]+:(\d+):(\d+)", b.split("\nnote:")[0])]
        for l in reversed(body_lines):
            hit = [label for a, z, label in linemap if a <= l <= z]
            if hit:
                fn = hit[0]
                break
        if fn == "?":
            for a, z, label in linemap:
                if any(a <= l <= z for l in lines_all):
                    fn = label
                    break
        if fn == "?" and line:
            # search backwards in generated text for the enclosing fn
            for k in range(min(line, len(gen_lines)) - 1, -1, -1):
                mm = re.match(r"\s*(pub\s+)?(open\s+|closed\s+)?(spec|proof|exec)?\s*fn\s+(\w+)", gen_lines[k])
                if mm:
                    fn = "prelude::" + mm.group(4)
                    break
        clause = gen_lines[line - 1].strip() if 0 < line <= len(gen_lines) else ""
        low = msg.lower()
        if m.group(1):
            kind = "other"
        elif any(p in low for p in RESOURCE_PATTERNS):
            kind = "resource"
        elif any(p in low for p in REFUTATION_PATTERNS):
            kind = "refutation"
        else:
            kind = "other"
        errs.append({"msg": msg, "line": line, "fn": fn, "clause": clause, "kind": kind,
                     "block": b.strip()[:3000]})
    return errs


def run_unit(prop, unit_path, tier, seed=0, repo=REPO, _auto_consts=()):
    name = os.path.basename(unit_path).replace(".verus.rs", "")
    u = Unit("%s/%s[verus]" % (prop, name), "verus", "proved", [], None)
    failures = []
    undecided = []
    auto_consts = list(_auto_consts)
    # `//@ applies_if: <repo path> :: <anchor> :: `TEXT``: a SHAPE-SPECIFIC unit.  It is generated only while the named item
    # textually contains TEXT (e.g. the call that a repaired defect used to make); otherwise it is recorded as skipped with zero
    # obligations.  Used to keep the unit that REPORTED a since-repaired finding alive, so that a revert of the repair is
    # reported as a violation again instead of ending undecided in the unit written for the repaired shape.
    for ml in re.finditer(r"^\s*//@ applies_(if|unless):\s*(\S+) :: (.+?) :: `(.*)`\s*$", open(unit_path).read(), re.M):
        # applies_unless: the same, negated -- the unit is generated only while TEXT does NOT occur (the text a repair introduces)
        want = ml.group(1) == "if"
        try:
            src = Source(os.path.join(repo, ml.group(2)))
            it = src.find(ml.group(3).strip())
            present = ml.group(4) in src.text(it)
        except (LostAnchor, OSError):
            present = not want
        if present != want:
            u.kind = "skipped"
            u.extra["skipped"] = "shape-specific unit: `%s` %s in %s :: %s on this tree" % (
                ml.group(4), "does not occur" if want else "occurs", ml.group(2), ml.group(3).strip())
            return u, failures, undecided
    try:
        gen, meta, records, linemap = generate(unit_path, repo, None, tuple(auto_consts))
    except (LostAnchor, ValueError) as e:
        undecided.append("%s: %s" % (name, e))
        return u, failures, undecided
    if auto_consts:
        u.extra["auto_extracted_consts"] = list(auto_consts)
    u.functions = meta["fns"] or [r["item"] for r in records]
    u.sources = records
    u.assumptions = list(meta["assume"])
    d = new_scratch("verus")
    f = os.path.join(d, name + ".rs")
    open(f, "w").write(gen)
    os.makedirs(os.path.join(VERIF, "logs"), exist_ok=True)
    keep = os.path.join(VERIF, "logs", "%s-%s.generated.rs" % (prop, name))
    open(keep, "w").write(gen)
    # assumption scan
    found = [(i + 1, l.strip()) for i, l in enumerate(gen.split("\n"))
             if ASSUMPTION_RE.search(l) and not l.strip().startswith("//")]
    u.extra["assumed_items_found"] = len(found)
    u.extra["assumed_items"] = ["%d: %s" % x for x in found]
    if meta["assumed_items"] is None or meta["assumed_items"] != len(found):
        undecided.append("%s: assumption scan found %d assumed items, unit declares %s" %
                         (name, len(found), meta["assumed_items"]))
    rlimit = "60" if tier == "quick" else "200"
    cmd = ["verus", f, "--output-json", "--time", "--multiple-errors", "10", "--rlimit", rlimit,
           "--smt-option", "smt.random_seed=%d" % (seed % 1000)]
    u.checker_cmd = "verus <generated %s.rs> --output-json --time --multiple-errors 10 --rlimit %s  (Verus 0.2026.09.13, Z3)" % (name, rlimit)
    env = dict(os.environ)
    p_rc, p_out, wall = _run_split(cmd, d, env, 3600)
    stdout, stderr = p_out
    open(os.path.join(VERIF, "logs", "%s-%s.verus.err" % (prop, name)), "w").write(stderr)
    # the text refers to constants of its own source files that the unit does not provide (a change
    # introduced a named constant): extract them verbatim and decide again
    missing = sorted(set(m for m in re.findall(r"cannot find value `([A-Z][A-Z0-9_]*)` in this scope", stderr) if m not in auto_consts))
    if missing and len(auto_consts) < 8:
        return run_unit(prop, unit_path, tier, seed, repo, tuple(auto_consts) + tuple(missing))
    try:
        js = json.loads(stdout[stdout.index("{"):])
    except Exception:
        js = None
    gen_lines = gen.split("\n")
    if not js:
        undecided.append("%s: verus produced no JSON (rc=%s): %s" % (name, p_rc, stderr[-600:]))
        return u, failures, undecided
    vr = js.get("verification-results", {})
    if vr.get("encountered-vir-error") or ("verified" not in vr):
        errs = parse_errors(stderr, linemap, gen_lines)
        undecided.append("%s: verus front-end error (unsupported construct / type error): %s" %
                         (name, "; ".join(e["msg"] for e in errs[:4]) or stderr[-500:]))
        return u, failures, undecided
    verified, nerr = vr.get("verified", 0), vr.get("errors", 0)
    u.obligations = verified + nerr
    u.discharged = verified
    try:
        u.solver_s = js["times-ms"]["smt"]["total"] / 1000.0
        fb = js["times-ms"]["smt"]["smt-run-module-times"][0].get("function-breakdown", [])
        slow = sorted(fb, key=lambda x: -x["time"])[:3]
        u.extra["slowest_ms"] = {x["function"]: x["time"] for x in slow}
    except Exception:
        u.solver_s = wall
    u.samples.append({"verus_unit": name, "verified": verified, "errors": nerr,
                      "extracted": [r["item"] for r in records][:8]})
    if nerr or p_rc != 0:
        errs = parse_errors(stderr, linemap, gen_lines)
        if not errs:
            undecided.append("%s: verus rc=%s but no parsable error: %s" % (name, p_rc, stderr[-500:]))
        for e in errs:
            if e["kind"] == "refutation":
                fl = {"unit": u.name, "harness": name, "key": "%s :: %s :: %s" % (e["fn"], e["msg"], e["clause"][:120]),
                      "description": e["msg"], "location": "%s (generated line %d: %s)" % (e["fn"], e["line"], e["clause"][:160]),
                      "refutation": True, "kind": "proved", "output": e["block"], "engine": "verus",
                      "fn": e["fn"]}
                u.failures.append(fl)
                failures.append(fl)
            else:
                undecided.append("%s: %s [%s] at %s" % (name, e["msg"], e["kind"], e["fn"]))
    # canaries
    if not failures and not undecided:
        for cfn, clause in meta["canaries"]:
            try:
                cgen, _, _, _ = generate(unit_path, repo, canary=(cfn, clause), auto_consts=tuple(auto_consts))
            except LostAnchor as e:
                undecided.append("canary %s: %s" % (cfn, e))
                continue
            if cgen == gen:
                undecided.append("canary %s did not attach to any extracted function" % cfn)
                continue
            cf = os.path.join(d, name + "_canary_%s.rs" % cfn)
            open(cf, "w").write(cgen)
            c_rc, (c_out, c_err), _ = _run_split(["verus", cf, "--output-json", "--rlimit", rlimit],
                                                 d, env, 1200)
            try:
                cj = json.loads(c_out[c_out.index("{"):])
                cerr = cj["verification-results"].get("errors", 0)
            except Exception:
                undecided.append("canary %s: verus produced no verification result (front-end error in the canary clause?)" % cfn)
                continue
            if cerr < 1:
                undecided.append("VACUITY: canary clause %r on %s was accepted -- contracts are vacuous" % (clause, cfn))
            else:
                u.extra.setdefault("canaries_rejected", []).append("%s: %s" % (cfn, clause))
    return u, failures, undecided


def _run_split(cmd, cwd, env, timeout):
    import subprocess
    import time
    t0 = time.time()
    try:
        p = subprocess.run(cmd, cwd=cwd, env=env, stdout=subprocess.PIPE, stderr=subprocess.PIPE,
                           text=True, errors="replace", timeout=timeout)
        return p.returncode, (p.stdout, p.stderr), time.time() - t0
    except subprocess.TimeoutExpired as e:
        return 124, ("", "timed out after %ss" % timeout), time.time() - t0
