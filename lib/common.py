"""Shared plumbing for the /verif check driver: scratch lifecycle, evidence, findings."""
import atexit
import hashlib
import json
import os
import shutil
import signal
import subprocess
import sys
import tempfile
import time

VERIF = os.path.dirname(os.path.dirname(os.path.abspath(__file__)))
REPO = os.environ.get("VERIF_REPO", "/repo")
SCRATCH_ROOT = os.environ.get("VERIF_SCRATCH", "/tmp")
NCPU = os.cpu_count() or 4

_scratch_dirs = []


def _cleanup():
    for d in _scratch_dirs:
        shutil.rmtree(d, ignore_errors=True)


def _sig(signum, frame):
    _cleanup()
    sys.exit(2)


atexit.register(_cleanup)
for _s in (signal.SIGTERM, signal.SIGINT, signal.SIGHUP):
    try:
        signal.signal(_s, _sig)
    except Exception:
        pass


def new_scratch(tag):
    d = tempfile.mkdtemp(prefix="grinverif-%s-" % tag, dir=SCRATCH_ROOT)
    if not os.environ.get("VERIF_KEEP"):
        _scratch_dirs.append(d)
    return d


def copy_repo(dst):
    """rsync /repo's *working tree* (not HEAD) without build output or git metadata."""
    subprocess.run(
        ["rsync", "-a", "--exclude", "/target", "--exclude", ".git", REPO + "/", dst + "/"],
        check=True,
    )


def sha256_text(t):
    return hashlib.sha256(t.encode()).hexdigest()


def log(*a):
    print(*a, file=sys.stderr, flush=True)


def env_offline():
    e = dict(os.environ)
    e["CARGO_NET_OFFLINE"] = "true"
    e.pop("RUSTFLAGS", None)
    return e


class Unit:
    """Result record of one verification unit (one Verus file or one group of Kani harnesses)."""

    def __init__(self, name, engine, kind, functions, bound=None):
        self.name = name
        self.engine = engine  # kani | verus
        self.kind = kind  # proved | complete | modular | bounded
        self.functions = functions
        self.bound = bound
        self.obligations = 0
        self.discharged = 0
        self.solver_s = 0.0
        self.failures = []  # dicts: {key, description, location, refutation: bool, output}
        self.undecided = []  # strings
        self.assumptions = []
        self.sources = []  # {path, item, lines, sha256}
        self.samples = []
        self.checker_cmd = ""
        self.extra = {}

    def to_json(self):
        d = {
            "unit": self.name,
            "engine": self.engine,
            "kind": self.kind,
            "bound": self.bound,
            "functions": self.functions,
            "obligations": self.obligations,
            "discharged": self.discharged,
            "solver_s": round(self.solver_s, 2),
            "assumptions": self.assumptions,
            "sources": self.sources,
            "failures": [
                {k: v for k, v in f.items() if k != "output"} for f in self.failures
            ],
            "undecided": self.undecided,
        }
        d.update(self.extra)
        return d


def load_known_findings():
    p = os.path.join(VERIF, "known_findings.json")
    if not os.path.exists(p):
        return {"findings": [], "fixed": []}
    return json.load(open(p))


def write_evidence(prop, tier, seed, units, wall_s, violations, known_hits, notes=None,
                   level_override=None):
    proved_units = [u for u in units if u.kind in ("proved", "complete", "modular")]
    bounded_units = [u for u in units if u.kind == "bounded"]
    obligations = sum(u.obligations for u in proved_units)
    discharged = sum(u.discharged for u in proved_units)
    b_obl = sum(u.obligations for u in bounded_units)
    b_dis = sum(u.discharged for u in bounded_units)
    trusted = []
    for u in units:
        for a in u.assumptions:
            if a not in trusted:
                trusted.append(a)
    samples = []
    for u in units:
        samples += u.samples[:4]
    level = level_override or ("proof" if proved_units else "model_checking")
    cov = {
        "obligations": obligations if proved_units else b_obl,
        "discharged": discharged if proved_units else b_dis,
        "checker_cmd": " ; ".join(sorted(set(u.checker_cmd for u in units if u.checker_cmd))),
        "trusted_base": trusted,
        "bounded_obligations": b_obl,
        "bounded_discharged": b_dis,
        "functions_under_contract": sorted(set(f for u in units for f in u.functions)),
        "units": [u.to_json() for u in units],
        "samples": samples[:24],
        "evaluations": obligations + b_obl,
        "distinct_nontrivial": obligations + b_obl,
        "rule": "one case = one proof obligation (Kani check or Verus verification condition "
                "group) generated from /repo's working tree on this run; counted by the verifier, "
                "distinct by (harness|function, check id)",
        "solver_s": round(sum(u.solver_s for u in units), 2),
        "exhaustive": False,
        "known_findings_reported": known_hits,
    }
    if notes:
        cov["notes"] = notes
    ev = {
        "property_id": prop,
        "tier": tier,
        "seed": seed,
        "level": level,
        "coverage": cov,
        "assumptions": trusted,
        "wall_s": round(wall_s, 2),
        "violations": violations,
    }
    os.makedirs(os.path.join(VERIF, "evidence"), exist_ok=True)
    p = os.path.join(VERIF, "evidence", prop + os.environ.get("VERIF_EVIDENCE_SUFFIX", "") + ".json")
    with open(p + ".tmp", "w") as f:
        json.dump(ev, f, indent=1)
    os.replace(p + ".tmp", p)
    return p


def run(cmd, cwd=None, timeout=None, env=None, out=None):
    """Run cmd in its own process group; on timeout kill the whole group (cbmc children)."""
    t0 = time.time()
    p = subprocess.Popen(cmd, cwd=cwd, env=env or env_offline(), stdout=subprocess.PIPE,
                         stderr=subprocess.STDOUT, text=True, errors="replace",
                         start_new_session=True)
    stop = {"v": False}
    killed = []

    def watchdog():
        # kill any single process of this group (cbmc) whose resident set exceeds the limit:
        # Kani then reports the harness as failed without checks -> undecided, never an alarm
        limit_kb = int(float(os.environ.get("VERIF_MEM_GB", "10")) * 1024 * 1024)
        while not stop["v"]:
            try:
                out = subprocess.run(["ps", "-eo", "pid,pgid,rss,comm"], stdout=subprocess.PIPE, text=True).stdout
                for ln in out.split("\n")[1:]:
                    f = ln.split()
                    if len(f) >= 4 and f[1] == str(p.pid) and int(f[2]) > limit_kb:
                        os.kill(int(f[0]), signal.SIGKILL)
                        killed.append("%s rss=%dMB" % (f[3], int(f[2]) // 1024))
            except Exception:
                pass
            time.sleep(4)

    import threading
    th = threading.Thread(target=watchdog, daemon=True)
    th.start()
    try:
        txt, _ = p.communicate(timeout=timeout)
        rc = p.returncode
    except subprocess.TimeoutExpired:
        try:
            os.killpg(p.pid, signal.SIGKILL)
        except Exception:
            pass
        txt, _ = p.communicate()
        txt = (txt or "") + "\n[timeout after %ss]\n" % timeout
        rc = 124
    stop["v"] = True
    if killed:
        txt = (txt or "") + "\n[memory watchdog killed: %s]\n" % ", ".join(killed)
    if out:
        with open(out, "w") as f:
            f.write(txt)
    return rc, txt, time.time() - t0
