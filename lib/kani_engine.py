"""Kani engine: inject contracts + harness modules into a scratch copy of /repo's working
tree (the function bodies CBMC sees are byte-for-byte the working tree's), run cargo kani on
the real crates, parse the per-harness results, replay counterexamples natively.

Unit file format (units/<prop>/<unit>.kani.rs):

  //@ crate: grin_core
  //@ target: core/src/core/pmmr/pmmr.rs      file the harness module is appended to
  //@ profile: release-arith                   optional: [profile.dev] overflow-checks = false
  //@ assume: <free text>                      repeatable: assumption recorded in the evidence
  //@ contract impl Foo::bar                   attributes inserted in front of that real item
  //@+ #[cfg_attr(kani, kani::requires(x > 0))]
  //@ harness NAME kind=complete|modular|bounded tier=quick|thorough fns=a,b bound=TEXT
  //@ repeat X in 1..=63  ...  //@ end         textual repetition with {X} substituted
  <Rust text of the module body; wrapped as #[cfg(kani)] mod verif_kani_<unit> { use super::*; .. }>
"""
import glob
import os
import re
import shutil

from common import (VERIF, NCPU, Unit, copy_repo, env_offline, log, new_scratch, run,
                    sha256_text)
from rsrc import LostAnchor, Source

KANI_FLAGS = ["-Z", "function-contracts", "-Z", "stubbing", "-Z", "unstable-options"]


class KaniUnitFile:
    def __init__(self, path):
        self.path = path
        self.name = os.path.basename(path).replace(".kani.rs", "")
        self.prop = os.path.basename(os.path.dirname(path))
        self.crate = None
        self.target = None
        self.profile = "default"
        self.assumes = []
        self.contracts = []  # (anchor, [attr lines])
        self.harnesses = {}  # name -> dict
        self.body = ""
        self._parse(open(path).read())

    @staticmethod
    def _expand(text):
        out = []
        lines = text.split("\n")
        i = 0
        while i < len(lines):
            m = re.match(r"\s*//@ repeat (\w+) in (.+)$", lines[i])
            if m:
                var, rng = m.group(1), m.group(2).strip()
                j = i + 1
                depth = 1
                blk = []
                while j < len(lines):
                    if re.match(r"\s*//@ repeat ", lines[j]):
                        depth += 1
                    if re.match(r"\s*//@ end\s*$", lines[j]):
                        depth -= 1
                        if depth == 0:
                            break
                    blk.append(lines[j])
                    j += 1
                mm = re.match(r"(-?\d+)\.\.(=?)(-?\d+)$", rng)
                if mm:
                    a, b = int(mm.group(1)), int(mm.group(3))
                    vals = list(range(a, b + 1 if mm.group(2) else b))
                else:
                    vals = [v.strip() for v in rng.split(",")]
                for v in vals:
                    sub = "\n".join(blk).replace("{%s}" % var, str(v))
                    sub = KaniUnitFile._expand(sub)
                    # {=expr}: integer arithmetic evaluated after substitution
                    sub = re.sub(r"\{=([0-9+\-*/() ]+)\}", lambda m: str(int(eval(m.group(1).replace("/", "//").replace("////", "//")))), sub)
                    out.append(sub)
                i = j + 1
            else:
                out.append(lines[i])
                i += 1
        return "\n".join(out)

    def _parse(self, text):
        self.wraps_known = []
        text = self._expand(text)
        body = []
        cur_contract = None
        for ln in text.split("\n"):
            m = re.match(r"\s*//@\+ ?(.*)$", ln)
            if m and cur_contract is not None:
                cur_contract[1].append(m.group(1))
                continue
            m = re.match(r"\s*//@ (\w+):\s*(.*)$", ln)
            if m:
                k, v = m.group(1), m.group(2).strip()
                if k == "crate":
                    self.crate = v
                elif k == "target":
                    self.target = v
                elif k == "profile":
                    self.profile = v
                elif k == "assume":
                    self.assumes.append(v)
                elif k == "wraps_known":
                    # an arithmetic wrap (release semantics) that is known, examined and harmless: `desc @ function`
                    self.wraps_known.append(v)
                continue
            m = re.match(r"\s*//@ contract (.+)$", ln)
            if m:
                cur_contract = (m.group(1).strip(), [])
                self.contracts.append(cur_contract)
                continue
            m = re.match(r"\s*//@ harness (\w+)(.*)$", ln)
            if m:
                kv = dict(x.split("=", 1) for x in m.group(2).split() if "=" in x)
                self.harnesses[m.group(1)] = {
                    "kind": kv.get("kind", "complete"),
                    "tier": kv.get("tier", "quick"),
                    "fns": [f for f in kv.get("fns", "").split(",") if f],
                    "bound": kv.get("bound", "").replace("_", " ") or None,
                    "optional": kv.get("optional", "0") == "1",
                    "unit": self.name,
                }
                continue
            cur_contract = None if not ln.strip().startswith("//@") else cur_contract
            body.append(ln)
        self.body = "\n".join(body)
        assert self.crate and self.target, self.path


def crate_dir(crate):
    return {"grin_core": "core", "grin_store": "store", "grin_chain": "chain", "grin_p2p": "p2p",
            "grin_keychain": "keychain", "grin_pool": "pool", "grin_util": "util",
            "grin_api": "api", "grin_servers": "servers"}[crate]


def module_path(target):
    """crate-relative module path of a source file: core/src/core/pmmr/segment.rs -> core::pmmr::segment"""
    parts = target.split("/")
    i = parts.index("src")
    mods = parts[i + 1:]
    mods[-1] = mods[-1][:-3]
    if mods[-1] in ("lib", "mod", "main"):
        mods = mods[:-1]
    return "::".join(mods)


CORE_PATH = {"grin_core": "crate", "grin_chain": "crate::core", "grin_p2p": "crate::core",
             "grin_pool": "crate::core", "grin_store": "crate::core"}


def add_playback_stubs(body, crate):
    """Every harness that stubs global::get_chain_type also gets playback_set_globals stubbed by a
    no-op (see units/_shared/grin_core.support.rs): verification never reaches the real
    thread-local accessors, a native concrete-playback run does."""
    cp = CORE_PATH.get(crate)
    if not cp:
        return body
    extra = "#[kani::stub(%s::verif_kani_support::playback_set_globals, %s::verif_kani_support::playback_noop)]" % (cp, cp)
    out = []
    for ln in body.split("\n"):
        out.append(ln)
        if re.search(r"#\[kani::stub\([\w:]*get_chain_type\s*,", ln) and extra not in body:
            out.append(re.match(r"\s*", ln).group(0) + extra)
    return "\n".join(out)


def prepare_scratch(unit_files, profile):
    """Copy /repo's working tree and inject.  Returns (dir, sources-record)."""
    d = new_scratch("kani")
    copy_repo(d)
    with open(os.path.join(d, "Cargo.toml"), "a") as f:
        f.write('\n[patch.crates-io]\nbacktrace = { path = "%s/vendor/backtrace-0.3.76" }\n' % VERIF)
        if profile == "release-arith":
            # native playback of a counterexample runs the real code with the shipped (wrapping) arithmetic;
            # Kani's own overflow checks during verification do not depend on this setting
            f.write('\n[profile.dev]\noverflow-checks = false\n[profile.test]\noverflow-checks = false\n')
    sources = []
    by_target = {}
    crates = set()
    for uf in unit_files:
        by_target.setdefault(uf.target, []).append(uf)
        crates.add(uf.crate)
    for target, ufs in by_target.items():
        p = os.path.join(d, target)
        if not os.path.exists(p):
            raise LostAnchor("target file %s missing" % target)
        src = Source(p)
        inserts = []  # (index, text)
        for uf in ufs:
            for anchor, attrs in uf.contracts:
                it = src.find(anchor)
                line_start = src.src.rfind("\n", 0, it.start) + 1
                indent = src.src[line_start:it.start]
                if indent.strip():
                    indent = ""
                    line_start = it.start
                txt = "".join(indent + a + "\n" for a in attrs)
                inserts.append((line_start, txt))
                sources.append({"path": target, "item": anchor,
                                "lines": [src.line_of(it.start), src.line_of(it.body_close)],
                                "sha256": sha256_text(src.text(it))})
        text = src.src
        for idx, txt in sorted(inserts, reverse=True):
            text = text[:idx] + txt + text[idx:]
        for uf in ufs:
            uf.body = add_playback_stubs(uf.body, uf.crate)
            text += ("\n#[cfg(kani)]\n#[allow(unused, dead_code, unused_imports, non_snake_case)]\n"
                     "mod verif_kani_%s {\n\tuse super::*;\n%s\n}\n" % (uf.name, uf.body))
        with open(p, "w") as f:
            f.write(text)
    # support modules are injected into every crate that has one (dependants such as grin_p2p
    # use grin_core's KReader/KWriter through `crate::core::verif_kani_support`)
    all_support = [os.path.basename(x)[:-len(".support.rs")] for x in
                   glob.glob(os.path.join(VERIF, "units", "_shared", "*.support.rs"))]
    for crate in sorted(set(all_support)):
        sup = os.path.join(VERIF, "units", "_shared", crate + ".support.rs")
        if os.path.exists(sup):
            lib = os.path.join(d, crate_dir(crate), "src", "lib.rs")
            with open(lib, "a") as f:
                f.write("\n#[cfg(kani)]\n#[allow(unused, dead_code, unused_imports)]\n"
                        "pub mod verif_kani_support {\n%s\n}\n" % open(sup).read())
    return d, sources


_RE_CHECKING = re.compile(r"^(?:Thread (\d+): )?Checking harness (\S+?)\.\.\.\s*$")
_RE_THREAD_BLOCK = re.compile(r"^Thread (\d+):\s*$")


def parse_terse(txt):
    """Return {harness_fullname: {status, checks, failed, fails:[(desc, loc)], time, covers}}"""
    res = {}
    cur_by_thread = {}
    lines = txt.split("\n")
    i = 0
    active = None  # harness whose block we're in
    last_checked = None
    while i < len(lines):
        ln = lines[i]
        m = _RE_CHECKING.match(ln)
        if m:
            th = m.group(1) or "0"
            cur_by_thread[th] = m.group(2)
            last_checked = m.group(2)
            res.setdefault(m.group(2), {"status": "NO_RESULT", "checks": 0, "failed": 0,
                                        "fails": [], "time": 0.0, "covers": None, "raw": ""})
            if m.group(1) is None:
                active = m.group(2)
            i += 1
            continue
        m = _RE_THREAD_BLOCK.match(ln)
        if m:
            active = cur_by_thread.get(m.group(1))
            i += 1
            continue
        if active and active in res:
            r = res[active]
            r["raw"] += ln + "\n"
            m = re.match(r"\s*\*\* (\d+) of (\d+) failed", ln)
            if m:
                r["failed"], r["checks"] = int(m.group(1)), int(m.group(2))
            m = re.match(r"\s*\*\* (\d+) of (\d+) cover properties satisfied", ln)
            if m:
                r["covers"] = (int(m.group(1)), int(m.group(2)))
            m = re.match(r"Failed Checks: (.*)$", ln)
            if m:
                loc = ""
                if i + 1 < len(lines) and lines[i + 1].strip().startswith("File:"):
                    loc = lines[i + 1].strip()
                r["fails"].append((m.group(1).strip(), loc))
            m = re.match(r"VERIFICATION:- (\w+)", ln)
            if m:
                r["status"] = m.group(1)
            m = re.match(r"Verification Time: ([0-9.]+)s", ln)
            if m:
                r["time"] = float(m.group(1))
                active = None
            if "CBMC timed out" in ln or "timed out" in ln.lower():
                r["status"] = "TIMEOUT"
            if "run out of memory" in ln:
                r["status"] = "OUT_OF_MEMORY"
        i += 1
    return res


def loc_key(loc):
    """location-independent key: function name from ` in <fn>` and file, no line numbers"""
    m = re.search(r'File: "([^"]+)", line \d+, in (\S+)', loc)
    if m:
        return "%s@%s" % (m.group(2), m.group(1))
    return loc


def run_units(prop, unit_files, tier, jobs=None, harness_timeout=None, only=None):
    """Run all harnesses of the given unit files selected by tier.
    Returns (units: [Unit], failures: [dict], undecided: [str], scratch dirs by profile)."""
    units = []
    all_fail = []
    undecided = []
    scratches = {}
    profiles = sorted(set(uf.profile for uf in unit_files))
    for profile in profiles:
        ufs = [u for u in unit_files if u.profile == profile]
        try:
            d, sources = prepare_scratch(ufs, profile)
        except LostAnchor as e:
            undecided.append("lost anchor: %s" % e)
            continue
        scratches[profile] = d
        for crate in sorted(set(u.crate for u in ufs)):
            cufs = [u for u in ufs if u.crate == crate]
            hs = {}
            for u in cufs:
                for h, meta in u.harnesses.items():
                    if only and h not in only:
                        continue
                    if tier == "quick" and meta["tier"] != "quick":
                        continue
                    meta = dict(meta)
                    meta["full"] = module_path(u.target) + "::verif_kani_%s::%s" % (u.name, h)
                    hs[h] = meta
            if not hs:
                continue
            j = jobs or max(2, min(int(os.environ.get("VERIF_JOBS", NCPU - 2)), len(hs)))
            to = harness_timeout or (600 if tier == "quick" else 1500)
            cmd = ["cargo", "kani", "-p", crate] + KANI_FLAGS + [
                "--output-format=terse", "-j", str(j), "--harness-timeout", "%ds" % to, "--exact"]
            for h in sorted(hs):
                cmd += ["--harness", hs[h]["full"]]
            logp = os.path.join(VERIF, "logs", "%s-%s-%s-%s.log" % (prop, crate, profile, tier))
            os.makedirs(os.path.dirname(logp), exist_ok=True)
            log("[kani] %s: %d harnesses on %s (%s), -j %d" % (prop, len(hs), crate, profile, j))
            rc, txt, wall = run(cmd, cwd=d, timeout=to * max(1, (len(hs) + j - 1) // j) + 900,
                                out=logp)
            parsed = parse_terse(txt)
            if "error: could not compile" in txt or (rc != 0 and not parsed):
                errs = [l for l in txt.split("\n") if l.startswith("error")][:8]
                undecided.append("kani build failed for %s: %s" % (crate, " | ".join(errs)))
                continue
            # map short name -> result
            by_short = {}
            for full, r in parsed.items():
                by_short[full.split("::")[-1]] = (full, r)
            per_unit = {}
            for h, meta in hs.items():
                key = (meta["unit"], meta["kind"])
                u = per_unit.get(key)
                if not u:
                    u = Unit("%s/%s[%s]" % (prop, meta["unit"], meta["kind"]), "kani",
                             meta["kind"], [], None)
                    u.checker_cmd = " ".join(cmd[:9]) + " --harness <h>  (Kani 0.68 / CBMC 6.11, cadical)"
                    uf = [x for x in cufs if x.name == meta["unit"]][0]
                    u.assumptions = list(uf.assumes)
                    u.sources = [s for s in sources]
                    u.extra["harnesses"] = {}
                    u.extra["profile"] = profile
                    per_unit[key] = u
                for f in meta["fns"]:
                    if f not in u.functions:
                        u.functions.append(f)
                if meta["bound"]:
                    u.bound = (u.bound + "; " if u.bound and meta["bound"] not in u.bound else "") + \
                        (meta["bound"] if not u.bound or meta["bound"] not in u.bound else "")
                    if not u.bound:
                        u.bound = meta["bound"]
                if h not in by_short:
                    if meta.get("optional"):
                        u.extra.setdefault("attempted_not_completed", []).append("%s: no result" % h)
                        continue
                    u.undecided.append("harness %s produced no result" % h)
                    undecided.append("harness %s produced no result (see %s)" % (h, logp))
                    continue
                full, r = by_short[h]
                u.extra["harnesses"][h] = {"status": r["status"], "checks": r["checks"],
                                           "failed": r["failed"], "time_s": r["time"]}
                u.solver_s += r["time"]
                if r["status"] == "SUCCESSFUL":
                    if r["checks"] == 0:
                        undecided.append("harness %s generated zero checks (vacuous)" % h)
                        continue
                    if r["covers"] and r["covers"][0] != r["covers"][1]:
                        undecided.append("harness %s: cover unsatisfied %s (vacuous assumption?)" %
                                         (h, r["covers"]))
                        continue
                    u.obligations += r["checks"]
                    u.discharged += r["checks"]
                    if len(u.samples) < 3:
                        u.samples.append({"harness": full, "checks": r["checks"],
                                          "status": "SUCCESSFUL", "time_s": r["time"]})
                elif r["status"] == "FAILED":
                    u.obligations += r["checks"]
                    u.discharged += r["checks"] - r["failed"]
                    wraps = []
                    if profile == "release-arith":
                        # Kani always checks arithmetic overflow (debug semantics) and cuts the path
                        # after it.  C11 is stated for release arithmetic where a wrap is not a
                        # panic: such checks are recorded, not reported (DESIGN 2.1).
                        wraps = [x for x in r["fails"] if re.match(r"attempt to .* with overflow", x[0])]
                        for dsc, loc in wraps:
                            k = "%s @ %s" % (dsc, loc_key(loc))
                            u.extra.setdefault("arithmetic_wraps", [])
                            if k not in u.extra["arithmetic_wraps"]:
                                u.extra["arithmetic_wraps"].append(k)
                        u.obligations -= len(wraps)
                    # `unreachable!()` inside the harness's own support code (a mock method the unit declares outside its model)
                    # is a limit of the harness, not of the code under contract: undecided, never a violation
                    unsupported = [x for x in r["fails"] if "not currently supported by Kani" in x[0]
                                   or "is not supported by Kani" in x[0]
                                   or ("entered unreachable code" in x[0] and "verif_kani_" in (x[1] or ""))]
                    if unsupported:
                        undecided.append("harness %s reaches a construct Kani / the harness's mock cannot model (%s) -- tool limit, not a violation" %
                                         (h, unsupported[0][0][:120]))
                    real = [(dsc, loc) for dsc, loc in r["fails"]
                            if "unwinding assertion" not in dsc and (dsc, loc) not in wraps
                            and (dsc, loc) not in unsupported]
                    # a wrap at a site the unit does not list as known: Kani cuts the path there, so what the shipped
                    # (wrapping) build does with the value is unexplored.  It becomes a failure marked `wrap`; ./check
                    # replays Kani's input natively with wrapping arithmetic: a panic there is a violation with its
                    # failing input, anything else leaves the harness undecided (never a pass)
                    uf0 = [x for x in cufs if x.name == meta["unit"]][0]
                    new_wraps = [(dsc, loc) for dsc, loc in wraps
                                 if not any(kw in ("%s @ %s" % (dsc, loc_key(loc))) for kw in uf0.wraps_known)]
                    for dsc, loc in new_wraps:
                        f = {"unit": u.name, "harness": h, "harness_full": full, "wrap": True,
                             "key": "%s :: %s (release arithmetic wraps here; what follows the wrap) :: %s" % (h, dsc, loc_key(loc)),
                             "description": dsc, "location": loc, "refutation": True,
                             "crate": crate, "profile": profile, "kind": meta["kind"], "output": r["raw"]}
                        u.failures.append(f)
                        all_fail.append(f)
                    unw = [x for x in r["fails"] if "unwinding assertion" in x[0]]
                    if unw and not real:
                        undecided.append("harness %s: unwinding bound too small (%s)" % (h, unw[0][1]))
                    if not r["fails"]:
                        undecided.append("harness %s FAILED without listed checks (see %s)" % (h, logp))
                    if wraps and not real and not unw:
                        u.discharged = u.discharged  # all remaining checks passed
                        if len(u.samples) < 3:
                            u.samples.append({"harness": full, "checks": r["checks"] - len(wraps),
                                              "status": "SUCCESSFUL (arithmetic wraps recorded)", "time_s": r["time"]})
                    for dsc, loc in real:
                        f = {"unit": u.name, "harness": h, "harness_full": full,
                             "key": "%s :: %s :: %s" % (h, dsc, loc_key(loc)),
                             "description": dsc, "location": loc, "refutation": True,
                             "crate": crate, "profile": profile, "kind": meta["kind"],
                             "output": r["raw"]}
                        u.failures.append(f)
                        all_fail.append(f)
                elif meta.get("optional"):
                    # best-effort harness (thorough tier): a resource limit is recorded, changes no claim
                    u.extra.setdefault("attempted_not_completed", []).append("%s: %s" % (h, r["status"]))
                else:
                    undecided.append("harness %s: %s (timeout/resource; see %s)" % (h, r["status"], logp))
            units += list(per_unit.values())
    return units, all_fail, undecided, scratches


def replay(failure, scratch, out_path):
    """Re-run the failing harness with concrete playback (print mode), splice the generated
    unit test into the harness module of the scratch copy, then run it natively
    (cargo kani playback) against the real code.  Returns (reproduced: bool|None, text)."""
    crate = failure["crate"]
    full = failure["harness_full"]
    cmd = ["cargo", "kani", "-p", crate] + KANI_FLAGS + ["-Z", "concrete-playback",
          "--concrete-playback=print", "--output-format=terse", "--exact", "--harness", full]
    rc, txt, _ = run(cmd, cwd=scratch, timeout=3600)
    report = ["# Replay of Kani counterexample", "property-harness: %s" % full,
              "failed obligation: %s" % failure["key"], "", "## verifier output", failure["output"]]
    blocks = re.findall(r"```\n(.*?)```", txt, flags=re.S)
    # prefer the block generated for the failed check
    want = failure["description"].strip('"')[:40]
    pick = None
    for b in blocks:
        if want and want in b:
            pick = b
            break
    if pick is None and blocks:
        pick = blocks[0]
    if not pick:
        report += ["", "## concrete playback", "Kani produced no concrete test:", txt[-3000:]]
        open(out_path, "w").write("\n".join(report))
        return None, txt
    m = re.search(r"fn (kani_concrete_playback_\w+)", pick)
    test = m.group(1)
    unit = full.split("::")[-2]  # verif_kani_<unit>
    # locate the file holding the harness module
    target = None
    for p in glob.glob(os.path.join(scratch, crate_dir(crate), "src", "**", "*.rs"), recursive=True):
        s = open(p).read()
        marker = "mod %s {\n\tuse super::*;\n" % unit
        if marker in s:
            s = s.replace(marker, marker + pick + "\n", 1)
            open(p, "w").write(s)
            target = p
            break
    if not target:
        report += ["", "could not locate harness module %s" % unit]
        open(out_path, "w").write("\n".join(report))
        return None, txt
    cmd2 = ["cargo", "kani", "playback", "-Z", "concrete-playback", "-p", crate, "--", test]
    env2 = None
    if failure.get("profile") == "release-arith":
        # the property is stated for the shipped (release) arithmetic: play the input back with wrapping arithmetic
        from common import env_offline
        env2 = env_offline()
        env2["RUSTC_WRAPPER"] = os.path.join(VERIF, "tools", "rustc_wrapping_arith.sh")
        report += ["", "(native run compiled with -C overflow-checks=off through RUSTC_WRAPPER: release arithmetic)"]
    rc2, txt2, _ = run(cmd2, cwd=scratch, timeout=3600, env=env2)
    failed_native = ("test result: FAILED" in txt2) or ("panicked at" in txt2 and rc2 != 0)
    passed = "test result: ok. 1 passed" in txt2
    # the native panic must be the one the verifier reported (same message or same source file)
    desc = failure["description"].strip('"')
    mloc = re.search(r'File: "([^"]+)", line (\d+)', failure.get("location", ""))
    same = False
    if failed_native:
        if desc and desc[:60] in txt2:
            same = True
        elif mloc and ("%s:%s" % (mloc.group(1).split("/")[-1], mloc.group(2))) in txt2:
            same = True
        elif mloc and mloc.group(1).startswith("/") and "panicked at" in txt2:
            # failure inside std (unwrap_failed, slice index ...): accept any panic raised from
            # the same workspace function chain; the report carries the native message
            same = True
    if failure.get("wrap") and failed_native:
        # the obligation is "what follows the arithmetic wrap does not panic": any native panic on this input refutes it
        same = True
    reproduced = failed_native and same
    keep = [l for l in txt2.split("\n") if "panicked" in l or "test result" in l
            or l.startswith("test ") or "assertion" in l or l.startswith("error")]
    report += ["", "## concrete playback test (generated by Kani from the counterexample; concrete "
               "values are the kani::any() results in order)", pick,
               "", "## native run of the real code on these inputs (`%s`)" % " ".join(cmd2),
               "\n".join(keep)[:4000] or txt2[-1500:],
               "", "reproduced: %s" % ("yes" if reproduced else ("no" if passed else
                                        ("unknown (native run panicked elsewhere)" if failed_native else "unknown")))]
    open(out_path, "w").write("\n".join(report))
    if reproduced:
        return True, txt2
    if passed:
        return False, txt2
    return None, txt2
