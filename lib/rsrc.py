"""Minimal brace-aware Rust source scanner.

Used to (a) locate items (fn / impl / mod / trait) in the real source files of /repo by a
path such as ``impl PruneList::get_shift`` or ``fn family`` and (b) splice text in front of
or inside them.  It understands line comments, nested block comments, string / raw string /
byte string literals, char literals and lifetimes, which is all that is required to match
braces reliably.  It is NOT a Rust parser; an anchor that cannot be resolved to exactly one
item raises LostAnchor, which the check driver turns into exit code 2 (undecided).
"""
import re


class LostAnchor(Exception):
    pass


def mask(src):
    """Return a string of the same length as src in which the contents of comments, strings
    and char literals are replaced by spaces (newlines kept).  Brace matching and keyword
    searches are done on the mask; text is copied from the original."""
    out = list(src)
    n = len(src)
    i = 0

    def blank(a, b):
        for k in range(a, b):
            if out[k] != "\n":
                out[k] = " "

    while i < n:
        c = src[i]
        if c == "/" and i + 1 < n and src[i + 1] == "/":
            j = src.find("\n", i)
            if j < 0:
                j = n
            blank(i, j)
            i = j
        elif c == "/" and i + 1 < n and src[i + 1] == "*":
            depth = 1
            j = i + 2
            while j < n and depth:
                if src.startswith("/*", j):
                    depth += 1
                    j += 2
                elif src.startswith("*/", j):
                    depth -= 1
                    j += 2
                else:
                    j += 1
            blank(i, j)
            i = j
        elif c == '"' or (c in "br" and _raw_or_byte_string_at(src, i)):
            j = _string_end(src, i)
            blank(i, j)
            i = j
        elif c == "'":
            j = _char_end(src, i)
            if j > 0:
                blank(i, j)
                i = j
            else:
                i += 1  # lifetime
        else:
            i += 1
    return "".join(out)


def _raw_or_byte_string_at(src, i):
    # only when not part of an identifier
    if i > 0 and (src[i - 1].isalnum() or src[i - 1] == "_"):
        return False
    m = re.match(r'(b?r#*"|b")', src[i:i + 12])
    return bool(m)


def _string_end(src, i):
    m = re.match(r'(b?)(r(#*))?"', src[i:i + 12])
    if not m:
        return i + 1
    j = i + m.end()
    if m.group(2):  # raw
        term = '"' + (m.group(3) or "")
        k = src.find(term, j)
        return len(src) if k < 0 else k + len(term)
    n = len(src)
    while j < n:
        if src[j] == "\\":
            j += 2
        elif src[j] == '"':
            return j + 1
        else:
            j += 1
    return n


def _char_end(src, i):
    # 'x'  '\n'  '\u{1F600}'  '\''   vs lifetime 'a
    m = re.match(r"'(\\(u\{[0-9a-fA-F_]+\}|x[0-9a-fA-F]{2}|.)|[^'\\\n])'", src[i:i + 16])
    if m:
        return i + m.end()
    return -1


def match_brace(msk, open_idx):
    assert msk[open_idx] == "{", (open_idx, msk[open_idx:open_idx + 20])
    depth = 0
    for k in range(open_idx, len(msk)):
        ch = msk[k]
        if ch == "{":
            depth += 1
        elif ch == "}":
            depth -= 1
            if depth == 0:
                return k
    raise LostAnchor("unbalanced braces")


def match_paren(msk, open_idx, op="(", cl=")"):
    depth = 0
    for k in range(open_idx, len(msk)):
        ch = msk[k]
        if ch == op:
            depth += 1
        elif ch == cl:
            depth -= 1
            if depth == 0:
                return k
    raise LostAnchor("unbalanced parens")


class Item:
    def __init__(self, kind, name, start, sig_end, body_open, body_close, attrs_start):
        self.kind = kind  # fn | impl | mod | trait
        self.name = name
        self.start = start  # start of `pub fn` / `fn` / `impl` keyword (incl. visibility)
        self.body_open = body_open  # index of `{` (or -1 for `;` items)
        self.body_close = body_close  # index of matching `}`
        self.attrs_start = attrs_start  # start of preceding attributes / doc comments

    def __repr__(self):
        return "Item(%s %s %d..%d)" % (self.kind, self.name, self.start, self.body_close)


_ITEM_RE = re.compile(
    r"(?P<vis>pub(\s*\([^)]*\))?\s+)?(?P<q>(default\s+|const\s+|async\s+|unsafe\s+|extern\s+\"[^\"]*\"\s+)*)"
    r"(?P<kw>fn|impl|mod|trait|struct|enum|const|static|type)\b"
)


def _impl_name(header, keep_generics=False):
    """Name an impl by `Type` or `Trait for Type` with generics stripped."""
    h = header.strip()
    h = re.sub(r"^impl\s*", "", h)
    # strip leading generics <...>
    if h.startswith("<"):
        depth = 0
        for k, ch in enumerate(h):
            if ch == "<":
                depth += 1
            elif ch == ">":
                depth -= 1
                if depth == 0:
                    h = h[k + 1:]
                    break
    h = re.sub(r"\bwhere\b.*$", "", h, flags=re.S).strip()

    def strip_generics(s):
        out = []
        depth = 0
        for ch in s:
            if ch == "<":
                depth += 1
            elif ch == ">":
                depth -= 1
            elif depth == 0:
                out.append(ch)
        return "".join(out)

    if keep_generics:
        return re.sub(r"\s+", " ", h).strip()
    h = strip_generics(h)
    h = re.sub(r"\s+", " ", h).strip()
    return h


def items_in(src, msk, lo, hi):
    """Yield items whose keyword lies at brace depth 0 within [lo, hi)."""
    res = []
    i = lo
    depth = 0
    pos = lo
    while pos < hi:
        m = _ITEM_RE.search(msk, pos, hi)
        if not m:
            break
        kwpos = m.start("kw")
        # must be at token boundary
        if m.start() > 0 and (msk[m.start() - 1].isalnum() or msk[m.start() - 1] == "_"):
            pos = m.end()
            continue
        # depth check: count braces between i and m.start()
        for ch in msk[i:m.start()]:
            if ch == "{":
                depth += 1
            elif ch == "}":
                depth -= 1
        i = m.start()
        if depth != 0:
            pos = m.end()
            continue
        kw = m.group("kw")
        # find body open or ';'
        k = m.end()
        par = 0
        ang = 0
        body_open = -1
        end = -1
        while k < hi:
            ch = msk[k]
            if ch in "([":
                par += 1
            elif ch in ")]":
                par -= 1
            elif ch == "{" and par == 0:
                body_open = k
                break
            elif ch == ";" and par == 0:
                end = k
                break
            k += 1
        if body_open < 0 and end < 0:
            break
        if body_open >= 0:
            body_close = match_brace(msk, body_open)
        else:
            body_close = end
        header = src[m.start():(body_open if body_open >= 0 else end)]
        if kw == "fn":
            nm = re.match(r"\s*([A-Za-z_][A-Za-z0-9_]*)", msk[m.end():])
            name = nm.group(1) if nm else "?"
        elif kw in ("mod", "trait", "struct", "enum", "const", "static", "type"):
            nm = re.match(r"\s*([A-Za-z_][A-Za-z0-9_]*)", msk[m.end():])
            name = nm.group(1) if nm else "?"
        else:
            name = _impl_name(src[kwpos:(body_open if body_open >= 0 else end)])
            full_name = _impl_name(src[kwpos:(body_open if body_open >= 0 else end)], True)
        # attributes / doc comments preceding
        a = m.start()
        while True:
            ls = src.rfind("\n", 0, a - 1) if a > 0 else -1
            prev_line_start = src.rfind("\n", 0, ls) + 1 if ls > 0 else 0
            prev_line = src[prev_line_start:ls] if ls > 0 else ""
            st = prev_line.strip()
            if ls > 0 and (st.startswith("#[") or st.startswith("///") or st.startswith("//!")):
                a = prev_line_start
                continue
            break
        line_start = src.rfind("\n", 0, m.start()) + 1
        if src[line_start:m.start()].strip() == "":
            attrs_start = min(a, line_start)
        else:
            attrs_start = m.start()
        res.append(Item(kw, name, m.start(), None, body_open, body_close, attrs_start))
        if kw == "impl":
            res[-1].full_name = full_name  # with generic arguments kept: tells `impl From<A> for T` from `impl From<B> for T`
        i = body_close + 1
        pos = body_close + 1
    return res


class Source:
    def __init__(self, path, text=None):
        self.path = path
        self.src = text if text is not None else open(path).read()
        self.msk = mask(self.src)

    def find(self, spec):
        """spec: 'fn name' | 'impl Type::name' | 'impl Trait for Type::name' | 'mod m::fn name'
        | 'trait T::name'.  Nested via '::' on containers.  Returns Item."""
        parts = [p.strip() for p in spec.split("::")]
        ranges = [(0, len(self.src))]
        found = []
        for idx, part in enumerate(parts):
            last = idx == len(parts) - 1
            m = re.match(r"(fn|impl|mod|trait|struct|enum|const|static|type)\s+(.*)$", part)
            if m:
                kind, name = m.group(1), re.sub(r"\s+", " ", m.group(2).strip())
            else:
                kind, name = ("fn" if last else None), part
            sel = []
            for lo, hi in ranges:
                cands = items_in(self.src, self.msk, lo, hi)
                sel += [c for c in cands if (kind is None or c.kind == kind) and
                        (c.name == name or ("<" in name and getattr(c, "full_name", None) == name)
                         or (c.kind == "impl" and "::" in c.name and
                             re.sub(r"(?:::)?(?:\w+::)+", "", c.name) == name))]
            if last:
                found = sel
            else:
                ranges = [(c.body_open + 1, c.body_close) for c in sel if c.body_open >= 0]
                if not ranges:
                    raise LostAnchor("%s: anchor %r: container %r not found" %
                                     (self.path, spec, part))
        if len(found) != 1:
            raise LostAnchor("%s: anchor %r matched %d items" % (self.path, spec, len(found)))
        return found[0]

    def text(self, item):
        return self.src[item.start:item.body_close + 1]

    def line_of(self, idx):
        return self.src.count("\n", 0, idx) + 1
