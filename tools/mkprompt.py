#!/usr/bin/env python3
"""usage: tools/mkprompt.py <PROP> <round-tag>   -> writes /tmp/prompt-<PROP>.txt for a seed agent working in /tmp/wt-<round-tag>-<PROP>
The agent gets the property text and one-line titles of the seeds earlier agents produced (so that it produces different ones);
nothing else from /verif."""
import glob, json, os, re, sys
prop, rnd = sys.argv[1], sys.argv[2]
wt = "/tmp/wt-%s-%s" % (rnd, prop)
p = [json.loads(l) for l in open("/verif/properties.jsonl") if json.loads(l)["id"] == prop][0]
prev = []
for d in sorted(glob.glob("/verif/seeded/%s-*" % prop), key=lambda x: int(x.rsplit("-", 1)[1])):
    t = ""
    n = os.path.join(d, "notes.md")
    if os.path.exists(n):
        for l in open(n):
            if l.strip():
                t = l.strip().lstrip("# ").strip()
                break
    if not t:
        try:
            t = json.load(open(os.path.join(d, "meta.json"))).get("summary", "")
        except Exception:
            pass
    if t:
        prev.append(" - " + t[:300])
txt = open("/verif/tools/seed_prompt.tmpl").read()
txt = txt.replace("@WT@", wt).replace("@PROP@", prop).replace("@JSON@", json.dumps(p, indent=1)).replace("@PREV@", "\n".join(prev) or " - (none)")
open("/tmp/prompt-%s.txt" % prop, "w").write(txt)
print("/tmp/prompt-%s.txt" % prop, len(prev), "earlier seeds listed")
