#!/bin/sh
# usage: tools/seed_matrix.sh            -- re-runs every confirmed seed under /verif/seeded against the check recorded
# in its meta.json (ran_check) and prints: seed, recorded verdict, exit code now.  A seed recorded "caught" must exit 1.
cd "$(dirname "$0")/.."
python3 - <<'PY'
import json, glob, subprocess, re
bad = 0
for d in sorted(glob.glob('seeded/*')):
    m = json.load(open(d + '/meta.json'))
    cmd = m.get('ran_check') or ''
    if not cmd.startswith('tools/try_seed.sh'):
        print(d.split('/')[-1], 'no ran_check'); continue
    p = subprocess.run(cmd, shell=True, stdout=subprocess.PIPE, stderr=subprocess.STDOUT, text=True)
    mm = re.search(r'rc=(\d+)', p.stdout.strip().split('\n')[-1])
    rc = int(mm.group(1)) if mm else -1
    want = 1 if m.get('verdict', '').startswith('caught') else None
    flag = '' if want is None or rc == want else '   <-- REGRESSION'
    if flag: bad += 1
    print('%-6s recorded=%-28s rc_now=%d%s' % (d.split('/')[-1], m.get('verdict'), rc, flag), flush=True)
print('regressions:', bad)
PY
