#!/bin/sh
# usage: tools/mkworktree.sh <name>   -> creates /tmp/wt-<name> (detached worktree of /repo HEAD) with a seeded target dir
set -e
d=/tmp/wt-$1
git -C /repo worktree add --detach "$d" HEAD >/dev/null 2>&1
cp -a /repo/target "$d/target" 2>/dev/null || true
mkdir -p "$d/SEED"
echo "$d"
