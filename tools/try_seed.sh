#!/bin/sh
# usage: tools/try_seed.sh <seed-id> <property> [extra check args]
# Applies the seeded patch to a scratch copy of /repo's working tree (so /repo itself is never
# touched and other checks can run meanwhile), runs the property's check against it via
# VERIF_REPO, prints the verdict lines.  Set TRY_SEED_IN_PLACE=1 to apply to /repo itself.
s=$1; p=$2; shift 2
if [ -n "$TRY_SEED_IN_PLACE" ]; then
  d=/repo
else
  d=/tmp/seedrepo-$s
  rm -rf "$d"; mkdir -p "$d"
  rsync -a --exclude /target --exclude .git /repo/ "$d/"
fi
cd "$d" || exit 9
if ! patch -p1 --no-backup-if-mismatch < /verif/seeded/$s/patch.diff >/dev/null 2>&1; then
  echo "PATCH DOES NOT APPLY"; [ -n "$TRY_SEED_IN_PLACE" ] && git -C /repo checkout -- .; exit 9
fi
cd /verif
VERIF_REPO=$d VERIF_EVIDENCE_SUFFIX=.seed VERIF_NO_REPLAY=${VERIF_NO_REPLAY-1} ./check $p ${TRY_SEED_TIER:-quick} "$@" > /tmp/try_$s.log 2>&1
rc=$?
[ -n "$TRY_SEED_IN_PLACE" ] && git -C /repo checkout -- . || rm -rf "$d"
grep -E "VIOLATION|UNDECIDED|^\[" /tmp/try_$s.log | cut -c1-300
echo "seed=$s property=$p rc=$rc"
