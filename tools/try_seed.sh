#!/bin/sh
# usage: tools/try_seed.sh <seed-id> <property> [extra check args]   -- applies the seeded patch to /repo, runs the check, reverts
s=$1; p=$2; shift 2
cd /repo || exit 9
if ! git apply /verif/seeded/$s/patch.diff 2>/dev/null; then
  patch -p1 --no-backup-if-mismatch < /verif/seeded/$s/patch.diff >/dev/null || { echo "PATCH DOES NOT APPLY"; git checkout -- .; exit 9; }
fi
cd /verif
VERIF_NO_REPLAY=${VERIF_NO_REPLAY-1} ./check $p quick "$@" > /tmp/try_$s.log 2>&1
rc=$?
git -C /repo checkout -- .
grep -E "VIOLATION|UNDECIDED|^\[" /tmp/try_$s.log | cut -c1-300
echo "seed=$s property=$p rc=$rc"
