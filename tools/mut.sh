#!/bin/sh
# usage: tools/mut.sh <property> <unit[,unit]> <repo-relative file> <python-expr old=>new as two args>
#   tools/mut.sh C01 rangeproofs chain/src/txhashset/txhashset.rs 'if !proofs.is_empty() {' 'if proofs.len() >= batch_size {'
# Applies ONE textual replacement (must match exactly once unless MUT_COUNT is set) to a scratch copy of /repo's working tree and
# runs the unit against it (evidence suffix .mut).  Development-time mutation sanity: each mutant must turn the unit red.
p=$1; u=$2; f=$3; old=$4; new=$5
d=/tmp/mutrepo-$$
mkdir -p $d && rsync -a --exclude /target --exclude .git /repo/ $d/
python3 - "$d/$f" "$old" "$new" "${MUT_COUNT:-1}" <<'PY' || { rm -rf $d; exit 9; }
import sys
p,old,new,cnt=sys.argv[1],sys.argv[2],sys.argv[3],int(sys.argv[4])
s=open(p).read()
old=old.replace('\\n','\n').replace('\\t','\t'); new=new.replace('\\n','\n').replace('\\t','\t')
if s.count(old)!=cnt:
    print("MUTATION PATTERN matches %d times, expected %d"%(s.count(old),cnt)); sys.exit(1)
open(p,'w').write(s.replace(old,new))
PY
cd /verif
VERIF_REPO=$d VERIF_EVIDENCE_SUFFIX=.mut VERIF_NO_REPLAY=1 ./check $p quick --only $u > /tmp/mut_$$.log 2>&1
rc=$?
grep -E "VIOLATION|UNDECIDED|^\[C" /tmp/mut_$$.log | cut -c1-260
echo "mutant rc=$rc  ($old => $new)"
rm -rf $d /tmp/mut_$$.log
