#!/usr/bin/env python3
"""tools/set_verdict.py <seed-id> <verdict> <ran_check> <how...>  -- records the verdict of a seeded change in its meta.json
(after tools/confirm_seed.py has written the confirmation part)."""
import json, sys, os
sid, verdict, cmd = sys.argv[1], sys.argv[2], sys.argv[3]
how = " ".join(sys.argv[4:])
p = os.path.join(os.path.dirname(os.path.dirname(os.path.abspath(__file__))), "seeded", sid, "meta.json")
m = json.load(open(p)) if os.path.exists(p) else {"seed": sid, "property": sid.split("-")[0]}
m["verdict"], m["ran_check"], m["how"] = verdict, cmd, how
json.dump(m, open(p, "w"), indent=1)
print(sid, verdict)
