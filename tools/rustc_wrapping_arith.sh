#!/bin/sh
# RUSTC_WRAPPER for the native playback of a Kani counterexample in the SHIPPED arithmetic semantics:
# `cargo kani playback` forces -C overflow-checks=on; the last -C option wins, so append the release setting.
exec "$@" -C overflow-checks=off
