#!/bin/sh
# usage: tools/run_all.sh [quick|thorough]   -- runs every claimed check in sequence, summary in /tmp/run_all_<tier>.log
tier=${1:-quick}
cd "$(dirname "$0")/.."
out=/tmp/run_all_$tier.log
: > $out
for p in $(python3 -c "import json; print(' '.join(c['property_id'] for c in json.load(open('MANIFEST.json'))['checks']))"); do
  s=$(date +%s)
  ./check $p $tier > /tmp/run_all_${tier}_$p.log 2>&1
  rc=$?
  echo "$p rc=$rc wall=$(( $(date +%s) - s ))s $(grep -E '^\[C' /tmp/run_all_${tier}_$p.log | cut -c1-160)" >> $out
done
echo finished >> $out
