#!/bin/sh
# usage: tools/import_seeds.sh <PROP> <first-new-index> <crates> -- imports /tmp/wt-r8-<PROP>/SEED/{1,2} as seeded/<PROP>-<n>, <n+1>,
# removes the worktree, then confirms each (tools/confirm_seed.py) and tries it against ./check <PROP> quick; logs under /tmp.
p=$1; n=$2; crates=$3
cd "$(dirname "$0")/.."
for i in 1 2; do
  k=$((n+i-1)); d=seeded/$p-$k; mkdir -p $d
  cp /tmp/wt-${ROUND:-r8}-$p/SEED/$i/patch.diff /tmp/wt-${ROUND:-r8}-$p/SEED/$i/demo.rs /tmp/wt-${ROUND:-r8}-$p/SEED/$i/notes.md $d/ 2>/dev/null
done
[ -f /tmp/wt-${ROUND:-r8}-$p/SEED/observations.md ] && cp /tmp/wt-${ROUND:-r8}-$p/SEED/observations.md seeded/$p-$n/observations.md
git -C /repo worktree remove --force /tmp/wt-${ROUND:-r8}-$p
for i in 1 2; do
  k=$((n+i-1)); d=seeded/$p-$k
  dest=$(grep -m1 -oE 'dest: *[^ ]+' $d/demo.rs | sed 's/dest: *//')
  echo "$p-$k dest=$dest"
  python3 tools/confirm_seed.py $p-$k "$dest" "$crates" $p > /tmp/confirm_$p-$k.log 2>&1
  tail -1 /tmp/confirm_$p-$k.log
  tools/try_seed.sh $p-$k $p > /tmp/ts_$p-$k.out 2>&1
  tail -3 /tmp/ts_$p-$k.out
done
