#!/usr/bin/env python3
"""Regenerate /verif/MANIFEST.json from the table below + the unit files present on disk.
A property is claimed only if units/<id>/ contains at least one unit file; otherwise it is
listed under not_applicable with the reason given here."""
import glob
import json
import os

VERIF = os.path.dirname(os.path.dirname(os.path.abspath(__file__)))

BASELINE_OFF = ("cd /repo && cargo nextest run --workspace --no-fail-fast --test-threads 8 --offline "
                "|| (cd /repo && cargo test --workspace --no-fail-fast --offline)")

# id -> (level text, level note (trusted base), technique, design_ref)
CLAIMS = {
    "C07": (
        "Deductive proof (Verus, unbounded, all u64 inputs in the stated range) that the MMR position "
        "arithmetic of core/src/core/pmmr/pmmr.rs, whose function bodies are re-extracted verbatim from "
        "/repo on every run, agrees with an explicitly defined postorder tree (height, subtree ranges, leaf "
        "counts, leaf index <-> position, parent/sibling). Merkle-proof soundness is covered by a bounded "
        "Kani stand-in only and is labelled bounded in the evidence.",
        "Trusted: vstd arithmetic/bit lemmas and the leading_zeros/count_ones axioms; blake2b is outside "
        "(ideal-hash assumption for the bounded Merkle unit). PMMR::validate and rewindable_pmmr not covered.",
        "Verus contracts (requires/ensures/loop invariants + induction lemmas) on extracted real functions",
        "6 C07"),
}

CLAIMS["C11"] = (
    "Panic-freedom, bounded pre-allocation and loop progress of the real decoders, decided by Kani on the "
    "unmodified function bodies compiled in place: every byte string of length 0..=N (N per decoder, symbolic "
    "length so every truncation offset) is fed to MerkleProof::read, Segment::read/SegmentProof::read and the "
    "fixed-size wire types; each index, unwrap, slice and with_capacity is a proof obligation (with_capacity is "
    "stubbed by a checker asserting request <= 100_000 + 64*input_len bytes). The stateless validators on decoded "
    "values (Segment::validate and what it calls) are covered by a BOUNDED stand-in (mmr sizes and identifier "
    "ranges enumerated, stated in the evidence) and are never counted as proved.",
    "Trusted: KReader models BinReader over a slice; alloc::fmt::format stubbed; Kani checks arithmetic with debug "
    "semantics and stops at a wrap (wrap sites are listed in the evidence, behaviour beyond them is unexplored); "
    "prunable segments with a CRoaring bitmap, zip handling, JSON bodies, Codec timing are outside.",
    "Kani full-domain harnesses on the real crates (complete for fixed-length decoders) + bounded harnesses for validators",
    "6 C11")

NOT_APPLICABLE = {
    "C09": "quantifies over crash points and restart recovery through LMDB + files; a function contract speaks about one call that returns, and neither Kani nor Verus can execute LMDB/std::fs (DESIGN 7)",
    "C17": "quantifies over thread schedules; Kani has no thread support and Verus needs its own permission-typed primitives that grin's RwLock/LMDB code does not use (DESIGN 7)",
    "C18": "atomicity/isolation/durability are implemented by LMDB (C via FFI), the resize gate is cross-thread and its threshold floating point; out of reach of both back ends (DESIGN 7)",
}
NOT_BUILT = "not built yet: no unit of this property is finished in the current commit (see DESIGN 6 for the plan)"


def main():
    props = [json.loads(l)["id"] for l in open(os.path.join(VERIF, "properties.jsonl"))]
    checks = []
    na = []
    for pid in props:
        has_units = bool(glob.glob(os.path.join(VERIF, "units", pid, "*.kani.rs")) +
                         glob.glob(os.path.join(VERIF, "units", pid, "*.verus.rs")))
        if pid in CLAIMS and has_units:
            text, note, tech, ref = CLAIMS[pid]
            checks.append({
                "property_id": pid,
                "quick_cmd": "./check %s quick" % pid,
                "thorough_cmd": "./check %s thorough" % pid,
                "evidence_file": "/verif/evidence/%s.json" % pid,
                "replay_cmd_template": "./check %s --replay {path}" % pid,
                "engine": "contracts",
                "level_claimed": {"category": "proof", "text": text, "design_ref": ref},
                "level_note": note,
                "technique": tech,
            })
        else:
            na.append({"property_id": pid, "reason": NOT_APPLICABLE.get(pid, NOT_BUILT)})
    man = {
        "version": 1,
        "setup_cmd": "./setup.sh",
        "hooks": {
            "guard": "cfg(kani) -- contracts and harness modules are injected into a scratch copy of /repo at check time; nothing is committed to /repo",
            "enable": "automatic: `cargo kani` sets cfg(kani) in the scratch copy; Verus units extract function text from /repo and need no build of /repo",
            "baseline_off_cmd": BASELINE_OFF,
            "source_commits": [],
            "add_only": True,
        },
        "engines": [
            {"name": "contracts", "path": "/verif/check",
             "serves_properties": [c["property_id"] for c in checks],
             "kind_free_text": "contract-based deductive verification: Kani 0.68 function contracts / full-domain harnesses compiled in place on the real crates, and Verus 0.2026.09.13 on function text extracted mechanically from /repo on every run"},
        ],
        "checks": checks,
        "not_applicable": na,
        "notes": "exit 0 = all obligations discharged; exit 1 + VIOLATION line = obligation refuted; exit 2 = undecided (lost anchor / resource limit / tool error), never an alarm. See DESIGN.md.",
    }
    with open(os.path.join(VERIF, "MANIFEST.json"), "w") as f:
        json.dump(man, f, indent=1)
    print("claimed:", [c["property_id"] for c in checks])
    print("not_applicable:", [x["property_id"] for x in na])


if __name__ == "__main__":
    main()
