#!/usr/bin/env python3
"""Regenerate /verif/MANIFEST.json from the table below + the unit files present on disk.
A property is claimed only if units/<id>/ contains at least one unit file; otherwise it is
listed under not_applicable with the reason given here."""
import glob
import json
import os

VERIF = os.path.dirname(os.path.dirname(os.path.abspath(__file__)))

BASELINE_OFF = ("cd /repo && cargo nextest run --workspace --no-fail-fast --test-threads 8 --offline "
                "|| (cd /repo && cargo test --workspace --no-fail-fast --offline)")

KANI_TB = ("Trusted: Kani 0.68/CBMC 6.11 (bit-precise, overflow checks on); rustc/Kani compilation of the real crates; "
           "stubs listed in the evidence (global chain-type accessors replaced by an arbitrary per-harness value, alloc::fmt::format, hash finalisation where stated); ")
VERUS_TB = ("Trusted: Verus 0.2026.09.13 + Z3, vstd lemmas; the unit's prelude (spec functions and every external_body/assume_specification item, counted by a scan on each run); "
            "the extraction transformations T1-T6 listed in DESIGN 2.2 (source path, line span and SHA-256 of each extracted item are in the evidence); ")


# id -> (level text, level note (trusted base), technique, design_ref)
CLAIMS = {
    "C07": (
        "Deductive proof (Verus, unbounded, all u64 inputs in the stated range) that the MMR position "
        "arithmetic of core/src/core/pmmr/pmmr.rs, whose function bodies are re-extracted verbatim from "
        "/repo on every run, agrees with an explicitly defined postorder tree (height, subtree ranges, leaf "
        "counts, leaf index <-> position, parent/sibling); and that PMMR::push -- appending to the MMR -- writes the new leaf and then, for exactly as long as the current node is a right child in that tree, its parent at exactly the parent "
        "position as node_hash(stored hash of exactly the tree-sibling, current hash, parent position), stopping at the new peak (sizes < 2^61); ReadablePMMR::root is the right-to-left bagging of the peaks, H(p0, H(p1, ...)) indexed by the MMR size, and ZERO_HASH for the empty MMR. Merkle-proof soundness is covered by a bounded "
        "Kani stand-in only and is labelled bounded in the evidence.",
        "Trusted: vstd arithmetic/bit lemmas and the leading_zeros/count_ones axioms; blake2b is outside "
        "(ideal-hash assumption for the bounded Merkle unit). PMMR::validate and rewindable_pmmr not covered.",
        "Verus contracts (requires/ensures/loop invariants + induction lemmas) on extracted real functions",
        "6 C07"),
}

CLAIMS["C11"] = ('Panic-freedom, bounded pre-allocation and loop progress of the real decoders. UNBOUNDED (Verus on extracted text, abstract reader with a ghost remaining-bytes count): read_segment_item_count / read_segment_positions / read_segment_items, MerkleProof::read, Vec<T>::read, the p2p list readers (Locator, PeerAddrs) -- no panic for any declared count and any input length, every with_capacity within 100_000 + 64*remaining bytes, results consume the stated number of bytes, the greedy Vec loop terminates. COMPLETE for inputs up to N bytes (Kani on the unmodified functions, symbolic length so every truncation offset): MerkleProof::read/from_hex, Segment::read, RangeProof/Commitment/Signature read, BinReader::read_fixed_bytes, read_multi. BOUNDED stand-ins, never counted as proved: Segment::validate and callees (mmr sizes and identifiers enumerated), util::from_hex on short strings.',
    VERUS_TB + KANI_TB + "Kani checks arithmetic with debug semantics and stops at a wrap (wrap sites listed in the evidence; behaviour beyond them unexplored); prunable segments with a CRoaring bitmap, zip handling, JSON bodies, Codec timing are outside.",
    'Verus loop contracts on extracted readers + Kani full-domain harnesses on the real crates + bounded harnesses for validators', "6 C11")
CLAIMS["C01"] = ("Proof-level (Verus, unbounded) that grin's Rust code ASSEMBLES AND ENFORCES the balance equation over an abstract additive group: sum_commitments(overage) = outputs - inputs + overage*H for both signs of the overage and fails on i64::MIN; sum_kernel_excesses = (kernels, kernels + offset*G); verify_kernel_sums accepts iff the two sides are equal; TransactionBody::validate batch-verifies the range proof of EVERY output against that output's own commitment and the signature of every kernel (iterator loop with invariant); Transaction::validate / TransactionBody::validate_read / verify_features / Block::validate return Ok only if every listed rule was checked with the right operands (fee as overage for a tx, minus the subsidy and total-minus-previous offset for a block, coinbase check, lock heights, NRD rule); the overage operand of a transaction is exactly the (saturating) sum, over ANY number of kernels, of the 40-bit fee fields of its fee-carrying kernels, coinbase kernels contributing nothing (Verus, the two fold closures verified verbatim; plus a refactor-robust Kani harness for 0..=3 kernels, all fee values); Extension::validate (full-state validation: Chain::validate, fast sync, PIBD) returns Ok only if verify_kernel_sums ran with header.total_overage(genesis had a reward) and header.total_kernel_offset() and, unless fast validation was requested, EVERY range proof and EVERY kernel signature was verified -- verify_kernel_signatures covers every leaf of the kernel MMR whatever the kernel count and batch size (loop invariant); pipe::verify_block_sums stores exactly the sums verified over (parent's stored sums + block); header overage == -60 grin, total_overage, reward (Kani, full domain). NOT decided: that libsecp256k1 implements the group, range proofs and signatures (cryptographic assumptions), and the 'after any accepted history' clause (stored sums vs full state across reorgs).",
    VERUS_TB + KANI_TB + "all commitment arithmetic is libsecp256k1 behind FFI: modelled by assumed group contracts; callees of the validators are uninterpreted predicates.",
    'Verus contracts on extracted real functions over an abstract group + conjunction-of-checks contracts; Kani for the scalar side', "6 C01")
CLAIMS["C02"] = ("Proof-level (Verus) on the real code of (a) the unspent-leaf bitmap algebra: LeafSet add/remove change exactly one position, rewind(cutoff, rm) yields (old restricted to <= cutoff) union rm as a whole-view postcondition, discard restores the last flushed bitmap; (b) the single-input / single-output admission decision of UTXOView: validate_input returns (out, pos) only if the index maps the commitment to pos, the output MMR holds out at pos-1 and out's commitment is the input's; it fails when the commitment is not indexed or the leaf is gone; validate_output fails on an indexed, still-present duplicate; (c) the state changes of Extension: apply_input succeeds only on an unspent leaf and marks the same position spent in both the output and range-proof MMRs, apply_output refuses an indexed still-unspent duplicate commitment and otherwise pushes output and proof at the same position, apply_block returns Ok only if every output went through apply_output, the inputs passed validate_inputs against this extension's state, every resolved input went through apply_input and the position/spent indexes were updated for exactly those; input_pos_to_rewind (the compaction / rewind protection set is the union of the per-block input bitmaps) and Batch::get_block_input_bitmap (that bitmap holds EXACTLY the positions of the block's spent index -- the real map closure verified as a lifted function); (d) the fork machinery: rewind_and_apply_header_fork / rewind_and_apply_fork rewind to the first common ancestor (of the header being applied / of the current head) and re-apply exactly the stored headers / blocks between that point and the target, oldest first, each block only after coinbase maturity, UTXO validation and block sums were re-verified (termination of the walks not proved); Extension::rewind undoes exactly the blocks above the target, newest first, through rewind_single_block, which rewinds the MMRs to the previous header's sizes handing over exactly the block's spent positions, removes every created output from the position index and restores the entry of every re-unspent output. The chain-level statement over forks, reorganisations, restart and compaction is a history property and is not decided.",
    VERUS_TB + "croaring::Bitmap is C code: its operations are assumed set operations; the LMDB index and output MMR are uninterpreted functions; positions < 2^32-1; index positions >= 1.",
    'Verus contracts on extracted real functions over abstract bitmap / index / MMR views', "6 C02")
CLAIMS["C03"] = ("The 'head only ever moves to a fully validated block with strictly more cumulative difficulty' clause, proof-level: (Verus, extracted text incl. the extension closures lifted to named functions) "
    "pipe::process_block moves the stored chain head ONLY to the tip of the block being processed, ONLY if it has strictly more total difficulty than the head read at the start, and ONLY after check_known, the PoW check, header "
    "processing, validate_block and the whole extension closure (fork rewind, coinbase maturity, UTXO validation, block sums, apply + roots/sizes) succeeded; otherwise the extension is force-rolled-back and the head untouched; "
    "process_block_header / process_block_headers do the same for the header head (every header of a sync batch validated first). (Kani, full domain) has_more_work(h, tip) <=> h.total_difficulty > tip.total_difficulty for all u64 "
    "pairs, the derived ordering on Difficulty is the numeric one, Tip::from_header copies height/prev/difficulty. Chain::process_block re-checks the orphans waiting for height+1 after EVERY accepted block, also one that did not move the head (Verus). Delivery-order independence, the orphan pool itself and head = argmax over accepted blocks are whole-history properties "
    "through LMDB and are not decided.",
    VERUS_TB + KANI_TB + "txhashset::extending / header_extending are assumed (they build structs holding &mut borrows): Ok(v) only if the closure returned Ok(v), closure writes kept only without a forced rollback; the validation callees are uninterpreted 'this check passed' predicates; header hash stubbed to a constant in the Kani unit.",
    "Verus conjunction contracts on extracted real functions with lifted closures + Kani full-domain harness", "6 C03")
CLAIMS["C04"] = ("Proof-level: (Verus, on extracted text) validate_header returns Ok only if ALL header rules hold -- height = parent+1, scheduled version, strictly later timestamp, MMR counts grew, weight lower bound, and unless SKIP_POW: PoW verifies, cumulative difficulty strictly above the parent's, achieved difficulty >= the increase, increase == network retarget over the parent's ancestors, matching secondary scaling before version 5; UntrustedBlockHeader::read accepts only headers within the future-time limit with scheduled version, admissible edge bits, right proof size and MMR sizes within the per-height weight bound; the wtema retarget is total on its stated domain, deterministic, never below the minimum, exactly max(min, floor(last*14400/(14340+dt))) hence bounded per block, and next_difficulty selects it exactly for versions >= 5; the pre-HF4 DMA retarget (next_dma_difficulty, with the real damp and clamp verified verbatim) is total on its stated domain and returns exactly max(3, floor(S*60/T)) with S the sum of the last 60 difficulties and T = clamp(damp(window time span, 3600, 3), 3600, 2), so 1800 <= T <= 7200 whatever the timestamps. (Kani, all u64 heights x 4 chains) version schedule in 1..=5, monotone, equals the table; damp/clamp bounds; secondary ratio; graph_weight shift safety. NOT decided: how the DMA window is gathered and padded (difficulty_data_to_vector) and secondary_pow_scaling's counting of secondary headers, PoW itself (C05), the header-MMR root commitment, and mutation-of-a-valid-chain as a history statement.",
    VERUS_TB + KANI_TB + "helpers of the validators are uninterpreted; decoded heights < 2^48 for the weight-bound multiplication.",
    'Verus conjunction-of-checks + arithmetic contracts on extracted real functions; Kani full-domain harnesses', "6 C04")
CLAIMS["C05"] = ("Cycle verification, proof-level and UNBOUNDED (Verus on the extracted real text, any proof size, any siphash outputs): CuckatooContext::verify_impl (the primary PoW), CuckaroozContext::verify (the secondary PoW), "
    "CuckarooContext::verify and CuckaroomContext::verify (directed: one simple directed cycle, no node entered twice) return Ok ONLY IF the nonces are strictly ascending and within the edge mask and the 2*size edge endpoints form ONE SIMPLE CYCLE through all `size` edges: starting at endpoint 0 and repeatedly moving to the "
    "UNIQUE other endpoint at the same node and then to the other end of that edge, the walk returns to endpoint 0 for the first time after exactly `size` steps, every node met has exactly two endpoints (no branch is skipped) and all "
    "visited endpoints are distinct -- proved through an invariant of the bucket linked lists (prev = cyclic predecessor inside the bucket), full coverage of a bucket by the inner loop, injectivity of the walk and a pigeonhole bound; "
    "no index is out of range. Towards the converse, every error kind except the xor pre-check carries a proved reason: wrong-length / edge-too-big / not-ascending ONLY for that reason; 'branch' ONLY IF three distinct endpoints share a node (Cuckaroom: the walk runs into one of its own edges); 'dead end' ONLY IF some endpoint has no partner; 'too short' ONLY IF the walk closes after m != size steps -- each incompatible with one simple cycle through all edges, so a change that makes a verifier reject valid proofs through one of these paths fails a postcondition. All four verifiers are also proved to TERMINATE on every proof (the outer walk visits distinct endpoints, hence fewer than 2*size steps; the inner walk goes once round a bucket list). That the xor pre-check never fires on a simple cycle (pairing argument over xor) and SipHash itself are NOT decided. CuckaroodContext::verify (the fifth variant, header version 2): proved memory-safe, overflow-free and TERMINATING for every proof (all slot indices in range, bucket lists strictly descending, the cycle walk bounded by the proof size) -- the last point failed on the pinned tree (finding F11: a crafted proof made verify() spin forever) and was repaired; that its Ok implies a simple alternating cycle is not decided. "
    "Serialisation (Kani, complete per edge_bits): whatever Proof::read accepts re-encodes to the same bytes (non-zero padding bits refused), every nonce fits edge_bits, decode(encode(p)) == p, edge_bits 0 and >63 refused "
    "(quick: 10 representative edge_bits, thorough: all 63; proof sizes 42, 8, 5). Difficulty from a proof hash/scaling (Verus). BOUNDED stand-ins kept in the thorough tier only: accept <=> cycle for cycle length 4 (Kani, best effort, memory-capped).",
    VERUS_TB + KANI_TB + "siphash_block / sipnode uninterpreted; one assumed fact about u64::leading_zeros (>= 1 below 2^63) used only for `1 + mask`; proofsize in 1..=2^20.",
    "Verus contracts with list/walk invariants and lemmas on the extracted real verifiers + Kani complete harnesses for serialisation", "6 C05")
CLAIMS["C06"] = ("Proof-level (Verus, extracted text) at two levels. Pipeline: pipe::process_block leaves the stored head untouched on EVERY error path and when the block has no more work, in which case the extension is "
    "force-rolled-back (closure lifted and verified); rewind_and_apply_fork / rewind_and_apply_header_fork re-apply exactly the fork's stored blocks/headers after rewinding to the common ancestor. Store: AppendOnlyFile::rewind/discard -- "
    "discard restores the last flushed view (buffer emptied, start position back to the flushed size, backup cleared) after any rewind, with 'flushed' as the invariant; read_from_buffer in range; PMMRBackend::discard discards "
    "hash file, data file and leaf set together. txhashset::extending and header_extending themselves (real text, arbitrary closure, the real &mut borrows): on Err or forced rollback every MMR backend gets discard(), none is synced, sizes and the bitmap accumulator are untouched; commit/sync/sizes only on Ok without rollback. process_block_header(s) share the C03 units. That an LMDB child batch aborts on drop is assumed, not decided.",
    VERUS_TB + "File/Mmap external; the variable-size (size file) path is abstracted by T6 helpers; obligations of extending/header_extending are assertions at the exits against a ghost snapshot taken after the closure ran.", "Verus contracts on extracted real functions", "6 C06")
CLAIMS["C10"] = ("Proof-level (Kani, complete) for the fixed-size consensus types decided so far: KernelFeatures (all four variants), FeeFields, NRDRelativeHeight: for ALL 17-byte strings x ALL u32 protocol "
    "versions x both NRD settings, whatever read accepts re-encodes byte-identically (unknown tags, non-zero reserved bytes, out-of-range heights refused); decode(encode(v)) == v for all values and versions; "
    "the hash-mode byte stream is version independent; Inputs hash-mode stream version independent; read_multi on an empty count (Verus); verify_sorted_and_unique. See the evidence for the full type list (chain, p2p, pow types). Full containers (bodies, blocks, segments) are not under contract.",
    KANI_TB + "KReader/KWriter model BinReader/BinWriter over slices.", "Kani complete harnesses on the real read/write functions", "6 C10")
CLAIMS["C12"] = ("Aggregation and cut-through, proof-level (Verus, extracted text, slices and transaction lists of ANY length): transaction::cut_through never indexes out of bounds or underflows; on Ok the returned inputs + cut inputs "
    "are a permutation of the given inputs (same for outputs), the cut slices pair up by commitment, NO commitment remains on both sides, neither remaining side holds a duplicate; it fails ONLY when a duplicate remains after the cut. "
    "transaction::aggregate returns a transaction whose kernels are exactly the concatenation of the operands' kernels, whose offset is the sum of their offsets and whose inputs/outputs are the cut_through result of the concatenated "
    "inputs/outputs (the union minus exactly the matched spend pairs). Order/grouping independence follows from these multiset-level postconditions only up to the sort done by Transaction::new (assumed a permutation). "
    "Compact blocks (Verus, verbatim functions): CompactBlock::from(block) keeps the header and carries in full exactly the coinbase outputs and coinbase kernels and, for every other kernel, exactly its short id under (header hash, nonce); Block::hydrate_from(cb, txs) keeps the header and yields, as multisets, the cut-through remainder of the transactions plus cb's full outputs / kernels; a proved lemma composes the two into the round trip (same header, same multisets of inputs, outputs, kernels) for transactions that account for exactly the block's non-coinbase part. transaction::deaggregate (three filtering loops verbatim, the real aggregate included): the result's inputs / outputs / kernels are exactly the elements of the multi-kernel transaction that do not occur -- as whole elements, not merely by commitment or excess -- in the aggregate of the known transactions, each once, and its offset is the difference of the two offsets (the offset pipeline itself is an assumed helper). Validity of the aggregate (needs the group equation of C01 plus libsecp256k1), the canonical sort order (so 'identical block' is decided only up to the order fixed by sort_unstable), the selection of transactions by short id (SipHash) and Block::from_reward are not decided.",
    VERUS_TB + "slice::swap via assume_specification (documented behaviour), sort/dedup helpers assumed as stated in the unit header; elements are abstract with a ghost commitment key.",
    "Verus contracts with a merge-state invariant and multiset lemmas on the extracted real functions", "6 C12")
CLAIMS["C13"] = ('Proof-level (Verus, extracted text): with the feature on, an NRD kernel is refused iff the same excess has an index entry fewer than relative_height blocks below the block being applied, an accepted one is recorded, other variants are untouched (txhashset::apply_kernel_rules); NRDRelativeHeight accepts exactly 1..=10080 (Kani, all u64, in the C10 unit). Block::verify_kernel_lock_heights returns Ok iff no height-locked kernel has lock_height > block height, for any number of kernels (Verus loop invariant); BOUNDED stand-in (<= 3 kernels, Kani): NRD kernels need the flag and header version >= 4, body lock_height == max. Pool side: Chain::verify_tx_lock_height admits a transaction iff its lock height is at most head height + 1. UTXOView::verify_coinbase_maturity refuses a spend unless the height is at least the maturity and the highest-position coinbase being spent lies within the output MMR size of the header `maturity` blocks below (the two iterator chains feeding it are assumed helpers). Per-fork maintenance of the NRD index during rewind and the pool path are not decided.',
    VERUS_TB + KANI_TB + "the NRD index is an uninterpreted most-recent-entry function.",
    'Verus contract on the extracted NRD rule + Kani bounded harness for block lock heights', "6 C13")
CLAIMS["C14"] = ("The admission clauses, proof-level. (Verus, extracted text) TransactionPool::add_to_pool stores an entry in the stempool or txpool only if that entry -- after de-aggregation -- passed the kernel-variant check, "
    "PAYS AT LEAST THE MINIMUM FEE FOR ITS WEIGHT whatever the pool's fill level, validates standalone under the transaction weight limit and meets the lock-height rule; is_acceptable refuses a low-fee transaction as LowFeeTransaction before "
    "looking at capacity (found violated on the pinned tree and repaired: finding F8); reconcile_block always runs the full re-validation of txpool and stempool. The inner Pool::add_to_pool stores an entry ONLY after the aggregate of every transaction already in the pool, the optional extra (txpool aggregate, for the stempool) and the new one passed standalone validation, Chain::validate_tx and the block-sums check at the given header -- the joint-validity invariant of the property for submissions -- and Pool::reconcile re-admits entries through that same gate. (Kani) for ALL input/output/kernel counts and all chain types, a body admitted by "
    "the transaction weight rule assembles with the coinbase into a block within the block weight limit (weight formula, AsTransaction/AsLimitedTransaction/AsBlock rules); the minimum-fee comparison uses shifted_fee == (sum of kernel fees) "
    ">> max fee_shift and weight * base. Eviction and bucketing (evict_transaction / bucket_transactions: iterator code; an evicted parent can leave a multi-parent dependent behind until the next reconcile -- observed by reading, not decided), reorg-cache handling, the mineable set and what Chain::validate_tx itself checks are not decided.",
    VERUS_TB + KANI_TB + "the pools' own add_to_pool / reconcile are abstract callees with ghost logs; convert_tx_v2 assumed to preserve the fee functions; counts installed with Vec::set_len (no element is read); fee fold bounded to 2 kernels.",
    "Verus conjunction contracts on the extracted admission path + Kani full-domain harnesses on the real weight/fee functions", "6 C14")
CLAIMS["C15"] = ("Proof-level for the incremental-update plumbing. (Verus, extracted text) Extension::apply_to_bitmap_accumulator hands BitmapAccumulator::apply the affected leaf indices SORTED, the leaf iterator starting at the chunk start of the "
    "smallest one and size = number of output leaves (what apply's rebuild-from-the-earliest-chunk logic relies on); txhashset::extending never installs the accumulator of a rolled-back or failed extension (shared with C06); "
    "chunk_start_idx(i) == i - i % 1024. (Kani, all u64) chunk_start_idx(i) == 1024*chunk_idx(i) <= i < +1024, monotone; the in-chunk index used by apply_from is always inside the chunk. "
    "apply_from / rewind_prior / pad_left themselves (peekable iterators over a hashing MMR), path independence across whole histories, restart and rejection of tampered output roots are not decided.",
    VERUS_TB + KANI_TB + "BitmapAccumulator::apply is an abstract callee whose stated precondition (sorted, aligned start) is taken from its body's own comment.", "Verus contracts on extracted real functions + Kani full-domain harness", "6 C15")
CLAIMS["C19"] = ("Frame level, proof-level. (Kani) for ALL 11-byte headers x chain types x versions, wrong magic is refused having read only the magic bytes; a known type is accepted only with msg_len <= 4 x the published per-type limit "
    "(independent table); unknown types only within the default limit; nothing within limits is refused; MsgHeader round trip. (Verus, the whole real text of Codec::read_inner and next_len) the frame state machine never underflows or indexes out of "
    "range in its length arithmetic (found violated on the pinned tree for a Headers frame with item count 0: finding F9, repaired); a Headers batch holds 1..=32 headers, is returned with remaining == 0 only when the frame's announced bytes are "
    "exactly used up, and after a non-final batch the state expects exactly `remaining` more items; bytes-without-items and items-without-bytes are refused with the state reset; an unknown type is skipped and the state reset; next_len never exceeds "
    "what the current state announces. (Verus) negotiate_protocol_version returns the lower version; the self-connection nonce ring always contains the nonce it hands out, only ever holds old nonces plus the new one, loses at most one entry and only "
    "when full, and stays below its cap. Byte-level fragmentation (the buffer is an abstract byte queue), I/O timeouts, attachments' contents and the socket-level genesis/self-connection refusals are not decided.",
    KANI_TB + VERUS_TB + "BytesMut/TcpStream/BufReader are abstract (lengths only); mem::swap/replace/take via vstd / assume_specification.", "Kani complete harnesses on the real read/write functions + Verus contracts on the extracted codec and handshake functions", "6 C19")
CLAIMS["C20"] = ("The encodings and the message layer, proof-level. (Kani, full domain) derivation path <-> identifier and serialized path are exact inverses for every depth byte and all u32 elements; parent_path / "
    "last_path_index for depths 0..=4; the range-proof message: for EVERY identifier with depth 0..=4, both switch modes and every amount, check_output on the builder's own proof_message recovers exactly that identifier and mode "
    "(ProofBuilder and LegacyProofBuilder), a different amount is not recognised, and an arbitrary 20-byte message is accepted only with a zero prefix, a known switch byte and a matching commitment. (Verus, extracted text) "
    "<ViewKey as ProofBuild>::check_output returns None ONLY for a malformed message, a path shorter than the view key's depth, a differing child number at its depth, a hardened step below it, or a derived key that does not match -- "
    "so outputs at the view key's own depth are recognised. ExtKeychain::blind_sum (verbatim, its four closures verified as lifted functions) returns EXACTLY from_secret_key(secp_sum(P, N)) with P / N the derived keys and blinding-factor keys of the positive / negative side in order, and fails exactly when secp fails; BlindingFactor::split asks secp for exactly `self - blind_1`. BIP32 derivation, commitments, range-proof create/verify/rewind and the group arithmetic itself (order independence, add-then-subtract) are libsecp256k1 behind FFI and are not decided.",
    KANI_TB + VERUS_TB + "the Keychain in the message harnesses is a mock with an injective `commit`; ckd_pub / commit / to_pubkey / secp blind_sum / derive_key are uninterpreted in the Verus units; std iterator adaptors are abstract stand-ins (the closures are the real text).", "Kani full-domain harnesses on the real functions + Verus contract on the extracted view-key matcher", "6 C20")
CLAIMS["C08"] = ("Deductive proof (Verus) on the real PruneList code of the representation invariant every translated read depends on: one cache entry per pruned root in position order, "
    "each the prefix sum of the per-root contributions (2*(2^h-1) nodes, 2^h leaves); get_shift/get_leaf_shift/get_total_* return exactly those prefix sums, calculate_next_* extend them, "
    "append_single and cleanup_subtree preserve the invariant and append / truncate the root sequence as specified; plus AppendOnlyFile::discard/rewind (flushed view restored); PMMRBackend::get_data / get_hash / is_compacted: an element or leaf hash is returned only for a position still in the leaf set (prunable MMR), so a removed leaf never reads as present. "
    "PruneList::append's recursion (its two steps append_single / cleanup_subtree are decided, is_pruned is decided as 'a pruned root itself or inside the next pruned root's subtree'), the PMMRBackend position translation, file rewriting during compaction, reopen and the chain-level statement are not decided.",
    VERUS_TB + "croaring::Bitmap viewed as a sorted sequence with assumed rank/maximum/add/remove_range contracts; node height used through its C07 contract; shift sums assumed to fit u64.",
    "Verus contracts + representation invariant on extracted real functions", "6 C08")
CLAIMS["C16"] = ("Arithmetic, proof-level (Verus, unbounded): on the real SegmentIdentifier code, for every identifier with height <= 62 and idx*2^height < 2^62 and every mmr_size: the first position is the "
    "position of leaf idx*2^height, a full segment is exactly one complete subtree (last = first + 2^(height+1) - 2, and that position has height `height` in the explicit tree), a partial last segment ends "
    "at mmr_size - 1; capacity/offset/unpruned size as specified; Desegmenter::calc_bitmap_mmr_sizes (verbatim) never panics and yields leaf count == ceil(output leaves / 1024) and bitmap MMR size == the size of an MMR with that many leaves (found violated on the pinned tree -- a panic for at most 1024 outputs -- and repaired: finding F10). Uses the C07 contracts modularly (included and re-verified). Segment::first_unpruned_parent (verbatim loop): returns the segment root at last+1, or climbs the family branch to the FIRST position whose hash the segment carries, stepping up ONLY IF the bitmap has no set bit in exactly the parent's leaf-index range clamped to the MMR (a narrower or shifted range fails the invariant); Segment::root is abstract there. Segment::root (real control flow; iterator adaptors replaced by a verified cursor stand-in, the 'required leaf' closure verified verbatim): never panics or underflows on any received segment, returns Ok ONLY IF every leaf position of the segment range that is required -- no bitmap, or the bitmap has the leaf's or its sibling's index, or it is the MMR's last position -- has an entry in the segment (so omitting a leaf the bitmap marks unspent makes validation fail), and returns Ok(None) only for a prunable MMR; that the hash it returns is the Merkle root is not decided by proof. Extension::update_leaf_sets removes from both leaf sets exactly the spent leaf indices from 0 up to the bitmap's maximum (so a spent genesis output does not survive state sync). Tamper-resistance of Segment::validate is covered only by the bounded "
    "C11 no-panic unit; Segmenter/Desegmenter assembly, prunable segments with a bitmap, and 'never finalises a wrong state' are not decided.",
    VERUS_TB, "Verus contracts on extracted real functions, reusing the C07 position-arithmetic proofs", "6 C16")
BOUNDED_ONLY = set()

NOT_APPLICABLE = {
    "C09": "quantifies over crash points and restart recovery through LMDB + files; a function contract speaks about one call that returns, and neither Kani nor Verus can execute LMDB/std::fs (DESIGN 7)",
    "C17": "quantifies over thread schedules; Kani has no thread support and Verus needs its own permission-typed primitives that grin's RwLock/LMDB code does not use (DESIGN 7)",
    "C18": "atomicity/isolation/durability are implemented by LMDB (C via FFI), the resize gate is cross-thread and its threshold floating point; out of reach of both back ends (DESIGN 7)",
}
NOT_BUILT = "not built yet: no unit of this property is finished in the current commit (see DESIGN 6 for the plan)"


def main():
    props = [json.loads(l)["id"] for l in open(os.path.join(VERIF, "properties.jsonl"))]
    checks = []
    na = []
    for pid in props:
        has_units = bool(glob.glob(os.path.join(VERIF, "units", pid, "*.kani.rs")) +
                         glob.glob(os.path.join(VERIF, "units", pid, "*.verus.rs")))
        if pid in CLAIMS and has_units:
            text, note, tech, ref = CLAIMS[pid]
            checks.append({
                "property_id": pid,
                "quick_cmd": "./check %s quick" % pid,
                "thorough_cmd": "./check %s thorough" % pid,
                "evidence_file": "/verif/evidence/%s.json" % pid,
                "replay_cmd_template": "./check %s --replay {path}" % pid,
                "engine": "contracts",
                "level_claimed": {"category": "model_checking" if pid in BOUNDED_ONLY else "proof",
                                  "text": text, "design_ref": ref},
                "level_note": note,
                "technique": tech,
            })
        else:
            na.append({"property_id": pid, "reason": NOT_APPLICABLE.get(pid, NOT_BUILT)})
    man = {
        "version": 1,
        "setup_cmd": "./setup.sh",
        "hooks": {
            "guard": "cfg(kani) -- contracts and harness modules are injected into a scratch copy of /repo at check time; nothing is committed to /repo",
            "enable": "automatic: `cargo kani` sets cfg(kani) in the scratch copy; Verus units extract function text from /repo and need no build of /repo",
            "baseline_off_cmd": BASELINE_OFF,
            "source_commits": [],
            "add_only": True,
        },
        "engines": [
            {"name": "contracts", "path": "/verif/check",
             "serves_properties": [c["property_id"] for c in checks],
             "kind_free_text": "contract-based deductive verification: Kani 0.68 function contracts / full-domain harnesses compiled in place on the real crates, and Verus 0.2026.09.13 on function text extracted mechanically from /repo on every run"},
        ],
        "checks": checks,
        "not_applicable": na,
        "notes": "exit 0 = all obligations discharged; exit 1 + VIOLATION line = obligation refuted; exit 2 = undecided (lost anchor / resource limit / tool error), never an alarm. See DESIGN.md.",
    }
    with open(os.path.join(VERIF, "MANIFEST.json"), "w") as f:
        json.dump(man, f, indent=1)
    print("claimed:", [c["property_id"] for c in checks])
    print("not_applicable:", [x["property_id"] for x in na])


if __name__ == "__main__":
    main()
