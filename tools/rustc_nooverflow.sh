#!/bin/bash
# RUSTC_WRAPPER used only by C11 units ("release-arith" profile): Kani hard-codes
# `-C overflow-checks=on`; the property is stated for the shipped release arithmetic, where an
# integer wrap is not a panic.  This wrapper rewrites that one flag for workspace crates and
# passes everything else through untouched.
args=()
for a in "$@"; do
  if [ "$a" = "-Coverflow-checks=on" ]; then a="-Coverflow-checks=off"; fi
  if [ "$a" = "overflow-checks=on" ]; then a="overflow-checks=off"; fi
  args+=("$a")
done
exec "${args[@]}"
