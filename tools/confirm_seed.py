#!/usr/bin/env python3
"""tools/confirm_seed.py <seed-id> <demo-dest-relative-path> <crate>[,<crate>...] [property] [needs...]

Independently confirms a seeded change (seeded/<seed-id>/patch.diff + demo.rs) in a fresh
scratch worktree of /repo: (1) demo passes on HEAD, (2) patch applies and compiles, demo
FAILS with it, (3) the existing test suites of the named crates still pass with the patch
(demo removed).  Writes seeded/<seed-id>/meta.json and removes the worktree.
"""
import json
import os
import re
import subprocess
import sys
import time

VERIF = os.path.dirname(os.path.dirname(os.path.abspath(__file__)))


def sh(cmd, cwd, timeout=3600):
    p = subprocess.run(cmd, cwd=cwd, shell=True, stdout=subprocess.PIPE, stderr=subprocess.STDOUT,
                       text=True, timeout=timeout, errors="replace")
    return p.returncode, p.stdout


def main():
    sid, dest, crates = sys.argv[1], sys.argv[2], sys.argv[3].split(",")
    sd = os.path.join(VERIF, "seeded", sid)
    wt = "/tmp/cs-%s" % sid
    sh("git -C /repo worktree remove --force %s; rm -rf %s" % (wt, wt), "/")
    rc, out = sh("git -C /repo worktree add --detach %s HEAD" % wt, "/")
    assert rc == 0, out
    sh("cp -a /repo/target %s/target" % wt, "/")
    meta = {"seed": sid, "property": sid.split("-")[0], "ran": [], "confirmed": False}
    try:
        test_name = os.path.basename(dest).replace(".rs", "")
        crate_dir = dest.split("/")[0]
        pkg = {"core": "grin_core", "p2p": "grin_p2p", "chain": "grin_chain", "store": "grin_store",
               "pool": "grin_pool", "keychain": "grin_keychain", "util": "grin_util",
               "servers": "grin_servers", "api": "grin_api"}[crate_dir]
        sh("cp %s/demo.rs %s/%s" % (sd, wt, dest), "/")
        demo_cmd = "cargo test -p %s --offline --test %s 2>&1 | tail -40" % (pkg, test_name)
        rc1, o1 = sh(demo_cmd, wt)
        ok_head = "test result: ok" in o1 and "FAILED" not in o1
        meta["ran"].append({"cmd": demo_cmd, "tree": "HEAD", "passed": ok_head,
                            "tail": o1[-600:]})
        rc, o = sh("git apply %s/patch.diff" % sd, wt)
        meta["patch_applies"] = rc == 0
        rc2, o2 = sh(demo_cmd, wt)
        failed_with = ("test result: FAILED" in o2) or ("panicked" in o2 and "test result: ok" not in o2) or "error: test failed" in o2
        compiled = "error[E" not in o2 and "could not compile" not in o2
        meta["ran"].append({"cmd": demo_cmd, "tree": "HEAD+patch", "failed_as_expected": failed_with,
                            "compiled": compiled, "tail": o2[-900:]})
        sh("rm -f %s/%s" % (wt, dest), "/")
        suites_ok = True
        for c in crates:
            cmd = "cargo test -p %s --offline 2>&1 | grep -E '^test result|FAILED|failed|error' | head -40" % c
            rc3, o3 = sh(cmd, wt, timeout=7200)
            fails = [l for l in o3.split("\n") if ("FAILED" in l or "failed" in l or l.startswith("error"))
                     and "0 failed" not in l]
            # the one test known to fail on the unmodified tree
            fails = [l for l in fails if "test_store_indices" not in l]
            okc = ("test result: ok" in o3) and not [l for l in fails if "test result: FAILED" in l and False]
            bad = [l for l in o3.split("\n") if l.startswith("test result: FAILED")]
            meta["ran"].append({"cmd": "cargo test -p %s --offline" % c, "tree": "HEAD+patch",
                                "result_lines": o3.strip().split("\n")[:30], "passed": not bad})
            if bad:
                suites_ok = False
        meta["confirmed"] = bool(ok_head and meta["patch_applies"] and failed_with and compiled and suites_ok)
    finally:
        sh("git -C /repo worktree remove --force %s; rm -rf %s; git -C /repo worktree prune" % (wt, wt), "/")
    if len(sys.argv) > 4:
        meta["needs_to_manifest"] = " ".join(sys.argv[4:])
    meta["demo_dest"] = dest
    meta["confirmed_at"] = time.strftime("%Y-%m-%dT%H:%M:%SZ", time.gmtime())
    json.dump(meta, open(os.path.join(sd, "meta.json"), "w"), indent=1)
    print(sid, "confirmed" if meta["confirmed"] else "NOT CONFIRMED")


if __name__ == "__main__":
    main()
