// Demonstration for finding F11 (property C05): CuckaroodContext::verify does not terminate on a
// crafted proof.  Drop into core/tests/ and run
//     cargo test -p grin_core --offline --test c05_cuckarood_nontermination -- --nocapture
//
// The test searches (a few seconds) for 42 ascending nonces in a small Cuckarood graph
// (edge_bits 12) whose edges contain a "rho": two direction-0 edges A < B with the same U node x,
// and a direction-1 edge C with C.u == x and C.v == B.v.  The walk goes
//     A.u -> (unique dir-1 edge at x: C) -> C.v -> (unique dir-0 edge at that V node: B) -> B.u = x
//     -> C -> C.v -> B -> ...
// and never comes back to endpoint 0, so the `loop` in verify never exits.  The remaining 39
// nonces only balance the two directions (21 / 21) and make both xor pre-checks pass.
// verify() is run on a helper thread; the test fails if it has not returned after 5 seconds.
use blake2::blake2b::blake2b;
use grin_core::global;
use grin_core::pow::{new_cuckarood_ctx, Proof};
use std::collections::HashMap;
use std::sync::mpsc;
use std::time::Duration;

fn rotl(x: u64, b: u32) -> u64 { (x << b) | (x >> (64 - b)) }
struct Sip(u64, u64, u64, u64);
impl Sip {
	fn round(&mut self, rot_e: u32) {
		self.0 = self.0.wrapping_add(self.1); self.2 = self.2.wrapping_add(self.3);
		self.1 = rotl(self.1, 13); self.3 = rotl(self.3, 16);
		self.1 ^= self.0; self.3 ^= self.2;
		self.0 = rotl(self.0, 32);
		self.2 = self.2.wrapping_add(self.1); self.0 = self.0.wrapping_add(self.3);
		self.1 = rotl(self.1, 17); self.3 = rotl(self.3, rot_e);
		self.1 ^= self.2; self.3 ^= self.0;
		self.2 = rotl(self.2, 32);
	}
	fn hash(&mut self, nonce: u64, rot_e: u32) {
		self.3 ^= nonce; self.round(rot_e); self.round(rot_e);
		self.0 ^= nonce; self.2 ^= 0xff;
		for _ in 0..4 { self.round(rot_e); }
	}
	fn digest(&self) -> u64 { (self.0 ^ self.1) ^ (self.2 ^ self.3) }
}
// same as grin_core::pow::siphash::siphash_block(keys, nonce, 25, false) (that module is private)
fn siphash_block(v: &[u64; 4], nonce: u64) -> u64 {
	let nonce0 = nonce & !63; let nonce_i = nonce & 63;
	let mut s = Sip(v[0], v[1], v[2], v[3]);
	let mut h = vec![0u64; 64];
	for i in 0..64 { s.hash(nonce0 + i, 25); h[i as usize] = s.digest(); }
	let mut x = h[nonce_i as usize];
	let from = if nonce_i == 63 { 64 } else { 63 };
	for i in from..64 { x ^= h[i as usize]; }
	x
}
fn keys_of(header: &[u8]) -> [u64; 4] {
	let h = blake2b(32, &[], header);
	let b = h.as_bytes();
	let mut k = [0u64; 4];
	for i in 0..4 { let mut a = [0u8; 8]; a.copy_from_slice(&b[8 * i..8 * i + 8]); k[i] = u64::from_le_bytes(a); }
	k
}
struct Rng(u64);
impl Rng { fn next(&mut self) -> u64 { self.0 ^= self.0 << 13; self.0 ^= self.0 >> 7; self.0 ^= self.0 << 17; self.0 } }

const EDGE_BITS: u8 = 12;

fn craft() -> (Vec<u8>, Vec<u64>) {
	let n_edges = 1u64 << EDGE_BITS;
	let node_mask = (1u64 << (EDGE_BITS - 1)) - 1;
	let mut rng = Rng(0x9e3779b97f4a7c15);
	for hn in 0u32..2000 {
		let mut header = vec![0u8; 80];
		header[76..80].copy_from_slice(&hn.to_le_bytes());
		let keys = keys_of(&header);
		let es: Vec<(u64, u64)> = (0..n_edges).map(|n| { let e = siphash_block(&keys, n); (e & node_mask, (e >> 32) & node_mask) }).collect();
		// B (even) and C (odd) with identical (u, v); A (even) < B with A.u == B.u, A.v != B.v
		let mut odd: HashMap<(u64, u64), u64> = HashMap::new();
		for n in (1..n_edges).step_by(2) { odd.insert(es[n as usize], n); }
		for b in (0..n_edges).step_by(2) {
			let (x, y) = es[b as usize];
			let c = match odd.get(&(x, y)) { Some(c) => *c, None => continue };
			let a = match (0..b).step_by(2).find(|a| es[*a as usize].0 == x && es[*a as usize].1 != y) { Some(a) => a, None => continue };
			// exactly one dir-1 edge at U node x among the chosen ones, exactly one dir-0 edge at V node y
			let evens: Vec<u64> = (a + 2..n_edges).step_by(2).filter(|n| *n != b && es[*n as usize].1 != y).collect();
			let odds: Vec<u64> = (1..n_edges).step_by(2).filter(|n| *n != c && es[*n as usize].0 != x).collect();
			if evens.len() < 40 || odds.len() < 40 { continue; }
			for _try in 0..200 {
				let mut set = vec![a, b, c];
				while set.iter().filter(|n| *n % 2 == 0).count() < 2 + 18 { let n = evens[(rng.next() % evens.len() as u64) as usize]; if !set.contains(&n) { set.push(n); } }
				while set.iter().filter(|n| *n % 2 == 1).count() < 1 + 19 { let n = odds[(rng.next() % odds.len() as u64) as usize]; if !set.contains(&n) { set.push(n); } }
				let (mut tu, mut tv) = (0u64, 0u64);
				for n in &set { tu ^= es[*n as usize].0; tv ^= es[*n as usize].1; }
				// one more even and one more odd edge closing both xors
				let mut omap: HashMap<(u64, u64), u64> = HashMap::new();
				for o in &odds { if !set.contains(o) { omap.insert(es[*o as usize], *o); } }
				for e in &evens {
					if set.contains(e) { continue; }
					let (eu, ev) = es[*e as usize];
					if let Some(o) = omap.get(&(tu ^ eu, tv ^ ev)) {
						set.push(*e); set.push(*o);
						set.sort();
						assert_eq!(set.len(), 42);
						return (header, set);
					}
				}
			}
		}
	}
	panic!("no crafted proof found");
}

#[test]
fn cuckarood_verify_terminates_on_a_rho_shaped_edge_set() {
	global::set_local_chain_type(global::ChainTypes::Mainnet); // proof size 42
	let (header, nonces) = craft();
	println!("header nonce bytes {:?}, nonces {:?}", &header[76..80], nonces);
	let (tx, rx) = mpsc::channel();
	std::thread::spawn(move || {
		global::set_local_chain_type(global::ChainTypes::Mainnet);
		let mut ctx = new_cuckarood_ctx(EDGE_BITS, 42).unwrap();
		ctx.set_header_nonce(header, None, false).unwrap();
		let mut proof = Proof::new(nonces);
		proof.edge_bits = EDGE_BITS;
		let r = ctx.verify(&proof);
		let _ = tx.send(format!("{:?}", r));
	});
	match rx.recv_timeout(Duration::from_secs(5)) {
		Ok(r) => { println!("verify returned {}", r); assert!(r.starts_with("Err"), "a rho is not a cycle"); }
		Err(_) => panic!("CuckaroodContext::verify did not return within 5 seconds: the cycle walk never reaches endpoint 0 again"),
	}
}
