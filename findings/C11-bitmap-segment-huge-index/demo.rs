// dest: chain/tests/finding_c11_bitmap_segment_huge_index.rs
// run:  cargo test -p grin_chain --offline --test finding_c11_bitmap_segment_huge_index
//       (add `--config profile.dev.overflow-checks=false` for the shipped arithmetic: same outcome)
//
// C11: decoding untrusted bytes never panics.  An OutputBitmapSegment message whose
// identifier puts its first leaf at insertion index >= 2^63 passed BitmapSegment::read;
// p2p/src/protocol.rs then calls into_segment() on it, where 2 * n wraps in
// insertion_to_pmmr_index and Segment::from_parts asserts on the no longer increasing
// leaf positions (debug builds already panic on the multiplication).

use grin_chain as chain;
use grin_core as core;

use self::chain::txhashset::BitmapSegment;
use self::core::ser::{self, DeserializationMode, ProtocolVersion};

fn seg(height: u8, idx: u64, n_chunks: u8) -> Vec<u8> {
	let mut b = vec![height];
	b.extend_from_slice(&idx.to_be_bytes());
	b.extend_from_slice(&1u16.to_be_bytes()); // n_blocks
	b.push(n_chunks); // chunks in the block
	b.push(1); // mode Positive
	b.extend_from_slice(&0u16.to_be_bytes()); // 0 entries
	b.extend_from_slice(&0u64.to_be_bytes()); // proof: 0 hashes
	b
}

fn decode(bytes: &[u8]) -> Result<(), String> {
	let s: BitmapSegment = ser::deserialize(
		&mut &bytes[..],
		ProtocolVersion(1),
		DeserializationMode::default(),
	)
	.map_err(|e| format!("read: {:?}", e))?;
	s.into_segment()
		.map(|_| ())
		.map_err(|e| format!("into_segment: {:?}", e))
}

#[test]
fn huge_segment_index_is_an_error_not_a_panic() {
	for (h, idx, c) in [
		(1u8, 1u64 << 62, 2u8),
		(0, 1 << 63, 1),
		(2, 1 << 61, 4),
		(0, u64::MAX, 1),
		(1, (1 << 62) - 1, 2),
	] {
		let bytes = seg(h, idx, c);
		let r = std::panic::catch_unwind(move || decode(&bytes));
		println!("height={} idx={} chunks={} -> {:?}", h, idx, c, r);
		assert!(r.is_ok(), "decoder panicked for height={} idx={}", h, idx);
	}
}

#[test]
fn ordinary_segments_still_decode() {
	for (h, idx, c) in [(0u8, 0u64, 1u8), (1, 0, 2), (2, 3, 4), (1, (1 << 61) - 1, 2)] {
		let bytes = seg(h, idx, c);
		assert_eq!(decode(&bytes), Ok(()), "height={} idx={}", h, idx);
	}
}
