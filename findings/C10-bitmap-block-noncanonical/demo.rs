// dest: chain/tests/finding_c10_bitmap_block_noncanonical.rs
// run:  cargo test -p grin_chain --offline --test finding_c10_bitmap_block_noncanonical
// F23 (C10): BitmapBlock::read (the blocks of a PIBD OutputBitmapSegment, a wire object) accepted index lists out of order or
// with repeats and any serialization mode for any content, and normalised them on re-encoding. Every encoding below was
// accepted on 0158f5fb6 and re-encoded to DIFFERENT bytes; with the repair each is refused, the canonical one still round-trips.
use grin_chain::txhashset::BitmapSegment;
use grin_core::ser::{self, DeserializationMode, ProtocolVersion};

/// segment identifier (height 0, idx 0), one block, <block bytes>, empty proof
fn segment_bytes(block: &[u8]) -> Vec<u8> {
	let mut v = vec![0u8]; // height
	v.extend_from_slice(&0u64.to_be_bytes()); // idx
	v.extend_from_slice(&1u16.to_be_bytes()); // n_blocks
	v.extend_from_slice(block);
	v.extend_from_slice(&0u64.to_be_bytes()); // proof: 0 hashes
	v
}

fn roundtrip(block: &[u8]) -> Option<Vec<u8>> {
	let bytes = segment_bytes(block);
	let seg: Result<BitmapSegment, _> =
		ser::deserialize(&mut &bytes[..], ProtocolVersion(1), DeserializationMode::default());
	seg.ok().map(|s| ser::ser_vec(&s, ProtocolVersion(1)).unwrap())
}

#[test]
fn noncanonical_bitmap_blocks_are_refused() {
	// canonical: 1 chunk, Positive, 2 indices 3 < 9
	let canonical = [1u8, 1, 0, 2, 0, 3, 0, 9];
	assert_eq!(roundtrip(&canonical), Some(segment_bytes(&canonical)));

	let unsorted = [1u8, 1, 0, 2, 0, 9, 0, 3];
	let duplicate = [1u8, 1, 0, 2, 0, 3, 0, 3];
	let mut raw_sparse = vec![1u8, 0];
	raw_sparse.extend_from_slice(&[0u8; 128]); // Raw mode for an all-zero chunk (writer would use Positive, count 0)
	let mut negative_sparse = vec![1u8, 2];
	negative_sparse.extend_from_slice(&1022u16.to_be_bytes()); // Negative mode listing 1022 clear bits of 1024
	for i in 2u16..1024 {
		negative_sparse.extend_from_slice(&i.to_be_bytes());
	}
	for (name, enc) in [
		("unsorted indices", &unsorted[..]),
		("duplicate index", &duplicate[..]),
		("raw mode for a sparse block", &raw_sparse[..]),
		("negative mode for a sparse block", &negative_sparse[..]),
	] {
		match roundtrip(enc) {
			None => {}
			Some(re) => assert_eq!(
				re,
				segment_bytes(enc),
				"{}: accepted and re-encoded to different bytes",
				name
			),
		}
	}
}
