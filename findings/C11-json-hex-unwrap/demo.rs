// dest: core/tests/finding_c11_json_hex_unwrap.rs
// run:  cargo test -p grin_core --offline --test finding_c11_json_hex_unwrap
//
// C11: any decoder reachable from the API yields a value or an error.  The foreign
// JSON-RPC `push_transaction(tx: Transaction, ..)` deserializes a Transaction with serde;
// `offset` goes through secp_ser::blind_from_hex -> BlindingFactor::from_hex, which
// unwrapped the result of util::from_hex: any string that is not valid hex panicked.

use grin_core as core;

use self::core::core::Transaction;
use keychain::{BlindingFactor, Identifier};

#[test]
fn bad_hex_offset_is_an_error_not_a_panic() {
	for off in ["zz", "0", "\u{e9}", "0x", "abc", "12 34"] {
		let json = format!(
			"{{\"offset\":\"{}\",\"body\":{{\"inputs\":[],\"outputs\":[],\"kernels\":[]}}}}",
			off
		);
		let r = std::panic::catch_unwind(|| {
			serde_json::from_str::<Transaction>(&json)
				.map(|_| ())
				.map_err(|e| e.to_string())
		});
		println!("offset={:?} -> {:?}", off, r);
		assert!(r.is_ok(), "decoder panicked for offset {:?}", off);
	}
	// valid hex still decodes
	let json = format!(
		"{{\"offset\":\"{}\",\"body\":{{\"inputs\":[],\"outputs\":[],\"kernels\":[]}}}}",
		"11".repeat(32)
	);
	assert!(serde_json::from_str::<Transaction>(&json).is_ok());
}

#[test]
fn from_hex_returns_errors() {
	for h in ["zz", "0", "\u{e9}"] {
		assert!(matches!(std::panic::catch_unwind(|| BlindingFactor::from_hex(h).is_err()), Ok(true)));
		assert!(matches!(std::panic::catch_unwind(|| Identifier::from_hex(h).is_err()), Ok(true)));
		let json = format!("\"{}\"", h);
		let r = std::panic::catch_unwind(|| serde_json::from_str::<Identifier>(&json).is_err());
		assert!(matches!(r, Ok(true)), "Identifier from JSON {:?}", h);
	}
	assert!(BlindingFactor::from_hex(&"ab".repeat(32)).is_ok());
	assert!(Identifier::from_hex("0300000000000000000000000000000000").is_ok());
}
