// dest: chain/tests/obs_c13_pool_maturity_header_fork.rs
// run:  cargo test -p grin_chain --offline --test obs_c13_pool_maturity_header_fork
// Observation demo (NOT a seed): exercises unmodified HEAD, see SEED/observations.md.
// Coinbase maturity must be decided against the fork the block extends.
//
// History built here (coinbase maturity is 3 under AutomatedTesting):
//
//   g - 1 - 2 - 3 - A4 - A5 - A6 - A7            (full blocks, our body chain)
//                \
//                 - B4' - B5' - B6' - B7' - B8'   (headers only, more work)
//
// B4' contains a tx splitting coinbase 1 into five outputs, so at every height
// above the fork point the output MMR of the B fork is larger than that of the A fork.
//
// Block A8 (built on A7, our chain head) spends the coinbase of A6.
// 8 < 6 + 3 so A8 must be refused as spending an immature coinbase,
// regardless of what headers we happen to know about on the competing B fork.
// A sibling A8 spending the coinbase of A5 (8 == 5 + 3) must be accepted.

use self::chain::types::Tip;
use self::chain::Chain;
use self::core::core::hash::Hashed;
use self::core::core::{Block, BlockHeader, KernelFeatures, Transaction};
use self::core::global::ChainTypes;
use self::core::libtx::{self, build, ProofBuilder};
use self::core::pow::Difficulty;
use self::core::{consensus, global, pow};
use self::keychain::{ExtKeychain, ExtKeychainPath, Keychain};
use chrono::Duration;
use grin_chain as chain;
use grin_core as core;
use grin_keychain as keychain;
use grin_util as util;

mod chain_test_helper;

use self::chain_test_helper::{clean_output_dir, init_chain};

const DIFF: u64 = 10;

fn key_id(idx: u32) -> keychain::Identifier {
	ExtKeychainPath::new(1, idx, 0, 0, 0).to_identifier()
}

// Build a block on top of "prev" (roots set via the provided chain, which must
// know all full blocks up to and including "prev").
fn prepare_block<K: Keychain>(
	kc: &K,
	prev: &BlockHeader,
	chain: &Chain,
	key_idx: u32,
	txs: &[Transaction],
) -> Block {
	let fees = txs.iter().map(|tx| tx.fee()).sum();
	let reward =
		libtx::reward::output(kc, &ProofBuilder::new(kc), &key_id(key_idx), fees, false).unwrap();
	let mut b = Block::new(prev, txs, Difficulty::from_num(DIFF), reward).unwrap();
	b.header.timestamp = prev.timestamp + Duration::seconds(60);
	b.header.pow.total_difficulty = prev.total_difficulty() + Difficulty::from_num(DIFF);
	b.header.pow.proof = pow::Proof::random(global::proofsize());
	chain.set_txhashset_roots(&mut b).unwrap();
	b
}

fn spend_coinbase<K: Keychain>(kc: &K, from_idx: u32, to_idx: u32) -> Transaction {
	build::transaction(
		KernelFeatures::Plain { fee: 20000.into() },
		&[
			build::coinbase_input(consensus::REWARD, key_id(from_idx)),
			build::output(consensus::REWARD - 20000, key_id(to_idx)),
		],
		kc,
		&ProofBuilder::new(kc),
	)
	.unwrap()
}

#[test]
fn pool_coinbase_maturity_ignores_headers_of_competing_fork() {
	let dir_a = ".grin.obs_c13_header_fork_a";
	let dir_b = ".grin.obs_c13_header_fork_b";
	clean_output_dir(dir_a);
	clean_output_dir(dir_b);
	global::set_local_chain_type(ChainTypes::AutomatedTesting);
	util::init_test_logger();
	assert_eq!(global::coinbase_maturity(), 3);

	{
		let kc = ExtKeychain::from_random_seed(false).unwrap();
		let genesis = pow::mine_genesis_block().unwrap();

		// chain_a is the node under test.
		// chain_b is a scratch node used only to build the blocks of the B fork.
		let chain_a = init_chain(dir_a, genesis.clone());
		let chain_b = init_chain(dir_b, genesis.clone());

		// Common history: blocks 1, 2, 3 (coinbase keys 1, 2, 3).
		let mut prev = chain_a.head_header().unwrap();
		for n in 1..=3 {
			let b = prepare_block(&kc, &prev, &chain_a, n, &[]);
			prev = b.header.clone();
			chain_a
				.process_block(b.clone(), chain::Options::SKIP_POW)
				.unwrap();
			chain_b.process_block(b, chain::Options::SKIP_POW).unwrap();
		}
		let header_3 = prev.clone();

		// A fork: A4..A7, coinbase only (coinbase keys 4..7). Full blocks on chain_a.
		let mut prev_a = header_3.clone();
		for n in 4..=7 {
			let b = prepare_block(&kc, &prev_a, &chain_a, n, &[]);
			prev_a = b.header.clone();
			chain_a.process_block(b, chain::Options::SKIP_POW).unwrap();
		}
		let header_a7 = prev_a.clone();
		assert_eq!(chain_a.head().unwrap(), Tip::from_header(&header_a7));

		// Candidate blocks at height 8 on the A fork (built now, processed later).
		// "early" spends the coinbase of A6: 8 < 6 + 3, one block too early.
		// "ok" spends the coinbase of A5: 8 == 5 + 3, exactly mature.
		let _block_a8_early = prepare_block(&kc, &header_a7, &chain_a, 8, &[spend_coinbase(&kc, 6, 60)]);
		let _block_a8_ok = prepare_block(&kc, &header_a7, &chain_a, 9, &[spend_coinbase(&kc, 5, 50)]);

		// B fork: B4' spends coinbase 1 (1 + 3 <= 4, mature) into five outputs,
		// followed by four empty blocks. Full blocks processed on chain_b only.
		let split = {
			let v = (consensus::REWARD - 20000) / 5;
			build::transaction(
				KernelFeatures::Plain { fee: 20000.into() },
				&[
					build::coinbase_input(consensus::REWARD, key_id(1)),
					build::output(v, key_id(201)),
					build::output(v, key_id(202)),
					build::output(v, key_id(203)),
					build::output(v, key_id(204)),
					build::output(consensus::REWARD - 20000 - 4 * v, key_id(205)),
				],
				&kc,
				&ProofBuilder::new(&kc),
			)
			.unwrap()
		};
		let mut headers_b = vec![];
		let mut prev_b = header_3.clone();
		for n in 4..=8u32 {
			let txs = if n == 4 { vec![split.clone()] } else { vec![] };
			let b = prepare_block(&kc, &prev_b, &chain_b, 100 + n, &txs);
			prev_b = b.header.clone();
			chain_b.process_block(b.clone(), chain::Options::SKIP_POW).unwrap();
			headers_b.push(b.header.clone());
		}
		assert_eq!(chain_b.head().unwrap().height, 8);

		// The node under test learns the headers (only) of the heavier B fork.
		for h in &headers_b {
			chain_a
				.process_block_header(h, chain::Options::SKIP_POW)
				.unwrap();
		}
		assert_eq!(
			chain_a.header_head().unwrap(),
			Tip::from_header(headers_b.last().unwrap())
		);
		// Body chain is still on the A fork.
		assert_eq!(chain_a.head().unwrap(), Tip::from_header(&header_a7));

		// Sanity: the B fork really has the larger output MMR at the cutoff height (8 - 3 = 5).
		let header_a5 = chain_a
			.get_block_header(&chain_a.get_block_header(&header_a7.prev_hash).unwrap().prev_hash)
			.unwrap();
		assert_eq!(header_a5.height, 5);
		assert!(headers_b[1].height == 5 && headers_b[1].output_mmr_size > header_a5.output_mmr_size);

		// OBSERVATION (unmodified code): the pool-facing check is evaluated for "next block" = 8
		// on top of A7, but reads the cutoff header (height 5) from the header MMR,
		// which currently follows the B fork.
		let early = spend_coinbase(&kc, 6, 60);
		let res = chain_a.verify_coinbase_maturity(&early.inputs());
		assert!(
			res.is_err(),
			"Chain::verify_coinbase_maturity accepted a spend of the height-6 coinbase for block 8"
		);
	}

	clean_output_dir(dir_a);
	clean_output_dir(dir_b);
}
