// Demo for SEED/1 (C12): de-aggregating a known subset must return the remainder,
// also when every transaction involved carries a zero kernel offset.
//
// Drop this file into core/tests/ as core/tests/seed_c12_deagg_zero_offset.rs and run
//   cargo test -p grin_core --offline --test seed_c12_deagg_zero_offset

use grin_core::core::{
	aggregate, deaggregate, KernelFeatures, Transaction, TxKernel, Weighting,
};
use grin_core::global;
use grin_core::libtx::build::{self, input, output};
use grin_core::libtx::{aggsig, ProofBuilder};
use keychain::{BlindingFactor, ExtKeychain, Keychain};

fn test_setup() {
	global::set_local_chain_type(global::ChainTypes::AutomatedTesting);
}

// A fully valid 1-input 1-output transaction whose kernel offset is zero
// (the whole blinding sum goes into the kernel excess, nothing is split off).
fn tx1i1o_zero_offset() -> Transaction {
	let keychain = ExtKeychain::from_random_seed(false).unwrap();
	let builder = ProofBuilder::new(&keychain);
	let key_id1 = ExtKeychain::derive_key_id(1, 1, 0, 0, 0);
	let key_id2 = ExtKeychain::derive_key_id(1, 2, 0, 0, 0);

	let (tx, blind_sum) = build::partial_transaction(
		Transaction::empty(),
		&[input(5, key_id1), output(3, key_id2)],
		&keychain,
		&builder,
	)
	.unwrap();

	let secp = keychain.secp();
	let mut kernel = TxKernel::with_features(KernelFeatures::Plain { fee: 2.into() });
	let msg = kernel.msg_to_sign().unwrap();
	let skey = blind_sum.secret_key(secp).unwrap();
	kernel.excess = secp.commit(0, skey).unwrap();
	let pubkey = kernel.excess.to_pubkey(secp).unwrap();
	kernel.excess_sig = aggsig::sign_with_blinding(secp, &msg, &blind_sum, Some(&pubkey)).unwrap();
	kernel.verify().unwrap();

	let tx = tx.replace_kernel(kernel);
	assert_eq!(tx.offset, BlindingFactor::zero());
	tx
}

// Same shape, but built the usual way (random non-zero offset).
fn tx1i1o_random_offset() -> Transaction {
	let keychain = ExtKeychain::from_random_seed(false).unwrap();
	let builder = ProofBuilder::new(&keychain);
	let key_id1 = ExtKeychain::derive_key_id(1, 1, 0, 0, 0);
	let key_id2 = ExtKeychain::derive_key_id(1, 2, 0, 0, 0);
	let tx = build::transaction(
		KernelFeatures::Plain { fee: 2.into() },
		&[input(5, key_id1), output(3, key_id2)],
		&keychain,
		&builder,
	)
	.unwrap();
	tx
}


#[test]
fn deaggregate_remainder_with_zero_offset() {
	test_setup();
	let tx1 = tx1i1o_random_offset();
	let tx2 = tx1i1o_zero_offset();
	tx1.validate(Weighting::AsTransaction).unwrap();
	tx2.validate(Weighting::AsTransaction).unwrap();
	let tx12 = aggregate(&[tx1.clone(), tx2.clone()]).unwrap();
	tx12.validate(Weighting::AsTransaction).unwrap();
	assert_eq!(tx12.offset, tx1.offset);
	let rem = deaggregate(tx12, &[tx1]).expect("de-aggregating a known subset must succeed");
	rem.validate(Weighting::AsTransaction).unwrap();
	assert_eq!(rem, tx2);
}

#[test]
fn aggregate_offsets_cancel() {
	test_setup();
	// tx with offset k and tx with offset -k: build second by moving offset
	let tx1 = tx1i1o_random_offset();
	let secp = util::static_secp_instance();
	let neg = {
		let secp = secp.lock();
		let k = tx1.offset.secret_key(&secp).unwrap();
		let mut n = k.clone();
		n.neg_assign(&secp).unwrap();
		BlindingFactor::from_secret_key(n)
	};
	// second tx: zero-offset tx whose kernel excess absorbs +k, offset -k  => still balanced
	let tx2 = tx1i1o_with_offset(neg);
	tx2.validate(Weighting::AsTransaction).unwrap();
	let r = aggregate(&[tx1.clone(), tx2.clone()]);
	let agg = r.expect("aggregating two valid txs must succeed");
	agg.validate(Weighting::AsTransaction).unwrap();
	assert_eq!(agg.offset, BlindingFactor::zero());
}

fn tx1i1o_with_offset(offset: BlindingFactor) -> Transaction {
	let keychain = ExtKeychain::from_random_seed(false).unwrap();
	let builder = ProofBuilder::new(&keychain);
	let key_id1 = ExtKeychain::derive_key_id(1, 1, 0, 0, 0);
	let key_id2 = ExtKeychain::derive_key_id(1, 2, 0, 0, 0);
	let (tx, blind_sum) = build::partial_transaction(
		Transaction::empty(),
		&[input(5, key_id1), output(3, key_id2)],
		&keychain,
		&builder,
	)
	.unwrap();
	let secp = keychain.secp();
	// kernel blind = blind_sum - offset
	let kb = secp.blind_sum(vec![blind_sum.secret_key(secp).unwrap()], vec![offset.secret_key(secp).unwrap()]).unwrap();
	let kbf = BlindingFactor::from_secret_key(kb.clone());
	let mut kernel = TxKernel::with_features(KernelFeatures::Plain { fee: 2.into() });
	let msg = kernel.msg_to_sign().unwrap();
	kernel.excess = secp.commit(0, kb).unwrap();
	let pubkey = kernel.excess.to_pubkey(secp).unwrap();
	kernel.excess_sig = aggsig::sign_with_blinding(secp, &msg, &kbf, Some(&pubkey)).unwrap();
	kernel.verify().unwrap();
	tx.replace_kernel(kernel).with_offset(offset)
}
