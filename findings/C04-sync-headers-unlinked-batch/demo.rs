// dest: chain/tests/finding_c04_unlinked_header_batch.rs
// run:  cargo test -p grin_chain --offline --test finding_c04_unlinked_header_batch
//
// C04: a header is accepted only if it commits to the header-MMR root of its
// ancestors.  A header A whose prev_root is garbage is refused by every entry
// point on its own -- but sent in one Headers batch together with an unrelated
// honest header that comes AFTER it, it used to be stored (only the ancestry of
// the batch's last header is checked against the header MMR), after which the
// "header already known" shortcut accepted it and its full block became the
// body head.

use grin_chain as chain;
use grin_core as core;
use grin_keychain as keychain;

mod chain_test_helper;

use self::chain_test_helper::{clean_output_dir, genesis_block, init_chain};
use crate::chain::store::DifficultyIter;
use crate::chain::{Chain, Options};
use crate::core::core::hash::{Hashed, ZERO_HASH};
use crate::core::core::{Block, BlockHeader};
use crate::core::libtx::{reward, ProofBuilder};
use crate::core::{consensus, global, pow};
use crate::keychain::{ExtKeychain, ExtKeychainPath, Keychain};
use chrono::Duration;

fn mine_on<K: Keychain>(
	chain: &Chain,
	keychain: &K,
	prev: &BlockHeader,
	secs_after_prev: i64,
	key_idx: u32,
	bad_root: bool,
) -> Block {
	let info = consensus::next_difficulty(
		prev.height + 1,
		DifficultyIter::from(prev.hash(), chain.store()),
	);
	let pk = ExtKeychainPath::new(1, key_idx, 0, 0, 0).to_identifier();
	let rew = reward::output(keychain, &ProofBuilder::new(keychain), &pk, 0, false).unwrap();
	let mut b = Block::new(prev, &[], info.difficulty, rew).unwrap();
	b.header.timestamp = prev.timestamp + Duration::seconds(secs_after_prev);
	b.header.pow.secondary_scaling = info.secondary_scaling;
	chain.set_txhashset_roots(&mut b).unwrap();
	if bad_root {
		b.header.prev_root = ZERO_HASH;
	}
	let edge_bits = global::min_edge_bits();
	b.header.pow.proof.edge_bits = edge_bits;
	pow::pow_size(
		&mut b.header,
		info.difficulty,
		global::proofsize(),
		edge_bits,
	)
	.unwrap();
	b
}

#[test]
fn header_with_bad_prev_root_is_not_stored_through_an_unlinked_batch() {
	global::set_local_chain_type(global::ChainTypes::AutomatedTesting);
	let chain_dir = ".grin.finding_c04_unlinked_header_batch";
	clean_output_dir(chain_dir);

	let keychain = ExtKeychain::from_random_seed(false).unwrap();
	let genesis = genesis_block(&keychain);
	let chain = init_chain(chain_dir, genesis);

	for n in 1..=2u32 {
		let prev = chain.head_header().unwrap();
		let b = mine_on(&chain, &keychain, &prev, 60, n, false);
		chain.process_block(b, Options::NONE).unwrap();
	}
	let h2 = chain.head_header().unwrap();

	// an honest header at height 3, header only: header_head = 3, body head = 2
	let b3 = mine_on(&chain, &keychain, &h2, 60, 3, false);
	chain.process_block_header(&b3.header, Options::NONE).unwrap();
	assert_eq!(chain.header_head().unwrap().height, 3);
	assert_eq!(chain.head().unwrap().height, 2);

	// A: a sibling of b3, honest in everything except prev_root
	let a = mine_on(&chain, &keychain, &h2, 61, 4, true);

	// on its own A is refused everywhere
	assert!(chain.process_block_header(&a.header, Options::NONE).is_err());
	assert!(chain.process_block(a.clone(), Options::NONE).is_err());
	let sync_head = chain.header_head().unwrap();
	assert!(chain
		.sync_block_headers(&[a.header.clone()], sync_head, Options::NONE)
		.is_err());
	assert!(chain.get_block_header(&a.header.hash()).is_err());

	// in a batch whose LAST header is unrelated to it
	let res = chain.sync_block_headers(
		&[a.header.clone(), b3.header.clone()],
		sync_head,
		Options::NONE,
	);
	println!("sync_block_headers([A, b3]) -> {:?}", res);

	// A must not have been accepted
	assert!(
		chain.get_block_header(&a.header.hash()).is_err(),
		"header with a garbage prev_root was stored"
	);
	let res = chain.process_block(a.clone(), Options::NONE);
	println!("process_block(A) -> {:?}", res.as_ref().map(|_| ()));
	assert!(res.is_err(), "block whose header has a garbage prev_root accepted");
	assert_ne!(chain.head().unwrap().last_block_h, a.header.hash());

	clean_output_dir(chain_dir);
}

#[test]
fn linked_header_batches_still_sync() {
	global::set_local_chain_type(global::ChainTypes::AutomatedTesting);
	let src_dir = ".grin.finding_c04_unlinked_header_batch_src";
	let dst_dir = ".grin.finding_c04_unlinked_header_batch_dst";
	clean_output_dir(src_dir);
	clean_output_dir(dst_dir);

	let keychain = ExtKeychain::from_random_seed(false).unwrap();
	let genesis = genesis_block(&keychain);
	let src = init_chain(src_dir, genesis.clone());
	let dst = init_chain(dst_dir, genesis);

	let mut headers = vec![];
	for n in 1..=5u32 {
		let prev = src.head_header().unwrap();
		let b = mine_on(&src, &keychain, &prev, 60, n, false);
		headers.push(b.header.clone());
		src.process_block(b, Options::NONE).unwrap();
	}
	let sync_head = dst.header_head().unwrap();
	dst.sync_block_headers(&headers[..3], sync_head, Options::NONE)
		.unwrap();
	let sync_head = dst.header_head().unwrap();
	dst.sync_block_headers(&headers[3..], sync_head, Options::NONE)
		.unwrap();
	assert_eq!(dst.header_head().unwrap().height, 5);
	assert_eq!(dst.header_head().unwrap().last_block_h, headers[4].hash());

	clean_output_dir(src_dir);
	clean_output_dir(dst_dir);
}
