// dest: core/tests/finding_c11_json_rangeproof_length.rs
// run:  cargo test -p grin_core --offline --test finding_c11_json_rangeproof_length
//
// C11: any decoder reachable from the API yields a value or an error.  A JSON `Output`
// (inside the Transaction of the foreign JSON-RPC push_transaction) decodes its `proof`
// with secp_ser::rangeproof_from_hex, which handed the hex-decoded bytes to the secp
// crate's RangeProof visitor; that one writes `ret[i]` into a [u8; 675] for every byte
// of the sequence: 676 or more bytes are an index-out-of-bounds panic (release too).

use grin_core as core;

use self::core::core::Output;

fn output_json(proof_bytes: usize) -> String {
	format!(
		"{{\"features\":\"Plain\",\"commit\":\"08{}\",\"proof\":\"{}\"}}",
		"11".repeat(32),
		"ab".repeat(proof_bytes)
	)
}

#[test]
fn over_long_proof_is_an_error_not_a_panic() {
	for n in [676usize, 677, 6000, 100_000] {
		let json = output_json(n);
		let r = std::panic::catch_unwind(|| {
			serde_json::from_str::<Output>(&json)
				.map(|_| ())
				.map_err(|e| e.to_string())
		});
		println!("proof bytes={} -> {:?}", n, r);
		assert!(matches!(r, Ok(Err(_))), "proof of {} bytes", n);
	}
}

#[test]
fn proofs_up_to_the_maximum_still_decode() {
	for n in [0usize, 1, 674, 675] {
		let out: Output = serde_json::from_str(&output_json(n)).unwrap();
		assert_eq!(out.proof.plen, n);
	}
}
