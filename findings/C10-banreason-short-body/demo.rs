// dest: p2p/tests/finding_c10_banreason_short_body.rs
// run:  cargo test -p grin_p2p --offline --test finding_c10_banreason_short_body
// F22 (C10): BanReason::read accepted a body shorter than its 4-byte tag (0..=3 bytes) and decoded it as
// ReasonForBan::None, which re-encodes as 00 00 00 00: a count inconsistent with the content was defaulted, not refused.
// Fails on 8897677ba, passes on 0158f5fb6.
use grin_core::ser::{self, DeserializationMode, ProtocolVersion};
use grin_p2p::msg::BanReason;

#[test]
fn truncated_ban_reason_is_refused() {
	for len in 0..4usize {
		let bytes = vec![0u8; len];
		let r: Result<BanReason, _> = ser::deserialize(
			&mut &bytes[..],
			ProtocolVersion(1),
			DeserializationMode::default(),
		);
		assert!(r.is_err(), "a {}-byte BanReason body was accepted", len);
	}
	let ok: Result<BanReason, _> = ser::deserialize(
		&mut &[0u8, 0, 0, 3][..],
		ProtocolVersion(1),
		DeserializationMode::default(),
	);
	assert!(ok.is_ok());
}
