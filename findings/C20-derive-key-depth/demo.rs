// dest: keychain/tests/finding_c20_derive_key_depth.rs
// run:  cargo test -p grin_keychain --offline --test finding_c20_derive_key_depth
// F24 (C20): ExtKeychain::derive_key (and commit, which calls it) indexed the four-element derivation path with the identifier's
// depth byte unchecked: an Identifier with depth 5..=255 -- accepted by Identifier::from_hex / from_bytes / ExtKeychain::derive_key_id --
// panicked at keychain/src/keychain.rs:109 (index out of bounds) instead of answering an error. Fails on b4cab53c9, passes after.
use grin_keychain::{ExtKeychain, Identifier, Keychain, SwitchCommitmentType};

#[test]
fn over_deep_identifier_is_an_error_not_a_panic() {
	let keychain = ExtKeychain::from_random_seed(true).unwrap();
	// depth byte 5, four path elements
	let id = Identifier::from_hex("0500000001000000020000000300000004").unwrap();
	let r = std::panic::catch_unwind(std::panic::AssertUnwindSafe(|| {
		keychain.derive_key(7, &id, SwitchCommitmentType::Regular)
	}));
	assert!(r.is_ok(), "derive_key panicked for an identifier of depth 5");
	assert!(r.unwrap().is_err());
	// the deepest valid path still derives
	let ok = ExtKeychain::derive_key_id(4, 1, 2, 3, 4);
	assert!(keychain.derive_key(7, &ok, SwitchCommitmentType::Regular).is_ok());
	assert!(keychain.commit(7, &ok, SwitchCommitmentType::Regular).is_ok());
}
