use grin_core as core;
use grin_store as store;
use std::fs;
use crate::core::core::hash::{DefaultHashable, Hash, Hashed};
use crate::core::core::pmmr::{Backend, ReadablePMMR, PMMR};
use crate::core::ser::{Error, PMMRable, ProtocolVersion, Readable, Reader, Writeable, Writer};

#[derive(Copy, Clone, Debug, PartialEq, Eq)]
struct TestElem(u32);
impl DefaultHashable for TestElem {}
impl PMMRable for TestElem {
	type E = Self;
	fn as_elmt(&self) -> Self::E { self.clone() }
	fn elmt_size() -> Option<u16> { Some(4) }
}
impl Writeable for TestElem { fn write<W: Writer>(&self, writer: &mut W) -> Result<(), Error> { writer.write_u32(self.0) } }
impl Readable for TestElem { fn read<R: Reader>(reader: &mut R) -> Result<TestElem, Error> { Ok(TestElem(reader.read_u32()?)) } }

#[test]
fn discard_after_pruned_subtree_append() {
	let data_dir = "./target/tmp/demo_discard_prune_list".to_string();
	let _ = fs::remove_dir_all(&data_dir);
	fs::create_dir_all(&data_dir).unwrap();
	let mut backend: store::pmmr::PMMRBackend<TestElem> =
		store::pmmr::PMMRBackend::new(data_dir.clone(), true, ProtocolVersion(1), None).unwrap();
	// a committed unit of work: nothing yet
	backend.sync().unwrap();
	let size_before = backend.unpruned_size();
	assert_eq!(size_before, 0);
	// an uncommitted unit of work that appends a pruned subtree (what a PIBD segment starting with a pruned subtree does)...
	{
		let mut pmmr: PMMR<'_, TestElem, _> = PMMR::at(&mut backend, 0);
		pmmr.push_pruned_subtree(TestElem(7).hash(), 2).unwrap();
	}
	// ...and is then discarded
	backend.discard();
	// discarding uncommitted work must not change what the MMR reports
	assert_eq!(backend.unpruned_size(), size_before, "size after discard");
	// and the same unit of work can be done again
	{
		let mut pmmr: PMMR<'_, TestElem, _> = PMMR::at(&mut backend, 0);
		pmmr.push_pruned_subtree(TestElem(7).hash(), 2).unwrap();
		assert_eq!(pmmr.unpruned_size(), 3);
	}
	let _: Hash = TestElem(1).hash();
}
