// Demonstration for the C16 finding "Desegmenter::new panics for an archive header with at most 1024 outputs".
//
// Drop this file into chain/tests/ (e.g. chain/tests/c16_desegmenter_small_chain.rs, next to
// chain_test_helper.rs) and run
//
//     cargo test -p grin_chain --offline --test c16_desegmenter_small_chain
//
// A syncing node derives the size of the "unspent bitmap" MMR it expects from the number of
// outputs committed to by the archive header (one 1024-bit chunk per 1024 outputs) and
// validates every bitmap segment it is sent against that size.  The serving node builds its
// bitmap accumulator from the unspent output indices.  Both sides must agree for every
// possible number of outputs, in particular when the number of outputs at the archive header
// is an exact multiple of 1024.
//
// The test plays the part of a serving node (bitmap accumulator + `Segment::from_pmmr` +
// `BitmapSegment` wire conversion) against a real `Desegmenter` obtained from a freshly
// initialised `Chain`, for an archive header that commits to `n_outputs` outputs.

use self::chain::txhashset::{BitmapAccumulator, BitmapChunk, BitmapSegment};
use self::chain::types::OutputRoots;
use self::core::core::hash::{Hash, Hashed};
use self::core::core::pmmr::{self, ReadablePMMR};
use self::core::core::{BlockHeader, HeaderVersion, Segment, SegmentIdentifier, SegmentType};
use self::core::global;
use self::core::ser::{self, DeserializationMode, ProtocolVersion};
use self::keychain::{ExtKeychain, Keychain};
use grin_chain as chain;
use grin_core as core;
use grin_keychain as keychain;

mod chain_test_helper;

use self::chain_test_helper::{clean_output_dir, genesis_block, init_chain};

/// The serving side: unspent bitmap over `n_outputs` outputs.
/// Every third output is spent, the most recent output is always unspent
/// (as is the case on a real chain, where the latest coinbase cannot have been spent yet).
fn serving_side_bitmap(n_outputs: u64) -> BitmapAccumulator {
	let unspent = (0..n_outputs).filter(|i| i % 3 != 0 || *i == n_outputs - 1);
	let mut accumulator = BitmapAccumulator::new();
	accumulator.init(unspent, n_outputs).unwrap();
	accumulator
}

/// An archive header committing to `n_outputs` outputs, the given output PMMR root and the
/// given bitmap accumulator.
fn archive_header(n_outputs: u64, pmmr_root: Hash, accumulator: &BitmapAccumulator) -> BlockHeader {
	let mut header = BlockHeader::default();
	header.version = HeaderVersion(3);
	header.height = 1;
	header.output_mmr_size = pmmr::insertion_to_pmmr_index(n_outputs);
	header.kernel_mmr_size = 1;
	header.output_root = OutputRoots {
		pmmr_root,
		bitmap_root: accumulator.root(),
	}
	.root(&header);
	header
}

/// Send a bitmap segment over the wire (as p2p does it)
fn over_the_wire(segment: Segment<BitmapChunk>) -> Segment<BitmapChunk> {
	let bytes = ser::ser_vec(&BitmapSegment::from(segment), ProtocolVersion(1)).unwrap();
	let received: BitmapSegment = ser::deserialize(
		&mut &bytes[..],
		ProtocolVersion(1),
		DeserializationMode::default(),
	)
	.unwrap();
	received.into_segment().unwrap()
}

fn sync_bitmap(chain_dir: &str, n_outputs: u64) {
	global::set_local_chain_type(global::ChainTypes::AutomatedTesting);
	clean_output_dir(chain_dir);
	{
		let keychain = ExtKeychain::from_random_seed(false).unwrap();
		let chain = init_chain(chain_dir, genesis_block(&keychain));

		// Serving node
		let accumulator = serving_side_bitmap(n_outputs);
		let served_size = accumulator.readonly_pmmr().unpruned_size();
		// (stand-in for the root of the serving node's output PMMR, which the peer sends along
		// with every bitmap segment)
		let pmmr_root = format!("output pmmr root for {} outputs", n_outputs)
			.into_bytes()
			.hash();
		let header = archive_header(n_outputs, pmmr_root, &accumulator);

		// Syncing node
		let desegmenter = chain.desegmenter(&header).unwrap();
		let mut guard = desegmenter.write();
		let d = guard.as_mut().unwrap();

		assert_eq!(
			d.expected_bitmap_mmr_size(),
			served_size,
			"{} outputs: syncing node expects a bitmap MMR of size {} but every serving node has one of size {}",
			n_outputs,
			d.expected_bitmap_mmr_size(),
			served_size
		);

		// Request / serve / validate / apply bitmap segments until the bitmap is complete,
		// i.e. until the desegmenter starts asking for something other than bitmap segments.
		let mut rounds = 0;
		loop {
			rounds += 1;
			assert!(rounds < 100, "bitmap sync does not terminate");
			d.apply_next_segments().unwrap();
			let wanted = d.next_desired_segments(12);
			if wanted.is_empty() {
				// all bitmap segments applied, bitmap gets finalised by the next apply
				continue;
			}
			if wanted.iter().all(|s| s.segment_type != SegmentType::Bitmap) {
				break;
			}
			for want in wanted {
				assert_eq!(want.segment_type, SegmentType::Bitmap);
				let id: SegmentIdentifier = want.identifier;
				let segment =
					Segment::from_pmmr(id, &accumulator.readonly_pmmr(), false).unwrap();
				d.add_bitmap_segment(over_the_wire(segment), pmmr_root)
					.expect("bitmap segment produced by the serving node must validate");
			}
		}

		// The syncing node now holds exactly the serving node's bitmap
		let synced_roots = chain.txhashset().read().roots().unwrap();
		assert_eq!(synced_roots.output_roots.bitmap_root, accumulator.root());
		assert_eq!(
			accumulator.as_bitmap().unwrap().cardinality(),
			(0..n_outputs)
				.filter(|i| i % 3 != 0 || *i == n_outputs - 1)
				.count() as u64
		);
	}
	clean_output_dir(chain_dir);
}

/// Creating the desegmenter for an archive header must not panic, whatever the number of outputs,
/// and the bitmap MMR size it expects must be the size of the serving side's accumulator.
fn desegmenter_expected_size(chain_dir: &str, n_outputs: u64) {
	global::set_local_chain_type(global::ChainTypes::AutomatedTesting);
	clean_output_dir(chain_dir);
	{
		let keychain = ExtKeychain::from_random_seed(false).unwrap();
		let chain = init_chain(chain_dir, genesis_block(&keychain));
		let accumulator = serving_side_bitmap(n_outputs);
		let served_size = accumulator.readonly_pmmr().unpruned_size();
		let pmmr_root = format!("output pmmr root for {} outputs", n_outputs)
			.into_bytes()
			.hash();
		let header = archive_header(n_outputs, pmmr_root, &accumulator);
		// panics on the unrepaired tree for n_outputs <= 1024 (desegmenter.rs: unwrap on None)
		let desegmenter = chain.desegmenter(&header).unwrap();
		let guard = desegmenter.read();
		let d = guard.as_ref().unwrap();
		assert_eq!(d.expected_bitmap_mmr_size(), served_size, "{} outputs", n_outputs);
	}
	clean_output_dir(chain_dir);
}

#[test]
fn desegmenter_for_small_chains_does_not_panic() {
	for n in [1u64, 100, 1023, 1024] {
		desegmenter_expected_size(".grin_c16_small", n);
	}
}

#[test]
fn desegmenter_expected_size_controls() {
	for n in [1025u64, 2047, 2048, 2049, 600 * 1024] {
		desegmenter_expected_size(".grin_c16_ctl", n);
	}
}
