// F13 (C14): eviction from a full txpool must never leave a pool transaction whose input is neither in the
// UTXO set nor created by another pool transaction.
//
// Place this file at pool/tests/c14_evict_orphan.rs and run:
//   cargo test -p grin_pool --offline --test c14_evict_orphan
//
// Two histories, both through the public TransactionPool API with max_pool_size = 2 so that the 4th
// submission is admitted and one transaction is evicted:
//   (a) child-pays-for-parent chain P -> C -> G: C has a LOWER fee rate than P (so the bucket logic gives C its
//       own bucket, the lowest one) and G a high one (G is bucketed with P, because C's outputs were indexed
//       under P's bucket).  The last bucketed transaction is C: it is evicted although G spends its output.
//   (b) two parents P1, P2 and a child K spending one output of each: K is "rejected" by the bucket logic
//       (multiple parents) and does not appear in the list at all, so the last bucketed transaction is one of
//       its parents.

pub mod common;
use self::core::core::Transaction;
use self::core::global;
use self::keychain::{ExtKeychain, Keychain};
use crate::common::*;
use grin_core as core;
use grin_keychain as keychain;
use grin_util as util;
use std::collections::HashSet;
use std::sync::Arc;

fn assert_no_orphans<B, P>(pool: &grin_pool::TransactionPool<B, P>, chain: &ChainAdapter)
where
	B: grin_pool::BlockChain,
	P: grin_pool::PoolAdapter,
{
	let pool_txs: Vec<Transaction> = pool.txpool.all_transactions();
	let pool_outputs: HashSet<_> = pool_txs
		.iter()
		.flat_map(|tx| tx.outputs().iter().map(|o| o.commitment()))
		.collect();
	for tx in &pool_txs {
		let inputs: Vec<_> = tx.inputs().into();
		for input in inputs {
			let in_pool = pool_outputs.contains(&input.commitment());
			let in_utxo = chain.chain.get_unspent(input.commitment()).unwrap().is_some();
			assert!(
				in_pool || in_utxo,
				"orphaned pool tx: input {:?} is neither in the utxo set nor created by a pool tx",
				input.commitment()
			);
		}
	}
}

#[test]
fn evicting_the_low_fee_middle_of_a_chain() {
	util::init_test_logger();
	global::set_local_chain_type(global::ChainTypes::AutomatedTesting);
	global::set_local_accept_fee_base(1);
	let keychain: ExtKeychain = Keychain::from_random_seed(false).unwrap();
	let db_root = "target/.c14_evict_orphan_a";
	clean_output_dir(db_root.into());
	let genesis = genesis_block(&keychain);
	let chain = Arc::new(init_chain(db_root, genesis));
	let adapter = ChainAdapter { chain: chain.clone() };
	let mut pool = init_transaction_pool(Arc::new(ChainAdapter { chain: chain.clone() }));
	pool.config.max_pool_size = 2;
	add_some_blocks(&chain, 4 * 3, &keychain);
	let header_1 = chain.get_header_by_height(1).unwrap();
	let initial_tx = test_transaction_spending_coinbase(&keychain, &header_1, vec![10_000_000, 2_000_000]);
	add_block(&chain, &[initial_tx], &keychain);
	let header = chain.head_header().unwrap();

	// P: fee 1_000_000 / weight 46; C (spends P): fee 10_000 / weight 25; G (spends C): fee 2_000_000 / weight 25
	let p = test_transaction(&keychain, vec![10_000_000], vec![5_000_000, 4_000_000]);
	let c = test_transaction(&keychain, vec![5_000_000], vec![4_990_000]);
	let g = test_transaction(&keychain, vec![4_990_000], vec![2_990_000]);
	let h = test_transaction(&keychain, vec![2_000_000], vec![1_000_000]);
	assert!(c.fee_rate() < p.fee_rate() && p.fee_rate() < g.fee_rate());

	for tx in [&p, &c, &g] {
		pool.add_to_pool(test_source(), tx.clone(), false, &header).unwrap();
	}
	assert_eq!(pool.total_size(), 3);
	// over capacity: admitted, then one transaction is evicted
	pool.add_to_pool(test_source(), h.clone(), false, &header).unwrap();
	assert_eq!(pool.total_size(), 3);
	assert_no_orphans(&pool, &adapter);
	clean_output_dir(db_root.into());
}

#[test]
fn evicting_a_parent_of_a_two_parent_child() {
	util::init_test_logger();
	global::set_local_chain_type(global::ChainTypes::AutomatedTesting);
	global::set_local_accept_fee_base(1);
	let keychain: ExtKeychain = Keychain::from_random_seed(false).unwrap();
	let db_root = "target/.c14_evict_orphan_b";
	clean_output_dir(db_root.into());
	let genesis = genesis_block(&keychain);
	let chain = Arc::new(init_chain(db_root, genesis));
	let adapter = ChainAdapter { chain: chain.clone() };
	let mut pool = init_transaction_pool(Arc::new(ChainAdapter { chain: chain.clone() }));
	pool.config.max_pool_size = 2;
	add_some_blocks(&chain, 4 * 3, &keychain);
	let header_1 = chain.get_header_by_height(1).unwrap();
	let initial_tx =
		test_transaction_spending_coinbase(&keychain, &header_1, vec![10_000_000, 8_000_000, 2_000_000]);
	add_block(&chain, &[initial_tx], &keychain);
	let header = chain.head_header().unwrap();

	let p1 = test_transaction(&keychain, vec![10_000_000], vec![9_000_000]);
	let p2 = test_transaction(&keychain, vec![8_000_000], vec![7_900_000]);
	let k = test_transaction(&keychain, vec![9_000_000, 7_900_000], vec![15_000_000]);
	let h = test_transaction(&keychain, vec![2_000_000], vec![1_000_000]);

	for tx in [&p1, &p2, &k] {
		pool.add_to_pool(test_source(), tx.clone(), false, &header).unwrap();
	}
	assert_eq!(pool.total_size(), 3);
	pool.add_to_pool(test_source(), h.clone(), false, &header).unwrap();
	assert_eq!(pool.total_size(), 3);
	assert_no_orphans(&pool, &adapter);
	clean_output_dir(db_root.into());
}
