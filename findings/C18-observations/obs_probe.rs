// scratch probe for observations (HEAD behaviour), not a deliverable demo
use grin_core as core;
use grin_store as store;
use grin_util as util;

use core::global;
use std::fs;

const P: u8 = b'P';

fn setup(test_dir: &str) -> store::Store {
	global::set_local_chain_type(global::ChainTypes::AutomatedTesting);
	util::init_test_logger();
	let _ = fs::remove_dir_all(test_dir);
	store::Store::new(test_dir, Some("test1"), None, vec![P], None, None).unwrap()
}

#[test]
fn single_large_batch() {
	let store = setup("target/obs_c18_1");
	let value = vec![7u8; 32 * 1024];
	let mut batch = store.batch().unwrap();
	let mut res = Ok(());
	let mut n = 0;
	for i in 0..64u32 {
		res = batch.put(Some(P), &i.to_be_bytes(), &value);
		if res.is_err() {
			break;
		}
		n += 1;
	}
	println!("puts ok: {}, res: {:?}", n, res);
	let c = batch.commit();
	println!("commit: {:?}", c);
	// same volume in small batches
	for i in 100..164u32 {
		let mut b = store.batch().unwrap();
		b.put(Some(P), &i.to_be_bytes(), &value).unwrap();
		b.commit().unwrap();
	}
	println!("small batches fine");
	// held iterator on the same thread, then a big-ish batch
	let it = store.iter(Some(P), |_, v| Ok(v.len())).unwrap();
	let mut res = Ok(());
	let mut n = 0;
	'outer: for j in 0..40u32 {
		let mut b = store.batch().unwrap();
		for i in 0..4u32 {
			res = b.put(Some(P), &(1000 + j * 4 + i).to_be_bytes(), &value);
			if res.is_err() {
				break 'outer;
			}
		}
		res = b.commit();
		if res.is_err() {
			break;
		}
		n += 1;
	}
	println!("with held iter on same thread: batches ok {}, res {:?}", n, res);
	drop(it);
}

#[test]
fn iter_outlives_store() {
	let store = setup("target/obs_c18_2");
	let mut b = store.batch().unwrap();
	b.put(Some(P), b"a", b"1").unwrap();
	b.commit().unwrap();
	let it = store.iter(Some(P), |_, v| Ok(v.to_vec())).unwrap();
	drop(store);
	let r = std::panic::catch_unwind(std::panic::AssertUnwindSafe(move || {
		let v: Vec<_> = it.collect();
		println!("collected {:?}", v);
	}));
	println!("iter after store drop: panicked = {}", r.is_err());
}
