use self::chain::Chain;
use self::core::core::hash::Hashed;
use self::core::core::{Block, BlockHeader, Transaction};
use self::core::global::ChainTypes;
use self::core::libtx;
use self::core::pow::Difficulty;
use self::core::{global, pow};
use self::keychain::{ExtKeychain, ExtKeychainPath, Keychain};
use chrono::Duration;
use grin_chain as chain;
use grin_core as core;
use grin_keychain as keychain;
use grin_util as util;
use std::fs;
use std::path::Path;

mod chain_test_helper;
use self::chain_test_helper::clean_output_dir;

fn prepare_block<K: Keychain>(
	kc: &K,
	prev: &BlockHeader,
	chain: &Chain,
	diff: u64,
	key: u32,
	txs: &[Transaction],
) -> Block {
	let proof_size = global::proofsize();
	let key_id = ExtKeychainPath::new(1, key, 0, 0, 0).to_identifier();
	let fees = txs.iter().map(|tx| tx.fee()).sum();
	let reward =
		libtx::reward::output(kc, &libtx::ProofBuilder::new(kc), &key_id, fees, false).unwrap();
	let mut b = Block::new(prev, txs, Difficulty::from_num(diff), reward).unwrap();
	b.header.timestamp = prev.timestamp + Duration::seconds(60);
	b.header.pow.total_difficulty = prev.total_difficulty() + Difficulty::from_num(diff);
	b.header.pow.proof = pow::Proof::random(proof_size);
	chain.set_txhashset_roots(&mut b).unwrap();
	b
}

fn open(dir: &str) -> Result<Chain, chain::Error> {
	Chain::init(
		dir.to_string(),
		std::sync::Arc::new(chain::types::NoopAdapter {}),
		core::genesis::genesis_dev(),
		pow::verify_size,
		false,
		None,
	)
}

fn run(fault: &str, depth: u64, header_only: bool) -> String {
	let dir = ".grin_probe3";
	clean_output_dir(dir);
	let kc = ExtKeychain::from_random_seed(false).unwrap();
	let last;
	let old_head;
	let fork_point;
	{
		let chain = open(dir).unwrap();
		let mut head = chain.head_header().unwrap();
		for n in 1..4 {
			let b = prepare_block(&kc, &head, &chain, 10, n, &[]);
			head = b.header.clone();
			chain.process_block(b, chain::Options::SKIP_POW).unwrap();
		}
		fork_point = head.clone();
		for n in 0..depth {
			let b = prepare_block(&kc, &head, &chain, 10, 10 + n as u32, &[]);
			head = b.header.clone();
			chain.process_block(b, chain::Options::SKIP_POW).unwrap();
		}
		old_head = head.clone();
		// losing fork blocks
		let mut fh = fork_point.clone();
		for n in 0..depth {
			let b = prepare_block(&kc, &fh, &chain, 9, 20 + n as u32, &[]);
			fh = b.header.clone();
			chain.process_block(b, chain::Options::SKIP_POW).unwrap();
			assert_eq!(chain.head().unwrap().last_block_h, old_head.hash());
		}
		last = prepare_block(&kc, &fh, &chain, 30, 30, &[]);
		let fault_path = Path::new(dir).join(fault);
		fs::create_dir_all(&fault_path).unwrap();
		let res = if header_only {
			chain.process_block_header(&last.header, chain::Options::SKIP_POW)
		} else {
			chain.process_block(last.clone(), chain::Options::SKIP_POW).map(|_| ())
		};
		assert!(res.is_err());
		fs::remove_dir_all(&fault_path).unwrap();
	}
	let r = match open(dir) {
		Err(e) => format!("init failed: {:?}", e),
		Ok(chain) => {
			let h = chain.head().unwrap();
			let hh = chain.header_head().unwrap();
			let which = if h.last_block_h == old_head.hash() {
				"old_head"
			} else if h.last_block_h == last.hash() {
				"new_head"
			} else if h.last_block_h == fork_point.hash() {
				"fork_point"
			} else {
				"other"
			};
			let v = chain.validate(false).map_err(|e| format!("{:?}", e));
			let p = chain
				.process_block(last.clone(), chain::Options::SKIP_POW)
				.map(|_| ())
				.map_err(|e| format!("{:?}", e));
			let h2 = chain.head().unwrap();
			let v2 = chain.validate(false).map_err(|e| format!("{:?}", e));
			format!(
				"head {} ({}) header_head {} validate {:?} redeliver {:?} -> head {} is_new {} validate {:?}",
				h.height,
				which,
				hh.height,
				v,
				p,
				h2.height,
				h2.last_block_h == last.hash(),
				v2
			)
		}
	};
	clean_output_dir(dir);
	r
}

#[test]
fn probe3() {
	global::set_local_chain_type(ChainTypes::AutomatedTesting);
	util::init_test_logger();
	println!("PROBE3 header-only d1 => {}", run("header/header_head/pmmr_prun.bin.tmp", 1, true));
	println!("PROBE3 header-in-block d1 => {}", run("header/header_head/pmmr_prun.bin.tmp", 1, false));
	for depth in [1u64, 2, 3].iter() {
		for f in [
			"txhashset/output/pmmr_leaf.bin.tmp",
			"txhashset/output/pmmr_prun.bin.tmp",
			"txhashset/kernel/pmmr_prun.bin.tmp",
		]
		.iter()
		{
			println!("PROBE3 depth {} {} => {}", depth, f, run(f, *depth, false));
		}
	}
}
