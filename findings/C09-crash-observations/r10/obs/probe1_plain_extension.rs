use self::chain::Chain;
use self::core::core::hash::Hashed;
use self::core::core::{Block, BlockHeader, KernelFeatures, Transaction};
use self::core::global::ChainTypes;
use self::core::libtx::{self, build, ProofBuilder};
use self::core::pow::Difficulty;
use self::core::{consensus, global, pow};
use self::keychain::{ExtKeychain, ExtKeychainPath, Keychain};
use chrono::Duration;
use grin_chain as chain;
use grin_core as core;
use grin_keychain as keychain;
use grin_util as util;
use std::fs;
use std::path::Path;

mod chain_test_helper;
use self::chain_test_helper::{clean_output_dir, init_chain};

fn prepare_block<K: Keychain>(
	kc: &K,
	prev: &BlockHeader,
	chain: &Chain,
	diff: u64,
	txs: &[Transaction],
) -> Block {
	let proof_size = global::proofsize();
	let key_id = ExtKeychainPath::new(1, diff as u32, 0, 0, 0).to_identifier();
	let fees = txs.iter().map(|tx| tx.fee()).sum();
	let reward =
		libtx::reward::output(kc, &libtx::ProofBuilder::new(kc), &key_id, fees, false).unwrap();
	let mut b = Block::new(prev, txs, Difficulty::from_num(diff), reward).unwrap();
	b.header.timestamp = prev.timestamp + Duration::seconds(60);
	b.header.pow.total_difficulty = prev.total_difficulty() + Difficulty::from_num(diff);
	b.header.pow.proof = pow::Proof::random(proof_size);
	chain.set_txhashset_roots(&mut b).unwrap();
	b
}

fn run(fault: &str, spend: bool) -> Result<(), String> {
	let dir = format!(".grin_probe_{}_{}", fault.replace("/", "_"), spend);
	clean_output_dir(&dir);
	let genesis = core::genesis::genesis_dev();
	let kc = ExtKeychain::from_random_seed(false).unwrap();
	let pb = ProofBuilder::new(&kc);
	let last;
	let old_head;
	{
		let chain = init_chain(&dir, genesis.clone());
		let mut head = chain.head_header().unwrap();
		for n in 2..12 {
			let b = prepare_block(&kc, &head, &chain, n, &[]);
			head = b.header.clone();
			chain
				.process_block(b, chain::Options::SKIP_POW)
				.unwrap();
		}
		old_head = head.clone();
		let txs = if spend {
			let key_in = ExtKeychainPath::new(1, 2, 0, 0, 0).to_identifier();
			let key_out = ExtKeychainPath::new(1, 30, 0, 0, 0).to_identifier();
			vec![build::transaction(
				KernelFeatures::Plain { fee: 20000.into() },
				&[
					build::coinbase_input(consensus::REWARD, key_in),
					build::output(consensus::REWARD - 20000, key_out),
				],
				&kc,
				&pb,
			)
			.unwrap()]
		} else {
			vec![]
		};
		last = prepare_block(&kc, &head, &chain, 12, &txs);

		let fault_path = Path::new(&dir).join(fault);
		fs::create_dir_all(&fault_path).unwrap();
		println!("genesis {} old_head {} last {}", genesis.hash(), old_head.hash(), last.hash());
		let res = chain.process_block(last.clone(), chain::Options::SKIP_POW);
		println!("res {:?}", res.as_ref().map(|_| ()));
		if res.is_ok() {
			return Err("fault did not trigger".into());
		}
		fs::remove_dir_all(&fault_path).unwrap();
	}
	let res = (|| -> Result<(), String> {
		let chain = Chain::init(
			dir.clone(),
			std::sync::Arc::new(chain::types::NoopAdapter {}),
			genesis.clone(),
			pow::verify_size,
			false,
			None,
		)
		.map_err(|e| format!("init failed: {:?}", e))?;
		let h = chain.head().unwrap();
		if h.last_block_h != old_head.hash() && h.last_block_h != last.hash() {
			return Err(format!("unexpected head at {}", h.height));
		}
		chain
			.validate(false)
			.map_err(|e| format!("validate failed (head {}): {:?}", h.height, e))?;
		let r = chain.process_block(last.clone(), chain::Options::SKIP_POW);
		let h2 = chain.head().unwrap();
		if h2.last_block_h != last.hash() {
			return Err(format!(
				"redeliver: head at {} (was {}), res {:?}",
				h2.height,
				h.height,
				r.map(|_| ())
			));
		}
		chain
			.validate(false)
			.map_err(|e| format!("validate2 failed: {:?}", e))?;
		Ok(())
	})();
	clean_output_dir(&dir);
	res
}

#[test]
fn probe() {
	global::set_local_chain_type(ChainTypes::AutomatedTesting);
	util::init_test_logger();
	let faults = [
		"header/header_head/pmmr_prun.bin.tmp",
		"txhashset/output/pmmr_leaf.bin.tmp",
		"txhashset/output/pmmr_prun.bin.tmp",
		"txhashset/rangeproof/pmmr_leaf.bin.tmp",
		"txhashset/rangeproof/pmmr_prun.bin.tmp",
		"txhashset/kernel/pmmr_prun.bin.tmp",
	];
	let mut bad = 0;
	for spend in [false, true].iter() {
		for f in faults.iter() {
			let r = run(f, *spend);
			println!("PROBE {} spend={} => {:?}", f, spend, r);
			if r.is_err() {
				bad += 1;
			}
		}
	}
	assert_eq!(bad, 0);
}
