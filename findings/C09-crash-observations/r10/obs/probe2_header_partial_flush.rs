use self::chain::Chain;
use self::core::core::hash::Hashed;
use self::core::core::{Block, BlockHeader, Transaction};
use self::core::global::ChainTypes;
use self::core::libtx;
use self::core::pow::Difficulty;
use self::core::{global, pow};
use self::keychain::{ExtKeychain, ExtKeychainPath, Keychain};
use chrono::Duration;
use grin_chain as chain;
use grin_core as core;
use grin_keychain as keychain;
use grin_util as util;
use std::fs;
use std::path::Path;

mod chain_test_helper;
use self::chain_test_helper::clean_output_dir;

fn copy_dir(from: &Path, to: &Path) {
	fs::create_dir_all(to).unwrap();
	for e in fs::read_dir(from).unwrap() {
		let e = e.unwrap();
		let p = e.path();
		let t = to.join(e.file_name());
		if p.is_dir() {
			copy_dir(&p, &t);
		} else {
			fs::copy(&p, &t).unwrap();
		}
	}
}

fn prepare_block<K: Keychain>(
	kc: &K,
	prev: &BlockHeader,
	chain: &Chain,
	diff: u64,
	txs: &[Transaction],
) -> Block {
	let proof_size = global::proofsize();
	let key_id = ExtKeychainPath::new(1, diff as u32, 0, 0, 0).to_identifier();
	let fees = txs.iter().map(|tx| tx.fee()).sum();
	let reward =
		libtx::reward::output(kc, &libtx::ProofBuilder::new(kc), &key_id, fees, false).unwrap();
	let mut b = Block::new(prev, txs, Difficulty::from_num(diff), reward).unwrap();
	b.header.timestamp = prev.timestamp + Duration::seconds(60);
	b.header.pow.total_difficulty = prev.total_difficulty() + Difficulty::from_num(diff);
	b.header.pow.proof = pow::Proof::random(proof_size);
	chain.set_txhashset_roots(&mut b).unwrap();
	b
}

fn open(dir: &str) -> Result<Chain, chain::Error> {
	Chain::init(
		dir.to_string(),
		std::sync::Arc::new(chain::types::NoopAdapter {}),
		core::genesis::genesis_dev(),
		pow::verify_size,
		false,
		None,
	)
}

#[test]
fn probe2() {
	global::set_local_chain_type(ChainTypes::AutomatedTesting);
	util::init_test_logger();
	let d0 = ".grin_probe2_s0";
	let d1 = ".grin_probe2_s1";
	clean_output_dir(d0);
	clean_output_dir(d1);
	let kc = ExtKeychain::from_random_seed(false).unwrap();
	let last;
	{
		let chain = open(d1).unwrap();
		let mut head = chain.head_header().unwrap();
		for n in 2..8 {
			let b = prepare_block(&kc, &head, &chain, n, &[]);
			head = b.header.clone();
			chain.process_block(b, chain::Options::SKIP_POW).unwrap();
		}
		last = prepare_block(&kc, &head, &chain, 8, &[]);
	}
	copy_dir(Path::new(d1), Path::new(d0));
	{
		let chain = open(d1).unwrap();
		chain
			.process_block_header(&last.header, chain::Options::SKIP_POW)
			.unwrap();
	}
	for files in [
		vec!["pmmr_hash.bin"],
		vec!["pmmr_hash.bin", "pmmr_size.bin"],
		vec!["pmmr_hash.bin", "pmmr_size.bin", "pmmr_data.bin"],
	]
	.iter()
	{
		let c = ".grin_probe2_c";
		clean_output_dir(c);
		copy_dir(Path::new(d0), Path::new(c));
		for f in files {
			let rel = Path::new("header").join("header_head").join(f);
			fs::copy(Path::new(d1).join(&rel), Path::new(c).join(&rel)).unwrap();
		}
		let r = open(c).map(|chain| {
			let h = chain.head().unwrap();
			let hh = chain.header_head().unwrap();
			let v = chain.validate(false);
			let p = chain.process_block(last.clone(), chain::Options::SKIP_POW);
			(h.height, hh.height, v.is_ok(), p.map(|_| ()), chain.head().unwrap().height)
		});
		println!("PROBE2 {:?} => {:?}", files, r);
		clean_output_dir(c);
	}
	clean_output_dir(d0);
	clean_output_dir(d1);
}
