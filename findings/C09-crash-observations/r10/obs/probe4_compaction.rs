use self::chain::Chain;
use self::core::core::hash::Hashed;
use self::core::core::{Block, BlockHeader, KernelFeatures, Transaction};
use self::core::global::ChainTypes;
use self::core::libtx::{self, build, ProofBuilder};
use self::core::pow::Difficulty;
use self::core::{consensus, global, pow};
use self::keychain::{ExtKeychain, ExtKeychainPath, Keychain};
use chrono::Duration;
use grin_chain as chain;
use grin_core as core;
use grin_keychain as keychain;
use grin_util as util;
use std::fs;
use std::path::Path;

mod chain_test_helper;
use self::chain_test_helper::clean_output_dir;

fn prepare_block<K: Keychain>(
	kc: &K,
	prev: &BlockHeader,
	chain: &Chain,
	diff: u64,
	txs: &[Transaction],
) -> Block {
	let proof_size = global::proofsize();
	let key_id = ExtKeychainPath::new(1, diff as u32, 0, 0, 0).to_identifier();
	let fees = txs.iter().map(|tx| tx.fee()).sum();
	let reward =
		libtx::reward::output(kc, &libtx::ProofBuilder::new(kc), &key_id, fees, false).unwrap();
	let mut b = Block::new(prev, txs, Difficulty::from_num(diff), reward).unwrap();
	b.header.timestamp = prev.timestamp + Duration::seconds(60);
	b.header.pow.total_difficulty = prev.total_difficulty() + Difficulty::from_num(diff);
	b.header.pow.proof = pow::Proof::random(proof_size);
	chain.set_txhashset_roots(&mut b).unwrap();
	b
}

fn open(dir: &str) -> Result<Chain, chain::Error> {
	Chain::init(
		dir.to_string(),
		std::sync::Arc::new(chain::types::NoopAdapter {}),
		core::genesis::genesis_dev(),
		pow::verify_size,
		false,
		None,
	)
}

fn run(fault: Option<&str>) -> String {
	let dir = ".grin_probe4";
	clean_output_dir(dir);
	let kc = ExtKeychain::from_random_seed(false).unwrap();
	let pb = ProofBuilder::new(&kc);
	let old_head;
	let compact_res;
	{
		let chain = open(dir).unwrap();
		let mut head = chain.head_header().unwrap();
		for n in 2..95u64 {
			let txs = if n == 8 || n == 9 {
				let key_in = ExtKeychainPath::new(1, (n - 6) as u32, 0, 0, 0).to_identifier();
				let key_out = ExtKeychainPath::new(1, (200 + n) as u32, 0, 0, 0).to_identifier();
				vec![build::transaction(
					KernelFeatures::Plain { fee: 20000.into() },
					&[
						build::coinbase_input(consensus::REWARD, key_in),
						build::output(consensus::REWARD - 20000, key_out),
					],
					&kc,
					&pb,
				)
				.unwrap()]
			} else {
				vec![]
			};
			let b = prepare_block(&kc, &head, &chain, n, &txs);
			head = b.header.clone();
			chain.process_block(b, chain::Options::SKIP_POW).unwrap();
		}
		old_head = head.clone();
		chain.validate(false).unwrap();
		let fp = fault.map(|f| Path::new(dir).join(f));
		if let Some(fp) = &fp {
			fs::create_dir_all(fp).unwrap();
		}
		compact_res = chain.compact().map_err(|e| format!("{:?}", e));
		if let Some(fp) = &fp {
			fs::remove_dir_all(fp).unwrap();
		}
	}
	let r = match open(dir) {
		Err(e) => format!("compact {:?}; init failed: {:?}", compact_res, e),
		Ok(chain) => {
			let h = chain.head().unwrap();
			let v = chain.validate(false).map_err(|e| format!("{:?}", e));
			let b = prepare_block(&kc, &chain.head_header().unwrap(), &chain, 300, &[]);
			let p = chain
				.process_block(b, chain::Options::SKIP_POW)
				.map(|_| ())
				.map_err(|e| format!("{:?}", e));
			let c2 = chain.compact().map_err(|e| format!("{:?}", e));
			let v2 = chain.validate(false).map_err(|e| format!("{:?}", e));
			format!(
				"compact {:?}; head {} same {} validate {:?} next block {:?} compact2 {:?} validate2 {:?}",
				compact_res,
				h.height,
				h.last_block_h == old_head.hash(),
				v,
				p,
				c2,
				v2
			)
		}
	};
	clean_output_dir(dir);
	r
}

#[test]
fn probe4() {
	global::set_local_chain_type(ChainTypes::AutomatedTesting);
	util::init_test_logger();
	for f in [
		None,
		Some("txhashset/output/pmmr_hash.tmp"),
		Some("txhashset/output/pmmr_data.tmp"),
		Some("txhashset/output/pmmr_prun.bin.tmp"),
		Some("txhashset/output/pmmr_leaf.bin.tmp"),
		Some("txhashset/rangeproof/pmmr_hash.tmp"),
		// NOTE: the next one panics inside Chain::init (store/src/types.rs:118, debug build)
		Some("txhashset/rangeproof/pmmr_prun.bin.tmp"),
	]
	.iter()
	{
		println!("PROBE4 {:?} => {}", f, run(*f));
	}
}
