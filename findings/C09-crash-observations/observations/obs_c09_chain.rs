// Exploratory: C09 crash points on UNMODIFIED code.
// dest: chain/tests/obs_c09.rs
// run:  cargo test -p grin_chain --offline --test obs_c09 -- --nocapture --test-threads=1

use self::chain::types::NoopAdapter;
use self::chain::{Chain, Options};
use self::core::consensus;
use self::core::core::hash::Hashed;
use self::core::core::{Block, BlockHeader, KernelFeatures, Transaction};
use self::core::global::{self, ChainTypes};
use self::core::libtx::{self, build, ProofBuilder};
use self::core::pow::{self, Difficulty};
use self::keychain::{ExtKeychain, ExtKeychainPath, Keychain};
use chrono::Duration;
use grin_chain as chain;
use grin_core as core;
use grin_keychain as keychain;
use std::fs;
use std::path::Path;
use std::sync::Arc;

mod chain_test_helper;
use self::chain_test_helper::{clean_output_dir, genesis_block};

fn copy_dir(from: &Path, to: &Path) {
	fs::create_dir_all(to).unwrap();
	for entry in fs::read_dir(from).unwrap() {
		let entry = entry.unwrap();
		let dst = to.join(entry.file_name());
		if entry.file_type().unwrap().is_dir() {
			copy_dir(&entry.path(), &dst);
		} else {
			fs::copy(entry.path(), dst).unwrap();
		}
	}
}

fn replace_subdir(from_root: &str, to_root: &str, sub: &str) {
	let dst = Path::new(to_root).join(sub);
	let _ = fs::remove_dir_all(&dst);
	copy_dir(&Path::new(from_root).join(sub), &dst);
}

fn try_open(dir: &str, genesis: &Block) -> Result<Chain, chain::Error> {
	Chain::init(
		dir.to_string(),
		Arc::new(NoopAdapter {}),
		genesis.clone(),
		pow::verify_size,
		false,
		None,
	)
}

fn prepare_block<K: Keychain>(
	kc: &K,
	prev: &BlockHeader,
	chain: &Chain,
	key_idx: u32,
	diff: u64,
	txs: &[Transaction],
) -> Block {
	let key_id = ExtKeychainPath::new(1, key_idx, 0, 0, 0).to_identifier();
	let fees = txs.iter().map(|tx| tx.fee()).sum();
	let reward = libtx::reward::output(kc, &ProofBuilder::new(kc), &key_id, fees, false).unwrap();
	let diff = Difficulty::from_num(diff);
	let mut b = Block::new(prev, txs, diff, reward).unwrap();
	b.header.timestamp = prev.timestamp + Duration::seconds(60);
	b.header.pow.total_difficulty = prev.total_difficulty() + diff;
	b.header.pow.proof = pow::Proof::random(global::proofsize());
	chain.set_txhashset_roots(&mut b).unwrap();
	b
}

/// Kill inside process_block (block spending an old output) after the txhashset
/// backends were synced and before the LMDB batch (block, head, indices) commits.
#[test]
fn obs_kill_block_with_spend() {
	global::set_local_chain_type(ChainTypes::AutomatedTesting);
	let dir_node = ".grin_obs_c09_spend_node";
	let dir_snap = ".grin_obs_c09_spend_snap";
	let dir_kill = ".grin_obs_c09_spend_kill";
	for d in &[dir_node, dir_snap, dir_kill] {
		clean_output_dir(d);
	}
	let kc = ExtKeychain::from_random_seed(false).unwrap();
	let pb = ProofBuilder::new(&kc);
	let genesis = genesis_block(&kc);

	let n = 7u64;
	let (head_n, b_next) = {
		let chain = try_open(dir_node, &genesis).unwrap();
		for i in 1..=n {
			let prev = chain.head_header().unwrap();
			let b = prepare_block(&kc, &prev, &chain, i as u32, i, &[]);
			chain.process_block(b, Options::SKIP_POW).unwrap();
		}
		let head_n = chain.head_header().unwrap();
		let key_id_cb = ExtKeychainPath::new(1, 2, 0, 0, 0).to_identifier();
		let key_id_out = ExtKeychainPath::new(1, 30, 0, 0, 0).to_identifier();
		let tx = build::transaction(
			KernelFeatures::Plain { fee: 20000.into() },
			&[
				build::coinbase_input(consensus::REWARD, key_id_cb),
				build::output(consensus::REWARD - 20000, key_id_out),
			],
			&kc,
			&pb,
		)
		.unwrap();
		let b_next = prepare_block(&kc, &head_n, &chain, 100, n + 1, &[tx]);
		// header first, as process_block_single does (separate LMDB commit)
		chain
			.process_block_header(&b_next.header, Options::SKIP_POW)
			.unwrap();
		(head_n, b_next)
	};
	// LMDB state at the kill: header N+1 known, head still N.
	copy_dir(Path::new(dir_node), Path::new(dir_snap));
	{
		let chain = try_open(dir_node, &genesis).unwrap();
		chain
			.process_block(b_next.clone(), Options::SKIP_POW)
			.unwrap();
		assert_eq!(chain.head().unwrap().hash(), b_next.hash());
	}
	copy_dir(Path::new(dir_snap), Path::new(dir_kill));
	replace_subdir(dir_node, dir_kill, "txhashset");

	match try_open(dir_kill, &genesis) {
		Err(e) => eprintln!("OBS spend: Chain::init after kill FAILED: {:?}", e),
		Ok(chain) => {
			let head = chain.head().unwrap();
			eprintln!(
				"OBS spend: reopened, head height {} (expected {}), head==N: {}",
				head.height,
				n,
				head.hash() == head_n.hash()
			);
			eprintln!("OBS spend: validate(false) = {:?}", chain.validate(false));
			let res = chain.process_block(b_next.clone(), Options::SKIP_POW);
			eprintln!(
				"OBS spend: re-deliver interrupted block -> {:?}",
				res.map(|t| t.map(|t| t.height))
			);
			eprintln!(
				"OBS spend: head after re-delivery: {}",
				chain.head().unwrap().height
			);
			eprintln!("OBS spend: validate(false) = {:?}", chain.validate(false));
		}
	}
	for d in &[dir_node, dir_snap, dir_kill] {
		clean_output_dir(d);
	}
}

/// Kill inside process_block_header for a fork header that overtakes the current
/// header chain (header-only reorg), after the header MMR sync, before LMDB commit.
#[test]
fn obs_kill_header_reorg() {
	global::set_local_chain_type(ChainTypes::AutomatedTesting);
	let dir_node = ".grin_obs_c09_hreorg_node";
	let dir_snap = ".grin_obs_c09_hreorg_snap";
	let dir_kill = ".grin_obs_c09_hreorg_kill";
	for d in &[dir_node, dir_snap, dir_kill] {
		clean_output_dir(d);
	}
	let kc = ExtKeychain::from_random_seed(false).unwrap();
	let genesis = genesis_block(&kc);

	let (head_n, fork_b) = {
		let chain = try_open(dir_node, &genesis).unwrap();
		for i in 1..=5u64 {
			let prev = chain.head_header().unwrap();
			let b = prepare_block(&kc, &prev, &chain, i as u32, i, &[]);
			chain.process_block(b, Options::SKIP_POW).unwrap();
		}
		let head_n = chain.head_header().unwrap();
		let fork_prev = chain.get_header_by_height(3).unwrap();
		let fork_b = prepare_block(&kc, &fork_prev, &chain, 200, 100, &[]);
		(head_n, fork_b)
	};
	copy_dir(Path::new(dir_node), Path::new(dir_snap));
	{
		let chain = try_open(dir_node, &genesis).unwrap();
		chain
			.process_block_header(&fork_b.header, Options::SKIP_POW)
			.unwrap();
		assert_eq!(chain.header_head().unwrap().hash(), fork_b.hash());
	}
	copy_dir(Path::new(dir_snap), Path::new(dir_kill));
	replace_subdir(dir_node, dir_kill, "header");

	match try_open(dir_kill, &genesis) {
		Err(e) => eprintln!("OBS header reorg: Chain::init after kill FAILED: {:?}", e),
		Ok(chain) => {
			eprintln!(
				"OBS header reorg: reopened, head==N {}, header_head==N {}",
				chain.head().unwrap().hash() == head_n.hash(),
				chain.header_head().unwrap().hash() == head_n.hash()
			);
			eprintln!(
				"OBS header reorg: validate(false) = {:?}",
				chain.validate(false)
			);
			let res = chain.process_block(fork_b.clone(), Options::SKIP_POW);
			eprintln!(
				"OBS header reorg: re-deliver fork block -> {:?}",
				res.map(|t| t.map(|t| t.height))
			);
		}
	}
	for d in &[dir_node, dir_snap, dir_kill] {
		clean_output_dir(d);
	}
}

/// Kill inside process_block for a fork block that overtakes the current chain
/// (full reorg), after the txhashset backends were synced, before LMDB commit.
#[test]
fn obs_kill_block_reorg() {
	global::set_local_chain_type(ChainTypes::AutomatedTesting);
	let dir_node = ".grin_obs_c09_breorg_node";
	let dir_snap = ".grin_obs_c09_breorg_snap";
	let dir_kill = ".grin_obs_c09_breorg_kill";
	for d in &[dir_node, dir_snap, dir_kill] {
		clean_output_dir(d);
	}
	let kc = ExtKeychain::from_random_seed(false).unwrap();
	let genesis = genesis_block(&kc);

	let (head_n, fork_b) = {
		let chain = try_open(dir_node, &genesis).unwrap();
		for i in 1..=8u64 {
			let prev = chain.head_header().unwrap();
			let b = prepare_block(&kc, &prev, &chain, i as u32, i, &[]);
			chain.process_block(b, Options::SKIP_POW).unwrap();
		}
		let head_n = chain.head_header().unwrap();
		let fork_prev = chain.get_header_by_height(6).unwrap();
		let fork_b = prepare_block(&kc, &fork_prev, &chain, 200, 100, &[]);
		chain
			.process_block_header(&fork_b.header, Options::SKIP_POW)
			.unwrap();
		(head_n, fork_b)
	};
	copy_dir(Path::new(dir_node), Path::new(dir_snap));
	{
		let chain = try_open(dir_node, &genesis).unwrap();
		chain
			.process_block(fork_b.clone(), Options::SKIP_POW)
			.unwrap();
		assert_eq!(chain.head().unwrap().hash(), fork_b.hash());
	}
	copy_dir(Path::new(dir_snap), Path::new(dir_kill));
	replace_subdir(dir_node, dir_kill, "txhashset");

	match try_open(dir_kill, &genesis) {
		Err(e) => eprintln!("OBS block reorg: Chain::init after kill FAILED: {:?}", e),
		Ok(chain) => {
			let head = chain.head().unwrap();
			eprintln!(
				"OBS block reorg: reopened, head height {} (old head 8), head==N {}",
				head.height,
				head.hash() == head_n.hash(),
			);
			eprintln!(
				"OBS block reorg: validate(false) = {:?}",
				chain.validate(false)
			);
			let res = chain.process_block(fork_b.clone(), Options::SKIP_POW);
			eprintln!(
				"OBS block reorg: re-deliver fork block -> {:?}",
				res.map(|t| t.map(|t| t.height))
			);
			eprintln!(
				"OBS block reorg: head after re-delivery: {} (uninterrupted node: 7)",
				chain.head().unwrap().height
			);
		}
	}
	for d in &[dir_node, dir_snap, dir_kill] {
		clean_output_dir(d);
	}
}
