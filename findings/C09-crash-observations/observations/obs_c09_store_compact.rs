// Exploratory: kill points inside PMMRBackend::check_compact on UNMODIFIED code.
// dest: store/tests/obs_c09_compact.rs
// run:  cargo test -p grin_store --offline --test obs_c09_compact -- --nocapture
//
// State after a kill is reconstructed by copying files: directory snapshot taken
// before the compaction + the already replaced files taken from a directory in
// which the compaction completed.

use grin_core as core;
use grin_store as store;

use std::fs;
use std::path::Path;

use chrono::prelude::Utc;
use croaring::Bitmap;

use crate::core::core::hash::{DefaultHashable, Hash};
use crate::core::core::pmmr::{self, Backend, ReadablePMMR, PMMR};
use crate::core::ser::{
	Error, PMMRable, ProtocolVersion, Readable, Reader, Writeable, Writer,
};

#[derive(Copy, Clone, Debug, PartialEq, Eq)]
struct TestElem(u32);

impl DefaultHashable for TestElem {}

impl PMMRable for TestElem {
	type E = Self;

	fn as_elmt(&self) -> Self::E {
		self.clone()
	}

	fn elmt_size() -> Option<u16> {
		Some(4)
	}
}

impl Writeable for TestElem {
	fn write<W: Writer>(&self, writer: &mut W) -> Result<(), Error> {
		writer.write_u32(self.0)
	}
}

impl Readable for TestElem {
	fn read<R: Reader>(reader: &mut R) -> Result<TestElem, Error> {
		Ok(TestElem(reader.read_u32()?))
	}
}

type TestBackend = store::pmmr::PMMRBackend<TestElem>;

fn open(data_dir: &str) -> TestBackend {
	store::pmmr::PMMRBackend::new(data_dir.to_string(), true, ProtocolVersion(1), None).unwrap()
}

/// (root, per-leaf (hash, data)) as seen through the public PMMR API.
fn observe(
	backend: &mut TestBackend,
	mmr_size: u64,
) -> (Hash, Vec<(Option<Hash>, Option<TestElem>)>) {
	let pmmr: PMMR<'_, TestElem, _> = PMMR::at(backend, mmr_size);
	let root = pmmr.root().unwrap();
	let mut leaves = vec![];
	for pos0 in 0..mmr_size {
		if pmmr::is_leaf(pos0) {
			leaves.push((pmmr.get_hash(pos0), pmmr.get_data(pos0)));
		}
	}
	(root, leaves)
}


fn copy_dir(from: &Path, to: &Path) {
	fs::create_dir_all(to).unwrap();
	for entry in fs::read_dir(from).unwrap() {
		let entry = entry.unwrap();
		fs::copy(entry.path(), to.join(entry.file_name())).unwrap();
	}
}

#[test]
fn obs_kill_in_compaction() {
	let t = Utc::now();
	let base = format!("./target/tmp/{}.{}-obs_c09_compact", t.timestamp(), t.timestamp_subsec_nanos());
	let dir_a = format!("{}/a", base);
	let dir_s = format!("{}/s", base);
	fs::create_dir_all(&dir_a).unwrap();
	let elems: Vec<TestElem> = (1..20).map(TestElem).collect();
	let (mmr_size, root, leaves) = {
		let mut backend = open(&dir_a);
		let mmr_size = {
			let mut pmmr = PMMR::at(&mut backend, 0);
			for elem in &elems { pmmr.push(elem).unwrap(); }
			pmmr.unpruned_size()
		};
		backend.sync().unwrap();
		{
			let mut pmmr: PMMR<'_, TestElem, _> = PMMR::at(&mut backend, mmr_size);
			pmmr.prune(0).unwrap(); pmmr.prune(1).unwrap(); pmmr.prune(3).unwrap(); pmmr.prune(7).unwrap();
		}
		backend.sync().unwrap();
		let (root, leaves) = observe(&mut backend, mmr_size);
		(mmr_size, root, leaves)
	};
	copy_dir(Path::new(&dir_a), Path::new(&dir_s));
	{
		let mut backend = open(&dir_a);
		backend.check_compact(mmr_size, &Bitmap::new()).unwrap();
	}
	for (tag, files) in &[("after hash replace", vec!["pmmr_hash.bin"]), ("after data replace, before prune list flush", vec!["pmmr_hash.bin", "pmmr_data.bin"])] {
		let dir_k = format!("{}/k{}", base, files.len());
		copy_dir(Path::new(&dir_s), Path::new(&dir_k));
		for f in files { fs::copy(Path::new(&dir_a).join(f), Path::new(&dir_k).join(f)).unwrap(); }
		let mut backend = open(&dir_k);
		let size_ok = backend.unpruned_size() == mmr_size;
		let res = std::panic::catch_unwind(std::panic::AssertUnwindSafe(|| observe(&mut backend, mmr_size)));
		match res {
			Ok((r, l)) => eprintln!("OBS compaction kill {}: size_ok={} root_ok={} leaves_ok={}", tag, size_ok, r == root, l == leaves),
			Err(_) => eprintln!("OBS compaction kill {}: size_ok={} observe PANICKED", tag, size_ok),
		}
	}
	fs::remove_dir_all(&base).unwrap();
}
