// dest: pool/tests/obs_c13_pool_lock_height_after_reorg.rs
// run:  cargo test -p grin_pool --offline --test obs_c13_pool_lock_height_after_reorg
// Observation demo (NOT a seed): exercises unmodified HEAD, see SEED/observations.md.
//
// A tx with a height-locked kernel (lock_height 6) is admitted to the pool while the head is at
// height 5 (next block = 6). The chain then reorgs onto a heavier but *shorter* fork (head at
// height 4, next block = 5). The pool is reconciled exactly as the server does it
// (reconcile_block + reconcile_reorg_cache). The tx stays in the pool (and is handed to the miner)
// although a block at height 5 containing it is invalid.

pub mod common;

use self::core::core::hash::Hashed;
use self::core::core::{Block, BlockHeader, KernelFeatures, Transaction};
use self::core::global;
use self::core::libtx::{build, reward, ProofBuilder};
use self::core::pow::{self, Difficulty};
use self::keychain::{ExtKeychain, ExtKeychainPath, Keychain};
use self::pool::types::PoolError;
use crate::common::*;
use chrono::Duration;
use grin_chain as chain;
use grin_core as core;
use grin_keychain as keychain;
use grin_pool as pool;
use grin_util as util;
use std::convert::TryInto;
use std::sync::Arc;

fn key_id(idx: u32) -> keychain::Identifier {
	ExtKeychainPath::new(1, idx, 0, 0, 0).to_identifier()
}

fn prepare_block<K: Keychain>(
	kc: &K,
	prev: &BlockHeader,
	chain: &chain::Chain,
	key_idx: u32,
	diff: u64,
	txs: &[Transaction],
) -> Block {
	let fees = txs.iter().map(|tx| tx.fee()).sum();
	let reward = reward::output(kc, &ProofBuilder::new(kc), &key_id(key_idx), fees, false).unwrap();
	let mut b = Block::new(prev, txs, Difficulty::from_num(diff), reward).unwrap();
	b.header.timestamp = prev.timestamp + Duration::seconds(60);
	b.header.pow.total_difficulty = prev.total_difficulty() + Difficulty::from_num(diff);
	b.header.pow.proof = pow::Proof::random(global::proofsize());
	chain.set_txhashset_roots(&mut b).unwrap();
	b
}

fn locked_tx<K: Keychain>(kc: &K, coinbase_idx: u32, out_idx: u32, lock_height: u64) -> Transaction {
	let reward: u64 = 60_000_000_000;
	let out: u64 = 1_000_000;
	build::transaction(
		KernelFeatures::HeightLocked {
			fee: (reward - out).try_into().unwrap(),
			lock_height,
		},
		&[
			build::coinbase_input(reward, key_id(coinbase_idx)),
			build::output(out, key_id(out_idx)),
		],
		kc,
		&ProofBuilder::new(kc),
	)
	.unwrap()
}

#[test]
fn pool_keeps_height_locked_tx_after_reorg_to_shorter_chain() {
	util::init_test_logger();
	global::set_local_chain_type(global::ChainTypes::AutomatedTesting);
	global::set_local_accept_fee_base(50_000_000);
	let kc: ExtKeychain = Keychain::from_random_seed(false).unwrap();

	let db_root = "target/.obs_c13_lock_height_reorg";
	clean_output_dir(db_root.into());

	let genesis = genesis_block(&kc);
	let chain = Arc::new(init_chain(db_root, genesis));
	let mut pool = init_transaction_pool(Arc::new(ChainAdapter {
		chain: chain.clone(),
	}));

	// Main chain: blocks 1..5, difficulty 10 each.
	let mut headers = vec![chain.head_header().unwrap()];
	for h in 1..=5u32 {
		let b = prepare_block(&kc, headers.last().unwrap(), &chain, h, 10, &[]);
		headers.push(b.header.clone());
		chain.process_block(b, chain::Options::SKIP_POW).unwrap();
	}
	let head = chain.head_header().unwrap();
	assert_eq!(head.height, 5);

	// lock_height 7 is refused (next block is 6), lock_height 6 is admitted.
	let tx_7 = locked_tx(&kc, 2, 72, 7);
	assert_eq!(
		pool.add_to_pool(test_source(), tx_7, false, &head).err(),
		Some(PoolError::ImmatureTransaction)
	);
	let tx_6 = locked_tx(&kc, 1, 71, 6);
	assert_eq!(pool.add_to_pool(test_source(), tx_6.clone(), false, &head), Ok(()));
	assert_eq!(pool.total_size(), 1);

	// Heavier but shorter fork off block 2: 3', 4' with difficulty 100 each.
	let b3 = prepare_block(&kc, &headers[2], &chain, 103, 100, &[]);
	chain.process_block(b3.clone(), chain::Options::SKIP_POW).unwrap();
	let b4 = prepare_block(&kc, &b3.header, &chain, 104, 100, &[]);
	chain.process_block(b4.clone(), chain::Options::SKIP_POW).unwrap();
	let head = chain.head_header().unwrap();
	assert_eq!(head.hash(), b4.hash());
	assert_eq!(head.height, 4);

	// What the server does on a reorg (servers/src/common/adapters.rs block_accepted).
	pool.reconcile_block(&b3).unwrap();
	pool.reconcile_block(&b4).unwrap();
	pool.reconcile_reorg_cache(&b4.header).unwrap();

	// The next block is now height 5 < lock_height 6: the tx is not admissible any more...
	assert!(chain.verify_tx_lock_height(&tx_6).is_err());

	// ... so it should not be sitting in the pool / be offered to the miner.
	let mineable = pool.prepare_mineable_transactions().unwrap();
	assert_eq!(
		(pool.total_size(), mineable.len()),
		(0, 0),
		"tx with lock_height 6 is still in the pool while the next block is at height 5"
	);

	clean_output_dir(db_root.into());
}
