// dest: chain/tests/obs_c02_deep_reorg_after_compaction.rs
// run : cargo test -p grin_chain --offline --test obs_c02_deep_reorg_after_compaction
//
// NOT a seed demo. This exercises the UNMODIFIED code (see SEED/observations.md):
// with the AutomatedTesting parameters `Chain::compact` compacts the txhashset up to
// head-20 but keeps full blocks down to the (lower) txhashset archive header height,
// so a fork whose fork point lies below the compaction horizon is still accepted.
// Rewinding below the horizon "unspends" outputs whose data was compacted away.
// The assertions below state C02; they are expected to FAIL on the unmodified tree.

use self::chain::Chain;
use self::core::core::hash::Hashed;
use self::core::core::{Block, BlockHeader, KernelFeatures, Transaction};
use self::core::global::ChainTypes;
use self::core::libtx::{self, build, ProofBuilder};
use self::core::pow::Difficulty;
use self::core::{consensus, global, pow};
use self::keychain::{ExtKeychain, ExtKeychainPath, Keychain};
use self::util::secp::pedersen::Commitment;
use chrono::Duration;
use grin_chain as chain;
use grin_core as core;
use grin_keychain as keychain;
use grin_util as util;

mod chain_test_helper;

use self::chain_test_helper::{clean_output_dir, init_chain};

fn prepare_block<K>(
	kc: &K,
	prev: &BlockHeader,
	chain: &Chain,
	diff: u64,
	key_idx: u32,
	txs: &[Transaction],
) -> Block
where
	K: Keychain,
{
	let proof_size = global::proofsize();
	let key_id = ExtKeychainPath::new(1, key_idx, 0, 0, 0).to_identifier();
	let fees = txs.iter().map(|tx| tx.fee()).sum();
	let reward =
		libtx::reward::output(kc, &ProofBuilder::new(kc), &key_id, fees, false).unwrap();
	let mut b = core::core::Block::new(prev, txs, Difficulty::from_num(diff), reward).unwrap();
	b.header.timestamp = prev.timestamp + Duration::seconds(60);
	b.header.pow.total_difficulty = prev.total_difficulty() + Difficulty::from_num(diff);
	b.header.pow.proof = pow::Proof::random(proof_size);
	chain.set_txhashset_roots(&mut b).unwrap();
	b
}

#[test]
fn fork_below_the_compaction_horizon() {
	global::set_local_chain_type(ChainTypes::AutomatedTesting);
	util::init_test_logger();
	let chain_dir = ".grin_obs_c02_deep_reorg_after_compaction";
	clean_output_dir(chain_dir);

	let genesis = core::genesis::genesis_dev();
	let kc = ExtKeychain::from_random_seed(false).unwrap();
	let pb = ProofBuilder::new(&kc);
	let key = |i: u32| ExtKeychainPath::new(1, i, 0, 0, 0).to_identifier();

	let chain = init_chain(chain_dir, genesis.clone());
	let mut head = chain.head_header().unwrap();
	let mut coinbase: Vec<Commitment> = vec![]; // coinbase[i] = coinbase of block i+1
	let mut header_62 = None;

	// Blocks 1..=62: coinbase only.
	for n in 1..=62u32 {
		let b = prepare_block(&kc, &head, &chain, n as u64 + 1, n, &[]);
		head = b.header.clone();
		coinbase.push(b.outputs()[0].commitment());
		chain.process_block(b, chain::Options::SKIP_POW).unwrap();
		if n == 62 {
			header_62 = Some(head.clone());
		}
	}
	let header_62 = header_62.unwrap();

	// Block 63 spends the coinbases of blocks 9 and 10 (sibling leaves of the output MMR).
	let tx = build::transaction(
		KernelFeatures::Plain { fee: 20000.into() },
		&[
			build::coinbase_input(consensus::REWARD, key(9)),
			build::coinbase_input(consensus::REWARD, key(10)),
			build::output(2 * consensus::REWARD - 20000, key(1000)),
		],
		&kc,
		&pb,
	)
	.unwrap();
	let b = prepare_block(&kc, &head, &chain, 64, 63, &[tx]);
	head = b.header.clone();
	chain.process_block(b, chain::Options::SKIP_POW).unwrap();

	// Blocks 64..=85: coinbase only.
	for n in 64..=85u32 {
		let b = prepare_block(&kc, &head, &chain, n as u64 + 1, n, &[]);
		head = b.header.clone();
		chain.process_block(b, chain::Options::SKIP_POW).unwrap();
	}
	assert!(chain.get_unspent(coinbase[8]).unwrap().is_none());
	assert!(chain.get_unspent(coinbase[9]).unwrap().is_none());

	// Compaction: txhashset horizon = 85 - 20 = 65, blocks are kept from height 60.
	chain.compact().unwrap();
	let tail = chain.tail().unwrap();
	println!("tail after compaction: {}", tail.height);
	assert!(tail.height > 1, "compaction was skipped");
	assert!(tail.height <= 62, "block 62 must still be there for this scenario");
	chain.validate(false).unwrap();

	// A competing block 63' on top of block 62 (below the compaction horizon 65) with a lot of work.
	let f63 = prepare_block(&kc, &header_62, &chain, 1_000_000, 2063, &[]);
	let f63_hash = f63.hash();
	let f63_out = f63.outputs()[0].commitment();
	let res = chain.process_block(f63, chain::Options::SKIP_POW);
	println!("process_block(63') -> {:?}", res.as_ref().map(|t| t.as_ref().map(|t| t.height)));

	if res.is_ok() && chain.head().unwrap().last_block_h == f63_hash {
		// The node accepted the reorg: the winning chain is g,1,...,62,63'.
		// On that chain nothing was ever spent: all 62 coinbases and the coinbase of 63' are unspent.
		let mut missing = vec![];
		for (i, c) in coinbase.iter().enumerate() {
			if chain.get_unspent(*c).unwrap().is_none() {
				missing.push(i + 1);
			}
		}
		println!("coinbases reported as spent on the winning chain: blocks {:?}", missing);
		assert!(chain.get_unspent(f63_out).unwrap().is_some());
		assert!(
			missing.is_empty(),
			"outputs unspent on the winning chain are reported as spent: coinbases of blocks {:?}",
			missing
		);
		chain.validate(false).unwrap();
	} else {
		// Refusing the too-deep fork would be fine as far as C02 is concerned.
		println!("the deep fork was not accepted");
	}

	clean_output_dir(chain_dir);
}
