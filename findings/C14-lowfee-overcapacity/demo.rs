// Demonstration for the C14 finding "minimum fee not enforced when the txpool is over capacity".
// Drop into pool/tests/ and run: cargo test -p grin_pool --offline --test c14_lowfee_overcapacity
pub mod common;

use self::core::global;
use self::keychain::{ExtKeychain, Keychain};
use self::pool::types::{PoolAdapter, PoolConfig, PoolEntry, PoolError};
use self::pool::TransactionPool;
use crate::common::*;
use grin_core as core;
use grin_keychain as keychain;
use grin_pool as pool;
use grin_util as util;
use std::sync::atomic::{AtomicUsize, Ordering};
use std::sync::Arc;

struct CountingAdapter {
	relayed: AtomicUsize,
}
impl PoolAdapter for CountingAdapter {
	fn tx_accepted(&self, _entry: &PoolEntry) {
		self.relayed.fetch_add(1, Ordering::SeqCst);
	}
	fn stem_tx_accepted(&self, _entry: &PoolEntry) -> Result<(), PoolError> {
		Ok(())
	}
}

#[test]
fn low_fee_tx_is_refused_even_when_pool_is_over_capacity() {
	util::init_test_logger();
	global::set_local_chain_type(global::ChainTypes::AutomatedTesting);
	global::set_local_accept_fee_base(100);
	let keychain: ExtKeychain = Keychain::from_random_seed(false).unwrap();

	let db_root = "target/.c14_lowfee_overcapacity";
	clean_output_dir(db_root.into());
	let genesis = genesis_block(&keychain);
	let chain = Arc::new(init_chain(db_root, genesis));
	let adapter = Arc::new(CountingAdapter {
		relayed: AtomicUsize::new(0),
	});
	let mut pool = TransactionPool::new(
		PoolConfig {
			accept_fee_base: 100,
			reorg_cache_period: 30,
			max_pool_size: 1,
			max_stempool_size: 1,
			mineable_max_weight: 10_000,
		},
		Arc::new(ChainAdapter {
			chain: chain.clone(),
		}),
		adapter.clone(),
	);
	add_some_blocks(&chain, 4 * 3, &keychain);
	let header = chain.head_header().unwrap();
	let header_1 = chain.get_header_by_height(1).unwrap();

	// two well-paying txs: the pool (max_pool_size 1) is now over capacity
	let initial_tx = test_transaction_spending_coinbase(
		&keychain,
		&header_1,
		vec![1_000_000, 2_000_000, 3_000_000],
	);
	pool.add_to_pool(test_source(), initial_tx, false, &header).unwrap();
	let tx1 = test_transaction(&keychain, vec![1_000_000], vec![500_000]);
	pool.add_to_pool(test_source(), tx1, false, &header).unwrap();
	assert_eq!(pool.total_size(), 2);
	let relayed_before = adapter.relayed.load(Ordering::SeqCst);

	// a tx paying 1 nanogrin for weight 25 (minimum 2_500)
	let tx_low = test_transaction(&keychain, vec![2_000_000], vec![1_999_999]);
	assert!(tx_low.shifted_fee() < tx_low.accept_fee());

	// sanity: the same tx is refused by a pool that is NOT over capacity ...
	// (checked below on a fresh pool), and must be refused here as well
	let res = pool.add_to_pool(test_source(), tx_low.clone(), false, &header);
	let relayed_after = adapter.relayed.load(Ordering::SeqCst);
	assert!(
		res.is_err() && relayed_after == relayed_before,
		"a tx paying {} (minimum {}) was admitted to a pool that is over capacity: add_to_pool returned {:?}, relayed to peers: {}",
		tx_low.shifted_fee(),
		tx_low.accept_fee(),
		res,
		relayed_after > relayed_before,
	);
	clean_output_dir(db_root.into());
}
