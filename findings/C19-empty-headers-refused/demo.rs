// Demonstration for the C19 finding F16 "a legitimate EMPTY Headers message (count 0, length 2) is refused and the connection dropped" (p2p/src/codec.rs, Codec::read_inner).
//
// Place this file at p2p/tests/c19_empty_headers.rs and run
//
//     cargo test -p grin_p2p --offline --test c19_empty_headers
//
// C19 clause exercised: "Any sequence of protocol messages written by one peer is read by the
// other as the identical sequence of typed messages": the sequence [Headers([]), Ping] -- an empty
// header list is what Protocol::consume(GetHeaders) answers when locate_headers finds nothing.
//
// A raw TCP client handshakes with a real `Peer` (which runs the `Codec` in its
// reader thread, the codec module itself is private) and then sends `Headers`
// frames whose announced body length is larger than what the announced item
// count accounts for. The surplus bytes are shaped like a complete `Ping`
// frame. A faithful codec refuses the frame (Error::BadMessage, the connection
// is dropped) and never answers the smuggled ping.

use grin_core as core;
use grin_p2p as p2p;
use grin_util as util;

use std::io::Write;
use std::net::{TcpListener, TcpStream};
use std::sync::{Arc, Once, OnceLock};
use std::thread;
use std::time::Duration;

use crate::core::core::hash::Hash;
use crate::core::core::{BlockHeader, UntrustedBlockHeader};
use crate::core::global;
use crate::core::pow::{self, Difficulty};
use crate::core::ser::{self, DeserializationMode, ProtocolVersion};
use crate::p2p::handshake::Handshake;
use crate::p2p::msg::{
	read_body, read_header, read_message, Hand, MsgHeader, MsgHeaderWrapper, Ping, Pong, Shake,
	Type,
};
use crate::p2p::types::PeerAddr;
use crate::p2p::{Capabilities, DummyAdapter, P2PConfig, Peer};

fn version() -> ProtocolVersion {
	ProtocolVersion::local()
}

fn genesis() -> Hash {
	Hash::from_vec(&[])
}

/// Serialize a frame: msg header announcing `body.len()` bytes followed by the body.
fn frame(msg_type: Type, body: &[u8]) -> Vec<u8> {
	let mut buf = ser::ser_vec(&MsgHeader::new(msg_type, body.len() as u64), version()).unwrap();
	buf.extend_from_slice(body);
	buf
}

fn ping_frame() -> Vec<u8> {
	let body = ser::ser_vec(
		&Ping {
			total_difficulty: Difficulty::min_dma(),
			height: 7,
		},
		version(),
	)
	.unwrap();
	assert_eq!(body.len(), 16);
	frame(Type::Ping, &body)
}

/// A header carrying a valid proof of work (mined once, shared by all tests).
fn mined_header() -> BlockHeader {
	static HEADER: OnceLock<BlockHeader> = OnceLock::new();
	HEADER
		.get_or_init(|| pow::mine_genesis_block().unwrap().header)
		.clone()
}

/// Body of a `Headers` message: u16 item count, then `n_headers` serialized headers,
/// then `trailing` raw bytes that are covered by the announced length but not by the count.
fn headers_body(count: u16, n_headers: usize, trailing: &[u8]) -> Vec<u8> {
	// The untrusted header deserializer verifies the proof of work, so mine a real
	// (AutomatedTesting, tiny cuckoo graph) header once and reuse it for every item.
	let mined: BlockHeader = mined_header();
	let header = ser::ser_vec(&mined, version()).unwrap();
	// make sure the header we use is accepted by the untrusted deserializer
	let check: Result<UntrustedBlockHeader, _> =
		ser::deserialize(&mut &header[..], version(), DeserializationMode::default());
	assert!(check.is_ok(), "test header must deserialize");

	let mut body = vec![];
	body.extend_from_slice(&count.to_be_bytes());
	for _ in 0..n_headers {
		body.extend_from_slice(&header);
	}
	body.extend_from_slice(trailing);
	body
}

/// Connects a raw client to a freshly accepted `Peer`, returns the client stream and the peer
/// (which must be kept alive by the caller).
fn connect_raw_client() -> (TcpStream, Peer) {
	let listener = TcpListener::bind("127.0.0.1:0").unwrap();
	let addr = listener.local_addr().unwrap();

	let client_thread = thread::spawn(move || {
		let mut client = TcpStream::connect(addr).unwrap();
		client
			.set_read_timeout(Some(Duration::from_secs(5)))
			.unwrap();
		let hand = Hand {
			version: version(),
			capabilities: Capabilities::UNKNOWN,
			nonce: 0x1234_5678_9abc_def0,
			genesis: genesis(),
			total_difficulty: Difficulty::min_dma(),
			sender_addr: PeerAddr("127.0.0.1:5000".parse().unwrap()),
			receiver_addr: PeerAddr(addr),
			user_agent: "c19-demo".to_string(),
		};
		let body = ser::ser_vec(&hand, version()).unwrap();
		client.write_all(&frame(Type::Hand, &body)).unwrap();
		let shake: Shake = read_message(&mut client, version(), Type::Shake).unwrap();
		assert_eq!(shake.genesis, genesis());
		client
	});

	let (server_side, _) = listener.accept().unwrap();
	let hs = Handshake::new(genesis(), P2PConfig::default());
	let peer = Peer::accept(
		server_side,
		Capabilities::UNKNOWN,
		Difficulty::min_dma(),
		&hs,
		Arc::new(DummyAdapter {}),
	)
	.unwrap();
	let client = client_thread.join().unwrap();
	(client, peer)
}

/// Try to read a Pong from the stream. Ok(()) if a Pong frame came back,
/// Err(description) if the stream was closed / timed out / produced something else.
fn expect_pong(client: &mut TcpStream) -> Result<(), String> {
	match read_header(client, version()) {
		Ok(MsgHeaderWrapper::Known(h)) => {
			if h.msg_type != Type::Pong {
				return Err(format!("unexpected msg type {:?}", h.msg_type));
			}
			let _pong: Pong = read_body(&h, client, version()).map_err(|e| format!("{:?}", e))?;
			Ok(())
		}
		Ok(MsgHeaderWrapper::Unknown(_, t)) => Err(format!("unknown type {}", t)),
		Err(e) => Err(format!("{:?}", e)),
	}
}

fn setup() {
	// The global chain type may only be initialised once per process; the peer reader/writer
	// threads pick it up from there.
	static INIT: Once = Once::new();
	INIT.call_once(|| {
		global::init_global_chain_type(global::ChainTypes::AutomatedTesting);
		util::init_test_logger();
	});
	global::set_local_chain_type(global::ChainTypes::AutomatedTesting);
}


/// An EMPTY Headers message -- item count 0, announced length 2 -- is consistent and is produced by the
/// protocol itself (the reply to GetHeaders when no locator hash is known or the peer is already at
/// our header head). It must be delivered and the stream must stay in sync: the Ping sent right
/// after it is answered. On the unrepaired tree the codec answers BadMessage and the reader thread
/// drops the connection.
#[test]
fn empty_headers_message_is_delivered_and_the_stream_stays_in_sync() {
	setup();
	let (mut client, _peer) = connect_raw_client();
	let body = headers_body(0, 0, &[]);
	assert_eq!(body.len(), 2);
	client.write_all(&frame(Type::Headers, &body)).unwrap();
	client.write_all(&ping_frame()).unwrap();
	let res = expect_pong(&mut client);
	assert!(
		res.is_ok(),
		"an empty Headers message (count 0, length 2) followed by a Ping: the Ping was not answered: {:?}",
		res
	);
}

/// ... while count 0 with a non-empty body stays refused (the connection is dropped, the smuggled Ping is not answered).
#[test]
fn zero_count_with_body_is_still_refused() {
	setup();
	let (mut client, _peer) = connect_raw_client();
	let body = headers_body(0, 0, &ping_frame());
	client.write_all(&frame(Type::Headers, &body)).unwrap();
	let res = expect_pong(&mut client);
	assert!(res.is_err(), "a Headers frame with count 0 and a body must be refused, got {:?}", res);
}
