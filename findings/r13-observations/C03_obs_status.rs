// dest: chain/tests/obs_c03_status.rs
// run: cargo test -p grin_chain --offline --test obs_c03_status -- --nocapture
use self::chain::types::Tip;
use grin_chain::{BlockStatus, ChainAdapter};
use grin_util::RwLock;
use self::chain::Chain;
use self::core::core::hash::Hashed;
use self::core::core::{Block, BlockHeader};
use self::core::global::ChainTypes;
use self::core::libtx;
use self::core::pow::Difficulty;
use self::core::{global, pow};
use self::keychain::{ExtKeychain, ExtKeychainPath, Keychain};
use chrono::Duration;
use grin_chain as chain;
use grin_chain::Options;
use grin_core as core;
use grin_keychain as keychain;
use std::fs;
use std::sync::Arc;

fn clean(dir: &str) {
	let _ = fs::remove_dir_all(dir);
}

pub struct StatusAdapter {
	pub last: RwLock<Option<BlockStatus>>,
}
impl ChainAdapter for StatusAdapter {
	fn block_accepted(&self, _b: &Block, status: BlockStatus, _opts: Options) {
		*self.last.write() = Some(status);
	}
}

fn init(dir: &str, genesis: Block, adapter: Arc<StatusAdapter>) -> Chain {
	clean(dir);
	Chain::init(
		dir.to_string(),
		adapter,
		genesis,
		pow::verify_size,
		false,
		None,
	)
	.unwrap()
}

fn prepare_block<K: Keychain>(
	kc: &K,
	prev: &BlockHeader,
	chain: &Chain,
	diff: u64,
	key_idx: u32,
) -> Block {
	let key_id = ExtKeychainPath::new(1, key_idx, 0, 0, 0).to_identifier();
	let reward =
		libtx::reward::output(kc, &libtx::ProofBuilder::new(kc), &key_id, 0, false).unwrap();
	let mut b = core::core::Block::new(prev, &[], Difficulty::from_num(diff), reward).unwrap();
	b.header.timestamp = prev.timestamp + Duration::seconds(60);
	b.header.pow.total_difficulty = prev.total_difficulty() + Difficulty::from_num(diff);
	b.header.pow.proof = pow::Proof::random(global::proofsize());
	chain.set_txhashset_roots(&mut b).unwrap();
	b
}

#[test]
fn obs_status_depends_on_header_chain() {
	global::set_local_chain_type(ChainTypes::AutomatedTesting);
	let kc = ExtKeychain::from_random_seed(false).unwrap();
	let genesis = pow::mine_genesis_block().unwrap();
	let new_adapter = || Arc::new(StatusAdapter { last: RwLock::new(None) });

	let builder = init(".grin.obs_c03_builder", genesis.clone(), new_adapter());
	let mut main = vec![];
	let mut prev = builder.head_header().unwrap();
	for n in 1..=4u32 {
		let b = prepare_block(&kc, &prev, &builder, 10, n);
		prev = b.header.clone();
		builder.process_block(b.clone(), Options::SKIP_POW).unwrap();
		main.push(b);
	}
	let mut fork = vec![];
	let mut prev = main[0].header.clone();
	for n in 2..=4u32 {
		let b = prepare_block(&kc, &prev, &builder, 11, 100 + n);
		prev = b.header.clone();
		builder.process_block(b.clone(), Options::SKIP_POW).unwrap();
		fork.push(b);
	}

	// Scenario A: a real body reorg (M3 -> F3) while the header chain stays on M (header M4 known).
	{
		let ad = new_adapter();
		let dest = init(".grin.obs_c03_a", genesis.clone(), ad.clone());
		for b in &main[0..3] {
			dest.process_block(b.clone(), Options::SKIP_POW).unwrap();
		}
		dest.process_block_header(&main[3].header, Options::SKIP_POW).unwrap();
		dest.process_block(fork[0].clone(), Options::SKIP_POW).unwrap();
		println!("A: after F2: {:?}", *ad.last.read());
		let prev_head = dest.head().unwrap();
		assert_eq!(prev_head, Tip::from_header(&main[2].header));
		dest.process_block(fork[1].clone(), Options::SKIP_POW).unwrap();
		assert_eq!(dest.head().unwrap(), Tip::from_header(&fork[1].header));
		assert_eq!(dest.header_head().unwrap(), Tip::from_header(&main[3].header));
		println!("A: head moved M3 -> F3 (a reorg off M1). status = {:?}", *ad.last.read());
		let is_reorg = match *ad.last.read() { Some(BlockStatus::Reorg { .. }) => true, _ => false };
		println!("A: reported as reorg: {}", is_reorg);
		clean(".grin.obs_c03_a");
	}

	// Scenario B: a plain "next" block (M2 -> M3) while the header chain is on F (headers F2..F4 known).
	{
		let ad = new_adapter();
		let dest = init(".grin.obs_c03_b", genesis.clone(), ad.clone());
		for b in &main[0..2] {
			dest.process_block(b.clone(), Options::SKIP_POW).unwrap();
		}
		for b in &fork {
			dest.process_block_header(&b.header, Options::SKIP_POW).unwrap();
		}
		assert_eq!(dest.header_head().unwrap(), Tip::from_header(&fork[2].header));
		dest.process_block(main[2].clone(), Options::SKIP_POW).unwrap();
		assert_eq!(dest.head().unwrap(), Tip::from_header(&main[2].header));
		println!("B: head moved M2 -> M3 (next block). status = {:?}", *ad.last.read());
		let is_next = match *ad.last.read() { Some(BlockStatus::Next { .. }) => true, _ => false };
		println!("B: reported as next: {}", is_next);
		clean(".grin.obs_c03_b");
	}
	clean(".grin.obs_c03_builder");
}
