// dest: chain/tests/seed_c06_fork_fails_after_rewind.rs
// run:  cargo test -p grin_chain --offline --test seed_c06_fork_fails_after_rewind
//
// C06: a block that is rejected must leave the best-chain state (roots, unspent set,
// block sums) untouched, and the node must carry on like one that never saw it.
//
// The rejected block here sits on a fork (its parent is the block below the head) and
// spends an immature coinbase: process_block rewinds the working MMRs to the fork
// point and then fails in verify_coinbase_maturity, i.e. BEFORE anything has been
// appended to the rewound MMRs. The block is prepared on a twin chain, so the chain
// under test only ever sees process_block calls.

use grin_chain as chain;
use grin_core as core;
use grin_keychain as keychain;

use self::chain::Chain;
use self::core::core::hash::Hashed;
use self::core::core::{Block, BlockHeader, KernelFeatures, Transaction};
use self::core::global::ChainTypes;
use self::core::pow::Difficulty;
use self::core::libtx::build;
use self::core::{consensus, global, libtx, pow};
use self::keychain::{ExtKeychain, ExtKeychainPath, Keychain};
use chrono::Duration;

mod chain_test_helper;
use self::chain_test_helper::{clean_output_dir, init_chain};

fn prepare_block<K: Keychain>(kc: &K, prev: &BlockHeader, chain: &Chain, diff: u64) -> Block {
	prepare_block_tx(kc, prev, chain, diff, &[])
}

fn prepare_block_tx<K: Keychain>(
	kc: &K,
	prev: &BlockHeader,
	chain: &Chain,
	diff: u64,
	txs: &[Transaction],
) -> Block {
	let key_id = ExtKeychainPath::new(1, diff as u32, 0, 0, 0).to_identifier();
	let fees = txs.iter().map(|tx| tx.fee()).sum();
	let reward =
		libtx::reward::output(kc, &libtx::ProofBuilder::new(kc), &key_id, fees, false).unwrap();
	let mut b = Block::new(prev, txs, Difficulty::from_num(diff), reward).unwrap();
	b.header.timestamp = prev.timestamp + Duration::seconds(60);
	b.header.pow.total_difficulty = prev.total_difficulty() + Difficulty::from_num(diff);
	b.header.pow.proof = pow::Proof::random(global::proofsize());
	chain.set_txhashset_roots(&mut b).unwrap();
	b
}

#[test]
fn rejected_fork_block_leaves_best_chain_state_untouched() {
	let dir = ".grin_seed_c06_fork_fail";
	let dir_twin = ".grin_seed_c06_fork_fail_twin";
	clean_output_dir(dir);
	clean_output_dir(dir_twin);
	global::set_local_chain_type(ChainTypes::AutomatedTesting);
	let kc = ExtKeychain::from_random_seed(false).unwrap();
	let genesis = pow::mine_genesis_block().unwrap();
	{
		let chain = init_chain(dir, genesis.clone());
		let twin = init_chain(dir_twin, genesis.clone());

		// Same 4 block history on both chains (blocks are built on the twin).
		let mut headers = vec![twin.head_header().unwrap()];
		let mut blocks = vec![];
		for n in 1..=4u64 {
			let b = prepare_block(&kc, headers.last().unwrap(), &twin, 10 + n);
			headers.push(b.header.clone());
			twin.process_block(b.clone(), chain::Options::SKIP_POW)
				.unwrap();
			chain
				.process_block(b.clone(), chain::Options::SKIP_POW)
				.unwrap();
			blocks.push(b);
		}

		// A block forking off height 3 (head is at 4) that spends the coinbase of block 2,
		// which is still immature at height 4.
		let pb = libtx::ProofBuilder::new(&kc);
		let tx = build::transaction(
			KernelFeatures::Plain { fee: 20000.into() },
			&[
				build::coinbase_input(
					consensus::REWARD,
					ExtKeychainPath::new(1, 12, 0, 0, 0).to_identifier(),
				),
				build::output(
					consensus::REWARD - 20000,
					ExtKeychainPath::new(1, 30, 0, 0, 0).to_identifier(),
				),
			],
			&kc,
			&pb,
		)
		.unwrap();
		let fork = prepare_block_tx(&kc, &headers[3], &twin, 40, &[tx]);

		// Observe best-chain state before.
		let head_before = chain.head().unwrap();
		let roots_before = chain.txhashset().read().roots().unwrap();
		let commits: Vec<_> = blocks
			.iter()
			.map(|b| b.outputs()[0].commitment())
			.collect();
		let unspent_before: Vec<_> = commits
			.iter()
			.map(|c| chain.get_unspent(*c).unwrap())
			.collect();
		assert!(unspent_before.iter().all(|x| x.is_some()));
		let sums_before = chain.get_block_sums(&head_before.hash()).unwrap();

		// Rejected: immature coinbase.
		let res = chain.process_block(fork.clone(), chain::Options::SKIP_POW);
		match res {
			Err(chain::Error::ImmatureCoinbase) => {}
			other => panic!("expected ImmatureCoinbase, got {:?}", other),
		}

		// Best-chain state must be untouched.
		assert_eq!(chain.head().unwrap(), head_before);
		let roots_after = chain
			.txhashset()
			.read()
			.roots()
			.expect("roots readable after rejected block");
		assert_eq!(roots_after.output_roots.pmmr_root, roots_before.output_roots.pmmr_root);
		assert_eq!(roots_after.rproof_root, roots_before.rproof_root);
		assert_eq!(roots_after.kernel_root, roots_before.kernel_root);
		let unspent_after: Vec<_> = commits
			.iter()
			.map(|c| chain.get_unspent(*c).unwrap())
			.collect();
		assert_eq!(unspent_after, unspent_before);
		for (i, b) in blocks.iter().enumerate() {
			// the output itself (data file + rangeproof) can still be read
			let pos = unspent_before[i].as_ref().unwrap().1.pos;
			let out = chain
				.get_unspent_output_at(pos - 1)
				.expect("unspent output readable after rejected block");
			assert_eq!(out.commitment(), b.outputs()[0].commitment());
		}
		let sums_after = chain.get_block_sums(&head_before.hash()).unwrap();
		assert_eq!(sums_after.utxo_sum, sums_before.utxo_sum);
		assert_eq!(sums_after.kernel_sum, sums_before.kernel_sum);

		// and the chain continues exactly like the twin that never saw the rejected block
		let b5 = prepare_block(&kc, &headers[4], &twin, 20);
		twin.process_block(b5.clone(), chain::Options::SKIP_POW)
			.unwrap();
		chain
			.process_block(b5.clone(), chain::Options::SKIP_POW)
			.unwrap();
		assert_eq!(chain.head().unwrap(), twin.head().unwrap());
		assert_eq!(
			chain.txhashset().read().roots().unwrap().kernel_root,
			twin.txhashset().read().roots().unwrap().kernel_root
		);
	}
	clean_output_dir(dir);
	clean_output_dir(dir_twin);
}
