// dest: pool/tests/obs_c14_evict_orphans_stem.rs
// run:  cargo test -p grin_pool --offline --test obs_c14_evict_orphans_stem
// FAILS on unmodified HEAD.
pub mod common;

use self::core::core::{transaction, Weighting};
use self::core::global;
use self::keychain::{ExtKeychain, Keychain};
use self::pool::types::*;
use self::pool::TransactionPool;
use crate::common::*;
use grin_core as core;
use grin_keychain as keychain;
use grin_pool as pool;
use grin_util as util;
use std::sync::Arc;

#[test]
fn eviction_at_capacity_leaves_stem_tx_without_its_parent() {
	util::init_test_logger();
	global::set_local_chain_type(global::ChainTypes::AutomatedTesting);
	global::set_local_accept_fee_base(1);
	let keychain: ExtKeychain = Keychain::from_random_seed(false).unwrap();
	let db_root = "target/.obs_c14_evict_orphans_stem";
	clean_output_dir(db_root.into());
	let chain = Arc::new(init_chain(db_root, genesis_block(&keychain)));
	// Tiny pool so that we hit capacity quickly (is_acceptable: total_size() > max_pool_size).
	let mut pool = TransactionPool::new(
		PoolConfig {
			accept_fee_base: default_accept_fee_base(),
			reorg_cache_period: 30,
			max_pool_size: 2,
			max_stempool_size: 50,
			mineable_max_weight: 10_000,
		},
		Arc::new(ChainAdapter {
			chain: chain.clone(),
		}),
		Arc::new(NoopPoolAdapter {}),
	);
	add_some_blocks(&chain, 4 * 3, &keychain);
	let header_1 = chain.get_header_by_height(1).unwrap();
	let initial_tx = test_transaction_spending_coinbase(
		&keychain,
		&header_1,
		vec![200_000, 300_000, 400_000, 500_000],
	);
	add_block(&chain, &[initial_tx], &keychain);
	let header = chain.head_header().unwrap();

	// txpool: b (good fee), c (lowest fee rate -> eviction candidate).
	let b = test_transaction(&keychain, vec![200_000], vec![190_000]);
	let c = test_transaction(&keychain, vec![300_000], vec![299_900]);
	pool.add_to_pool(test_source(), b, false, &header).unwrap();
	pool.add_to_pool(test_source(), c.clone(), false, &header).unwrap();
	// stempool: s spends the output of c (0-conf spend of a txpool output).
	let s = test_transaction(&keychain, vec![299_900], vec![290_000]);
	pool.add_to_pool(test_source(), s, true, &header).unwrap();
	assert_eq!((pool.txpool.size(), pool.stempool.size()), (2, 1));

	// Two more public txs: the second one arrives over capacity and triggers an eviction.
	let d = test_transaction(&keychain, vec![400_000], vec![390_000]);
	let e = test_transaction(&keychain, vec![500_000], vec![490_000]);
	pool.add_to_pool(test_source(), d, false, &header).unwrap();
	pool.add_to_pool(test_source(), e, false, &header).unwrap();
	assert_eq!(pool.txpool.size(), 3);
	// c had no dependent *in the txpool* so it was the one evicted...
	assert!(!pool.txpool.contains_tx(&c));

	// ... on the unrepaired tree the stem tx spending its output is still in the stempool (stempool.size() == 1);
	// with the repair the stempool was reconciled and dropped it. Either way: what the two pools hold must be jointly valid.
	let mut all = pool.txpool.all_transactions();
	all.extend(pool.stempool.all_transactions());
	let agg = transaction::aggregate(&all).unwrap();
	agg.validate(Weighting::NoLimit).unwrap();
	let res = chain.validate_tx(&agg);
	clean_output_dir(db_root.into());
	assert!(
		res.is_ok(),
		"stempool + txpool not jointly valid against the chain: {:?}",
		res
	);
}
