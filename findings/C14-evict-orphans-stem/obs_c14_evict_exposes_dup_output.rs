// dest: pool/tests/obs_c14_evict_exposes_dup_output.rs
// run:  cargo test -p grin_pool --offline --test obs_c14_evict_exposes_dup_output
// FAILS on unmodified HEAD.
pub mod common;

use self::core::core::{transaction, Weighting};
use self::core::global;
use self::keychain::{ExtKeychain, Keychain};
use self::pool::types::*;
use self::pool::TransactionPool;
use crate::common::*;
use grin_core as core;
use grin_keychain as keychain;
use grin_pool as pool;
use grin_util as util;
use std::sync::Arc;

#[test]
fn eviction_of_a_spender_leaves_two_txs_creating_the_same_output() {
	util::init_test_logger();
	global::set_local_chain_type(global::ChainTypes::AutomatedTesting);
	global::set_local_accept_fee_base(1);
	let keychain: ExtKeychain = Keychain::from_random_seed(false).unwrap();
	let db_root = "target/.obs_c14_evict_exposes_dup_output";
	clean_output_dir(db_root.into());
	let chain = Arc::new(init_chain(db_root, genesis_block(&keychain)));
	let mut pool = TransactionPool::new(
		PoolConfig {
			accept_fee_base: default_accept_fee_base(),
			reorg_cache_period: 30,
			max_pool_size: 2,
			max_stempool_size: 50,
			mineable_max_weight: 10_000,
		},
		Arc::new(ChainAdapter {
			chain: chain.clone(),
		}),
		Arc::new(NoopPoolAdapter {}),
	);
	add_some_blocks(&chain, 4 * 3, &keychain);
	let header_1 = chain.get_header_by_height(1).unwrap();
	let initial_tx = test_transaction_spending_coinbase(
		&keychain,
		&header_1,
		vec![100_000, 200_000, 300_000],
	);
	add_block(&chain, &[initial_tx], &keychain);
	let header = chain.head_header().unwrap();

	// a creates X (= 90_000), b spends X, c creates X again (fine: a block holding a, b, c is valid).
	let a = test_transaction(&keychain, vec![100_000], vec![90_000]);
	let b = test_transaction(&keychain, vec![90_000], vec![85_000]);
	let c = test_transaction(&keychain, vec![200_000], vec![90_000]);
	pool.add_to_pool(test_source(), a, false, &header).unwrap();
	pool.add_to_pool(test_source(), b.clone(), false, &header).unwrap();
	pool.add_to_pool(test_source(), c, false, &header).unwrap();
	assert_eq!(pool.txpool.size(), 3);
	{
		let agg = transaction::aggregate(&pool.txpool.all_transactions()).unwrap();
		agg.validate(Weighting::NoLimit).unwrap();
		chain.validate_tx(&agg).unwrap();
	}

	// Over capacity now: the next tx is admitted and the lowest priority tx without dependents goes.
	let e = test_transaction(&keychain, vec![300_000], vec![200_001]);
	pool.add_to_pool(test_source(), e, false, &header).unwrap();
	assert_eq!(pool.txpool.size(), 3);
	println!("b still in txpool: {}", pool.txpool.contains_tx(&b));

	let res = transaction::aggregate(&pool.txpool.all_transactions())
		.and_then(|agg| agg.validate(Weighting::NoLimit).map(|_| agg));
	let mineable = pool.prepare_mineable_transactions();
	println!("prepare_mineable_transactions -> {:?}", mineable.as_ref().map(|x| x.len()));
	// Any further submission is refused too, as the whole-pool aggregate no longer builds.
	let f = test_transaction(&keychain, vec![200_001], vec![150_000]);
	let res_f = pool.add_to_pool(test_source(), f, false, &header);
	println!("next submission -> {:?}", res_f);
	clean_output_dir(db_root.into());
	assert!(
		res.is_ok(),
		"txpool txs are not jointly valid: {:?}",
		res.err()
	);
	assert!(mineable.is_ok());
	assert!(res_f.is_ok());
}
