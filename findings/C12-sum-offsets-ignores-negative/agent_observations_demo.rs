// dest: core/tests/obs_c12_r12.rs
// run:  cargo test -p grin_core --offline --test obs_c12_r12 -- --test-threads=1
//
// Observations on the UNCHANGED code (see observations.md). Each test asserts what the
// property C12 would require; the ones that fail on clean HEAD are the observations.

mod common;

use crate::common::{new_block, tx1i10_v2_compatible};
use grin_core::core::hash::Hashed;
use grin_core::core::transaction::{
	aggregate, deaggregate, KernelFeatures, Transaction, TxKernel, Weighting,
};
use grin_core::core::{Block, BlockHeader, CompactBlock};
use grin_core::global;
use grin_core::libtx::build::{self, input, output, Append};
use grin_core::libtx::{aggsig, ProofBuilder};
use keychain::{BlindingFactor, ExtKeychain, Identifier, Keychain};

type Elems<'a> = Vec<Box<Append<ExtKeychain, ProofBuilder<'a, ExtKeychain>>>>;

fn test_setup() {
	util::init_test_logger();
	global::set_local_chain_type(global::ChainTypes::AutomatedTesting);
}

fn kid(n: u32) -> Identifier {
	ExtKeychain::derive_key_id(1, n, 0, 0, 0)
}

fn tx_with_offset<'a, F>(
	keychain: &'a ExtKeychain,
	builder: &'a ProofBuilder<'a, ExtKeychain>,
	elems: F,
	minus_offset: &BlindingFactor,
) -> Transaction
where
	F: Fn() -> Elems<'a>,
{
	let secp = keychain.secp();
	let (_, blind_sum) =
		build::partial_transaction(Transaction::empty(), &elems(), keychain, builder).unwrap();
	let excess = blind_sum.add(minus_offset, secp).unwrap();
	let mut kernel = TxKernel::with_features(KernelFeatures::Plain { fee: 2.into() });
	let msg = kernel.msg_to_sign().unwrap();
	let skey = excess.secret_key(secp).unwrap();
	kernel.excess = secp.commit(0, skey).unwrap();
	let pubkey = &kernel.excess.to_pubkey(secp).unwrap();
	kernel.excess_sig = aggsig::sign_with_blinding(secp, &msg, &excess, Some(&pubkey)).unwrap();
	build::transaction_with_kernel(&elems(), kernel, excess, keychain, builder).unwrap()
}

// O1: two valid txs sharing one identical kernel (the "two halves" construction of
// core/tests/core.rs::build_two_half_kernels): aggregate() returns Ok, but the value is not a
// valid tx (duplicate kernel), and deaggregate() loses both copies of the kernel.
#[test]
fn o1_shared_kernel_halves() {
	test_setup();
	let keychain = ExtKeychain::from_random_seed(false).unwrap();
	let builder = ProofBuilder::new(&keychain);

	let mut kernel = TxKernel::with_features(KernelFeatures::Plain { fee: 2.into() });
	let msg = kernel.msg_to_sign().unwrap();
	let excess = BlindingFactor::rand(&keychain.secp());
	let skey = excess.secret_key(&keychain.secp()).unwrap();
	kernel.excess = keychain.secp().commit(0, skey).unwrap();
	let pubkey = &kernel.excess.to_pubkey(&keychain.secp()).unwrap();
	kernel.excess_sig =
		aggsig::sign_with_blinding(&keychain.secp(), &msg, &excess, Some(&pubkey)).unwrap();

	// independent halves (no cut-through between them)
	let tx1 = build::transaction_with_kernel(
		&[input(10, kid(1)), output(8, kid(2))],
		kernel.clone(),
		excess.clone(),
		&keychain,
		&builder,
	)
	.unwrap();
	let tx2 = build::transaction_with_kernel(
		&[input(9, kid(3)), output(7, kid(4))],
		kernel.clone(),
		excess.clone(),
		&keychain,
		&builder,
	)
	.unwrap();
	tx1.validate(Weighting::AsTransaction).unwrap();
	tx2.validate(Weighting::AsTransaction).unwrap();

	let agg = aggregate(&[tx1.clone(), tx2.clone()]).unwrap();
	println!("O1: agg kernels = {}", agg.kernels().len());
	let v = agg.validate(Weighting::AsTransaction);
	println!("O1: agg.validate() = {:?}", v);
	let rest = deaggregate(agg.clone(), &[tx1.clone()]).unwrap();
	println!(
		"O1: deaggregate(agg, [tx1]) kernels = {}, == tx2: {}",
		rest.kernels().len(),
		rest == tx2
	);
	assert_eq!(agg.kernels().len(), 2);
	assert_eq!(v, Ok(()), "aggregate of two valid txs is a valid tx");
	assert_eq!(rest, tx2);
}

// O2: a block built from a single tx that carries "v2" inputs (features and commit) keeps that
// representation (aggregate() short-circuits for one tx), hydrate_from() always produces commit
// only inputs: same header hash, same commitments, but `block.body != hydrated.body`, and for
// more than one input even a different input order.
#[test]
fn o2_single_v2_tx_block_roundtrip_representation() {
	test_setup();
	let keychain = ExtKeychain::from_random_seed(false).unwrap();
	let builder = ProofBuilder::new(&keychain);
	let tx = tx1i10_v2_compatible();
	let prev = BlockHeader::default();
	let b = new_block(&[tx.clone()], &keychain, &builder, &prev, &kid(1));
	let cb: CompactBlock = b.clone().into();
	let hb = Block::hydrate_from(cb, &[tx.clone()]).unwrap();
	println!(
		"O2: block inputs {}, hydrated inputs {}",
		b.inputs().version_str(),
		hb.inputs().version_str()
	);
	assert_eq!(hb.hash(), b.hash());
	assert_eq!(hb.outputs(), b.outputs());
	assert_eq!(hb.kernels(), b.kernels());
	// the same single tx in a group of two (with an empty tx) gives yet another value
	let agg2 = aggregate(&[tx.clone(), Transaction::empty()]).unwrap();
	println!(
		"O2: aggregate([tx]) == aggregate([tx, empty]): {}",
		aggregate(&[tx.clone()]).unwrap() == agg2
	);
	assert!(hb.body == b.body, "hydrated body == block body");
}

// O3: committed::sum_kernel_offsets() returns zero whenever the positive side is empty, also
// when the negative side is not. Block::validate() runs into this through block_kernel_offset()
// when header.total_kernel_offset is zero while the previous total is not: a block whose tx has
// offset == -(previous total offset) is valid, but validate() rejects it (KernelSumMismatch).
#[test]
fn o3_block_total_offset_zero() {
	test_setup();
	let keychain = ExtKeychain::from_random_seed(false).unwrap();
	let builder = ProofBuilder::new(&keychain);

	// some previous header with a non-zero accumulated offset k
	let k = BlindingFactor::rand(&keychain.secp());
	let mut prev = BlockHeader::default();
	prev.total_kernel_offset = k.clone();

	// control: an ordinary tx on top of it
	let tx = build::transaction(
		KernelFeatures::Plain { fee: 2.into() },
		&[input(10, kid(1)), output(8, kid(2))],
		&keychain,
		&builder,
	)
	.unwrap();
	let b = new_block(&[tx], &keychain, &builder, &prev, &kid(9));
	assert_eq!(b.validate(&k), Ok(()));

	// a tx with offset -k
	let tx = tx_with_offset(
		&keychain,
		&builder,
		|| vec![input(11, kid(3)), output(9, kid(4))],
		&k,
	);
	tx.validate(Weighting::AsTransaction).unwrap();
	let b = new_block(&[tx], &keychain, &builder, &prev, &kid(9));
	println!(
		"O3: header.total_kernel_offset is zero: {}",
		b.header.total_kernel_offset == BlindingFactor::zero()
	);
	let v = b.validate(&k);
	println!("O3: block.validate(prev_offset) = {:?}", v);
	assert_eq!(v, Ok(()));
}
