// dest: core/tests/finding_c12_sum_offsets_negative.rs
// run:  cargo test -p grin_core --offline --test finding_c12_sum_offsets_negative
// F25 (C12 / C14): committed::sum_kernel_offsets(positive, negative) answered ZERO whenever no positive operand contributed a key, also
// when the negative side did. Block::block_kernel_offset = sum_kernel_offsets([header total], [previous total]) therefore computed 0
// instead of -previous for a block whose header total offset is zero: Block::validate rejects a VALID block (KernelSumMismatch) --
// one transaction with offset -(previous total), alone in the pool, makes every block template built from the pool invalid.
// (reproducer written by the round-12 C12 seed agent on the unchanged tree; fails before the fix, passes after)
mod common;

use crate::common::{new_block, tx1i10_v2_compatible};
use grin_core::core::hash::Hashed;
use grin_core::core::transaction::{
	aggregate, deaggregate, KernelFeatures, Transaction, TxKernel, Weighting,
};
use grin_core::core::{Block, BlockHeader, CompactBlock};
use grin_core::global;
use grin_core::libtx::build::{self, input, output, Append};
use grin_core::libtx::{aggsig, ProofBuilder};
use keychain::{BlindingFactor, ExtKeychain, Identifier, Keychain};

type Elems<'a> = Vec<Box<Append<ExtKeychain, ProofBuilder<'a, ExtKeychain>>>>;

fn test_setup() {
	util::init_test_logger();
	global::set_local_chain_type(global::ChainTypes::AutomatedTesting);
}

fn kid(n: u32) -> Identifier {
	ExtKeychain::derive_key_id(1, n, 0, 0, 0)
}

fn tx_with_offset<'a, F>(
	keychain: &'a ExtKeychain,
	builder: &'a ProofBuilder<'a, ExtKeychain>,
	elems: F,
	minus_offset: &BlindingFactor,
) -> Transaction
where
	F: Fn() -> Elems<'a>,
{
	let secp = keychain.secp();
	let (_, blind_sum) =
		build::partial_transaction(Transaction::empty(), &elems(), keychain, builder).unwrap();
	let excess = blind_sum.add(minus_offset, secp).unwrap();
	let mut kernel = TxKernel::with_features(KernelFeatures::Plain { fee: 2.into() });
	let msg = kernel.msg_to_sign().unwrap();
	let skey = excess.secret_key(secp).unwrap();
	kernel.excess = secp.commit(0, skey).unwrap();
	let pubkey = &kernel.excess.to_pubkey(secp).unwrap();
	kernel.excess_sig = aggsig::sign_with_blinding(secp, &msg, &excess, Some(&pubkey)).unwrap();
	build::transaction_with_kernel(&elems(), kernel, excess, keychain, builder).unwrap()
}

// O3: committed::sum_kernel_offsets() returns zero whenever the positive side is empty, also
// when the negative side is not. Block::validate() runs into this through block_kernel_offset()
// when header.total_kernel_offset is zero while the previous total is not: a block whose tx has
// offset == -(previous total offset) is valid, but validate() rejects it (KernelSumMismatch).
#[test]
fn o3_block_total_offset_zero() {
	test_setup();
	let keychain = ExtKeychain::from_random_seed(false).unwrap();
	let builder = ProofBuilder::new(&keychain);

	// some previous header with a non-zero accumulated offset k
	let k = BlindingFactor::rand(&keychain.secp());
	let mut prev = BlockHeader::default();
	prev.total_kernel_offset = k.clone();

	// control: an ordinary tx on top of it
	let tx = build::transaction(
		KernelFeatures::Plain { fee: 2.into() },
		&[input(10, kid(1)), output(8, kid(2))],
		&keychain,
		&builder,
	)
	.unwrap();
	let b = new_block(&[tx], &keychain, &builder, &prev, &kid(9));
	assert_eq!(b.validate(&k), Ok(()));

	// a tx with offset -k
	let tx = tx_with_offset(
		&keychain,
		&builder,
		|| vec![input(11, kid(3)), output(9, kid(4))],
		&k,
	);
	tx.validate(Weighting::AsTransaction).unwrap();
	let b = new_block(&[tx], &keychain, &builder, &prev, &kid(9));
	println!(
		"O3: header.total_kernel_offset is zero: {}",
		b.header.total_kernel_offset == BlindingFactor::zero()
	);
	let v = b.validate(&k);
	println!("O3: block.validate(prev_offset) = {:?}", v);
	assert_eq!(v, Ok(()));
}
