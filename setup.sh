#!/bin/sh
# Run once after a fresh restore, offline.  Nothing is downloaded or compiled here: the
# framework is Python (stdlib only) and the patched third-party crate is committed under vendor/.
set -e
cd "$(dirname "$0")"
command -v verus >/dev/null || { echo "verus missing"; exit 1; }
command -v cargo-kani >/dev/null || { echo "cargo-kani missing"; exit 1; }
command -v rsync >/dev/null || { echo "rsync missing"; exit 1; }
test -f vendor/backtrace-0.3.76/src/types.rs
mkdir -p evidence replay logs
python3 -c "import sys; sys.path.insert(0,'lib'); import common, kani_engine, verus_engine, rsrc; print('framework ok')"
